// Package deps pins the third-party modules the harness programs use, so that go.mod is complete and
// `-mod=mod` never needs to edit it at check time.
package deps

import (
	_ "github.com/Jigsaw-Code/outline-sdk/transport"
	_ "github.com/Jigsaw-Code/outline-sdk/transport/shadowsocks"
	_ "github.com/Jigsaw-Code/outline-ss-server/ipinfo"
	_ "github.com/Jigsaw-Code/outline-ss-server/net"
	_ "github.com/Jigsaw-Code/outline-ss-server/prometheus"
	_ "github.com/Jigsaw-Code/outline-ss-server/service"
	_ "github.com/prometheus/client_golang/prometheus"
	_ "github.com/prometheus/client_golang/prometheus/promhttp"
	_ "github.com/prometheus/client_golang/prometheus/testutil"
	_ "github.com/prometheus/client_model/go"
	_ "github.com/prometheus/common/expfmt"
	_ "github.com/shadowsocks/go-shadowsocks2/socks"
	_ "golang.org/x/crypto/hkdf"
	_ "gopkg.in/yaml.v3"
)
