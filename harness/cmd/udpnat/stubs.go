package main

func c18Main(cas string, seed int64)                                 {}
func concMain(out, sum string, seed int64, nclients, rounds int)    {}
func dns17Main(out, sum string, seed int64)                         {}
