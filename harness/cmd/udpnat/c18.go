package main

import (
	"context"
	"encoding/json"
	"fmt"
	"log/slog"
	"math/rand"
	"net"
	"os"
	"strings"
	"sync"
	"time"

	"github.com/Jigsaw-Code/outline-sdk/transport/shadowsocks"
	"verifharness/hx"
)

// C18 (UDP part): one scenario family per process.  The caller (lib/checks/c18_udp.py) checks the exit status and
// stderr: the association goroutine (timedCopy) has no recover, so a panic there kills this process.  Panics that the
// Handle loop recovers are logged through slog ("Panic in UDP loop"); the handler installed here counts them.

type panicCatcher struct {
	mu   sync.Mutex
	msgs []string
}

func (p *panicCatcher) Enabled(context.Context, slog.Level) bool { return true }
func (p *panicCatcher) Handle(_ context.Context, r slog.Record) error {
	if strings.Contains(r.Message, "Panic in") {
		p.mu.Lock()
		p.msgs = append(p.msgs, r.Message)
		p.mu.Unlock()
	}
	return nil
}
func (p *panicCatcher) WithAttrs([]slog.Attr) slog.Handler { return p }
func (p *panicCatcher) WithGroup(string) slog.Handler      { return p }

type c18Result struct {
	Case         string         `json:"case"`
	Steps        int            `json:"steps"`
	Classes      map[string]int `json:"classes"`
	PanicsLogged int            `json:"panics_logged"`
	PanicMsgs    []string       `json:"panic_msgs,omitempty"`
	Alive        bool           `json:"alive"` // a fresh client is still served afterwards
	OthersOK     bool           `json:"others_ok"`
	End          endInfo        `json:"end"`
	Zoned        map[string]any `json:"zoned,omitempty"`
	Skipped      string         `json:"skipped,omitempty"`
	Statuses     map[string]int `json:"statuses"`
}

// sendPlain: client c sends `plaintext` encrypted under key k and waits until the proxy has handled it
func (r *run) sendPlain(c int, key *shadowsocks.EncryptionKey, plaintext []byte) {
	buf := make([]byte, key.SaltSize()+len(plaintext)+key.TagSize())
	pkt, err := shadowsocks.Pack(buf, plaintext, key)
	if err != nil {
		hx.Fatal("pack: %v", err)
	}
	r.sendRaw(c, pkt)
}

func (r *run) sendRaw(c int, pkt []byte) {
	cs := r.clients[c]
	if _, err := cs.c.WriteToUDP(pkt, r.listenerAddrFor(cs)); err != nil {
		hx.Fatal("client send (%d bytes): %v", len(pkt), err)
	}
	r.handled++
	if !waitUntil(30*time.Second, func() bool { return r.cc.reads.Load() >= r.handled+1 }) {
		hx.Fatal("proxy did not finish handling a datagram within 30 s")
	}
}

func (r *run) drain() (targets map[int][]dgram, clients map[int][]dgram) {
	targets, clients = map[int][]dgram{}, map[int][]dgram{}
	for t, s := range r.w.socks {
		if d := s.poll(); len(d) > 0 {
			targets[t] = d
		}
	}
	for c, s := range r.clients {
		if d := s.poll(); len(d) > 0 {
			clients[c] = d
		}
	}
	return
}

// probe: a fresh valid datagram from client c under key k reaches target A intact
func (r *run) probe(c, k int) bool {
	r.drain()
	payload := make([]byte, 33)
	r.rng.Read(payload)
	a := r.w.socks[tokA]
	r.sendPlain(c, r.kr.byTok[k].key, append(socksAddr(a.addr), payload...))
	tg, _ := r.drain()
	for _, d := range tg[tokA] {
		if sha(d.data) == sha(payload) {
			return true
		}
	}
	return false
}

func (r *run) natPortOf(c int) int {
	// a valid datagram to A reveals the source port of client c's association
	r.drain()
	a := r.w.socks[tokA]
	r.sendPlain(c, r.kr.byTok[1].key, append(socksAddr(a.addr), 'x'))
	tg, _ := r.drain()
	for _, d := range tg[tokA] {
		return d.from.Port
	}
	return 0
}

func c18Main(cas string, seed int64) {
	pc := &panicCatcher{}
	slog.SetDefault(slog.New(pc))
	rng := rand.New(rand.NewSource(seed))
	w := newWorld(rng, true)
	tr := hx.NewTrace(os.DevNull)
	baseG, _ := repoGoroutines()
	baseFd := fdCount()
	r := newRun(w, tr, rng, false)
	res := c18Result{Case: cas, Classes: map[string]int{}, Statuses: map[string]int{}}
	cls := func(name string) { res.Classes[name]++; res.Steps++ }
	a := w.socks[tokA]
	switch cas {
	case "plaintexts":
		// every class once on a NEW client address (1..4 alternate, associations may exist or not) and on a KNOWN one
		var pts []struct {
			name string
			pt   []byte
		}
		add := func(n string, b []byte) {
			pts = append(pts, struct {
				name string
				pt   []byte
			}{n, b})
		}
		pay := []byte("payload")
		for _, at := range []byte{0, 2, 5, 255} {
			add(fmt.Sprintf("atyp%d", at), append([]byte{at, 1, 2, 3, 4, 0, 80}, pay...))
		}
		add("empty", []byte{})
		v4 := socksAddr(a.addr)
		for i := 1; i < len(v4); i++ {
			add(fmt.Sprintf("v4-trunc%d", i), v4[:i])
		}
		add("v4-nopayload", v4)
		v6 := socksAddr(w.socks[tokC].addr)
		for _, i := range []int{1, 2, 16, 17, 18} {
			add(fmt.Sprintf("v6-trunc%d", i), v6[:i])
		}
		add("v6-nopayload", v6)
		port := []byte{byte(a.addr.Port >> 8), byte(a.addr.Port)}
		add("domain-nolen", []byte{3})
		add("domain-len0", append([]byte{3, 0}, append(port, pay...)...))
		add("domain-len0-noport", []byte{3, 0})
		add("domain-len1", append([]byte{3, 1, 'a'}, append(port, pay...)...))
		add("domain-len1-trunc", []byte{3, 1})
		add("domain-len1-port1", []byte{3, 1, 'a', 0})
		d255 := append([]byte{3, 255}, []byte(strings.Repeat("a", 255))...)
		add("domain-len255", append(append([]byte{}, d255...), append(port, pay...)...))
		add("domain-len255-trunc", d255[:200])
		add("domain-len255-noport", d255)
		add("domain-localhost", append(append([]byte{3, 9}, []byte("localhost")...), append(port, pay...)...))
		add("domain-ipliteral", append(append([]byte{3, 9}, []byte("127.0.0.1")...), append(port, pay...)...))
		add("port0", append([]byte{1, 127, 0, 0, 1, 0, 0}, pay...))
		add("unspecified", append([]byte{1, 0, 0, 0, 0, 0, 80}, pay...))
		add("broadcast", append([]byte{1, 255, 255, 255, 255, 0, 80}, pay...))
		add("multicast6", append(append([]byte{4}, net.ParseIP("ff02::1").To16()...), append([]byte{0, 80}, pay...)...))
		add("v4mapped-private", append(append([]byte{4}, net.ParseIP("::ffff:10.0.0.1").To16()...), append([]byte{0, 80}, pay...)...))
		for ki := 1; ki <= 4; ki++ { // the four ciphers
			key := r.kr.byTok[ki].key
			known := 1 + ki%2 // clients 1/2 keep a live association under THIS key
			r.sendPlain(known, key, append(socksAddr(a.addr), 'k'))
			for i, p := range pts {
				fresh := 3 + i%2
				r.sendPlain(fresh, key, p.pt) // no association (or one under another key): new-association path mostly
				cls("new:" + p.name)
				r.sendPlain(known, key, p.pt) // known-association path
				cls("known:" + p.name)
			}
			// let the association of `known` expire so that the next key opens a new one
			time.Sleep(natT + 200*time.Millisecond)
		}
	case "sizes":
		key := r.kr.byTok[2].key
		ss := key.SaltSize()
		sizes := []int{0, 1, ss - 1, ss, ss + 1, ss + 15, ss + 16, ss + 17, ss + 16 + 7, 100, 1472, 1473, 9000, 32768, 65000, 65506, 65507}
		for _, n := range sizes {
			g := make([]byte, n)
			rng.Read(g)
			r.sendRaw(3, g)
			cls("garbage")
			// valid datagram of exactly that wire size when possible
			if n >= ss+16+7 {
				r.sendPlain(1, key, append(socksAddr(a.addr), make([]byte, n-ss-16-7)...))
				cls("valid")
			}
		}
	case "replies":
		for _, ki := range []int{1, 2, 3, 4} {
			key := r.kr.byTok[ki].key
			c := 1 + ki%4
			// open an association for client c under this key
			r.drain()
			r.sendPlain(c, key, append(socksAddr(a.addr), 'x'))
			tg, _ := r.drain()
			if len(tg[tokA]) == 0 {
				hx.Fatal("replies: association not opened")
			}
			np := tg[tokA][0].from.Port
			ss := key.SaltSize()
			for _, src := range []int{tokA, tokC, tokA2, tokS, tokE} {
				s := w.socks[src]
				if s == nil {
					continue
				}
				for _, n := range []int{0, 1, 1000, 65507 - ss - hdrLen(s.fam) - 16, 65507 - ss - hdrLen(s.fam) - 16 + 1, 65536 - ss - 19 - 16, 65536 - ss - 19 - 16 + 1, 65507} {
					if n > 65507 {
						continue
					}
					before := r.rec.count(func(e mEvent) bool { return e.M == "PktT" })
					s.c.WriteToUDP(make([]byte, n), r.natAddrFor(s, np))
					if !waitUntil(5*time.Second, func() bool { return r.rec.count(func(e mEvent) bool { return e.M == "PktT" }) > before }) {
						hx.Fatal("replies: no PktT for a %d-byte datagram from %s", n, s.name)
					}
					cls(fmt.Sprintf("%s:%s", s.fam, map[bool]string{true: "fits", false: "toobig"}[ss+hdrLen(s.fam)+n+16 <= 65507]))
					r.drain()
					// keep the association alive
					r.sendPlain(c, key, append(socksAddr(a.addr), 'x'))
				}
			}
		}
	case "zoned":
		z := w.socks[tokZ]
		if z == nil {
			res.Skipped = "no zoned link-local address in this sandbox"
			break
		}
		np := r.natPortOf(1)
		if np == 0 {
			hx.Fatal("zoned: association not opened")
		}
		payload := []byte("reply from a zoned link-local source")
		before := r.rec.count(func(e mEvent) bool { return e.M == "PktT" })
		dst := &net.UDPAddr{IP: z.addr.IP, Port: np, Zone: z.addr.Zone}
		fmt.Fprintf(os.Stderr, "zoned: %s -> %s\n", z.addr, dst)
		if _, err := z.c.WriteToUDP(payload, dst); err != nil {
			hx.Fatal("zoned send: %v", err)
		}
		got := waitUntil(3*time.Second, func() bool { return r.rec.count(func(e mEvent) bool { return e.M == "PktT" }) > before })
		cls("zoned")
		_, cl := r.drain()
		zi := map[string]any{"from": z.addr.String(), "to": dst.String(), "pktT": got, "delivered": false, "hdr_ok": false, "payload_ok": false}
		for _, d := range cl[1] {
			_, pt := r.kr.whichKey(d.data)
			want := socksAddr(z.addr)
			zi["delivered"] = true
			if len(pt) >= len(want) && string(pt[:len(want)]) == string(want) {
				zi["hdr_ok"] = true
				zi["payload_ok"] = string(pt[len(want):]) == string(payload)
			} else {
				zi["rawhdr"] = fmt.Sprintf("%x", pt[:min(len(pt), 30)])
			}
		}
		res.Zoned = zi
	default:
		hx.Fatal("unknown c18 case %q", cas)
	}
	// the failures above must not have affected anybody else: a client that was not involved is served
	// (let the associations of the scenario expire first: a known client address only accepts its own key)
	if cas != "zoned" {
		time.Sleep(natT + 200*time.Millisecond)
		waitUntil(5*time.Second, func() bool {
			return r.rec.count(func(e mEvent) bool { return e.M == "NatAdd" }) == r.rec.count(func(e mEvent) bool { return e.M == "NatRemove" })
		})
	}
	res.OthersOK = r.probe(4, 5)
	res.Alive = r.probe(3, 6) && r.probe(2, 1)
	r.rec.mu.Lock()
	for _, e := range r.rec.ev {
		if e.M == "PktC" || e.M == "PktT" {
			res.Statuses[e.M+":"+e.St]++
		}
	}
	r.rec.mu.Unlock()
	res.End = r.doShutdown(baseG, baseFd)
	pc.mu.Lock()
	res.PanicsLogged, res.PanicMsgs = len(pc.msgs), pc.msgs
	pc.mu.Unlock()
	b, _ := json.Marshal(res)
	fmt.Println(string(b))
}
