package main

import (
	"flag"
	"fmt"
	"math/rand"
	"os"

	"verifharness/hx"
)

func main() {
	if len(os.Args) < 2 {
		hx.Fatal("usage: udpnat replay|c18|conc|window|twol|dns17 ...")
	}
	mode := os.Args[1]
	startMemoryWatchdog()
	fs := flag.NewFlagSet(mode, flag.ExitOnError)
	in := fs.String("in", "", "behaviours json")
	out := fs.String("out", "trace.ndjson", "trace output")
	sum := fs.String("summary", "", "per-behaviour summary json output")
	seed := fs.Int64("seed", 1, "seed")
	from := fs.Int("from", 0, "first behaviour (inclusive)")
	to := fs.Int("to", -1, "last behaviour (exclusive)")
	prom := fs.Bool("prom", false, "second pass: real Prometheus collectors behind the recorder")
	validator := fs.String("validator", "loopback", "loopback: loopback targets allowed in addition to RequirePublicIP; default: the handler's own RequirePublicIP")
	via := fs.String("listener", "alternate", "raw: net.ListenUDP; manager: service.NewListenerManager().ListenPacket; alternate: by behaviour index")
	cas := fs.String("case", "", "c18 scenario family")
	nclients := fs.Int("clients", 24, "conc: concurrent clients")
	rounds := fs.Int("rounds", 3, "conc: rounds")
	norec := fs.Bool("norec", false, "twol: no metrics recorder at all (race-detector runs: no synchronisation added by the harness)")
	fs.Parse(os.Args[2:])
	switch mode {
	case "replay":
		replayMain(*in, *out, *sum, *seed, *from, *to, runOpts{prom: *prom, validator: *validator}, *via)
	case "c18":
		c18Main(*cas, *seed)
	case "conc":
		concMain(*out, *sum, *seed, *nclients, *rounds)
	case "window":
		windowMain(*out, *sum, *seed)
	case "twol":
		twoListenersMain(*out, *sum, *seed, *norec, *nclients)
	case "dns17":
		dns17Main(*out, *sum, *seed)
	default:
		hx.Fatal("unknown mode %q", mode)
	}
}

func replayMain(in, out, sum string, seed int64, from, to int, o runOpts, via string) {
	var behs [][]step
	hx.ReadJSON(in, &behs)
	if to < 0 || to > len(behs) {
		to = len(behs)
	}
	rng := rand.New(rand.NewSource(seed))
	w := newWorld(rng, false)
	defer w.close()
	tr := hx.NewTrace(out)
	defer tr.Close()
	var ends []endInfo
	for bi := from; bi < to; bi++ {
		brng := rand.New(rand.NewSource(seed*100003 + int64(bi)))
		baseG, _ := repoGoroutines()
		baseFd := fdCount()
		tr.Emit(map[string]any{"ev": "Reset", "beh": bi})
		o.viaManager = via == "manager" || (via == "alternate" && bi%2 == 0)
		o.debugLog = bi%3 != 0 // two of three behaviours run with debug logging enabled
		o.v6 = bi%4 == 1       // one of four with a dual-stack listener and an IPv6 client
		r := newRunOpts(w, tr, brng, o)
		closed := false
		for _, st := range behs[bi] {
			switch st.A {
			case "CDgram":
				r.doCDgram(st)
			case "TReply":
				r.doTReply(st)
			case "Tick":
				r.doTick(st)
			case "Shutdown":
				closed = true
			default:
				hx.Fatal("unknown step %q", st.A)
			}
			if closed {
				break
			}
		}
		ei := r.doShutdown(baseG, baseFd)
		ei.ViaManager, ei.Validator = o.viaManager, o.validator
		ei.DebugLog, ei.V6 = o.debugLog, o.v6
		ends = append(ends, ei)
	}
	if sum != "" {
		hx.WriteJSON(sum, ends)
	}
	fmt.Printf("behaviours=%d events=%d\n", to-from, tr.N)
}
