package main

import (
	"encoding/json"
	"fmt"
	"net"
	"strings"
	"time"

	"github.com/Jigsaw-Code/outline-sdk/transport/shadowsocks"
	dto "github.com/prometheus/client_model/go"
	"verifharness/hx"
)

func (r *run) clock() {
	r.tr.Emit(map[string]any{"ev": "Clock", "t": r.msCeil(time.Now())})
}

// believed live association of a client; if it is about to expire, wait until it has (keeps the driver out of the
// window in which a datagram races with the teardown)
func (r *run) liveAssoc(c int) *assocInfo {
	r.emitM(r.rec.take(&r.mcur), 0, 0) // bring the belief up to date: every removal reported so far is known
	for i := 0; i < 2; i++ {
		a, ok := r.liveOf[c]
		if !ok {
			return nil
		}
		ai := r.assocs[a]
		left := time.Until(ai.hiDl)
		if !ai.hiDl.IsZero() && left < 130*time.Millisecond {
			// too close to (or past) the deadline: let it expire
			waitUntil(left+3*time.Second, func() bool {
				r.emitM(r.rec.take(&r.mcur), 0, 0)
				return ai.removed
			})
			if !ai.removed {
				r.notes = append(r.notes, fmt.Sprintf("association %d not removed 3 s after its deadline", a))
				return ai
			}
			continue
		}
		return ai
	}
	return nil
}

func (r *run) packFor(k int, plaintext []byte) ([]byte, string) {
	ki := r.kr.byTok[k]
	form := "good"
	if k == 0 {
		ki = r.kr.unk
	}
	buf := make([]byte, ki.key.SaltSize()+len(plaintext)+ki.key.TagSize())
	pkt, err := shadowsocks.Pack(buf, plaintext, ki.key)
	if err != nil {
		hx.Fatal("pack: %v", err)
	}
	if k != 0 {
		return pkt, form
	}
	switch r.rng.Intn(6) {
	case 0, 1:
		return pkt, "unknown-key"
	case 2: // truncated: shorter than the salt, or the tag cut
		ss := ki.key.SaltSize()
		cuts := []int{0, 1, ss - 1, ss, ss + 1, ss + 15, len(pkt) - 1}
		n := cuts[r.rng.Intn(len(cuts))]
		if n > len(pkt) {
			n = len(pkt) - 1
		}
		// a datagram under a CONFIGURED key, truncated
		good := r.kr.order[r.rng.Intn(len(r.kr.order))]
		b2 := make([]byte, good.key.SaltSize()+len(plaintext)+good.key.TagSize())
		p2, _ := shadowsocks.Pack(b2, plaintext, good.key)
		if n > len(p2)-1 {
			n = len(p2) - 1
		}
		return p2[:n], fmt.Sprintf("truncated-%d", n)
	case 3: // one bit flipped in a datagram under a configured key
		good := r.kr.order[r.rng.Intn(len(r.kr.order))]
		b2 := make([]byte, good.key.SaltSize()+len(plaintext)+good.key.TagSize())
		p2, _ := shadowsocks.Pack(b2, plaintext, good.key)
		p2[r.rng.Intn(len(p2))] ^= 1 << uint(r.rng.Intn(8))
		return p2, "bitflip"
	default:
		sizes := []int{1, 15, 16, 17, 31, 32, 33, 48, 49, 100, 1500, 65507}
		g := make([]byte, sizes[r.rng.Intn(len(sizes))])
		r.rng.Read(g)
		return g, fmt.Sprintf("garbage-%d", len(g))
	}
}

func (r *run) doCDgram(st step) {
	c := r.clients[st.C]
	dst := r.w.socks[st.Dst]
	if ua, ok := r.w.unsend[st.Dst]; ok {
		dst = &sock{tok: st.Dst, name: "unsendable", addr: ua, fam: "v4"}
	}
	var dstHdr []byte
	if nd, ok := r.w.names[st.Dst]; ok {
		dst = r.w.socks[nd.sock]
		if dst != nil {
			dstHdr = append(append([]byte{3, byte(len(nd.host))}, nd.host...), byte(dst.addr.Port>>8), byte(dst.addr.Port))
		}
	} else if dst != nil {
		dstHdr = socksAddr(dst.addr)
	}
	if dst == nil {
		return // destination not available in this sandbox
	}
	ai := r.liveAssoc(st.C)
	la := 0
	if ai != nil {
		la = ai.a
	}
	if r.forceLA != 0 {
		la = r.forceLA // the association whose teardown is in progress (still in the table)
	}
	r.nDg++
	did := r.nDg
	saltSize := 32
	if st.K != 0 {
		saltSize = r.kr.byTok[st.K].key.SaltSize()
	}
	sz := 0
	switch st.Cls {
	case "1":
		sz = 1
	case "1000":
		sz = 1000
	case "max":
		sz = 65507 - saltSize - len(dstHdr) - 16
	}
	payload := make([]byte, sz)
	r.rng.Read(payload)
	r.pending[did] = payload
	var pt []byte
	cls := "ok"
	if st.Hdr {
		pt = append(append([]byte{}, dstHdr...), payload...)
	} else {
		pt, cls = badHeader(r.rng, payload)
	}
	pkt, form := r.packFor(st.K, pt)
	r.stepTO = natT
	if dst.addr.Port == 53 {
		r.stepTO = dnsT
	}
	t0 := time.Now()
	r.tr.Emit(map[string]any{"ev": "CSend", "id": did, "c": st.C, "k": st.K, "hdr": st.Hdr, "dst": st.Dst, "sz": sz, "wire": len(pkt),
		"la": la, "t": r.ms(t0), "form": form, "pt": cls})
	if _, err := c.c.WriteToUDP(pkt, r.listenerAddrFor(c)); err != nil {
		hx.Fatal("client send: %v", err)
	}
	r.handled++
	if !waitUntil(10*time.Second, func() bool { return r.cc.reads.Load() >= r.handled+1 }) {
		select {
		case <-r.done:
			r.notes = append(r.notes, "Handle returned while the listener was open")
		default:
			hx.Fatal("proxy did not finish handling datagram %d within 10 s", did)
		}
	}
	evs := r.rec.take(&r.mcur)
	stepAssoc := la
	for _, e := range evs {
		if e.M == "NatAdd" || e.M == "PktC" {
			stepAssoc = e.A
		}
	}
	r.emitM(evs, did, 0)
	r.curDst = st.Dst
	r.collect(did, 0, stepAssoc, t0)
	r.curDst = 0
	r.clock()
}

func (r *run) natAddrFor(s *sock, port int) *net.UDPAddr {
	switch {
	case s.fam == "v6":
		return &net.UDPAddr{IP: net.IPv6loopback, Port: port}
	case s.fam == "zoned":
		return &net.UDPAddr{IP: s.addr.IP, Port: port, Zone: s.addr.Zone}
	case s.addr.IP.IsLoopback():
		return &net.UDPAddr{IP: net.IPv4(127, 0, 0, 1), Port: port}
	default:
		return &net.UDPAddr{IP: s.addr.IP, Port: port}
	}
}

func (r *run) doTReply(st step) {
	s := r.w.socks[st.Src]
	if s == nil {
		return
	}
	ai := r.liveAssoc(st.To)
	if ai == nil || ai.natPort == 0 {
		return
	}
	key := r.kr.byTok[ai.keyTok]
	if key == nil {
		return
	}
	ss := key.key.SaltSize()
	sz := 0
	switch st.Cls {
	case "1":
		sz = 1
	case "1000":
		sz = 1000
	case "fit":
		sz = 65507 - ss - hdrLen(s.fam) - 16
	case "fit1":
		sz = 65507 - ss - hdrLen(s.fam) - 16 + 1
	case "big":
		sz = 65507
	}
	fits := ss+hdrLen(s.fam)+sz+16 <= 65507
	rdLen := sz // what the proxy can read of it: its buffer is 64 KiB minus the room for salt and address
	if lim := 65536 - ss - 19; rdLen > lim {
		rdLen = lim
	}
	payload := make([]byte, sz)
	r.rng.Read(payload)
	r.nRp++
	sid := r.nRp
	r.replies[sid] = replyInfo{a: ai.a, from: s, payload: payload}
	nPktT := r.rec.count(func(e mEvent) bool { return e.M == "PktT" && e.A == ai.a })
	t0 := time.Now()
	r.tr.Emit(map[string]any{"ev": "SSend", "id": sid, "src": st.Src, "a": ai.a, "sz": sz, "rd": rdLen, "nw": ai.nw, "fits": fits, "t": r.ms(t0), "cls": st.Cls})
	if _, err := s.c.WriteToUDP(payload, r.natAddrFor(s, ai.natPort)); err != nil {
		r.notes = append(r.notes, fmt.Sprintf("sender %s: %v", s.name, err))
	}
	ok := waitUntil(3*time.Second, func() bool {
		return r.rec.count(func(e mEvent) bool { return (e.M == "PktT" || e.M == "NatRemove") && e.A == ai.a }) > nPktT
	})
	if !ok {
		r.notes = append(r.notes, fmt.Sprintf("no PktT within 3 s for reply %d", sid))
	}
	if s.addr.Port == 53 {
		// a fast close may follow: give the teardown a moment so the next step does not race with it
		waitUntil(60*time.Millisecond, func() bool {
			return r.rec.count(func(e mEvent) bool { return e.M == "NatRemove" && e.A == ai.a }) > 0
		})
	}
	r.emitM(r.rec.take(&r.mcur), 0, sid)
	r.collect(0, sid, 0, t0)
	r.clock()
}

func (r *run) overdue() []*assocInfo {
	var out []*assocInfo
	for _, ai := range r.assocs {
		if !ai.removed && !ai.hiDl.IsZero() && time.Since(ai.hiDl) > boundMs*time.Millisecond {
			out = append(out, ai)
		}
	}
	return out
}

func (r *run) doTick(st step) {
	time.Sleep(time.Duration(st.D)*natT + (boundMs+100)*time.Millisecond)
	waitUntil(5*time.Second, func() bool {
		r.emitM(r.rec.take(&r.mcur), 0, 0)
		return len(r.overdue()) == 0
	})
	r.emitM(r.rec.take(&r.mcur), 0, 0)
	r.collect(0, 0, 0, time.Now())
	r.clock()
}

type endInfo struct {
	Returned       bool     `json:"returned"`
	ReturnMs       int      `json:"return_ms"`
	ReclaimMs      int      `json:"reclaim_ms"`
	Unreclaimed    int      `json:"unreclaimed"`
	LeakGoroutines int      `json:"leak_goroutines"`
	LeakFds        int      `json:"leak_fds"`
	Sample         string   `json:"sample,omitempty"`
	Notes          []string `json:"notes,omitempty"`
	SaltDup        int      `json:"salt_dup"`
	Flood          int64    `json:"flood"`
	Layout         string   `json:"layout"`
	Prom           *promCmp `json:"prom,omitempty"`
	ViaManager     bool     `json:"via_manager"`
	DebugLog       bool     `json:"debug_log"`
	V6             bool     `json:"v6_client"`
	LiveAtClose    int      `json:"live_at_close"` // associations not yet removed when the listener was closed
	Validator      string   `json:"validator"`
}

func (r *run) doShutdown(baseG, baseFd int) endInfo {
	var ei endInfo
	ei.Layout = r.kr.layout
	r.emitM(r.rec.take(&r.mcur), 0, 0)
	for _, ai := range r.assocs {
		if !ai.removed {
			ei.LiveAtClose++
		}
	}
	t0 := time.Now()
	r.closeL()
	select {
	case <-r.done:
		ei.Returned = true
	case <-time.After(5 * time.Second):
	}
	ei.ReturnMs = int(time.Since(t0) / time.Millisecond)
	if ei.Returned {
		r.tr.Emit(map[string]any{"ev": "Closing"})
	}
	live := func() int {
		n := 0
		for _, ai := range r.assocs {
			if !ai.removed {
				n++
			}
		}
		return n
	}
	waitUntil(5*time.Second, func() bool {
		r.emitM(r.rec.take(&r.mcur), 0, 0)
		return live() == 0
	})
	ei.ReclaimMs = int(time.Since(t0) / time.Millisecond)
	ei.Unreclaimed = live()
	r.collect(0, 0, 0, time.Now())
	r.clock()
	for _, c := range r.clients {
		c.c.Close()
	}
	// goroutines of the repository's packages and descriptors must be back at the baseline
	var sample string
	waitUntil(3*time.Second, func() bool {
		var n int
		n, sample = repoGoroutines()
		ei.LeakGoroutines = n - baseG
		ei.LeakFds = fdCount() - baseFd
		return ei.LeakGoroutines <= 0 && ei.LeakFds <= 0
	})
	if ei.LeakGoroutines > 0 {
		ei.Sample = sample
	}
	ei.Notes = r.notes
	ei.SaltDup = r.saltDup
	r.rec.mu.Lock()
	ei.Flood = r.rec.flood + r.floodEmit
	r.rec.mu.Unlock()
	if r.promReg != nil {
		ei.Prom = r.promCompare()
	}
	return ei
}

// ---- second pass: the real Prometheus collectors in a private registry -------------------------------------

type promCmp struct {
	OK        bool               `json:"ok"`
	Added     [2]float64         `json:"added"`   // gathered, recorded
	Removed   [2]float64         `json:"removed"` // gathered, recorded
	Bytes     map[string]float64 `json:"bytes"`   // dir|key -> gathered
	BytesWant map[string]float64 `json:"bytes_want"`
}

func (r *run) promCompare() *promCmp {
	pc := &promCmp{Bytes: map[string]float64{}, BytesWant: map[string]float64{}}
	mfs, err := r.promReg.Gather()
	if err != nil {
		hx.Fatal("gather: %v", err)
	}
	lab := func(m *dto.Metric, n string) string {
		for _, l := range m.Label {
			if l.GetName() == n {
				return l.GetValue()
			}
		}
		return ""
	}
	for _, mf := range mfs {
		switch {
		case strings.HasSuffix(mf.GetName(), "udp_nat_entries_added"):
			pc.Added[0] = mf.Metric[0].GetCounter().GetValue()
		case strings.HasSuffix(mf.GetName(), "udp_nat_entries_removed"):
			pc.Removed[0] = mf.Metric[0].GetCounter().GetValue()
		case mf.GetName() == "data_bytes" || strings.HasSuffix(mf.GetName(), "_data_bytes"):
			for _, m := range mf.Metric {
				if lab(m, "proto") == "udp" {
					pc.Bytes[lab(m, "dir")+"|"+lab(m, "access_key")] += m.GetCounter().GetValue()
				}
			}
		}
	}
	r.rec.mu.Lock()
	for _, e := range r.rec.ev {
		switch e.M {
		case "NatAdd":
			pc.Added[1]++
		case "NatRemove":
			pc.Removed[1]++
		case "PktC":
			pc.BytesWant["c>p|"+e.KeyID] += float64(e.X)
			pc.BytesWant["p>t|"+e.KeyID] += float64(e.Y)
		case "PktT":
			pc.BytesWant["p<t|"+e.KeyID] += float64(e.X)
			pc.BytesWant["c<p|"+e.KeyID] += float64(e.Y)
		}
	}
	r.rec.mu.Unlock()
	// gathered == recorded, and (the listener is closed, everything has settled) every entry added was removed
	pc.OK = pc.Added[0] == pc.Added[1] && pc.Removed[0] == pc.Removed[1] && pc.Removed[0] == pc.Added[0]
	for k, v := range pc.BytesWant {
		if v != 0 && pc.Bytes[k] != v {
			pc.OK = false
		}
	}
	for k, v := range pc.Bytes {
		if pc.BytesWant[k] != v {
			pc.OK = false
		}
	}
	return pc
}

func mustJSON(v any) string {
	b, _ := json.Marshal(v)
	return string(b)
}
