package main

import (
	"encoding/binary"
	"fmt"
	"math/rand"
	"net"
	"sync"
	"sync/atomic"
	"time"

	"github.com/Jigsaw-Code/outline-sdk/transport/shadowsocks"
	"github.com/Jigsaw-Code/outline-ss-server/service"
	"verifharness/hx"
)

// twol: ONE packet handler serving TWO packet conns, each with its own Handle goroutine - what cmd/outline-ss-server does
// for a service with several UDP listeners (`go ssService.HandlePacket(pc)` per listener).  Listener X receives the
// FIRST datagrams of fresh client addresses (valid, keys in rotation, IP-literal and host-name destinations); listener Y
// receives, at the same time, datagrams that authenticate under no key (junk and wrong-key) of at least the same length.
// The target checks every datagram it receives byte for byte.  Whatever the two Handle loops share must not let one
// datagram's handling change what is forwarded for another: judged by UdpNatTrace (FwdAuthentic, FwdComplete) on the
// recorded observations; with -norec (race-detector build) the harness adds no synchronisation of its own.
func twoListenersMain(out, sum string, seed int64, norec bool, n int) {
	if n <= 0 || n > 400 {
		n = 120
	}
	rng := rand.New(rand.NewSource(seed))
	w := newWorld(rng, false) // fake DNS for the host-name destinations
	defer w.close()
	kr := newKeyring(rng, 6)
	keyByID := map[string]int{}
	for _, ki := range kr.order {
		keyByID[ki.id] = ki.tok
	}
	rec := newRecorder()
	rec.max = 200000
	var ph service.PacketHandler
	if norec {
		ph = service.NewPacketHandler(natT, kr.list, nil, nil)
	} else {
		ph = service.NewPacketHandler(natT, kr.list, rec, rec)
	}
	ph.SetTargetIPValidator(loopbackOK)
	lx, err := listenUDP("udp4", "127.0.0.1:0")
	if err != nil {
		hx.Fatal("listen: %v", err)
	}
	ly, err := listenUDP("udp4", "127.0.0.1:0")
	if err != nil {
		hx.Fatal("listen: %v", err)
	}
	var hw sync.WaitGroup
	for _, l := range []*net.UDPConn{lx, ly} {
		hw.Add(1)
		go func(l *net.UDPConn) { defer hw.Done(); ph.Handle(l) }(l)
	}
	start := time.Now()
	ms := func(t time.Time) int { return int(t.Sub(start) / time.Millisecond) }
	// target: records what arrives
	tgt, err := listenUDP("udp4", "127.0.0.1:0")
	if err != nil {
		hx.Fatal("target: %v", err)
	}
	taddr := tgt.LocalAddr().(*net.UDPAddr)
	type got struct {
		data []byte
		port int
		t    time.Time
	}
	var mu sync.Mutex
	var gots []got
	tdone := make(chan struct{})
	go func() {
		defer close(tdone)
		buf := make([]byte, 70000)
		for {
			k, from, err := tgt.ReadFromUDP(buf)
			if err != nil {
				return
			}
			mu.Lock()
			gots = append(gots, got{append([]byte(nil), buf[:k]...), from.Port, time.Now()})
			mu.Unlock()
		}
	}()
	// junk on listener Y for as long as X is being used
	var stop atomic.Bool
	var jw sync.WaitGroup
	for j := 0; j < 2; j++ {
		jw.Add(1)
		go func(j int) {
			defer jw.Done()
			c, err := listenUDP("udp4", "127.0.0.1:0")
			if err != nil {
				return
			}
			defer c.Close()
			jr := rand.New(rand.NewSource(seed*31 + int64(j)))
			junk := make([]byte, 1400)
			for !stop.Load() {
				jr.Read(junk)
				c.WriteToUDP(junk, ly.LocalAddr().(*net.UDPAddr))
				if jr.Intn(64) == 0 {
					time.Sleep(50 * time.Microsecond)
				}
			}
		}(j)
	}
	// race-detector runs only (nothing but race reports is taken from them): listener Y also carries VALID datagrams of one
	// client towards a second target with an IP-literal header, so that both Handle loops go through the whole path - key
	// search, validatePacket, NAT table, write - at the same time and whatever those steps share is watched by the detector
	if norec {
		tgt2, err := listenUDP("udp4", "127.0.0.1:0")
		if err != nil {
			hx.Fatal("target 2: %v", err)
		}
		defer tgt2.Close()
		go func() {
			b := make([]byte, 2048)
			for {
				if _, _, err := tgt2.ReadFromUDP(b); err != nil {
					return
				}
			}
		}()
		hdr2 := socksAddr(tgt2.LocalAddr().(*net.UDPAddr))
		jw.Add(1)
		go func() {
			defer jw.Done()
			c, err := listenUDP("udp4", "127.0.0.1:0")
			if err != nil {
				return
			}
			defer c.Close()
			key := kr.byTok[1].key
			pr := rand.New(rand.NewSource(seed*37 + 5))
			for i := 0; !stop.Load(); i++ {
				pt := append(append([]byte{}, hdr2...), make([]byte, 100+pr.Intn(100))...)
				buf := make([]byte, key.SaltSize()+len(pt)+key.TagSize())
				pkt, _ := shadowsocks.Pack(buf, pt, key)
				c.WriteToUDP(pkt, ly.LocalAddr().(*net.UDPAddr))
				if i%16 == 0 {
					time.Sleep(100 * time.Microsecond)
				}
			}
		}()
	}
	time.Sleep(20 * time.Millisecond)
	// first datagrams of n fresh client addresses on listener X
	type sentD struct {
		id, k, dst, wire int
		payload          []byte
		t                time.Time
		addr             string
	}
	var sent []sentD
	var socks []*net.UDPConn
	hdrLit := socksAddr(taddr)
	hdrName := append(append([]byte{3, 9}, "localhost"...), byte(taddr.Port>>8), byte(taddr.Port))
	for i := 1; i <= n; i++ {
		c, err := listenUDP("udp4", "127.0.0.1:0")
		if err != nil {
			hx.Fatal("client: %v", err)
		}
		socks = append(socks, c)
		k := 1 + i%3
		key := kr.byTok[k].key
		payload := make([]byte, 1000+rng.Intn(200))
		rng.Read(payload)
		binary.BigEndian.PutUint32(payload, uint32(i)) // self-describing: id first
		hdr, dst := hdrLit, tokA
		if i%3 == 0 {
			hdr, dst = hdrName, tokNLoop // host name: the window between the key search and the write is a DNS lookup long
		}
		pt := append(append([]byte{}, hdr...), payload...)
		buf := make([]byte, key.SaltSize()+len(pt)+key.TagSize())
		pkt, _ := shadowsocks.Pack(buf, pt, key)
		sent = append(sent, sentD{i, k, dst, len(pkt), payload, time.Now(), c.LocalAddr().String()})
		c.WriteToUDP(pkt, lx.LocalAddr().(*net.UDPAddr))
		if i%8 == 0 {
			time.Sleep(time.Millisecond)
		}
	}
	// settle: all n datagrams handled (forwarded or not) - the target's count stops growing
	last, stable := -1, 0
	waitUntil(10*time.Second, func() bool {
		mu.Lock()
		k := len(gots)
		mu.Unlock()
		if k == last {
			stable++
		} else {
			last, stable = k, 0
		}
		time.Sleep(2 * time.Millisecond)
		return k >= n || stable > 150
	})
	stop.Store(true)
	jw.Wait()
	lx.Close()
	ly.Close()
	hd := make(chan struct{})
	go func() { hw.Wait(); close(hd) }()
	returned := false
	select {
	case <-hd:
		returned = true
	case <-time.After(5 * time.Second):
	}
	time.Sleep(50 * time.Millisecond)
	tgt.Close()
	<-tdone
	for _, c := range socks {
		c.Close()
	}
	// ---- judge material: one trace, evaluated once at the end ----
	intact, corrupt := 0, 0
	seen := map[int]bool{}
	tr := hx.NewTrace(out)
	defer tr.Close()
	tr.Emit(map[string]any{"ev": "Reset", "scenario": "two-listeners", "n": n})
	cliOf := map[string]int{}
	for _, d := range sent {
		cliOf[d.addr] = d.id
		tr.Emit(map[string]any{"ev": "CSend", "id": d.id, "c": d.id, "k": d.k, "hdr": true, "dst": d.dst, "sz": len(d.payload), "wire": d.wire, "la": 0, "t": ms(d.t)})
	}
	// associations: each client address sends exactly one datagram, so the creating datagram of an association is its client's
	assocOfClient := map[int]int{}
	rec.mu.Lock()
	evs := append([]mEvent(nil), rec.ev...)
	flood := rec.flood
	rec.mu.Unlock()
	nAssoc := 0
	for _, e := range evs {
		c := cliOf[e.Client]
		switch e.M {
		case "CS":
			continue
		case "NatAdd":
			nAssoc++
			assocOfClient[c] = e.A
			tr.Emit(map[string]any{"ev": "M", "m": "NatAdd", "a": e.A, "c": c, "key": keyByID[e.KeyID], "st": "", "x": c, "y": e.Pend, "did": c, "t": ms(e.T)})
		case "PktC":
			tr.Emit(map[string]any{"ev": "M", "m": "PktC", "a": e.A, "c": c, "key": keyByID[e.KeyID], "st": e.St, "x": e.X, "y": e.Y, "did": c, "t": ms(e.T)})
		default:
			tr.Emit(map[string]any{"ev": "M", "m": e.M, "a": e.A, "c": c, "key": keyByID[e.KeyID], "st": e.St, "x": e.X, "y": e.Y, "did": 0, "t": ms(e.T)})
		}
	}
	var samples []string
	for i, g := range gots {
		did, p := 0, -1
		if len(g.data) >= 4 {
			id := int(binary.BigEndian.Uint32(g.data))
			if id >= 1 && id <= n && sha(sent[id-1].payload) == sha(g.data) && len(sent[id-1].payload) == len(g.data) {
				did, p = id, id
			}
		}
		if did != 0 && !seen[did] {
			intact++
			seen[did] = true
		} else if did == 0 {
			corrupt++
			if len(samples) < 3 {
				samples = append(samples, fmt.Sprintf("%d bytes, head %x", len(g.data), g.data[:min(len(g.data), 16)]))
			}
		}
		a := 0
		if did != 0 {
			a = assocOfClient[did]
		}
		dst := tokA
		if did != 0 {
			dst = sent[did-1].dst
		}
		sz := len(g.data)
		tr.Emit(map[string]any{"ev": "TRecv", "did": did, "a": a, "sock": g.port, "dst": dst, "sz": sz, "p": p, "ts": ms(start), "t": ms(g.t) + 1, "i": i})
	}
	if returned {
		tr.Emit(map[string]any{"ev": "Closing"})
	}
	tr.Emit(map[string]any{"ev": "Clock", "t": ms(time.Now()) + 1})
	if sum != "" {
		hx.WriteJSON(sum, map[string]any{"sent": n, "received": len(gots), "intact": intact, "not_a_sent_payload": corrupt, "missing": n - intact,
			"associations": nAssoc, "returned": returned, "flood": flood, "samples": samples, "norec": norec})
	}
	fmt.Printf("twol: sent=%d received=%d intact=%d corrupt=%d associations=%d returned=%v\n", n, len(gots), intact, corrupt, nAssoc, returned)
}
