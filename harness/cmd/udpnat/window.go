package main

import (
	"math/rand"
	"time"

	"verifharness/hx"
)

// window: a client datagram arrives while its previous association is being torn down - after the read deadline has
// fired and RemoveNatEntry has been entered, before natmap.del.  The window is a few microseconds wide in production
// (RemoveNatEntry takes the collectors' locks); here the recording metrics hold the first association inside
// RemoveNatEntry until the datagram has been handled, which makes it an exact schedule.  Whatever happens to that
// datagram, afterwards every association must be removed exactly once, its socket closed, nothing left behind, and the
// client's datagrams must leave through one socket per association.  Judged by UdpNatTrace + the end-of-run summary.
func windowMain(out, sum string, seed int64) {
	rng := rand.New(rand.NewSource(seed))
	w := newWorld(rng, false)
	defer w.close()
	tr := hx.NewTrace(out)
	defer tr.Close()
	var ends []endInfo
	for v := 0; v < 4; v++ {
		brng := rand.New(rand.NewSource(seed*7907 + int64(v)))
		baseG, _ := repoGoroutines()
		baseFd := fdCount()
		tr.Emit(map[string]any{"ev": "Reset", "beh": v, "scenario": "teardown-window"})
		r := newRunOpts(w, tr, brng, runOpts{validator: "loopback", viaManager: v%2 == 1})
		r.rec.mu.Lock()
		r.rec.holdA, r.rec.entered, r.rec.release = 1, make(chan struct{}), make(chan struct{})
		r.rec.mu.Unlock()
		r.noRetire = 1
		dst := []int{tokA, tokE, tokC, tokA}[v]
		if w.socks[dst] == nil {
			dst = tokA
		}
		k := 1 + v%3
		r.doCDgram(step{A: "CDgram", C: 1, K: k, Hdr: true, Dst: dst, Cls: "1000"}) // association 1
		if v >= 2 {
			r.doCDgram(step{A: "CDgram", C: 2, K: 1 + (v+1)%3, Hdr: true, Dst: tokA, Cls: "1"}) // a bystander
		}
		entered := false
		select {
		case <-r.rec.entered:
			entered = true
		case <-time.After(5 * time.Second):
			r.notes = append(r.notes, "association 1 did not reach RemoveNatEntry within 5 s")
		}
		if entered {
			// the old association has timed out and reported its removal, but is still in the table
			r.emitM(r.rec.take(&r.mcur), 0, 0)
			r.forceLA = 1
			r.doCDgram(step{A: "CDgram", C: 1, K: k, Hdr: true, Dst: dst, Cls: "1"})
			r.forceLA = 0
			close(r.rec.release)
			time.Sleep(20 * time.Millisecond)
			r.noRetire = 0
			r.retire(1)
			// the client goes on: whichever association serves it now must keep working and be reclaimed later
			r.doCDgram(step{A: "CDgram", C: 1, K: k, Hdr: true, Dst: dst, Cls: "1"})
			r.doTReply(step{A: "TReply", Src: dst, To: 1, Cls: "1"})
		}
		r.doTick(step{A: "Tick", D: 1})
		ei := r.doShutdown(baseG, baseFd)
		ei.ViaManager, ei.Validator = v%2 == 1, "loopback"
		ends = append(ends, ei)
	}
	if sum != "" {
		hx.WriteJSON(sum, ends)
	}
}
