package main

import (
	"fmt"
	"io"
	"log/slog"
	"math"
	"math/rand"
	"net"
	"sort"
	"time"

	ssprom "github.com/Jigsaw-Code/outline-ss-server/prometheus"
	"github.com/Jigsaw-Code/outline-ss-server/service"
	"github.com/prometheus/client_golang/prometheus"
	"verifharness/hx"
)

// sender / target tokens (the same numbering as spec/UdpNatGen.tla)
const (
	tokA   = 1  // 127.0.0.1:p       IPv4, not DNS
	tokB   = 2  // 127.53.x.y:53     IPv4, DNS port
	tokF   = 3  // [fd00::2]:p       forbidden destination (ULA); only a destination, never a sender
	tokC   = 4  // [::1]:p           IPv6, not DNS
	tokA2  = 6  // 127.0.0.1:p'      another port of A's host
	tokS   = 7  // 127.0.0.9:p       stranger
	tokS53 = 8  // 127.53.x.y+1:53   stranger on port 53
	tokZ   = 9  // [fe80::..%eth0]:p stranger bound to the zoned link-local address (C18)
	tokE   = 10 // 192.0.2.2:p       public IPv4 on eth0
	// destinations named by HOST NAME (SOCKS type 3); they are destinations only, the datagram arrives at the socket the
	// name resolves to
	tokNLoop = 11 // localhost:pA          (/etc/hosts -> 127.0.0.1: forbidden for RequirePublicIP)
	tokNPub  = 12 // pub.verif.test:pE     (fake DNS -> 192.0.2.2: allowed)
	tokNPriv = 13 // priv.verif.test:pF    (fake DNS -> fd00::2, ULA: forbidden)
	// destinations the validator allows but to which the outbound socket cannot send (port 0: sendto fails with EINVAL):
	// the failed send must leave the association, its deadline and its socket as they are
	tokFailL = 14 // 127.0.0.1:0
	tokFailP = 15 // 192.0.2.2:0
	// target-switch family (Gen_UdpNatRealSwitch.cfg): destinations whose SOCKS address header is exactly as long as that of
	// another destination and differs from it in the port and/or the address/name only
	tokNLoop2 = 16 // localhost:pA2         (the name of 11 with the port of A2)
	tokNAlt   = 17 // alt.verif.test:pA2    (fake DNS -> 127.0.0.1; as long as pub.verif.test)
	tokC2     = 18 // [::1]:p'              another port of C's host
	natT      = 300 * time.Millisecond
	dnsT      = 17 * time.Second
	boundMs   = 500
)

type world struct {
	socks    map[int]*sock // by token
	rng      *rand.Rand
	allSalts map[string]bool      // every salt seen in replies during the whole run
	names    map[int]nameDst      // host-name destinations
	unsend   map[int]*net.UDPAddr // destinations a send to which fails
}

type nameDst struct {
	host string
	sock int // token of the socket the name resolves to
}

func newWorld(rng *rand.Rand, withZoned bool) *world {
	w := &world{socks: map[int]*sock{}, rng: rng, allSalts: map[string]bool{}, names: map[int]nameDst{}}
	must := func(tok int, name, network, addr string) {
		s, err := newSock(tok, name, network, addr)
		if err != nil {
			hx.Fatal("socket %s %s: %v", name, addr, err)
		}
		w.socks[tok] = s
	}
	must(tokA, "A", "udp4", "127.0.0.1:0")
	must(tokA2, "A2", "udp4", "127.0.0.1:0")
	must(tokS, "S", "udp4", "127.0.0.9:0")
	must(tokC, "C", "udp6", "[::1]:0")
	must(tokC2, "C2", "udp6", "[::1]:0")
	if hasAddr("192.0.2.2") {
		must(tokE, "E", "udp4", "192.0.2.2:0")
	}
	if hasAddr("fd00::2") {
		must(tokF, "F", "udp6", "[fd00::2]:0")
	}
	// port 53 on private loopback addresses (other processes may be doing the same: retry)
	for i := 0; i < 200; i++ {
		x, y := 1+rng.Intn(250), 1+rng.Intn(250)
		b, err := newSock(tokB, "B", "udp4", fmt.Sprintf("127.53.%d.%d:53", x, y))
		if err != nil {
			continue
		}
		s, err := newSock(tokS53, "S53", "udp4", fmt.Sprintf("127.54.%d.%d:53", x, y))
		if err != nil {
			b.c.Close()
			continue
		}
		w.socks[tokB], w.socks[tokS53] = b, s
		break
	}
	if w.socks[tokB] == nil {
		hx.Fatal("could not bind a loopback port 53")
	}
	w.unsend = map[int]*net.UDPAddr{tokFailL: {IP: net.IPv4(127, 0, 0, 1).To4(), Port: 0}, tokFailP: {IP: net.IPv4(192, 0, 2, 2).To4(), Port: 0}}
	// host names: net.ResolveUDPAddr in the packet handler goes through net.DefaultResolver -> in-process fake DNS
	zone := map[string][]net.IP{}
	w.names[tokNLoop] = nameDst{"localhost", tokA}
	w.names[tokNLoop2] = nameDst{"localhost", tokA2}
	zone["alt.verif.test"] = []net.IP{net.IPv4(127, 0, 0, 1).To4()}
	w.names[tokNAlt] = nameDst{"alt.verif.test", tokA2}
	if w.socks[tokE] != nil {
		zone["pub.verif.test"] = []net.IP{net.IPv4(192, 0, 2, 2).To4()}
		w.names[tokNPub] = nameDst{"pub.verif.test", tokE}
	}
	if w.socks[tokF] != nil {
		zone["priv.verif.test"] = []net.IP{net.ParseIP("fd00::2").To16()}
		w.names[tokNPriv] = nameDst{"priv.verif.test", tokF}
	}
	if _, err := startFakeDNS(zone); err != nil {
		hx.Fatal("fake DNS: %v", err)
	}
	if withZoned {
		if z, ok := linkLocalZone(); ok {
			s, err := newSock(tokZ, "Z", "udp6", "["+z+"]:0")
			if err == nil {
				w.socks[tokZ] = s
			}
		}
	}
	return w
}

func (w *world) close() {
	for _, s := range w.socks {
		s.c.Close()
	}
}

// ---- one behaviour ---------------------------------------------------------------------------------------

type step struct {
	A   string `json:"a"`
	C   int    `json:"c"`
	K   int    `json:"k"`
	Hdr bool   `json:"hdr"`
	Dst int    `json:"dst"`
	Cls string `json:"cls"`
	Src int    `json:"src"`
	To  int    `json:"to"`
	D   int    `json:"d"`
}

type assocInfo struct {
	a       int
	client  int
	keyTok  int
	natPort int
	removed bool
	lastW   time.Time // last forwarded datagram (target receive time)
	lastDNS bool
	hiDl    time.Time // latest possible deadline
	firstWr bool
	nw      int
}

type run struct {
	w         *world
	tr        *hx.Trace
	rng       *rand.Rand
	kr        *keyring
	rec       *recorder
	lport     int
	cc        *countingConn
	handled   int64
	done      chan struct{}
	clients   map[int]*sock
	start     time.Time
	mcur      int
	assocs    map[int]*assocInfo
	liveOf    map[int]int    // client token -> association id believed live
	sockTok   map[string]int // NAT source address -> token (retired when its association is removed)
	sockOwn   map[string]int
	nSockTok  int
	saltTok   map[string]int
	saltDup   int
	nDg, nRp  int
	cliAddr   map[string]int
	keyByID   map[string]int
	pending   map[int][]byte // did -> payload sent
	replies   map[int]replyInfo
	promReg   *prometheus.Registry
	notes     []string
	forceLA   int
	noRetire  int
	stepTO    time.Duration // timeout class of the destination of the current client datagram
	curDst    int           // destination token named by the datagram of the current step
	closeL    func() error
	floodEmit int64
}

func (r *run) ms(t time.Time) int { return int(t.Sub(r.start) / time.Millisecond) }
func (r *run) msCeil(t time.Time) int {
	return int(math.Ceil(float64(t.Sub(r.start)) / float64(time.Millisecond)))
}

// runOpts: validator "loopback" (loopback allowed in addition to RequirePublicIP) or "default" (the handler's own
// RequirePublicIP, SetTargetIPValidator is not called); viaManager: the packet conn comes from
// service.NewListenerManager().ListenPacket (the production path of cmd/outline-ss-server) instead of net.ListenUDP
type runOpts struct {
	prom       bool
	validator  string
	viaManager bool
	debugLog   bool // a DEBUG-level logger (output discarded) is handed to the handler and installed as slog default (-verbose)
	v6         bool // the listener is a dual-stack [::] socket and client 3 is [::1]
}

func newRun(w *world, tr *hx.Trace, rng *rand.Rand, withProm bool) *run {
	return newRunOpts(w, tr, rng, runOpts{prom: withProm, validator: "loopback"})
}

func newRunOpts(w *world, tr *hx.Trace, rng *rand.Rand, o runOpts) *run {
	withProm := o.prom
	r := &run{w: w, tr: tr, rng: rng, clients: map[int]*sock{}, assocs: map[int]*assocInfo{}, liveOf: map[int]int{},
		sockTok: map[string]int{}, sockOwn: map[string]int{}, saltTok: map[string]int{}, cliAddr: map[string]int{},
		keyByID: map[string]int{}, pending: map[int][]byte{}, replies: map[int]replyInfo{}}
	r.kr = newKeyring(rng, 6)
	for _, ki := range r.kr.order {
		r.keyByID[ki.id] = ki.tok
	}
	r.rec = newRecorder()
	if withProm {
		sm, err := ssprom.NewServiceMetrics(nil)
		if err != nil {
			hx.Fatal("NewServiceMetrics: %v", err)
		}
		r.promReg = prometheus.NewRegistry()
		r.promReg.MustRegister(sm)
		r.rec.inner = sm
	}
	ph := service.NewPacketHandler(natT, r.kr.list, r.rec, r.rec)
	if o.validator != "default" {
		ph.SetTargetIPValidator(loopbackOK)
	}
	if o.debugLog {
		dl := slog.New(slog.NewTextHandler(io.Discard, &slog.HandlerOptions{Level: slog.LevelDebug}))
		ph.SetLogger(dl)
		slog.SetDefault(dl)
	}
	laddr, lnet := "0.0.0.0:0", "udp4"
	if o.v6 {
		laddr, lnet = "[::]:0", "udp"
	}
	var lc net.PacketConn
	if o.viaManager {
		pc, err := service.NewListenerManager().ListenPacket(laddr)
		if err != nil {
			hx.Fatal("ListenerManager.ListenPacket: %v", err)
		}
		lc = pc
	} else {
		uc, err := listenUDP(lnet, laddr)
		if err != nil {
			hx.Fatal("listen: %v", err)
		}
		lc = uc
	}
	r.lport = lc.LocalAddr().(*net.UDPAddr).Port
	r.closeL = lc.Close
	r.cc = &countingConn{PacketConn: lc}
	r.done = make(chan struct{})
	go func() {
		ph.Handle(r.cc)
		close(r.done)
	}()
	// clients 1,2: same IP different ports; 3: another loopback IP; 4: the eth0 address
	caddr := map[int]string{1: "127.0.0.1:0", 2: "127.0.0.1:0", 3: "127.0.0.2:0", 4: "192.0.2.2:0"}
	if !hasAddr("192.0.2.2") {
		caddr[4] = "127.0.0.4:0"
	}
	for c, a := range caddr {
		cnet := "udp4"
		if o.v6 && c == 3 {
			cnet, a = "udp6", "[::1]:0"
		}
		s, err := newSock(c, fmt.Sprintf("client%d", c), cnet, a)
		if err != nil {
			hx.Fatal("client socket: %v", err)
		}
		r.clients[c] = s
		r.cliAddr[s.addr.String()] = c
	}
	if !waitUntil(5*time.Second, func() bool { return r.cc.reads.Load() >= 1 }) {
		hx.Fatal("Handle did not start reading")
	}
	r.start = time.Now()
	return r
}

func (r *run) listenerAddrFor(c *sock) *net.UDPAddr {
	port := r.lport
	ip := c.addr.IP
	if ip.To4() == nil {
		return &net.UDPAddr{IP: net.IPv6loopback, Port: port}
	}
	if ip.IsLoopback() {
		ip = net.IPv4(127, 0, 0, 1)
	}
	return &net.UDPAddr{IP: ip, Port: port}
}

func hdrLen(fam string) int {
	if fam == "v4" {
		return 7
	}
	return 19
}

// plaintext with a malformed address header (classes of C18)
func badHeader(rng *rand.Rand, payload []byte) ([]byte, string) {
	switch rng.Intn(9) {
	case 0:
		return append([]byte{0, 1, 2, 3, 4, 0, 80}, payload...), "atyp0"
	case 1:
		return append([]byte{2, 1, 2, 3, 4, 0, 80}, payload...), "atyp2"
	case 2:
		return append([]byte{5, 1, 2, 3, 4, 0, 80}, payload...), "atyp5"
	case 3:
		return append([]byte{255, 1, 2, 3, 4, 0, 80}, payload...), "atyp255"
	case 4:
		return []byte{}, "empty"
	case 5:
		return []byte{1, 127, 0, 0}, "v4-short"
	case 6:
		return []byte{4, 0, 0, 0, 0, 0, 0, 0, 0, 0, 0, 0, 0, 0, 0, 0, 1, 0}, "v6-short"
	case 7:
		return []byte{3, 200, 'a', 'b'}, "domain-short"
	default:
		return []byte{3}, "domain-nolen"
	}
}

func (r *run) emitM(evs []mEvent, did, sid int) {
	if len(evs) > 300 { // a flood: keep the trace small (the bookkeeping below still sees every call), the summary reports it
		r.floodEmit += int64(len(evs) - 300)
	}
	for i, e := range evs {
		c, ok := r.cliAddr[e.Client]
		if !ok && e.M != "CS" {
			c = -1
		}
		k := 0
		if e.KeyID != "" {
			if kt, ok := r.keyByID[e.KeyID]; ok {
				k = kt
			} else {
				k = -1
			}
		}
		line := map[string]any{"ev": "M", "m": e.M, "a": e.A, "c": c, "key": k, "st": e.St, "x": e.X, "y": e.Y, "did": 0, "t": r.ms(e.T)}
		switch e.M {
		case "NatAdd":
			line["x"], line["y"], line["did"] = did, e.Pend, did
			ai := &assocInfo{a: e.A, client: c, keyTok: k}
			r.assocs[e.A] = ai
			r.liveOf[c] = e.A
		case "PktC", "CS":
			line["did"] = did
			if e.M == "PktC" && e.St == "ERR_WRITE" {
				// the failed send has extended the deadline all the same (onWrite runs before the socket's WriteTo)
				if ai := r.assocs[e.A]; ai != nil && r.stepTO > 0 && e.T.Add(r.stepTO).After(ai.hiDl) {
					ai.hiDl = e.T.Add(r.stepTO)
				}
			}
		case "PktT":
			line["did"] = sid
		case "NatRemove":
			if ai := r.assocs[e.A]; ai != nil {
				ai.removed = true
				if r.liveOf[ai.client] == e.A {
					delete(r.liveOf, ai.client)
				}
				if r.noRetire != e.A { // (teardown-window scenario: the socket stays in use until the teardown is released)
					r.retire(e.A)
				}
			}
		}
		if i < 300 {
			r.tr.Emit(line)
		}
	}
}

// retire: the source port of a removed association may be handed out again by the kernel
func (r *run) retire(a int) {
	for addr, own := range r.sockOwn {
		if own == a {
			delete(r.sockOwn, addr)
			delete(r.sockTok, addr)
		}
	}
}

// collect polls every harness socket and emits what arrived; did / sid attribute the datagrams to the current step.
func (r *run) collect(did, sid int, stepAssoc int, sent time.Time) {
	now := time.Now()
	toks := make([]int, 0, len(r.w.socks))
	for t := range r.w.socks {
		toks = append(toks, t)
	}
	sort.Ints(toks)
	for _, t := range toks {
		s := r.w.socks[t]
		for _, d := range s.poll() {
			// the outbound socket is one wildcard socket: its identity is the port (the source IP follows the route)
			from := fmt.Sprintf(":%d", d.from.Port)
			a := stepAssoc
			if own, ok := r.sockOwn[from]; ok {
				a = own
			} else if stepAssoc != 0 {
				r.sockOwn[from] = stepAssoc
			}
			if _, ok := r.sockTok[from]; !ok {
				r.nSockTok++
				r.sockTok[from] = r.nSockTok
			}
			p := -1
			if want, ok := r.pending[did]; ok && sha(want) == sha(d.data) && len(want) == len(d.data) {
				p = did
			}
			ts := r.ms(sent)
			if ai := r.assocs[a]; ai != nil {
				ai.natPort = d.from.Port
				ai.lastW = now
				ai.nw++
				to := natT
				if s.addr.Port == 53 {
					to = dnsT
				}
				if now.Add(to).After(ai.hiDl) {
					ai.hiDl = now.Add(to)
				}
			}
			dstTok := t
			if nd, ok := r.w.names[r.curDst]; ok && nd.sock == t {
				dstTok = r.curDst // the datagram named a host that resolves to this socket
			}
			r.tr.Emit(map[string]any{"ev": "TRecv", "did": did, "a": a, "sock": r.sockTok[from], "dst": dstTok, "sz": len(d.data), "p": p,
				"ts": ts, "t": r.msCeil(now), "from": d.from.String()})
		}
	}
	ctoks := []int{1, 2, 3, 4}
	for _, c := range ctoks {
		s := r.clients[c]
		for _, d := range s.poll() {
			key, pt := r.kr.whichKey(d.data)
			line := map[string]any{"ev": "CRecv", "sid": sid, "a": 0, "c": c, "key": key, "salt": 0, "hdr": -1, "sz": 0, "p": -1,
				"wire": len(d.data), "t": r.ms(now)}
			if sidInfo, ok := r.replies[sid]; ok {
				line["a"] = sidInfo.a
			}
			if key != 0 {
				ss := r.kr.byTok[key].key.SaltSize()
				salt := string(d.data[:ss])
				if r.w.allSalts[salt] {
					r.saltDup++
				}
				r.w.allSalts[salt] = true
				if _, ok := r.saltTok[salt]; !ok {
					r.saltTok[salt] = len(r.saltTok) + 1
				}
				line["salt"] = r.saltTok[salt]
				if ri, ok := r.replies[sid]; ok {
					want := socksAddr(ri.from.addr)
					if len(pt) >= len(want) && string(pt[:len(want)]) == string(want) {
						line["hdr"] = ri.from.tok
						body := pt[len(want):]
						line["sz"] = len(body)
						if sha(body) == sha(ri.payload) && len(body) == len(ri.payload) {
							line["p"] = sid
						}
					} else {
						line["rawhdr"] = fmt.Sprintf("%x", pt[:min(len(pt), 24)])
					}
				}
			}
			r.tr.Emit(line)
		}
	}
}

type replyInfo struct {
	a       int
	from    *sock
	payload []byte
}

func min(a, b int) int {
	if a < b {
		return a
	}
	return b
}
