// udpnat: conformance driver for the UDP side of the proxy (spec/UdpNat.tla), public API only.
//
//	replay  -in behaviours.json -out trace.ndjson   spec -> code: execute TLC-generated behaviours on real sockets and
//	                                                record what clients, targets and the metrics sink observe
//	c18     -case NAME                              one C18 scenario family in THIS process (the caller checks the exit status)
//	conc    -out trace.ndjson                       many clients at once (C19; built with -race)
//	dns17                                           one real-time 17 s DNS association (thorough tier)
//
// The driver never judges: UdpNatTrace (TLC) decides on the recorded trace.
package main

import (
	"bytes"
	"container/list"
	"crypto/sha256"
	"encoding/hex"
	"errors"
	"fmt"
	"math/rand"
	"net"
	"os"
	"runtime"
	"strings"
	"sync"
	"sync/atomic"
	"syscall"
	"time"

	"github.com/Jigsaw-Code/outline-sdk/transport/shadowsocks"
	onet "github.com/Jigsaw-Code/outline-ss-server/net"
	"github.com/Jigsaw-Code/outline-ss-server/service"
	"verifharness/hx"
)

var cipherNames = []string{shadowsocks.CHACHA20IETFPOLY1305, shadowsocks.AES256GCM, shadowsocks.AES192GCM, shadowsocks.AES128GCM}

// ---- keys ------------------------------------------------------------------------------------------------

type keyInfo struct {
	tok    int // token used in traces: 1..3 = the model's keys, 4.. = decoys, 0 = not configured
	id     string
	cipher string
	secret string
	key    *shadowsocks.EncryptionKey
}

type keyring struct {
	byTok  map[int]*keyInfo
	order  []*keyInfo // configured list order
	unk    *keyInfo   // a key that is NOT configured
	list   service.CipherList
	layout string
}

func mustKey(cipher, secret string) *shadowsocks.EncryptionKey {
	k, err := shadowsocks.NewEncryptionKey(cipher, secret)
	if err != nil {
		hx.Fatal("NewEncryptionKey: %v", err)
	}
	return k
}

// newKeyring builds a mixed-cipher key list of nkeys entries in a seeded order, so that the model's keys 1..3 sit at
// first / middle / last positions in different behaviours and all four AEAD ciphers occur.
func newKeyring(rng *rand.Rand, nkeys int) *keyring {
	kr := &keyring{byTok: map[int]*keyInfo{}}
	coff := rng.Intn(4)
	for t := 1; t <= nkeys; t++ {
		c := cipherNames[(t+coff)%4]
		sec := fmt.Sprintf("secret-%d-%d", t, rng.Int63())
		ki := &keyInfo{tok: t, id: fmt.Sprintf("key-%d", t), cipher: c, secret: sec, key: mustKey(c, sec)}
		kr.byTok[t] = ki
		kr.order = append(kr.order, ki)
	}
	rng.Shuffle(len(kr.order), func(i, j int) { kr.order[i], kr.order[j] = kr.order[j], kr.order[i] })
	uc := cipherNames[rng.Intn(4)]
	kr.unk = &keyInfo{tok: 0, id: "unknown", cipher: uc, secret: "not-configured", key: mustKey(uc, fmt.Sprintf("not-configured-%d", rng.Int63()))}
	l := list.New()
	var lay []string
	for _, ki := range kr.order {
		e := service.MakeCipherEntry(ki.id, ki.key, ki.secret)
		l.PushBack(&e)
		lay = append(lay, fmt.Sprintf("%d:%s", ki.tok, strings.TrimPrefix(ki.cipher, "AEAD_")))
	}
	kr.list = service.NewCipherList()
	kr.list.Update(l)
	kr.layout = strings.Join(lay, ",")
	return kr
}

// whichKey returns the token of the configured key under which pkt authenticates (0 if none) and the plaintext.
func (kr *keyring) whichKey(pkt []byte) (int, []byte) {
	for _, ki := range kr.order {
		buf := make([]byte, len(pkt))
		if pt, err := shadowsocks.Unpack(buf, pkt, ki.key); err == nil {
			return ki.tok, pt
		}
	}
	return 0, nil
}

// ---- sockets ---------------------------------------------------------------------------------------------

type sock struct {
	tok  int
	name string
	c    *net.UDPConn
	rc   syscall.RawConn
	addr *net.UDPAddr
	fam  string // v4, v6, zoned
}

func listenUDP(network, addr string) (*net.UDPConn, error) {
	ua, err := net.ResolveUDPAddr(network, addr)
	if err != nil {
		return nil, err
	}
	c, err := net.ListenUDP(network, ua)
	if err != nil {
		return nil, err
	}
	c.SetReadBuffer(4 << 20)
	c.SetWriteBuffer(1 << 20)
	return c, nil
}

func newSock(tok int, name, network, addr string) (*sock, error) {
	c, err := listenUDP(network, addr)
	if err != nil {
		return nil, err
	}
	rc, err := c.SyscallConn()
	if err != nil {
		return nil, err
	}
	s := &sock{tok: tok, name: name, c: c, rc: rc, addr: c.LocalAddr().(*net.UDPAddr)}
	switch {
	case s.addr.Zone != "":
		s.fam = "zoned"
	case s.addr.IP.To4() != nil:
		s.fam = "v4"
	default:
		s.fam = "v6"
	}
	return s, nil
}

type dgram struct {
	data []byte
	from *net.UDPAddr
}

// poll returns every datagram currently queued on the socket without blocking.  Delivery between local sockets is
// synchronous (the datagram is in the receiver's queue when sendto returns), so after the proxy has reported a step
// as finished everything it sent is already here.
func (s *sock) poll() []dgram {
	var out []dgram
	buf := make([]byte, 70000)
	for {
		var n int
		var from syscall.Sockaddr
		var rerr error
		err := s.rc.Read(func(fd uintptr) bool {
			n, from, rerr = syscall.Recvfrom(int(fd), buf, syscall.MSG_DONTWAIT)
			return true
		})
		if err != nil || rerr != nil {
			return out
		}
		d := dgram{data: append([]byte(nil), buf[:n]...)}
		switch a := from.(type) {
		case *syscall.SockaddrInet4:
			d.from = &net.UDPAddr{IP: net.IP(append([]byte(nil), a.Addr[:]...)), Port: a.Port}
		case *syscall.SockaddrInet6:
			ip := net.IP(append([]byte(nil), a.Addr[:]...))
			if ip4 := ip.To4(); ip4 != nil {
				ip = ip4
			}
			d.from = &net.UDPAddr{IP: ip, Port: a.Port}
		}
		out = append(out, d)
	}
}

func sha(b []byte) string {
	h := sha256.Sum256(b)
	return hex.EncodeToString(h[:8])
}

// socksAddr encodes an address the way a client does: IPv4 as type 1, IPv6 as type 4 (zone dropped).
func socksAddr(a *net.UDPAddr) []byte {
	if ip4 := a.IP.To4(); ip4 != nil {
		b := append([]byte{1}, ip4...)
		return append(b, byte(a.Port>>8), byte(a.Port))
	}
	b := append([]byte{4}, a.IP.To16()...)
	return append(b, byte(a.Port>>8), byte(a.Port))
}

// ---- listener wrapper: counts ReadFrom calls (= datagrams completely handled) -------------------------------

type countingConn struct {
	net.PacketConn
	reads atomic.Int64 // ReadFrom calls started
}

func (c *countingConn) ReadFrom(p []byte) (int, net.Addr, error) {
	c.reads.Add(1)
	return c.PacketConn.ReadFrom(p)
}

// ---- metrics recorder ------------------------------------------------------------------------------------

type mEvent struct {
	M      string // CS NatAdd PktC PktT NatRemove
	A      int    // association id (order of AddUDPNatEntry calls, from 1)
	Client string
	KeyID  string
	St     string
	X, Y   int64
	T      time.Time
	Pend   int // NatAdd: earlier associations of the same client address not yet removed
}

type recorder struct {
	mu     sync.Mutex
	ev     []mEvent
	nAssoc int
	flood  int64 // calls dropped after max
	max    int
	// teardown window: RemoveNatEntry of association holdA blocks (after it has been recorded) until release is closed;
	// entered is closed when it is reached.  This is where the real collectors take their locks.
	holdA   int
	entered chan struct{}
	release chan struct{}
	live    map[string]int // client address -> associations added and not yet removed
	inner   service.UDPMetrics
	innerSS service.ShadowsocksConnMetrics
}

func newRecorder() *recorder { return &recorder{live: map[string]int{}, max: maxEvents} }

type connRec struct {
	r      *recorder
	a      int
	client string
	keyID  string
	inner  service.UDPConnMetrics
}

// maxEvents (per handler; a behaviour makes a few dozen calls) bounds the memory of the recorder and the trace: a proxy that reports without end (e.g. an association goroutine
// spinning on a closed socket) is flagged as a flood instead of exhausting the machine.
const maxEvents = 4000

func (r *recorder) add(e mEvent) {
	if len(r.ev) >= r.max {
		r.flood++
		return
	}
	e.T = time.Now()
	r.ev = append(r.ev, e)
}

func (r *recorder) AddUDPNatEntry(clientAddr net.Addr, accessKey string) service.UDPConnMetrics {
	r.mu.Lock()
	r.nAssoc++
	a := r.nAssoc
	cs := clientAddr.String()
	pend := r.live[cs]
	r.live[cs]++
	r.add(mEvent{M: "NatAdd", A: a, Client: cs, KeyID: accessKey, Pend: pend})
	r.mu.Unlock()
	cr := &connRec{r: r, a: a, client: cs, keyID: accessKey}
	if r.inner != nil {
		cr.inner = r.inner.AddUDPNatEntry(clientAddr, accessKey)
	}
	return cr
}

func (r *recorder) AddCipherSearch(found bool, d time.Duration) {
	r.mu.Lock()
	st := "false"
	if found {
		st = "true"
	}
	r.add(mEvent{M: "CS", St: st})
	r.mu.Unlock()
	if r.innerSS != nil {
		r.innerSS.AddCipherSearch(found, d)
	}
}

func (c *connRec) AddPacketFromClient(status string, cp, pt int64) {
	c.r.mu.Lock()
	c.r.add(mEvent{M: "PktC", A: c.a, Client: c.client, KeyID: c.keyID, St: status, X: cp, Y: pt})
	c.r.mu.Unlock()
	if c.inner != nil {
		c.inner.AddPacketFromClient(status, cp, pt)
	}
}

func (c *connRec) AddPacketFromTarget(status string, tp, pc int64) {
	c.r.mu.Lock()
	c.r.add(mEvent{M: "PktT", A: c.a, Client: c.client, KeyID: c.keyID, St: status, X: tp, Y: pc})
	c.r.mu.Unlock()
	if c.inner != nil {
		c.inner.AddPacketFromTarget(status, tp, pc)
	}
}

func (c *connRec) RemoveNatEntry() {
	c.r.mu.Lock()
	c.r.live[c.client]--
	c.r.add(mEvent{M: "NatRemove", A: c.a, Client: c.client, KeyID: c.keyID})
	hold := c.r.holdA != 0 && c.r.holdA == c.a
	c.r.mu.Unlock()
	if hold {
		close(c.r.entered)
		<-c.r.release
	}
	if c.inner != nil {
		c.inner.RemoveNatEntry()
	}
}

// take returns the events recorded since the previous call.
func (r *recorder) take(from *int) []mEvent {
	r.mu.Lock()
	defer r.mu.Unlock()
	out := append([]mEvent(nil), r.ev[*from:]...)
	*from = len(r.ev)
	return out
}

func (r *recorder) count(pred func(mEvent) bool) int {
	r.mu.Lock()
	defer r.mu.Unlock()
	n := 0
	for _, e := range r.ev {
		if pred(e) {
			n++
		}
	}
	return n
}

// ---- memory watchdog ---------------------------------------------------------------------------------------

// rssBytes reads the resident set size of this process.
func rssBytes() int64 {
	b, err := os.ReadFile("/proc/self/statm")
	if err != nil {
		return 0
	}
	var size, rss int64
	fmt.Sscanf(string(b), "%d %d", &size, &rss)
	return rss * int64(os.Getpagesize())
}

// startMemoryWatchdog kills THIS process (harness error, exit status 3) when its resident memory exceeds the limit
// (default 3 GiB, VERIF_MEM_LIMIT_MB overrides): whatever a (mutated) proxy does, the driver must not take the machine
// down.  The recorders are bounded as well; this is the backstop.
func startMemoryWatchdog() {
	limit := int64(3) << 30
	if v := os.Getenv("VERIF_MEM_LIMIT_MB"); v != "" {
		var mb int64
		if _, err := fmt.Sscanf(v, "%d", &mb); err == nil && mb > 0 {
			limit = mb << 20
		}
	}
	go func() {
		for {
			if r := rssBytes(); r > limit {
				fmt.Fprintf(os.Stderr, "HARNESS-ERROR: memory watchdog: resident set %d MiB exceeds %d MiB, aborting\n", r>>20, limit>>20)
				os.Exit(3)
			}
			time.Sleep(100 * time.Millisecond)
		}
	}()
}

// ---- resource accounting ----------------------------------------------------------------------------------

func fdCount() int {
	ents, err := os.ReadDir("/proc/self/fd")
	if err != nil {
		return -1
	}
	return len(ents)
}

// repoGoroutines counts goroutines whose stack mentions the repository's packages.
func repoGoroutines() (int, string) {
	buf := make([]byte, 4<<20)
	n := runtime.Stack(buf, true)
	n2 := 0
	var sample string
	for _, g := range bytes.Split(buf[:n], []byte("\n\n")) {
		if bytes.Contains(g, []byte("outline-ss-server/")) {
			n2++
			if sample == "" {
				sample = string(g)
			}
		}
	}
	return n2, sample
}

func waitUntil(d time.Duration, f func() bool) bool {
	dl := time.Now().Add(d)
	for {
		if f() {
			return true
		}
		if time.Now().After(dl) {
			return false
		}
		time.Sleep(200 * time.Microsecond)
	}
}

// validator used by the scenarios: loopback targets are allowed in addition to what RequirePublicIP allows
// (private, ULA, link-local, unspecified ... stay forbidden).
func loopbackOK(ip net.IP) error {
	if ip != nil && ip.IsLoopback() {
		return nil
	}
	return onet.RequirePublicIP(ip)
}

var errNoSock = errors.New("address not available")

func hasAddr(ip string) bool {
	addrs, _ := net.InterfaceAddrs()
	for _, a := range addrs {
		if n, ok := a.(*net.IPNet); ok && n.IP.String() == ip {
			return true
		}
	}
	return false
}

func linkLocalZone() (string, bool) {
	ifs, _ := net.Interfaces()
	for _, ifc := range ifs {
		if ifc.Flags&net.FlagLoopback != 0 {
			continue
		}
		addrs, _ := ifc.Addrs()
		for _, a := range addrs {
			if n, ok := a.(*net.IPNet); ok && n.IP.To4() == nil && n.IP.IsLinkLocalUnicast() {
				return n.IP.String() + "%" + ifc.Name, true
			}
		}
	}
	return "", false
}
