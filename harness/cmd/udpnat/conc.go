package main

import (
	"fmt"
	"math/rand"
	"net"
	"sort"
	"strconv"
	"strings"
	"sync"
	"sync/atomic"
	"time"

	"github.com/Jigsaw-Code/outline-sdk/transport/shadowsocks"
	"github.com/Jigsaw-Code/outline-ss-server/service"
	"verifharness/hx"
)

// conc: many clients at once create, use and let expire associations on ONE packet handler while an echo target
// answers and, at the end, the listener is closed under traffic.  Built with -race by lib/checks/c19_nat.py (the race
// detector watches natmap / natconn / the key list); the recorded observations are judged by UdpNatTrace with the
// predicates that do not need a step-synchronous driver.

type cEvent struct {
	line map[string]any
	t    time.Time
}

func concMain(out, sum string, seed int64, nclients, rounds int) {
	rng := rand.New(rand.NewSource(seed))
	tr := hx.NewTrace(out)
	defer tr.Close()
	baseG, _ := repoGoroutines()
	baseFd := fdCount()
	kr := newKeyring(rng, 6)
	keyByID := map[string]int{}
	for _, ki := range kr.order {
		keyByID[ki.id] = ki.tok
	}
	rec := newLFRecorder()
	ph := service.NewPacketHandler(natT, kr.list, rec, rec)
	ph.SetTargetIPValidator(loopbackOK)
	lc, err := listenUDP("udp4", "127.0.0.1:0")
	if err != nil {
		hx.Fatal("listen: %v", err)
	}
	done := make(chan struct{})
	go func() { ph.Handle(lc); close(done) }()
	start := time.Now()
	ms := func(t time.Time) int { return int(t.Sub(start) / time.Millisecond) }
	laddr := lc.LocalAddr().(*net.UDPAddr)

	// echo targets: answer every datagram with "r:"+payload from the same socket; the second one sits on port 53
	// (17 s rule, fast close: natconn.onWrite on the Handle goroutine against onRead on the association's goroutine)
	tgt, err := listenUDP("udp4", "127.0.0.1:0")
	if err != nil {
		hx.Fatal("target: %v", err)
	}
	taddr := tgt.LocalAddr().(*net.UDPAddr)
	var tgt53 *net.UDPConn
	for i := 0; i < 200 && tgt53 == nil; i++ {
		tgt53, _ = listenUDP("udp4", fmt.Sprintf("127.55.%d.%d:53", 1+rng.Intn(250), 1+rng.Intn(250)))
	}
	if tgt53 == nil {
		hx.Fatal("could not bind a loopback port 53")
	}
	taddr53 := tgt53.LocalAddr().(*net.UDPAddr)
	var mu sync.Mutex
	var trecv, ssend, crecv, csend []cEvent
	var nS atomic.Int64
	var nD atomic.Int64
	tdone := make(chan struct{}, 2)
	echo := func(t *net.UDPConn, tok int) {
		defer func() { tdone <- struct{}{} }()
		buf := make([]byte, 70000)
		for {
			n, from, err := t.ReadFromUDP(buf)
			if err != nil {
				return
			}
			now := time.Now()
			p := string(buf[:n])
			mu.Lock()
			sid := int(nS.Add(1))
			trecv = append(trecv, cEvent{map[string]any{"payload": p, "port": from.Port, "sz": n, "tok": tok}, now})
			ssend = append(ssend, cEvent{map[string]any{"id": sid, "port": from.Port, "payload": "r:" + p, "sz": n + 2, "tok": tok}, now})
			mu.Unlock()
			t.WriteToUDP([]byte("r:"+p), from)
		}
	}
	go echo(tgt, tokA)
	go echo(tgt53, tokB)

	clients := make([]*net.UDPConn, nclients)
	var wg sync.WaitGroup
	closeAt := make(chan struct{})
	for ci := 0; ci < nclients; ci++ {
		ip := "127.0.0.1"
		if ci%3 == 2 {
			ip = "127.0.0.2"
		}
		c, err := listenUDP("udp4", ip+":0")
		if err != nil {
			hx.Fatal("client: %v", err)
		}
		clients[ci] = c
		ctok := ci + 1
		ktok := 1 + ci%6
		key := kr.byTok[ktok].key
		// reader
		wg.Add(1)
		go func() {
			defer wg.Done()
			buf := make([]byte, 70000)
			for {
				n, _, err := c.ReadFromUDP(buf)
				if err != nil {
					return
				}
				now := time.Now()
				k, pt := kr.whichKey(buf[:n])
				salt := ""
				if k != 0 {
					salt = string(buf[:kr.byTok[k].key.SaltSize()])
				}
				mu.Lock()
				crecv = append(crecv, cEvent{map[string]any{"c": ctok, "key": k, "salt": salt, "pt": string(pt), "wire": n}, now})
				mu.Unlock()
			}
		}()
		// writer
		wg.Add(1)
		lr := rand.New(rand.NewSource(seed*7919 + int64(ci)))
		go func() {
			defer wg.Done()
			hdr := socksAddr(taddr)
			dstTok := tokA
			if ctok%4 == 0 {
				hdr, dstTok = socksAddr(taddr53), tokB
			}
			for r := 0; r < rounds; r++ {
				burst := 2 + lr.Intn(4)
				for b := 0; b < burst; b++ {
					select {
					case <-closeAt:
						return
					default:
					}
					did := int(nD.Add(1))
					k, kk := ktok, key
					if lr.Intn(8) == 0 {
						k, kk = 0, kr.unk.key // wrong key on whatever association exists
					}
					payload := fmt.Sprintf("d%d-c%d", did, ctok)
					pt := append(append([]byte{}, hdr...), payload...)
					buf := make([]byte, kk.SaltSize()+len(pt)+kk.TagSize())
					pkt, _ := shadowsocks.Pack(buf, pt, kk)
					now := time.Now()
					mu.Lock()
					csend = append(csend, cEvent{map[string]any{"id": did, "c": ctok, "k": k, "sz": len(payload), "wire": len(pkt), "payload": payload, "dst": dstTok}, now})
					mu.Unlock()
					c.WriteToUDP(pkt, laddr)
					if dstTok == tokA || lr.Intn(3) == 0 { // port-53 clients mostly send back to back: the second datagram is
						time.Sleep(time.Duration(lr.Intn(15)) * time.Millisecond) // being handled while the first answer arrives
					}
				}
				if lr.Intn(2) == 0 {
					time.Sleep(natT + time.Duration(250+lr.Intn(200))*time.Millisecond) // let it expire
				} else {
					time.Sleep(time.Duration(lr.Intn(60)) * time.Millisecond)
				}
			}
		}()
	}
	// close the listener while some clients are still sending
	time.Sleep(time.Duration(rounds)*(natT/2) + 400*time.Millisecond)
	close(closeAt)
	time.Sleep(30 * time.Millisecond)
	t0 := time.Now()
	lc.Close()
	var ei endInfo
	select {
	case <-done:
		ei.Returned = true
	case <-time.After(5 * time.Second):
	}
	ei.ReturnMs = int(time.Since(t0) / time.Millisecond)
	waitUntil(5*time.Second, func() bool {
		return rec.added.Load() == rec.removed.Load()
	})
	ei.ReclaimMs = int(time.Since(t0) / time.Millisecond)
	ei.Unreclaimed = int(rec.added.Load() - rec.removed.Load())
	time.Sleep(50 * time.Millisecond)
	for _, c := range clients {
		c.Close()
	}
	tgt.Close()
	tgt53.Close()
	wg.Wait()
	<-tdone
	<-tdone
	waitUntil(3*time.Second, func() bool {
		n, s := repoGoroutines()
		ei.LeakGoroutines, ei.Sample = n-baseG, s
		ei.LeakFds = fdCount() - baseFd
		return ei.LeakGoroutines <= 0 && ei.LeakFds <= 0
	})
	if ei.LeakGoroutines <= 0 {
		ei.Sample = ""
	}
	ei.Layout = kr.layout

	// ---- emit one trace: each observer's events in its own order, properties evaluated once at the end ----
	tr.Emit(map[string]any{"ev": "Reset", "conc": true, "clients": nclients})
	sort.SliceStable(csend, func(i, j int) bool { return csend[i].line["id"].(int) < csend[j].line["id"].(int) })
	didOf := map[string]int{}
	sendT := map[int]time.Time{}
	for _, e := range csend {
		l := e.line
		didOf[l["payload"].(string)] = l["id"].(int)
		sendT[l["id"].(int)] = e.t
		tr.Emit(map[string]any{"ev": "CSend", "id": l["id"], "c": l["c"], "k": l["k"], "hdr": true, "dst": l["dst"], "sz": l["sz"], "wire": l["wire"], "la": 0, "t": ms(e.t)})
	}
	// metrics in call order; associations of a client in NatAdd order
	type addInfo struct {
		a int
		t time.Time
	}
	addsOf := map[int][]addInfo{}
	cliTok := map[string]int{}
	for i, c := range clients {
		cliTok[c.LocalAddr().String()] = i + 1
	}
	var evs []mEvent
	if ei.Returned {
		evs, _ = rec.events()
	}
	for _, e := range evs {
		if e.M == "NatAdd" {
			c := cliTok[e.Client]
			addsOf[c] = append(addsOf[c], addInfo{e.A, e.T})
		}
	}
	// a datagram seen by the target at time t belongs to the client's latest association added before t
	assocAt := func(c int, t time.Time) int {
		a := 0
		for _, ai := range addsOf[c] {
			if !ai.t.After(t) {
				a = ai.a
			}
		}
		return a
	}
	portTok := map[string]int{}
	var tlines []map[string]any
	firstDid := map[int]int{}
	portAssoc := map[int]int{} // source port -> association, as of the latest datagram from that port
	sidAssoc := map[int]int{}
	for i, e := range trecv {
		p := e.line["payload"].(string)
		did := didOf[p]
		c := 0
		if j := strings.LastIndex(p, "-c"); j >= 0 {
			c, _ = strconv.Atoi(p[j+2:])
		}
		a := assocAt(c, e.t)
		if _, ok := firstDid[a]; !ok {
			firstDid[a] = did
		}
		portAssoc[e.line["port"].(int)] = a
		sidAssoc[ssend[i].line["id"].(int)] = a
		pk := fmt.Sprintf("%d/%d", e.line["port"].(int), a)
		if _, ok := portTok[pk]; !ok {
			portTok[pk] = len(portTok) + 1
		}
		pt := -1
		if did != 0 {
			pt = did
		}
		tlines = append(tlines, map[string]any{"ev": "TRecv", "did": did, "a": a, "sock": portTok[pk], "dst": e.line["tok"], "sz": e.line["sz"], "p": pt, "ts": ms(sendT[did]), "t": ms(e.t) + 1})
	}
	// metrics in call order
	for _, e := range evs {
		c := cliTok[e.Client]
		line := map[string]any{"ev": "M", "m": e.M, "a": e.A, "c": c, "key": keyByID[e.KeyID], "st": e.St, "x": e.X, "y": e.Y, "did": 0, "t": ms(e.T)}
		if e.M == "NatAdd" {
			line["x"], line["y"], line["did"] = firstDid[e.A], e.Pend, firstDid[e.A]
		}
		tr.Emit(line)
	}
	for _, l := range tlines {
		tr.Emit(l)
	}
	sidOf := map[string]int{}
	sort.SliceStable(ssend, func(i, j int) bool { return ssend[i].line["id"].(int) < ssend[j].line["id"].(int) }) // sentS[id] = reply id
	for _, e := range ssend {
		l := e.line
		sid := l["id"].(int)
		sidOf[l["payload"].(string)] = sid
		tr.Emit(map[string]any{"ev": "SSend", "id": sid, "src": l["tok"], "a": sidAssoc[sid], "sz": l["sz"], "rd": l["sz"], "nw": 1, "fits": true, "t": ms(e.t)})
	}
	saltTok := map[string]int{}
	wants := map[int]string{tokA: string(socksAddr(taddr)), tokB: string(socksAddr(taddr53))}
	for _, e := range crecv {
		l := e.line
		pt := l["pt"].(string)
		line := map[string]any{"ev": "CRecv", "sid": 0, "a": 0, "c": l["c"], "key": l["key"], "salt": 0, "hdr": -1, "sz": 0, "p": -1, "wire": l["wire"], "t": ms(e.t)}
		if l["key"].(int) != 0 {
			s := l["salt"].(string)
			if _, ok := saltTok[s]; !ok {
				saltTok[s] = len(saltTok) + 1
			}
			line["salt"] = saltTok[s]
			for tk, want := range wants {
				if !strings.HasPrefix(pt, want) {
					continue
				}
				body := pt[len(want):]
				line["hdr"] = tk
				line["sz"] = len(body)
				if sid, ok := sidOf[body]; ok {
					line["sid"], line["p"], line["a"] = sid, sid, sidAssoc[sid]
				}
			}
		}
		tr.Emit(line)
	}
	if ei.Returned {
		tr.Emit(map[string]any{"ev": "Closing"})
	}
	tr.Emit(map[string]any{"ev": "Clock", "t": ms(time.Now()) + 1})
	if sum != "" {
		hx.WriteJSON(sum, map[string]any{"end": ei, "datagrams": len(csend), "forwarded": len(trecv), "relayed": len(crecv),
			"associations": int(rec.added.Load())})
	}
	fmt.Printf("conc: clients=%d datagrams=%d forwarded=%d relayed=%d associations=%d returned=%v\n", nclients, len(csend), len(trecv), len(crecv),
		int(rec.added.Load()), ei.Returned)
}
