package main

import (
	"context"
	"net"
	"strings"
	"sync/atomic"
)

// (copied from cmd/addrpolicy/dns.go)
// fakeDNS is a minimal in-process DNS server (UDP, A/AAAA only) installed as net.DefaultResolver, so that the
// DEFAULT dialer of the stream handler and net.ResolveUDPAddr in the packet handler resolve the scenario hostnames
// to the answer sets chosen by the specification.
type fakeDNS struct {
	pc      net.PacketConn
	zone    map[string][]net.IP // lower-case FQDN without trailing dot -> addresses (4 or 16 bytes)
	queries int64
}

func startFakeDNS(zone map[string][]net.IP) (*fakeDNS, error) {
	pc, err := net.ListenPacket("udp", "127.0.0.1:0")
	if err != nil {
		return nil, err
	}
	d := &fakeDNS{pc: pc, zone: zone}
	go d.serve()
	addr := pc.LocalAddr().String()
	net.DefaultResolver = &net.Resolver{
		PreferGo: true,
		Dial: func(ctx context.Context, network, _ string) (net.Conn, error) {
			var nd net.Dialer
			return nd.DialContext(ctx, "udp", addr)
		},
	}
	return d, nil
}

func (d *fakeDNS) serve() {
	buf := make([]byte, 2048)
	for {
		n, from, err := d.pc.ReadFrom(buf)
		if err != nil {
			return
		}
		if resp := d.answer(buf[:n]); resp != nil {
			d.pc.WriteTo(resp, from)
		}
	}
}

func (d *fakeDNS) answer(q []byte) []byte {
	if len(q) < 12 || q[2]&0x80 != 0 || int(q[4])<<8|int(q[5]) != 1 {
		return nil
	}
	atomic.AddInt64(&d.queries, 1)
	// question name
	off := 12
	var labels []string
	for {
		if off >= len(q) {
			return nil
		}
		l := int(q[off])
		off++
		if l == 0 {
			break
		}
		if l > 63 || off+l > len(q) {
			return nil
		}
		labels = append(labels, string(q[off:off+l]))
		off += l
	}
	if off+4 > len(q) {
		return nil
	}
	qtype := int(q[off])<<8 | int(q[off+1])
	qend := off + 4
	name := strings.ToLower(strings.Join(labels, "."))
	ips, known := d.zone[name]
	var ans [][]byte
	if known {
		for _, ip := range ips {
			if qtype == 1 && len(ip) == 4 {
				ans = append(ans, ip)
			}
			if qtype == 28 && len(ip) == 16 {
				ans = append(ans, ip)
			}
		}
	}
	resp := make([]byte, 0, 512)
	flags := uint16(0x8180) // QR, RD, RA
	if !known {
		flags |= 3 // NXDOMAIN
	}
	resp = append(resp, q[0], q[1], byte(flags>>8), byte(flags), 0, 1, byte(len(ans)>>8), byte(len(ans)), 0, 0, 0, 0)
	resp = append(resp, q[12:qend]...)
	for _, rd := range ans {
		resp = append(resp, 0xc0, 0x0c, byte(qtype>>8), byte(qtype), 0, 1, 0, 0, 0, 0, byte(len(rd)>>8), byte(len(rd)))
		resp = append(resp, rd...)
	}
	return resp
}
