package main

import (
	"math/rand"
	"time"

	"verifharness/hx"
)

// dns17: the 17 s DNS rule in real time on real sockets (thorough tier).
//
//	client 1: two DNS queries (no fast close), answers at ~0 s, ~8 s and ~16 s after the last query must be relayed,
//	          the association must still exist then and be gone by 17 s + bound
//	client 2: one DNS query + one answer from port 53 -> fast close
//	client 3: one non-DNS datagram -> gone after natTimeout (300 ms) although the DNS associations live on
func dns17Main(out, sum string, seed int64) {
	rng := rand.New(rand.NewSource(seed))
	w := newWorld(rng, false)
	defer w.close()
	tr := hx.NewTrace(out)
	defer tr.Close()
	baseG, _ := repoGoroutines()
	baseFd := fdCount()
	tr.Emit(map[string]any{"ev": "Reset", "beh": 0})
	r := newRun(w, tr, rng, false)
	dg := func(c, dst int) { r.doCDgram(step{A: "CDgram", C: c, K: 1 + c%3, Hdr: true, Dst: dst, Cls: "1000"}) }
	rp := func(src, to int) { r.doTReply(step{A: "TReply", Src: src, To: to, Cls: "1"}) }
	dg(1, tokB)
	dg(1, tokB)
	t1 := time.Now()
	rp(tokB, 1)
	dg(2, tokB)
	rp(tokB, 2) // fast close
	dg(3, tokA)
	r.doTick(step{A: "Tick", D: 1})
	sleepUntil := func(t time.Time) {
		if d := time.Until(t); d > 0 {
			time.Sleep(d)
		}
	}
	sleepUntil(t1.Add(8 * time.Second))
	rp(tokB, 1)
	sleepUntil(t1.Add(16 * time.Second))
	rp(tokB, 1)
	relayed16 := r.nRp
	sleepUntil(t1.Add(17*time.Second + (boundMs+100)*time.Millisecond))
	waitUntil(5*time.Second, func() bool {
		r.emitM(r.rec.take(&r.mcur), 0, 0)
		return len(r.overdue()) == 0
	})
	r.collect(0, 0, 0, time.Now())
	r.clock()
	ei := r.doShutdown(baseG, baseFd)
	hx.WriteJSON(sum, map[string]any{"end": ei, "replies_sent": relayed16, "wall_s": int(time.Since(t1) / time.Second)})
}
