package main

import (
	"net"
	"sync/atomic"
	"time"

	"github.com/Jigsaw-Code/outline-ss-server/service"
)

// lfRecorder: the metrics sink of the concurrent driver.  A recorder with one mutex would order every metrics call
// of the Handle loop after every call of the association goroutines and thereby hide unsynchronised accesses from the
// race detector (it only reports accesses that are not ordered by happens-before).  This one adds as little
// synchronisation as possible: calls made by the Handle loop (AddCipherSearch, AddUDPNatEntry, AddPacketFromClient) go
// to a list owned by that goroutine, calls made by an association's goroutine (AddPacketFromTarget, RemoveNatEntry) to a
// list owned by it; the lists are read after Handle has returned (channel) and after the association's removal has
// been counted (atomic).  Cross-goroutine knowledge is limited to one atomic counter per client address.
type lfRecorder struct {
	evH     []mEvent // Handle goroutine only
	conns   []*lfConn
	live    map[string]*atomic.Int64 // client address -> associations added and not yet removed (map: Handle goroutine only)
	added   atomic.Int64
	removed atomic.Int64
}

type lfConn struct {
	r      *lfRecorder
	a      int
	client string
	keyID  string
	live   *atomic.Int64
	evG    []mEvent // the association's goroutine only
	done   atomic.Bool
}

func newLFRecorder() *lfRecorder { return &lfRecorder{live: map[string]*atomic.Int64{}} }

func (r *lfRecorder) AddUDPNatEntry(clientAddr net.Addr, accessKey string) service.UDPConnMetrics {
	cs := clientAddr.String()
	ctr := r.live[cs]
	if ctr == nil {
		ctr = &atomic.Int64{}
		r.live[cs] = ctr
	}
	pend := int(ctr.Load())
	ctr.Add(1)
	a := len(r.conns) + 1
	c := &lfConn{r: r, a: a, client: cs, keyID: accessKey, live: ctr}
	r.conns = append(r.conns, c)
	r.evH = append(r.evH, mEvent{M: "NatAdd", A: a, Client: cs, KeyID: accessKey, Pend: pend, T: time.Now()})
	r.added.Add(1)
	return c
}

func (r *lfRecorder) AddCipherSearch(found bool, d time.Duration) {
	st := "false"
	if found {
		st = "true"
	}
	r.evH = append(r.evH, mEvent{M: "CS", St: st, T: time.Now()})
}

func (c *lfConn) AddPacketFromClient(status string, cp, pt int64) {
	c.r.evH = append(c.r.evH, mEvent{M: "PktC", A: c.a, Client: c.client, KeyID: c.keyID, St: status, X: cp, Y: pt, T: time.Now()})
}

func (c *lfConn) AddPacketFromTarget(status string, tp, pc int64) {
	if len(c.evG) < 100000 {
		c.evG = append(c.evG, mEvent{M: "PktT", A: c.a, Client: c.client, KeyID: c.keyID, St: status, X: tp, Y: pc, T: time.Now()})
	}
}

func (c *lfConn) RemoveNatEntry() {
	c.evG = append(c.evG, mEvent{M: "NatRemove", A: c.a, Client: c.client, KeyID: c.keyID, T: time.Now()})
	c.live.Add(-1)
	c.done.Store(true)
	c.r.removed.Add(1)
}

// events: only valid after Handle has returned; associations whose removal was never reported are left out
func (r *lfRecorder) events() (evs []mEvent, unfinished int) {
	evs = append(evs, r.evH...)
	for _, c := range r.conns {
		if !c.done.Load() {
			unfinished++
			continue
		}
		evs = append(evs, c.evG...)
	}
	return
}
