// replaycache: conformance driver for service.ReplayCache (spec/ReplayCache.tla).
//
//	seq  -in behaviours.json -out trace.ndjson        spec -> code: execute TLC-generated scripts, record observed results
//	conc -out trace.ndjson -g G -n N -cap C -univ U   code -> spec: G goroutines x N random Add/Resize; the verif hook
//	                                                  under the cache mutex gives the linearization order
//
// The driver never judges: TLC (ReplayCacheTrace) decides on the recorded trace.
package main

import (
	"encoding/binary"
	"flag"
	"fmt"
	"math/rand"
	"os"
	"sync"

	"github.com/Jigsaw-Code/outline-ss-server/service"
	"verifharness/hx"
)

// independent re-implementation of the 32-bit pre-hash (XOR fold of id and salt bytes)
func fold(id string, salt []byte) uint32 {
	var b [4]byte
	for i := 0; i < len(id); i++ {
		b[i%4] ^= id[i]
	}
	for i := range salt {
		b[i%4] ^= salt[i]
	}
	return binary.BigEndian.Uint32(b[:])
}

type hs struct {
	id   string
	salt []byte
	h    uint32
}

// universe of n handshakes (key id, salt) with pairwise distinct pre-hashes
func universe(rng *rand.Rand, n int) []hs {
	seen := map[uint32]bool{}
	out := make([]hs, 0, n)
	sizes := []int{16, 24, 32}
	for len(out) < n {
		// key ids of several shapes and lengths (the pre-hash folds every byte of the id)
		id := []string{"key-%d", "%d", "user-%d", "k%d-access"}[rng.Intn(4)]
		id = fmt.Sprintf(id, rng.Intn(50))
		salt := make([]byte, sizes[rng.Intn(3)])
		rng.Read(salt)
		if len(out) > 0 && rng.Intn(3) == 0 {
			// the same salt under another key is a different handshake
			salt = append([]byte{}, out[len(out)-1].salt...)
		}
		h := fold(id, salt)
		if seen[h] {
			continue
		}
		seen[h] = true
		out = append(out, hs{id, salt, h})
	}
	return out
}

type op struct {
	A   string `json:"a"`
	H   int    `json:"h"`
	N   int    `json:"n"`
	Ret *bool  `json:"ret,omitempty"`
}

func main() {
	if len(os.Args) < 2 {
		hx.Fatal("usage: replaycache seq|conc ...")
	}
	mode := os.Args[1]
	fs := flag.NewFlagSet(mode, flag.ExitOnError)
	in := fs.String("in", "", "behaviours json (seq)")
	out := fs.String("out", "trace.ndjson", "trace output")
	seed := fs.Int64("seed", 1, "seed")
	g := fs.Int("g", 4, "goroutines")
	n := fs.Int("n", 1000, "ops per goroutine")
	capa := fs.Int("cap", 10, "initial capacity")
	univ := fs.Int("univ", 20, "number of distinct handshakes")
	presize := fs.Int("presize", 20, "one Resize per this many ops (0 = never)")
	maxcap := fs.Int("maxcap", 0, "Resize chooses from 0..maxcap (default 2*cap)")
	rounds := fs.Int("rounds", 1, "number of independent traces")
	dup := fs.Int("dup", 0, "conc: every goroutine presents the same `dup` fresh handshakes at the same time")
	fs.Parse(os.Args[2:])
	rng := rand.New(rand.NewSource(*seed))
	tr := hx.NewTrace(*out)
	defer tr.Close()

	switch mode {
	case "seq":
		var behs [][]op
		hx.ReadJSON(*in, &behs)
		for _, beh := range behs {
			u := universe(rng, 64)
			var c service.ReplayCache
			for i, o := range beh {
				switch o.A {
				case "New":
					c = service.NewReplayCache(o.N)
					tr.Emit(map[string]any{"ev": "New", "cap": o.N})
				case "Add":
					x := u[o.H]
					r := c.Add(x.id, x.salt)
					tr.Emit(map[string]any{"ev": "Add", "h": int64(x.h), "ret": r, "tok": o.H})
				case "Resize":
					if err := c.Resize(o.N); err != nil {
						hx.Fatal("resize: %v", err)
					}
					tr.Emit(map[string]any{"ev": "Resize", "n": o.N})
				default:
					hx.Fatal("behaviour step %d: unknown action %q", i, o.A)
				}
			}
		}
	case "authseq":
		// the same scripts, but every Add is a real client handshake presented to the stream authenticator that shares
		// the cache (service.NewShadowsocksStreamAuthenticator): accepted = Add returned true, ERR_REPLAY_CLIENT = false
		var behs [][]op
		hx.ReadJSON(*in, &behs)
		for _, beh := range behs {
			authSeq(tr, rng, beh)
		}
	case "conc":
		if *maxcap == 0 {
			*maxcap = 2 * *capa
		}
		hooked := installHook(tr)
		for r := 0; r < *rounds; r++ {
			u := universe(rng, *univ)
			c := service.NewReplayCache(*capa)
			tr.Emit(map[string]any{"ev": "New", "cap": *capa})
			var wg sync.WaitGroup
			start := make(chan struct{})
			for gi := 0; gi < *g; gi++ {
				wg.Add(1)
				lr := rand.New(rand.NewSource(*seed*1000 + int64(r)*100 + int64(gi)))
				go func(gi int) {
					defer wg.Done()
					<-start
					for i := 0; i < *n; i++ {
						if *presize > 0 && lr.Intn(*presize) == 0 {
							nc := lr.Intn(*maxcap + 1)
							c.Resize(nc)
							if !hooked {
								tr.Emit(map[string]any{"ev": "Resize", "n": nc})
							}
							continue
						}
						var x hs
						if *dup > 0 && i < *dup {
							x = u[i] // every goroutine presents the same handshake: exactly one may win
						} else {
							x = u[lr.Intn(len(u))]
						}
						ret := c.Add(x.id, x.salt)
						if !hooked {
							tr.Emit(map[string]any{"ev": "Add", "h": int64(x.h), "ret": ret})
						}
					}
				}(gi)
			}
			close(start)
			wg.Wait()
		}
		if !hooked && *g > 1 {
			hx.Fatal("concurrent mode needs the verif hook for a linearization order (build with -tags verif)")
		}
	default:
		hx.Fatal("unknown mode %s", mode)
	}
}
