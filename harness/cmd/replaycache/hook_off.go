//go:build !verif

package main

import "verifharness/hx"

func installHook(tr *hx.Trace) bool { return false }
