//go:build verif

package main

import (
	"github.com/Jigsaw-Code/outline-ss-server/service"
	"verifharness/hx"
)

// installHook: events are emitted by the code while it holds the cache mutex, so the order of lines in the
// trace is the linearization order.
func installHook(tr *hx.Trace) bool {
	service.VerifTrace = func(ev string, a, b int64) {
		switch ev {
		case "replay.add":
			tr.Emit(map[string]any{"ev": "Add", "h": a, "ret": b != 0})
		case "replay.resize":
			tr.Emit(map[string]any{"ev": "Resize", "n": a})
		}
	}
	return true
}
