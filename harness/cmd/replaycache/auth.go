package main

import (
	"bytes"
	"container/list"
	"fmt"
	"io"
	"math/rand"
	"net"
	"time"

	"github.com/Jigsaw-Code/outline-sdk/transport/shadowsocks"
	"github.com/Jigsaw-Code/outline-ss-server/service"
	"github.com/shadowsocks/go-shadowsocks2/socks"
	"verifharness/hx"
)

// the access keys of the authenticator universe: the cipher fixes the salt size
var authKeys = []struct {
	id, cipher, secret string
	salt               int
}{
	{"key-0", "chacha20-ietf-poly1305", "secret-0", 32},
	{"key-1", "aes-256-gcm", "secret-1", 32},
	{"key-2", "aes-192-gcm", "secret-2", 24},
	{"key-3", "aes-128-gcm", "secret-3", 16},
	{"key-4", "chacha20-ietf-poly1305", "secret-4", 32},
}

type fixedSalt []byte

func (f fixedSalt) GetSalt(salt []byte) error {
	if len(salt) != len(f) {
		return fmt.Errorf("salt size %d, want %d", len(salt), len(f))
	}
	copy(salt, f)
	return nil
}

// memConn: the opening bytes of one client connection, as a transport.StreamConn
type memConn struct {
	r      *bytes.Reader
	remote net.Addr
}

func (c *memConn) Read(b []byte) (int, error)         { return c.r.Read(b) }
func (c *memConn) Write(b []byte) (int, error)        { return len(b), nil }
func (c *memConn) Close() error                       { return nil }
func (c *memConn) CloseRead() error                   { return nil }
func (c *memConn) CloseWrite() error                  { return nil }
func (c *memConn) LocalAddr() net.Addr                { return &net.TCPAddr{IP: net.IPv4(127, 0, 0, 1), Port: 9000} }
func (c *memConn) RemoteAddr() net.Addr               { return c.remote }
func (c *memConn) SetDeadline(t time.Time) error      { return nil }
func (c *memConn) SetReadDeadline(t time.Time) error  { return nil }
func (c *memConn) SetWriteDeadline(t time.Time) error { return nil }

type authHS struct {
	key  int
	salt []byte
	h    uint32
}

func authSeq(tr *hx.Trace, rng *rand.Rand, beh []op) {
	// universe of handshakes (key, salt) with pairwise distinct pre-hashes
	seen := map[uint32]bool{}
	var u []authHS
	for len(u) < 64 {
		k := rng.Intn(len(authKeys))
		salt := make([]byte, authKeys[k].salt)
		rng.Read(salt)
		h := fold(authKeys[k].id, salt)
		if seen[h] {
			continue
		}
		seen[h] = true
		u = append(u, authHS{k, salt, h})
	}
	l := list.New()
	keys := make([]*shadowsocks.EncryptionKey, len(authKeys))
	for i, k := range authKeys {
		ek, err := shadowsocks.NewEncryptionKey(k.cipher, k.secret)
		if err != nil {
			hx.Fatal("key: %v", err)
		}
		keys[i] = ek
		e := service.MakeCipherEntry(k.id, ek, k.secret)
		l.PushBack(&e)
	}
	cl := service.NewCipherList()
	cl.Update(l)
	var c service.ReplayCache
	var auth service.StreamAuthenticateFunc
	port := 40000
	for i, o := range beh {
		switch o.A {
		case "New":
			c = service.NewReplayCache(o.N)
			// the authenticator is built once, when the cache has its first size; the cache is resized under it later
			auth = service.NewShadowsocksStreamAuthenticator(cl, &c, nil, nil)
			tr.Emit(map[string]any{"ev": "New", "cap": o.N})
		case "Add":
			x := u[o.H]
			var buf bytes.Buffer
			w := shadowsocks.NewWriter(&buf, keys[x.key])
			w.SetSaltGenerator(fixedSalt(x.salt))
			// every presentation of a handshake carries different bytes after the authenticated header (salt + encrypted
			// length): a replay is a replay whatever follows
			tail := make([]byte, 8+rng.Intn(40))
			rng.Read(tail)
			w.Write(append(append([]byte(socks.ParseAddr("192.0.2.1:80")), []byte("hello")...), tail...))
			port++
			id, inner, cerr := auth(&memConn{r: bytes.NewReader(buf.Bytes()), remote: &net.TCPAddr{IP: net.IPv4(127, 0, 0, 1), Port: port}})
			switch {
			case cerr == nil && id == authKeys[x.key].id:
				// the authenticated stream must decrypt to what the client sent
				got := make([]byte, 5+len(socks.ParseAddr("192.0.2.1:80")))
				if _, err := io.ReadFull(inner, got); err != nil || string(got[len(got)-5:]) != "hello" {
					hx.Fatal("behaviour step %d: accepted handshake does not decrypt: %v", i, err)
				}
				tr.Emit(map[string]any{"ev": "Add", "h": int64(x.h), "ret": true, "tok": o.H})
			case cerr != nil && cerr.Status == "ERR_REPLAY_CLIENT" && id == authKeys[x.key].id:
				tr.Emit(map[string]any{"ev": "Add", "h": int64(x.h), "ret": false, "tok": o.H})
			default:
				st := "OK"
				if cerr != nil {
					st = cerr.Status
				}
				hx.Fatal("behaviour step %d: authenticator returned id=%q status=%s for a valid handshake of %s", i, id, st, authKeys[x.key].id)
			}
		case "Resize":
			if err := c.Resize(o.N); err != nil {
				hx.Fatal("resize: %v", err)
			}
			tr.Emit(map[string]any{"ev": "Resize", "n": o.N})
		default:
			hx.Fatal("behaviour step %d: unknown action %q", i, o.A)
		}
	}
}
