package main

import (
	"bytes"
	crand "crypto/rand"
	"encoding/hex"
	"errors"
	"io"
	"math/rand"
	"net"
	"sync"

	"github.com/Jigsaw-Code/outline-sdk/transport"
	onet "github.com/Jigsaw-Code/outline-ss-server/net"
	"github.com/Jigsaw-Code/outline-ss-server/service"
)

// ---------------------------------------------------------------------------------------------------------------
// `fault` (C08): the system's entropy source fails while response salts are drawn.  crypto/rand.Reader is a package
// variable: for a bounded window it is replaced by a reader that fails the next N reads (then works again) and is
// restored afterwards.  During the window a few genuine connections per cipher class (32-, 32-, 24- and 16-byte salts)
// are authenticated by the real authenticator and their response is started.  Recorded for TLC (TcpAuthTrace): either
// NoResp (the first write failed, no response stream - EntropyFails of the specification) or the response's first
// saltSize bytes (Resp), which must then be NEW like any other response salt and, for marked classes, carry the mark.
// The client streams are built before the window (the harness itself needs randomness for its salts).
// ---------------------------------------------------------------------------------------------------------------

type failingReader struct {
	mu    sync.Mutex
	left  int
	inner io.Reader
	fails int
}

func (f *failingReader) Read(b []byte) (int, error) {
	f.mu.Lock()
	if f.left > 0 {
		f.left--
		f.fails++
		f.mu.Unlock()
		return 0, errors.New("verif: injected entropy failure")
	}
	f.mu.Unlock()
	return f.inner.Read(b)
}

func modeFault(outPath string, perCase int, seed int64) {
	keys := []keySpec{{Name: 1, Cls: 1, Sec: 1}, {Name: 2, Cls: 2, Sec: 2}, {Name: emptyName, Cls: 3, Sec: 3}, {Name: 4, Cls: 4, Sec: 4}}
	reg := newRegistry()
	cl := service.NewCipherList()
	cl.Update(reg.build(keys, 1))
	cache := service.NewReplayCache(0)
	auths := []service.StreamAuthenticateFunc{service.NewShadowsocksStreamAuthenticator(cl, &cache, nil, nil),
		service.NewShadowsocksStreamAuthenticator(cl, &cache, nil, debugLogger(true))}
	rng := rand.New(rand.NewSource(seed))
	payload := []byte("response bytes of the fault stage")

	tr := newTrace(outPath)
	defer tr.Close()
	tr.Emit(ev{"ev": "New", "cache": "zero", "seed": seed, "fault": true})
	intern := map[string]int{}
	tok := func(b []byte) int {
		h := hex.EncodeToString(b)
		if t, ok := intern[h]; ok {
			return t
		}
		intern[h] = len(intern) + 1
		return len(intern)
	}
	orig := crand.Reader
	defer func() { crand.Reader = orig }()
	nconn, nresp, nnoresp, injected := 0, 0, 0, 0
	// failures per connection: fewer than, exactly and more than any plausible retry budget; 0 = healthy source
	for _, fails := range []int{0, 1, 2, 3, 4, 7, 1000, 0} {
		for _, ks := range keys {
			key := encKey(ks.Cls, ks.Sec)
			ss := saltSizes[ks.Cls]
			streams := make([][]byte, perCase)
			for i := range streams {
				streams[i] = validStream(key, i, nil, rng) // before the window
			}
			for i := 0; i < perCase; i++ {
				c := &capConn{memConn: memConn{r: bytes.NewReader(streams[i]), ip: net.IPv4(127, 0, 0, 2).To4()}}
				tr.Emit(ev{"ev": "Hello", "c": 1, "k": ks.Cls, "t": tok(streams[i][:ss]), "form": "fresh", "entropy_failures": fails})
				fr := &failingReader{left: fails, inner: orig}
				crand.Reader = fr // ---- fault window
				var id string
				var err *onet.ConnectionError
				var werr error
				pi := guard(func() {
					var conn transport.StreamConn
					id, conn, err = auths[i%2](c) // every second connection: -verbose
					if err == nil {
						_, werr = conn.Write(payload)
					}
				})
				crand.Reader = orig // ---- restored
				if pi != nil {
					tr.Emit(ev{"ev": "Panic", "c": 1, "where": pi.Where, "msg": pi.Msg, "cls": ks.Cls})
					nconn++
					continue
				}
				injected += fr.fails
				nconn++
				if err != nil {
					tr.Emit(ev{"ev": "Auth", "c": 1, "name": 0, "st": err.Status})
					continue
				}
				tr.Emit(ev{"ev": "Auth", "c": 1, "name": nameOfID(id), "st": "OK"})
				if len(c.out) < ss {
					nnoresp++
					e := ev{"ev": "NoResp", "c": 1, "bytes": len(c.out)}
					if werr != nil {
						e["err"] = werr.Error()
					}
					tr.Emit(e)
					continue
				}
				nresp++
				salt := c.out[:ss]
				tr.Emit(ev{"ev": "Resp", "c": 1, "t": tok(salt), "mark": markOK(secretOf(ks.Sec), salt), "bytes": len(c.out), "cls": ks.Cls,
					"salt": hex.EncodeToString(salt), "entropy_failures": fails})
			}
		}
	}
	writeJSONStdout(map[string]any{"connections": nconn, "responses": nresp, "no_response": nnoresp, "injected_failures": injected})
}
