package main

import (
	"bufio"
	"bytes"
	"container/list"
	"context"
	"crypto/hmac"
	"crypto/sha1"
	"errors"
	"fmt"
	"io"
	"log/slog"
	"math/rand"
	"net"
	"net/netip"
	"runtime/debug"
	"strconv"
	"strings"
	"sync"
	"time"

	"github.com/Jigsaw-Code/outline-sdk/transport"
	"github.com/Jigsaw-Code/outline-sdk/transport/shadowsocks"
	onet "github.com/Jigsaw-Code/outline-ss-server/net"
	"github.com/Jigsaw-Code/outline-ss-server/service"
	"github.com/Jigsaw-Code/outline-ss-server/service/metrics"
	"github.com/shadowsocks/go-shadowsocks2/socks"
)

// ---------------------------------------------------------------------------------------------------------------
// keys
// ---------------------------------------------------------------------------------------------------------------

// cipher classes of spec/CipherList.tla: 1 chacha20, 2 aes-256, 3 aes-192, 4 aes-128
var cipherNames = []string{"", "chacha20-ietf-poly1305", "aes-256-gcm", "aes-192-gcm", "aes-128-gcm"}
var saltSizes = []int{0, 32, 32, 24, 16}

const tagSize = 16

type keySpec struct {
	Name int `json:"name"`
	Cls  int `json:"cls"`
	Sec  int `json:"sec"`
}

func secretOf(sec int) string { return fmt.Sprintf("secret-%d", sec) }
// emptyName: the name token of the key that is configured WITHOUT an id (both config formats allow it): its ID is "".
const emptyName = 99

func idOf(name int) string {
	if name == emptyName {
		return ""
	}
	return fmt.Sprintf("id-%d", name)
}

// debugLogger: what -verbose gives the service: a DEBUG-level logger (output discarded)
func debugLogger(on bool) *slog.Logger {
	if !on {
		return nil
	}
	return slog.New(slog.NewTextHandler(io.Discard, &slog.HandlerOptions{Level: slog.LevelDebug}))
}

// nameOfID maps the ID string of an ENTRY the real code returned / reported back to the name token: "id-7" -> 7,
// "" -> emptyName, anything else -> -1.  It is only called where the real code did return an entry (authenticator
// error == nil, AddAuthenticated called): "no key" and "the key with the empty id" are told apart by that, never by
// the string.
func nameOfID(id string) int {
	if id == "" {
		return emptyName
	}
	if strings.HasPrefix(id, "id-") {
		if n, err := strconv.Atoi(id[3:]); err == nil {
			return n
		}
	}
	return -1
}

var keyCache sync.Map

func encKeySecret(cls int, secret string) *shadowsocks.EncryptionKey {
	k := fmt.Sprintf("%d/%s", cls, secret)
	if v, ok := keyCache.Load(k); ok {
		return v.(*shadowsocks.EncryptionKey)
	}
	key, err := shadowsocks.NewEncryptionKey(cipherNames[cls], secret)
	if err != nil {
		fatal("NewEncryptionKey(%s): %v", cipherNames[cls], err)
	}
	keyCache.Store(k, key)
	return key
}

func encKey(cls, sec int) *shadowsocks.EncryptionKey { return encKeySecret(cls, secretOf(sec)) }

// registry maps the *CipherEntry objects handed to the real list back to the element tokens of the specification
// (token = position in creation order, as UpdateCore allocates them).
type entInfo struct {
	Tok  int
	Spec keySpec
	Gen  int
}

type registry struct {
	mu    sync.RWMutex
	byPtr map[*service.CipherEntry]*entInfo
	all   []*entInfo
	// nolock: the registry is complete before the concurrent phase starts and is only read afterwards; no
	// synchronisation is added that could hide a race of the code under test (driver `conc`)
	nolock bool
}

func newRegistry() *registry { return &registry{byPtr: map[*service.CipherEntry]*entInfo{}} }

func (r *registry) build(specs []keySpec, gen int) *list.List {
	l := list.New()
	if !r.nolock {
		r.mu.Lock()
		defer r.mu.Unlock()
	}
	for _, s := range specs {
		entry := service.MakeCipherEntry(idOf(s.Name), encKey(s.Cls, s.Sec), secretOf(s.Sec))
		p := &entry
		info := &entInfo{Tok: len(r.all) + 1, Spec: s, Gen: gen}
		r.all = append(r.all, info)
		r.byPtr[p] = info
		l.PushBack(p)
	}
	return l
}

func (r *registry) tokOf(e *list.Element) int {
	if e == nil {
		return -1
	}
	p, ok := e.Value.(*service.CipherEntry)
	if !ok {
		return -1
	}
	if !r.nolock {
		r.mu.RLock()
		defer r.mu.RUnlock()
	}
	if info := r.byPtr[p]; info != nil {
		return info.Tok
	}
	return -1
}

func (r *registry) toks(es []*list.Element) []int {
	out := make([]int, len(es))
	for i, e := range es {
		out[i] = r.tokOf(e)
	}
	return out
}

// ---------------------------------------------------------------------------------------------------------------
// recording / gating wrapper around the real CipherList (public interface only)
// ---------------------------------------------------------------------------------------------------------------

type snapEv struct {
	ip    netip.Addr
	order []int
}

type markReq struct {
	tok     int
	ip      netip.Addr
	release chan struct{}
	done    chan struct{}
	// set before done is closed if the real call panicked
	panicked string
}

type recList struct {
	inner  service.CipherList
	reg    *registry
	snapCh chan snapEv   // every snapshot the server took (nil: not recorded)
	markCh chan *markReq // every MarkUsedByClientIP call parks here until released (nil: pass through)
}

func (r *recList) SnapshotForClientIP(ip netip.Addr) []*list.Element {
	s := r.inner.SnapshotForClientIP(ip)
	if r.snapCh != nil {
		r.snapCh <- snapEv{ip, r.reg.toks(s)}
	}
	return s
}

func (r *recList) MarkUsedByClientIP(e *list.Element, ip netip.Addr) {
	if r.markCh == nil {
		r.inner.MarkUsedByClientIP(e, ip)
		return
	}
	req := &markReq{tok: r.reg.tokOf(e), ip: ip, release: make(chan struct{}), done: make(chan struct{})}
	r.markCh <- req
	<-req.release
	defer func() {
		if p := recover(); p != nil {
			req.panicked = fmt.Sprint(p)
			close(req.done)
			panic(p)
		}
		close(req.done)
	}()
	r.inner.MarkUsedByClientIP(e, ip)
}

func (r *recList) Update(l *list.List) { r.inner.Update(l) }

// ---------------------------------------------------------------------------------------------------------------
// per-connection record: everything the observers saw
// ---------------------------------------------------------------------------------------------------------------

type connRec struct {
	id int
	mu sync.Mutex

	authDone chan struct{} // closed when the authenticator returned
	authName string
	authSt   string // "OK" or the ConnectionError status

	authmCalled bool
	authm       string
	closedDone  chan struct{}
	closedSt    string
	probeCalled bool
	probeSt     string
	probeDrain  string
	probeBytes  int64

	panicked  string
	dials     int
	dialAddr  string
	tgtGate   chan struct{} // closed when the fake target may answer
	tgtGot    string
	tgtCount  int
	gateOnce  sync.Once
	authOnce  sync.Once
	closeOnce sync.Once

	// client side
	raw    []byte
	rdDone chan struct{}
	rdErr  error
	rdEnd  time.Time
}

func newConnRec(id int) *connRec {
	return &connRec{id: id, authDone: make(chan struct{}), closedDone: make(chan struct{}), tgtGate: make(chan struct{}),
		rdDone: make(chan struct{})}
}

func (c *connRec) openGate() { c.gateOnce.Do(func() { close(c.tgtGate) }) }

type recMetrics struct{ rec *connRec }

func (m *recMetrics) AddAuthenticated(accessKey string) {
	m.rec.mu.Lock()
	m.rec.authmCalled, m.rec.authm = true, accessKey
	m.rec.mu.Unlock()
}
func (m *recMetrics) AddClosed(status string, data metrics.ProxyMetrics, duration time.Duration) {
	m.rec.mu.Lock()
	m.rec.closedSt = status
	m.rec.mu.Unlock()
	m.rec.closeOnce.Do(func() { close(m.rec.closedDone) })
}
func (m *recMetrics) AddProbe(status, drainResult string, clientProxyBytes int64) {
	m.rec.mu.Lock()
	m.rec.probeCalled, m.rec.probeSt, m.rec.probeDrain, m.rec.probeBytes = true, status, drainResult, clientProxyBytes
	m.rec.mu.Unlock()
}

// ---------------------------------------------------------------------------------------------------------------
// server under test: real CipherList behind the wrapper, real authenticator, real stream handler, loopback listener,
// recording dialer, fake target
// ---------------------------------------------------------------------------------------------------------------

type server struct {
	ln      *net.TCPListener
	addr    *net.TCPAddr
	tln     *net.TCPListener
	taddr   *net.TCPAddr
	handler service.StreamHandler
	cl      *recList
	reg     *registry
	timeout time.Duration
	memTgt  bool

	mu     sync.Mutex
	cond   *sync.Cond
	byAddr map[string]*connRec
	byID   map[int]*connRec
	nextID int
	ctx    context.Context
	cancel context.CancelFunc
	wg     sync.WaitGroup
}

// cacheMode: "nil" (no replay cache object), "zero" (capacity 0), "on" (capacity 10000)
func newServer(cacheMode string, timeout time.Duration, gateMark, recSnap, memTgt, debug bool) *server {
	s := &server{reg: newRegistry(), timeout: timeout, byAddr: map[string]*connRec{}, byID: map[int]*connRec{}, memTgt: memTgt}
	s.cond = sync.NewCond(&s.mu)
	s.ctx, s.cancel = context.WithCancel(context.Background())
	s.cl = &recList{inner: service.NewCipherList(), reg: s.reg}
	if recSnap {
		s.cl.snapCh = make(chan snapEv, 1024)
	}
	if gateMark {
		s.cl.markCh = make(chan *markReq, 1024)
	}
	var cache *service.ReplayCache
	switch cacheMode {
	case "nil":
	case "zero":
		c := service.NewReplayCache(0)
		cache = &c
	case "on":
		c := service.NewReplayCache(10000)
		cache = &c
	default:
		fatal("cache mode %q", cacheMode)
	}
	auth := service.NewShadowsocksStreamAuthenticator(s.cl, cache, nil, debugLogger(debug))
	wrapped := func(c transport.StreamConn) (string, transport.StreamConn, *onet.ConnectionError) {
		id, inner, err := auth(c)
		rec := s.lookup(c.RemoteAddr().String())
		rec.mu.Lock()
		rec.authName = id
		if err == nil {
			rec.authSt = "OK"
		} else {
			rec.authSt = err.Status
		}
		rec.mu.Unlock()
		rec.authOnce.Do(func() { close(rec.authDone) })
		return id, inner, err
	}
	s.handler = service.NewStreamHandler(wrapped, timeout)
	s.handler.SetTargetDialer(&recDialer{s})
	if debug {
		s.handler.SetLogger(debugLogger(true))
	}

	var err error
	s.ln, err = net.ListenTCP("tcp", &net.TCPAddr{IP: net.IPv4(127, 0, 0, 1)})
	if err != nil {
		fatal("listen: %v", err)
	}
	s.addr = s.ln.Addr().(*net.TCPAddr)
	if !memTgt {
		s.tln, err = net.ListenTCP("tcp", &net.TCPAddr{IP: net.IPv4(127, 0, 0, 1)})
		if err != nil {
			fatal("listen target: %v", err)
		}
		s.taddr = s.tln.Addr().(*net.TCPAddr)
		s.wg.Add(1)
		go s.targetLoop()
	}
	s.wg.Add(1)
	go s.acceptLoop()
	return s
}

func (s *server) close() {
	s.cancel()
	s.ln.Close()
	if s.tln != nil {
		s.tln.Close()
	}
	// StreamServe waits for its handlers; one that is still parked (a crashed scenario) must not hold the driver
	done := make(chan struct{})
	go func() { s.wg.Wait(); close(done) }()
	waitCh(done, 3*time.Second)
}

// acceptLoop: the repository's own accept loop (service.StreamServe), which recovers a panicking handler, logs
// "Panic in TCP handler" and closes the connection.  The handle function records the panic on the connection's record
// first (so that it is an OBSERVATION of this connection: its lookup crashed) and lets StreamServe deal with it.
func (s *server) acceptLoop() {
	defer s.wg.Done()
	service.StreamServe(service.WrapStreamAcceptFunc(s.ln.AcceptTCP), func(ctx context.Context, c transport.StreamConn) {
		rec := s.lookup(c.RemoteAddr().String())
		defer func() {
			if r := recover(); r != nil {
				rec.mu.Lock()
				if rec.authSt == "" {
					rec.authSt = "PANIC"
				}
				if rec.closedSt == "" {
					rec.closedSt = "PANIC"
				}
				rec.panicked = fmt.Sprint(r)
				rec.mu.Unlock()
				rec.authOnce.Do(func() { close(rec.authDone) })
				rec.closeOnce.Do(func() { close(rec.closedDone) })
				panic(r)
			}
		}()
		s.handler.Handle(s.ctx, c, &recMetrics{rec})
	})
}

// panicLog: slog handler installed as the default logger; counts the "Panic in TCP handler" records of StreamServe
type panicLog struct {
	mu   sync.Mutex
	n    int
	last string
}

var panics = &panicLog{}

func (p *panicLog) Enabled(context.Context, slog.Level) bool { return true }
func (p *panicLog) Handle(_ context.Context, r slog.Record) error {
	if strings.Contains(r.Message, "Panic in TCP handler") {
		p.mu.Lock()
		p.n++
		r.Attrs(func(a slog.Attr) bool {
			if a.Key == "err" {
				p.last = a.Value.String()
			}
			return true
		})
		p.mu.Unlock()
	}
	return nil
}
func (p *panicLog) WithAttrs([]slog.Attr) slog.Handler { return p }
func (p *panicLog) WithGroup(string) slog.Handler      { return p }
func (p *panicLog) count() (int, string) {
	p.mu.Lock()
	defer p.mu.Unlock()
	return p.n, p.last
}

func init() { slog.SetDefault(slog.New(panics)) }

// lookup blocks until the client side has registered the connection (it does so right after Dial returned)
func (s *server) lookup(addr string) *connRec {
	s.mu.Lock()
	defer s.mu.Unlock()
	for s.byAddr[addr] == nil {
		s.cond.Wait()
	}
	return s.byAddr[addr]
}

func (s *server) newRec() *connRec {
	s.mu.Lock()
	defer s.mu.Unlock()
	s.nextID++
	rec := newConnRec(s.nextID)
	s.byID[rec.id] = rec
	return rec
}

func (s *server) register(addr string, rec *connRec) {
	s.mu.Lock()
	s.byAddr[addr] = rec
	s.mu.Unlock()
	s.cond.Broadcast()
}

func (s *server) forget(addr string, rec *connRec) {
	s.mu.Lock()
	if s.byAddr[addr] == rec {
		delete(s.byAddr, addr)
	}
	delete(s.byID, rec.id)
	s.mu.Unlock()
}

func (s *server) openAllGates() {
	s.mu.Lock()
	recs := make([]*connRec, 0, len(s.byID))
	for _, r := range s.byID {
		recs = append(recs, r)
	}
	s.mu.Unlock()
	for _, r := range recs {
		r.openGate()
	}
}

func (s *server) recByID(id int) *connRec {
	s.mu.Lock()
	defer s.mu.Unlock()
	return s.byID[id]
}

func targetHost(id int) string { return fmt.Sprintf("c%d.verif.test:80", id) }

func idOfTarget(addr string) int {
	if strings.HasPrefix(addr, "c") {
		if i := strings.Index(addr, ".verif.test"); i > 1 {
			if n, err := strconv.Atoi(addr[1:i]); err == nil {
				return n
			}
		}
	}
	return -1
}

// recDialer: records every dial (attributed to the connection by the target name the client asked for) and connects
// to the fake target
type recDialer struct{ s *server }

func (d *recDialer) DialStream(ctx context.Context, raddr string) (transport.StreamConn, error) {
	rec := d.s.recByID(idOfTarget(raddr))
	if rec == nil {
		return nil, fmt.Errorf("verif: dial for unknown target %q", raddr)
	}
	rec.mu.Lock()
	rec.dials++
	rec.dialAddr = raddr
	rec.mu.Unlock()
	if d.s.memTgt {
		return newMemTarget(rec), nil
	}
	return net.DialTCP("tcp", nil, d.s.taddr)
}

func respPayload(id int) []byte { return []byte(fmt.Sprintf("RESP %d hello from the target\n", id)) }

func (s *server) targetLoop() {
	defer s.wg.Done()
	for {
		c, err := s.tln.AcceptTCP()
		if err != nil {
			return
		}
		go func() {
			defer c.Close()
			c.SetDeadline(time.Now().Add(20 * time.Second))
			br := bufio.NewReader(c)
			line, err := br.ReadString('\n')
			if err != nil || !strings.HasPrefix(line, "REQ ") {
				return
			}
			id, _ := strconv.Atoi(strings.TrimSpace(line[4:]))
			rec := s.recByID(id)
			if rec == nil {
				return
			}
			rec.mu.Lock()
			rec.tgtGot = line
			rec.tgtCount++
			first := rec.tgtCount == 1
			rec.mu.Unlock()
			// only the connection's own request is held back until the driver lets the target answer; the same request
			// arriving again (a replayed client stream that the server accepted) is answered at once
			if first {
				select {
				case <-rec.tgtGate:
				case <-time.After(15 * time.Second):
					return
				}
			}
			c.Write(respPayload(id))
			c.CloseWrite()
			io.Copy(io.Discard, br)
		}()
	}
}

// memTarget: an in-memory target connection (driver `salts`: saves one TCP connection per client connection)
type memTarget struct {
	rec  *connRec
	r    *bytes.Reader
	once sync.Once
	done chan struct{}
}

func newMemTarget(rec *connRec) *memTarget {
	return &memTarget{rec: rec, r: bytes.NewReader(respPayload(rec.id)), done: make(chan struct{})}
}
func (m *memTarget) Read(b []byte) (int, error) {
	select {
	case <-m.rec.tgtGate:
	case <-m.done:
		return 0, io.EOF
	}
	return m.r.Read(b)
}
func (m *memTarget) Write(b []byte) (int, error)        { return len(b), nil }
func (m *memTarget) Close() error                       { m.once.Do(func() { close(m.done) }); return nil }
func (m *memTarget) CloseRead() error                   { return nil }
func (m *memTarget) CloseWrite() error                  { return nil }
func (m *memTarget) LocalAddr() net.Addr                { return &net.TCPAddr{IP: net.IPv4(127, 0, 0, 1), Port: 1} }
func (m *memTarget) RemoteAddr() net.Addr               { return &net.TCPAddr{IP: net.IPv4(127, 0, 0, 1), Port: 2} }
func (m *memTarget) SetDeadline(t time.Time) error      { return nil }
func (m *memTarget) SetReadDeadline(t time.Time) error  { return nil }
func (m *memTarget) SetWriteDeadline(t time.Time) error { return nil }

// ---------------------------------------------------------------------------------------------------------------
// client
// ---------------------------------------------------------------------------------------------------------------

type client struct {
	s     *server
	conn  *net.TCPConn
	rec   *connRec
	local string
	t0    time.Time // read BEFORE dialling: earlier than the instant the server computed its read deadline
	wfin  bool
}

func clientIP(tok int) net.IP { return net.IPv4(127, 0, byte(tok/250), byte(tok%250+1)).To4() }

// ipTok 1 -> 127.0.0.2 ... (127.0.0.1 is the server/target address; any 127/8 address is local)
func (s *server) connect(ipTok int) (*client, error) {
	rec := s.newRec()
	d := net.Dialer{LocalAddr: &net.TCPAddr{IP: clientIP(ipTok)}, Timeout: 5 * time.Second}
	t0 := time.Now()
	c, err := d.Dial("tcp", s.addr.String())
	if err != nil {
		return nil, err
	}
	tc := c.(*net.TCPConn)
	cl := &client{s: s, conn: tc, rec: rec, local: tc.LocalAddr().String(), t0: t0}
	s.register(cl.local, rec)
	go func() {
		buf := make([]byte, 32*1024)
		for {
			n, err := tc.Read(buf)
			if n > 0 {
				rec.mu.Lock()
				rec.raw = append(rec.raw, buf[:n]...)
				rec.mu.Unlock()
			}
			if err != nil {
				rec.mu.Lock()
				rec.rdErr, rec.rdEnd = err, time.Now()
				rec.mu.Unlock()
				close(rec.rdDone)
				return
			}
		}
	}()
	return cl, nil
}

func (c *client) send(b []byte) {
	if len(b) == 0 {
		return
	}
	c.conn.SetWriteDeadline(time.Now().Add(5 * time.Second))
	c.conn.Write(b) // a reset by the peer is an observation, not a harness failure
}

func (c *client) fin() {
	if !c.wfin {
		c.wfin = true
		c.conn.CloseWrite()
	}
}

func (c *client) close() {
	c.conn.Close()
	c.s.forget(c.local, c.rec)
}

func (c *client) rawLen() int {
	c.rec.mu.Lock()
	defer c.rec.mu.Unlock()
	return len(c.rec.raw)
}

// serverClosedFirst: the read side ended (FIN or RST from the server) already
func (c *client) readEnded() bool {
	select {
	case <-c.rec.rdDone:
		return true
	default:
		return false
	}
}

func waitCh(ch <-chan struct{}, d time.Duration) bool {
	select {
	case <-ch:
		return true
	case <-time.After(d):
		return false
	}
}

// ---------------------------------------------------------------------------------------------------------------
// panics of the code under test
// ---------------------------------------------------------------------------------------------------------------

type panicInfo struct {
	Msg   string
	Where string // top frame inside github.com/Jigsaw-Code/outline-ss-server, "service/file.go:line (func)"
}

// guard runs f the way service.StreamServe runs a connection handler: a panic raised while the code under test works
// for this connection is recovered and described.  It is an OBSERVATION about the server (this client was not
// served), never a failure of the harness.
func guard(f func()) (pi *panicInfo) {
	defer func() {
		if r := recover(); r != nil {
			pi = &panicInfo{Msg: fmt.Sprint(r), Where: repoFrame(string(debug.Stack()))}
		}
	}()
	f()
	return nil
}

const repoModule = "github.com/Jigsaw-Code/outline-ss-server/"

func repoFrame(stack string) string {
	lines := strings.Split(stack, "\n")
	for i := 0; i+1 < len(lines); i++ {
		fn := strings.TrimSpace(lines[i])
		if !strings.HasPrefix(fn, repoModule) {
			continue
		}
		file := strings.TrimSpace(lines[i+1])
		if j := strings.Index(file, " +0x"); j > 0 {
			file = file[:j]
		}
		for _, dir := range []string{"/service/", "/net/", "/prometheus/", "/ipinfo/", "/cmd/"} {
			if j := strings.LastIndex(file, dir); j >= 0 {
				file = file[j+1:]
				break
			}
		}
		if j := strings.LastIndex(fn, "("); j > 0 {
			fn = fn[:j] // drop the argument list
		}
		return file + " (" + strings.TrimPrefix(fn, repoModule) + ")"
	}
	return "(no frame of the repository on the stack)"
}

// ---------------------------------------------------------------------------------------------------------------
// opening byte strings
// ---------------------------------------------------------------------------------------------------------------

type fixedSalt []byte

func (f fixedSalt) GetSalt(salt []byte) error {
	if len(salt) != len(f) {
		return errors.New("verif: salt size mismatch")
	}
	copy(salt, f)
	return nil
}

// validStream: salt | enc(len) | enc(socks address of this connection's private target name + "REQ id\n" + filler)
func validStream(key *shadowsocks.EncryptionKey, connID int, salt []byte, rng *rand.Rand) []byte {
	var buf bytes.Buffer
	w := shadowsocks.NewWriter(&buf, key)
	if salt != nil {
		w.SetSaltGenerator(fixedSalt(salt))
	}
	addr := socks.ParseAddr(targetHost(connID))
	if addr == nil {
		fatal("socks.ParseAddr failed")
	}
	p := append([]byte{}, addr...)
	p = append(p, []byte(fmt.Sprintf("REQ %d\n", connID))...)
	fill := make([]byte, rng.Intn(120))
	rng.Read(fill)
	p = append(p, fill...)
	if _, err := w.Write(p); err != nil {
		fatal("shadowsocks write: %v", err)
	}
	return buf.Bytes()
}

type opSpec struct {
	Kind string `json:"kind"`
	Cls  int    `json:"cls"`
	Sec  int    `json:"sec"`
}

// buildOpener returns the bytes to send, whether the client half-closes after them, and whether nothing more will
// come without a close (the server then waits for its deadline).
func buildOpener(op opSpec, connID int, rng *rand.Rand) (b []byte, fin bool, stall bool, detail string) {
	ss := saltSizes[op.Cls]
	switch op.Kind {
	case "valid":
		return validStream(encKey(op.Cls, op.Sec), connID, nil, rng), false, false, ""
	case "wrongkey":
		return validStream(encKeySecret(op.Cls, fmt.Sprintf("not-configured-%d", rng.Intn(1000))), connID, nil, rng), false, false, ""
	case "random", "bad":
		b = make([]byte, 50+rng.Intn(150))
		rng.Read(b)
		return b, false, false, fmt.Sprintf("len=%d", len(b))
	case "flipsalt", "fliplen", "fliptag":
		b = validStream(encKey(op.Cls, op.Sec), connID, nil, rng)
		var pos int
		switch op.Kind {
		case "flipsalt":
			pos = rng.Intn(ss)
		case "fliplen":
			pos = ss + rng.Intn(2)
		default:
			pos = ss + 2 + rng.Intn(tagSize)
		}
		bit := rng.Intn(8)
		b[pos] ^= 1 << bit
		return b, false, false, fmt.Sprintf("byte=%d bit=%d", pos, bit)
	case "short", "stall":
		b = validStream(encKey(op.Cls, op.Sec), connID, nil, rng)
		ns := []int{0, 1, ss, ss + 2, ss + 17, 49}
		n := ns[rng.Intn(len(ns))]
		return b[:n], op.Kind == "short", op.Kind == "stall", fmt.Sprintf("len=%d", n)
	}
	fatal("unknown opener kind %q", op.Kind)
	return
}

// decryptResponse: what the client can read from the bytes the server sent, with the real SDK reader
func decryptResponse(raw []byte, key *shadowsocks.EncryptionKey) ([]byte, error) {
	r := shadowsocks.NewReader(bytes.NewReader(raw), key)
	return io.ReadAll(r)
}

// ---------------------------------------------------------------------------------------------------------------
// independent implementation of the server-salt mark (RFC 5869 HKDF-SHA1 + HMAC-SHA1), sharing no code with
// service/server_salt.go or x/crypto/hkdf
// ---------------------------------------------------------------------------------------------------------------

func hmacSHA1(key, msg []byte) []byte {
	h := hmac.New(sha1.New, key)
	h.Write(msg)
	return h.Sum(nil)
}

func hkdfSHA1(secret, salt, info []byte, n int) []byte {
	if salt == nil {
		salt = make([]byte, sha1.Size)
	}
	prk := hmacSHA1(salt, secret)
	var okm, t []byte
	for i := 1; len(okm) < n; i++ {
		in := make([]byte, 0, len(t)+len(info)+1)
		in = append(in, t...)
		in = append(in, info...)
		in = append(in, byte(i))
		t = hmacSHA1(prk, in)
		okm = append(okm, t...)
	}
	return okm[:n]
}

func markOK(secret string, salt []byte) bool {
	if len(salt) < 4 {
		return false
	}
	key := hkdfSHA1([]byte(secret), nil, []byte("outline-server-salt"), sha1.Size)
	tag := hmacSHA1(key, salt[:len(salt)-4])
	return bytes.Equal(tag[:4], salt[len(salt)-4:])
}
