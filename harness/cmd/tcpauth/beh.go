package main

import (
	"math/rand"
	"sync"
	"time"
)

// ---------------------------------------------------------------------------------------------------------------
// `beh`: executes TLC-generated behaviours of spec/CipherListGen.tla step by step on the real code.
//
//	Update(shape)      build a real list (shape + padding keys) and call Update on the wrapped real CipherList
//	Snapshot(g,ip,op)  connect from 127.0.0.<ip+1>; the server's findAccessKey takes its snapshot (recorded by the wrapper)
//	Read50(g)          deliver the opening bytes (valid / corrupted / short / stalled); the search then runs on the
//	                   snapshot taken earlier - "Update between snapshot and find" needs no hook
//	Mark(g)            release the server's MarkUsedByClientIP call that the wrapper parked
//	Serve(g)           let the relay run, collect what client, dialer and metrics saw
//
// The driver never judges: it records what happened; TLC (CipherListTrace) decides.
// ---------------------------------------------------------------------------------------------------------------

type behStep struct {
	A     string    `json:"a"`
	G     int       `json:"g"`
	IP    int       `json:"ip"`
	Op    *opSpec   `json:"op"`
	Shape []keySpec `json:"shape"`
}

type lookup struct {
	g        int // slot of the behaviour
	slot     int // slot in the recorded trace: one per lookup, so results may arrive in any order
	ip       int
	op       opSpec
	cl       *client
	pending  *markReq
	marked   bool
	sent     bool
	stall    bool
	finished bool
	released bool
	crashed  bool // the server ended the connection before taking a snapshot
	failed   bool
	lateMs   int64
	detail   string
}

type ev = map[string]any

type behRun struct {
	s      *server
	rng    *rand.Rand
	out    []ev
	cur    map[int]*lookup
	all    []*lookup
	gen    int
	pad    int
	padSeq int
	late   bool
	note   []string
}

const waitStep = 8 * time.Second

func (b *behRun) emit(e ev) { b.out = append(b.out, e) }

func (b *behRun) update(shape []keySpec) {
	specs := append([]keySpec{}, shape...)
	for i := 0; i < b.pad; i++ {
		b.padSeq++
		k := keySpec{Name: 1000 + b.padSeq, Cls: 1 + b.rng.Intn(4), Sec: 1000 + b.padSeq}
		pos := b.rng.Intn(len(specs) + 1)
		specs = append(specs, keySpec{})
		copy(specs[pos+1:], specs[pos:])
		specs[pos] = k
	}
	b.gen++
	l := b.s.reg.build(specs, b.gen)
	b.emit(ev{"ev": "Update", "ents": specs})
	b.s.cl.Update(l)
}

func (b *behRun) snapshot(g, ip int, op opSpec) {
	if old := b.cur[g]; old != nil {
		b.release(old)
	}
	cl, err := b.s.connect(ip)
	if err != nil {
		fatal("connect from ip %d: %v", ip, err)
	}
	lk := &lookup{g: g, slot: len(b.all) + 1, ip: ip, op: op, cl: cl}
	b.cur[g] = lk
	b.all = append(b.all, lk)
	select {
	case sn := <-b.s.cl.snapCh:
		b.emit(ev{"ev": "Snapshot", "g": lk.slot, "ip": ip, "op": op, "order": sn.order, "conn": cl.rec.id})
	case <-cl.rec.closedDone:
		// The handler ended (panicked inside SnapshotForClientIP, or closed the connection) before any byte of the
		// client: no snapshot for this lookup.  That is an observation about the server, not a harness failure.
		select {
		case sn := <-b.s.cl.snapCh:
			b.emit(ev{"ev": "Snapshot", "g": lk.slot, "ip": ip, "op": op, "order": sn.order, "conn": cl.rec.id})
		default:
			cl.rec.mu.Lock()
			why := cl.rec.panicked
			cl.rec.mu.Unlock()
			if why == "" {
				why = "connection ended by the server"
			} else {
				why = "panic: " + why
			}
			b.emit(ev{"ev": "NoSnapshot", "g": lk.slot, "ip": ip, "op": op, "why": why, "conn": cl.rec.id})
			lk.sent, lk.crashed = true, true
		}
	case <-time.After(waitStep):
		fatal("neither a snapshot nor the end of the connection within %v after connecting (conn %d)", waitStep, cl.rec.id)
	}
}

func (b *behRun) read50(g int) {
	lk := b.cur[g]
	if lk == nil || lk.sent || lk.crashed {
		return
	}
	bytes, fin, stall, detail := buildOpener(lk.op, lk.cl.rec.id, b.rng)
	lk.detail = detail
	lk.sent, lk.stall = true, stall
	lk.cl.send(bytes)
	if fin {
		lk.cl.fin()
	}
	lk.lateMs = time.Since(lk.cl.t0).Milliseconds()
	ok := !(fin || stall)
	b.emit(ev{"ev": "Read50", "g": lk.slot, "ok": ok, "detail": detail, "sent": len(bytes)})
	if stall {
		return // the server waits for its deadline; the result is collected when the slot is needed again
	}
	// the search runs now; its outcome shows either as a parked Mark call or as the authenticator's return
	select {
	case mr := <-b.s.cl.markCh:
		lk.pending = mr
		b.emit(ev{"ev": "Find", "g": lk.slot, "e": mr.tok})
	case <-lk.cl.rec.authDone:
		lk.failed = true
		lk.cl.rec.mu.Lock()
		crashed := lk.cl.rec.authSt == "PANIC"
		lk.cl.rec.mu.Unlock()
		if ok && !crashed {
			b.emit(ev{"ev": "Find", "g": lk.slot, "e": 0})
		}
		b.release(lk)
	case <-time.After(waitStep):
		fatal("neither a Mark call nor an authentication result within %v (conn %d, %v)", waitStep, lk.cl.rec.id, lk.op)
	}
}

func (b *behRun) mark(g int) {
	if lk := b.cur[g]; lk != nil {
		b.markLk(lk)
	}
}

func (b *behRun) markLk(lk *lookup) {
	if lk.pending == nil {
		return
	}
	mr := lk.pending
	lk.pending = nil
	close(mr.release)
	if !waitCh(mr.done, waitStep) {
		fatal("MarkUsedByClientIP did not return within %v", waitStep)
	}
	lk.marked = true
	ipTok := 0
	if a := mr.ip.Unmap(); a.Is4() && a.As4()[0] == 127 && a.As4()[1] == 0 {
		ipTok = int(a.As4()[2])*250 + int(a.As4()[3]) - 1
	}
	me := ev{"ev": "Mark", "g": lk.slot, "e": mr.tok, "ip": ipTok}
	if mr.panicked != "" {
		me["panic"] = mr.panicked
	}
	b.emit(me)
}

// release: let the connection run to its end without waiting for it (so that the other connections of the behaviour
// are never held up); collect() records what every observer saw, at the end of the behaviour.
func (b *behRun) release(lk *lookup) {
	if lk.released {
		return
	}
	if !lk.sent {
		fatal("behaviour ended with a lookup that never got its opening bytes (slot %d)", lk.g)
	}
	b.markLk(lk)
	lk.released = true
	lk.cl.rec.openGate()
	if lk.stall {
		return // ends at the server's deadline
	}
	rec := lk.cl.rec
	if !waitCh(rec.authDone, waitStep) {
		fatal("authenticator did not return within %v (conn %d)", waitStep, rec.id)
	}
	rec.mu.Lock()
	st := rec.authSt
	rec.mu.Unlock()
	if st != "OK" {
		// refused: the server must hold the connection open until the client closes
		lk.cl.fin()
	}
}

func (b *behRun) collect(lk *lookup) {
	if lk.finished {
		return
	}
	lk.finished = true
	b.release(lk)
	rec := lk.cl.rec
	limit := b.s.timeout + waitStep
	if !waitCh(rec.authDone, limit) {
		fatal("authenticator did not return within %v (conn %d)", limit, rec.id)
	}
	rec.mu.Lock()
	st := rec.authSt
	rec.mu.Unlock()
	if st == "OK" {
		// the target answers and closes; the server relays and half-closes; then the client closes.  (No answer
		// within this time is recorded as such - bytes = 0 - and judged by nobody: the property only speaks about
		// effects for the UNauthenticated.)
		waitCh(rec.rdDone, 1500*time.Millisecond)
		lk.cl.fin()
	}
	if !waitCh(rec.closedDone, limit) {
		fatal("connection %d was not closed within %v (status %s)", rec.id, limit, st)
	}
	waitCh(rec.rdDone, waitStep)
	rec.mu.Lock()
	name := 0
	if st == "OK" {
		name = nameOfID(rec.authName)
	}
	authm := 0
	if rec.authmCalled {
		authm = nameOfID(rec.authm)
	}
	raw := append([]byte{}, rec.raw...)
	e := ev{"ev": "Result", "g": lk.slot, "name": name, "st": st, "dial": rec.dials > 0, "bytes": len(raw), "authm": authm,
		"closed": rec.closedSt, "probe": rec.probeSt, "drain": rec.probeDrain, "conn": rec.id}
	if rec.panicked != "" {
		e["panic"] = rec.panicked
	}
	rec.mu.Unlock()
	if st == "OK" && lk.op.Kind == "valid" {
		plain, err := decryptResponse(raw, encKey(lk.op.Cls, lk.op.Sec))
		e["respok"] = err == nil && string(plain) == string(respPayload(rec.id))
	}
	b.emit(e)
	lk.cl.close()
	// a valid opener that was refused after reaching the server later than half the handshake timeout (machine
	// load) proves nothing: the scenario is re-run / dropped
	if lk.op.Kind == "valid" && st != "OK" && lk.lateMs > b.s.timeout.Milliseconds()/2 {
		b.late = true
	}
}

func runBehaviour(steps []behStep, seed int64, pad int, timeout time.Duration, debug bool) (out []ev, late bool) {
	b := &behRun{s: newServer("nil", timeout, true, true, false, debug), rng: rand.New(rand.NewSource(seed)), cur: map[int]*lookup{}, pad: pad}
	defer b.s.close()
	b.emit(ev{"ev": "Reset", "pad": pad, "seed": seed, "debug": debug})
	for i, st := range steps {
		switch st.A {
		case "Update":
			b.update(st.Shape)
		case "Snapshot":
			if st.Op == nil {
				fatal("step %d: Snapshot without opener", i)
			}
			b.snapshot(st.G, st.IP, *st.Op)
		case "Read50":
			b.read50(st.G)
		case "Find":
			// the search is internal to the server: observed when the bytes were delivered
		case "Mark":
			b.mark(st.G)
		case "Serve":
			if lk := b.cur[st.G]; lk != nil && lk.marked {
				b.release(lk)
			}
		default:
			fatal("step %d: unknown action %q", i, st.A)
		}
	}
	for g := 1; g <= 64; g++ {
		if lk := b.cur[g]; lk != nil && !lk.sent {
			b.read50(g)
		}
	}
	for _, lk := range b.all {
		b.release(lk)
	}
	for _, lk := range b.all {
		b.collect(lk)
	}
	return b.out, b.late
}

type behOut struct {
	events []ev
	late   bool
}

func modeBeh(in, outPath string, seed int64, par int, timeout time.Duration) {
	var behs [][]behStep
	readJSON(in, &behs)
	res := make([]behOut, len(behs))
	var wg sync.WaitGroup
	sem := make(chan struct{}, par)
	pads := []int{0, 0, 0, 0, 0, 0, 50, 50, 50, 300}
	for i := range behs {
		wg.Add(1)
		sem <- struct{}{}
		go func(i int) {
			defer wg.Done()
			defer func() { <-sem }()
			prng := rand.New(rand.NewSource(seed*7919 + int64(i)))
			pad := pads[prng.Intn(len(pads))]
			debug := prng.Intn(2) == 0 // every second behaviour runs with a DEBUG-level logger (-verbose)
			for attempt := 0; attempt < 3; attempt++ {
				evs, late := runBehaviour(behs[i], seed*1000003+int64(i)*17+int64(attempt), pad, timeout, debug)
				res[i] = behOut{evs, late}
				if !late {
					break
				}
			}
		}(i)
	}
	wg.Wait()
	tr := newTrace(outPath)
	skipped := 0
	for i, r := range res {
		if r.late {
			skipped++
			continue
		}
		for _, e := range r.events {
			if e["ev"] == "Reset" {
				e["beh"] = i
			}
			tr.Emit(e)
		}
	}
	tr.Close()
	np, last := panics.count()
	writeJSONStdout(map[string]any{"behaviours": len(behs), "skipped_late": skipped, "panics_logged": np, "last_panic": last})
}
