package main

import (
	"bytes"
	"container/list"
	"io"
	"math/rand"
	"net"
	"net/netip"
	"sort"
	"sync"
	"sync/atomic"
	"time"

	"github.com/Jigsaw-Code/outline-sdk/transport/shadowsocks"
	"github.com/Jigsaw-Code/outline-ss-server/service"
)

// ---------------------------------------------------------------------------------------------------------------
// `conc` (C19, key list): G goroutines run lookups through the real authenticator (several client IPs, valid /
// foreign / corrupted / short openers) and direct MarkUsedByClientIP calls, while updater goroutines replace the list.
// Built with -race this is the runtime race monitor.  For linearizability every goroutine keeps its OWN event buffer
// with monotonic-clock stamps taken before each call and after each return (no lock, no atomic, no channel is added
// between the goroutines, so no happens-before edge of the harness can hide a race of the code under test); the
// buffers are merged by time stamp afterwards (calls before returns on ties) and TLC (CipherListTrace, concurrent
// part) checks that every snapshot is a permutation of a list generation that may have been current during the call
// and that every lookup's result is explained by that generation.
// ---------------------------------------------------------------------------------------------------------------

type cev struct {
	ts  int64
	ord int
	e   ev
}

type concList struct {
	inner service.CipherList
	reg   *registry
	buf   *[]cev
	g     int
	base  time.Time
}

func (c *concList) stamp() int64 { return time.Since(c.base).Nanoseconds() }

func (c *concList) SnapshotForClientIP(ip netip.Addr) []*list.Element {
	*c.buf = append(*c.buf, cev{c.stamp(), 0, ev{"ev": "SnapCall", "g": c.g}})
	s := c.inner.SnapshotForClientIP(ip)
	ts := c.stamp()
	*c.buf = append(*c.buf, cev{ts, 1, ev{"ev": "SnapRet", "g": c.g, "order": c.reg.toks(s)}})
	return s
}

func (c *concList) MarkUsedByClientIP(e *list.Element, ip netip.Addr) { c.inner.MarkUsedByClientIP(e, ip) }
func (c *concList) Update(l *list.List)                                { c.inner.Update(l) }

// memConn: the client's bytes as a transport.StreamConn with a TCP remote address
type memConn struct {
	r  *bytes.Reader
	ip net.IP
}

func (m *memConn) Read(b []byte) (int, error)         { return m.r.Read(b) }
func (m *memConn) Write(b []byte) (int, error)        { return len(b), nil }
func (m *memConn) Close() error                       { return nil }
func (m *memConn) CloseRead() error                   { return nil }
func (m *memConn) CloseWrite() error                  { return nil }
func (m *memConn) LocalAddr() net.Addr                { return &net.TCPAddr{IP: net.IPv4(127, 0, 0, 1), Port: 1} }
func (m *memConn) RemoteAddr() net.Addr               { return &net.TCPAddr{IP: m.ip, Port: 40000} }
func (m *memConn) SetDeadline(t time.Time) error      { return nil }
func (m *memConn) SetReadDeadline(t time.Time) error  { return nil }
func (m *memConn) SetWriteDeadline(t time.Time) error { return nil }

var _ io.Reader = (*memConn)(nil)

type concKey struct {
	op  opSpec
	key *shadowsocks.EncryptionKey
}

func concRound(tr interface{ Emit(map[string]any) }, round, g, upd, n, gens, size, pace int, seed int64) {
	rng := rand.New(rand.NewSource(seed))
	reg := newRegistry()
	lists := make([]*list.List, gens+1)
	nsec := size + 3
	var universe []concKey
	seenKey := map[[2]int]bool{}
	for k := 1; k <= gens; k++ {
		specs := make([]keySpec, 0, size)
		sz := size
		if k%5 == 0 {
			sz = 1
		}
		for i := 0; i < sz; i++ {
			s := keySpec{Name: 1 + rng.Intn(size+2), Cls: 1 + rng.Intn(4), Sec: 1 + rng.Intn(nsec)}
			if rng.Intn(8) == 0 {
				s.Name = emptyName // a key configured without an id
			}
			specs = append(specs, s)
			if !seenKey[[2]int{s.Cls, s.Sec}] {
				seenKey[[2]int{s.Cls, s.Sec}] = true
				universe = append(universe, concKey{opSpec{"valid", s.Cls, s.Sec}, encKey(s.Cls, s.Sec)})
			}
		}
		lists[k] = reg.build(specs, k)
	}
	var foreign []concKey
	for cls := 1; cls <= 4; cls++ {
		foreign = append(foreign, concKey{opSpec{"wrongkey", cls, 0}, encKeySecret(cls, "never-configured")})
	}
	reg.nolock = true
	ents := make([]ev, len(reg.all))
	for i, info := range reg.all {
		ents[i] = ev{"name": info.Spec.Name, "cls": info.Spec.Cls, "sec": info.Spec.Sec, "gen": info.Gen}
	}
	inner := service.NewCipherList()
	base := time.Now()
	bufs := make([][]cev, g+upd)
	var wg sync.WaitGroup
	start := make(chan struct{})
	// the only shared word of the harness: finished lookup goroutines (read by the updaters to know when to stop; the
	// edge it creates orders a FINISHED goroutine before later updates, which is the real order anyway)
	var finished int32
	for gi := 0; gi < g; gi++ {
		wg.Add(1)
		go func(gi int) {
			defer wg.Done()
			lr := rand.New(rand.NewSource(seed*7907 + int64(gi)))
			buf := make([]cev, 0, 3*n+8)
			cl := &concList{inner: inner, reg: reg, buf: &buf, g: gi + 1, base: base}
			auth := service.NewShadowsocksStreamAuthenticator(cl, nil, nil, debugLogger(gi%2 == 1)) // odd goroutines: -verbose
			<-start
			for i := 0; i < n; i++ {
				ip := net.IPv4(127, 0, 0, byte(2+lr.Intn(4))).To4()
				r := lr.Intn(100)
				if r >= 85 {
					// direct use of the list API: snapshot, then mark an arbitrary (possibly stale) element
					nip, _ := netip.AddrFromSlice(ip)
					if pi := guard(func() {
						s := inner.SnapshotForClientIP(nip)
						if len(s) > 0 {
							inner.MarkUsedByClientIP(s[lr.Intn(len(s))], nip)
						}
					}); pi != nil {
						buf = append(buf, cev{cl.stamp(), 2, ev{"ev": "CPanic", "g": gi + 1, "where": pi.Where, "msg": pi.Msg}})
					}
					continue
				}
				var op opSpec
				var b []byte
				switch {
				case r < 55:
					k := universe[lr.Intn(len(universe))]
					op, b = k.op, validStream(k.key, i, nil, lr)
				case r < 65:
					k := foreign[lr.Intn(len(foreign))]
					op, b = k.op, validStream(k.key, i, nil, lr)
				case r < 72:
					op = opSpec{"random", 1, 0}
					b = make([]byte, 50+lr.Intn(100))
					lr.Read(b)
				case r < 78:
					k := universe[lr.Intn(len(universe))]
					op = opSpec{"short", k.op.Cls, k.op.Sec}
					b = validStream(k.key, i, nil, lr)[:lr.Intn(50)]
				default:
					k := universe[lr.Intn(len(universe))]
					op = opSpec{"fliptag", k.op.Cls, k.op.Sec}
					b = validStream(k.key, i, nil, lr)
					b[saltSizes[k.op.Cls]+2+lr.Intn(tagSize)] ^= 1 << lr.Intn(8)
				}
				st, name := "PANIC", 0
				pi := guard(func() {
					id, _, err := auth(&memConn{r: bytes.NewReader(b), ip: ip})
					if err != nil {
						st = err.Status
					} else {
						st, name = "OK", nameOfID(id)
					}
				})
				re := ev{"ev": "CResult", "g": gi + 1, "op": op, "name": name, "st": st}
				if pi != nil {
					re["where"], re["msg"] = pi.Where, pi.Msg
				}
				buf = append(buf, cev{cl.stamp(), 2, re})
			}
			bufs[gi] = buf
			atomic.AddInt32(&finished, 1)
		}(gi)
	}
	for u := 0; u < upd; u++ {
		wg.Add(1)
		go func(u int) {
			defer wg.Done()
			lr := rand.New(rand.NewSource(seed*104729 + int64(u)))
			var buf []cev
			<-start
			for k := 1 + u; k <= gens && int(atomic.LoadInt32(&finished)) < g; k += upd {
				time.Sleep(time.Duration(200+lr.Intn(pace)) * time.Microsecond)
				buf = append(buf, cev{time.Since(base).Nanoseconds(), 0, ev{"ev": "UpdCall", "k": k}})
				if pi := guard(func() { inner.Update(lists[k]) }); pi != nil {
					buf = append(buf, cev{time.Since(base).Nanoseconds(), 1, ev{"ev": "CPanic", "g": 0, "where": pi.Where, "msg": pi.Msg}})
				}
				buf = append(buf, cev{time.Since(base).Nanoseconds(), 1, ev{"ev": "UpdRet", "k": k}})
			}
			bufs[g+u] = buf
		}(u)
	}
	close(start)
	wg.Wait()
	var all []cev
	for _, b := range bufs {
		all = append(all, b...)
	}
	sort.SliceStable(all, func(i, j int) bool {
		if all[i].ts != all[j].ts {
			return all[i].ts < all[j].ts
		}
		return all[i].ord < all[j].ord
	})
	tr.Emit(ev{"ev": "CReset", "ents": ents, "round": round, "g": g, "upd": upd, "seed": seed})
	for _, c := range all {
		tr.Emit(c.e)
	}
}

func modeConc(out string, g, upd, n, gens, size, rounds, pace int, seed int64) {
	tr := newTrace(out)
	for r := 0; r < rounds; r++ {
		concRound(tr, r, g, upd, n, gens, size, pace, seed*31+int64(r))
	}
	tr.Close()
	writeJSONStdout(map[string]any{"rounds": rounds, "goroutines": g, "updaters": upd})
}
