package main

import (
	"encoding/hex"
	"fmt"
	"math/rand"
	"sync"
	"time"
)

// ---------------------------------------------------------------------------------------------------------------
// `auth`: executes TLC-generated behaviours of spec/TcpAuthGen.tla (C08, status classes of C01) on the real
// authenticator + handler over loopback TCP.
//
//	New(cache)      a fresh server: replay cache absent / capacity 0 / remembering
//	Hello(c,k,t)    the opening bytes of connection c: a stream valid under key k whose salt is the byte string of model
//	                token t - new, used before by a client, or taken from the head of a recorded SERVER response.  For a
//	                server-made salt under the issuing key the client sends the recorded server output itself (whole,
//	                truncated to >= 50 bytes, or extended), otherwise its own stream under that salt.
//	FirstWrite(c)   the fake target answers, so the server writes its response; the first saltSize bytes are recorded
//	Absorb(c)       the refused client closes (or waits for the server's deadline); probe observables are recorded
//
// ---------------------------------------------------------------------------------------------------------------

type authStep struct {
	A     string `json:"a"`
	C     int    `json:"c"`
	K     int    `json:"k"`
	T     int    `json:"t"`
	Src   string `json:"src"`
	Cache string `json:"cache"`
	Resp  int    `json:"resp"`
}

type aconn struct {
	c       int
	k       int // index into the real key list (1-based), 0 = none
	cl      *client
	st      string
	ended   bool
	refused bool
	partial bool // the client sent a recording: even if accepted, no request for this connection's target follows
	sentAt  time.Time
}

type authRun struct {
	s       *server
	rng     *rand.Rand
	out     []ev
	keys    []keySpec // real key list (with padding)
	kmap    []int     // model key index -> real key index
	timeout time.Duration
	conns   map[int]*aconn
	intern  map[string]int    // salt bytes -> trace token (first appearance order)
	saltOf  map[int][]byte    // model token -> salt bytes
	stream  map[int][]byte    // model token -> the recorded stream that began with it (client's or server's)
	skey    map[int]keySpec   // model token -> key of the stream recorded under it
	forms   map[string]int
}

func (a *authRun) emit(e ev) { a.out = append(a.out, e) }

func (a *authRun) tok(salt []byte) int {
	h := hex.EncodeToString(salt)
	if t, ok := a.intern[h]; ok {
		return t
	}
	t := len(a.intern) + 1
	a.intern[h] = t
	return t
}

func (a *authRun) hello(st authStep) {
	if old := a.conns[st.C]; old != nil {
		a.end(old, false)
	}
	cl, err := a.s.connect(1 + a.rng.Intn(3))
	if err != nil {
		fatal("connect: %v", err)
	}
	ac := &aconn{c: st.C, cl: cl}
	a.conns[st.C] = ac
	id := cl.rec.id
	var b []byte
	form := ""
	tokSalt := 0
	if st.K == 0 {
		kinds := []string{"random", "wrongkey", "flipsalt", "fliplen", "fliptag"}
		kind := kinds[a.rng.Intn(len(kinds))]
		base := a.keys[a.kmap[a.rng.Intn(len(a.kmap)-1)+1]-1]
		b, _, _, _ = buildOpener(opSpec{Kind: kind, Cls: base.Cls, Sec: base.Sec}, id, a.rng)
		form = kind
	} else {
		ac.k = a.kmap[st.K]
		ks := a.keys[ac.k-1]
		key := encKey(ks.Cls, ks.Sec)
		ss := saltSizes[ks.Cls]
		salt, known := a.saltOf[st.T]
		switch {
		case !known:
			salt = make([]byte, ss)
			a.rng.Read(salt)
			b = validStream(key, id, salt, a.rng)
			a.saltOf[st.T], a.stream[st.T], a.skey[st.T] = salt, b, ks
			form = "fresh"
		case len(salt) != ss:
			fatal("behaviour presents a %d-byte salt under a class with %d-byte salts", len(salt), ss)
		default:
			rec, same := a.stream[st.T], a.skey[st.T].Cls == ks.Cls && a.skey[st.T].Sec == ks.Sec
			choice := a.rng.Intn(6)
			switch {
			case same && choice == 1:
				b, form = append([]byte{}, rec...), "recorded-whole"
			case same && choice == 2 && len(rec) >= 50:
				n := 50
				if len(rec) > 50 && a.rng.Intn(2) == 0 {
					n = 50 + a.rng.Intn(len(rec)-50)
				}
				b, form = append([]byte{}, rec[:n]...), fmt.Sprintf("recorded-truncated-%d", n)
			case same && choice == 3:
				extra := make([]byte, 1+a.rng.Intn(100))
				a.rng.Read(extra)
				b, form = append(append([]byte{}, rec...), extra...), fmt.Sprintf("recorded-extended-%d", len(extra))
			case same && choice == 4 && len(rec) >= ss+2+tagSize:
				// the recorded salt + encrypted length, then OTHER bytes (for 16/24-byte salts they fall inside the
				// 50-byte search window)
				other := make([]byte, 50-(ss+2+tagSize)+1+a.rng.Intn(60))
				a.rng.Read(other)
				b, form = append(append([]byte{}, rec[:ss+2+tagSize]...), other...), "recorded-header-then-other-bytes"
			default:
				b, form = validStream(key, id, salt, a.rng), "own-stream-under-that-salt"
			}
			// a recording does not carry a request for this connection's target: if it is accepted at all (AES-128,
			// client replay without a cache) nothing particular follows
			ac.partial = form != "own-stream-under-that-salt"
			form = st.Src + ":" + form
		}
		tokSalt = a.tok(b[:ss])
	}
	a.forms[form]++
	// k = index in the model's key list (the padding keys, under which no client ever speaks, are not part of the trace
	// specification's constant key list); rk = position in the real, padded list
	a.emit(ev{"ev": "Hello", "c": st.C, "k": st.K, "rk": ac.k, "t": tokSalt, "form": form, "conn": id, "len": len(b)})
	cl.send(b)
	ac.sentAt = time.Now()
	// the decision follows at once for >= 50 bytes
	limit := a.timeout + waitStep
	if !waitCh(cl.rec.authDone, limit) {
		fatal("authenticator did not return within %v (conn %d, %s)", limit, id, form)
	}
	cl.rec.mu.Lock()
	ac.st = cl.rec.authSt
	name := 0
	if ac.st == "OK" {
		name = nameOfID(cl.rec.authName)
	}
	cl.rec.mu.Unlock()
	ac.refused = ac.st != "OK"
	a.emit(ev{"ev": "Auth", "c": st.C, "name": name, "st": ac.st})
}

// firstWrite: let the target answer; record the head of the server's response
func (a *authRun) firstWrite(c int, modelTok int) {
	ac := a.conns[c]
	if ac == nil || ac.refused || ac.ended {
		return
	}
	rec := ac.cl.rec
	rec.openGate()
	if ac.partial {
		waitCh(rec.rdDone, 300*time.Millisecond)
		a.emit(ev{"ev": "Note", "c": c, "what": "a recorded stream was accepted: it carries no request of this connection, no response expected"})
		a.end(ac, false)
		return
	}
	if !waitCh(rec.rdDone, waitStep) {
		fatal("no response / end of response within %v on an authenticated connection (conn %d)", waitStep, rec.id)
	}
	rec.mu.Lock()
	raw := append([]byte{}, rec.raw...)
	rec.mu.Unlock()
	ks := a.keys[ac.k-1]
	ss := saltSizes[ks.Cls]
	if len(raw) < ss {
		a.emit(ev{"ev": "Note", "c": c, "what": fmt.Sprintf("authenticated connection received only %d bytes", len(raw))})
		a.end(ac, false)
		return
	}
	salt := raw[:ss]
	plain, err := decryptResponse(raw, encKey(ks.Cls, ks.Sec))
	a.emit(ev{"ev": "Resp", "c": c, "t": a.tok(salt), "mark": markOK(secretOf(ks.Sec), salt), "bytes": len(raw),
		"respok": err == nil && string(plain) == string(respPayload(rec.id)), "cls": ks.Cls, "salt": hex.EncodeToString(salt)})
	if modelTok != 0 {
		a.saltOf[modelTok], a.stream[modelTok], a.skey[modelTok] = append([]byte{}, salt...), raw, ks
	}
	a.end(ac, false)
}

// end: the client closes (or, for a refused connection, may instead wait for the server's deadline)
func (a *authRun) end(ac *aconn, mayWait bool) {
	if ac.ended {
		return
	}
	ac.ended = true
	rec := ac.cl.rec
	early := false
	waited := false
	if ac.refused {
		// up to now the server must have kept the connection open and silent
		// (t0 was read before dialling, the server computes its deadline after accepting: an end of the stream
		// sooner than t0+timeout, while the client has not closed, is a close before the deadline - no slack needed)
		if !ac.cl.readEnded() && mayWait && a.rng.Intn(4) == 0 {
			waited = true
			<-rec.rdDone // closed by the server at its deadline
		}
		if ac.cl.readEnded() {
			rec.mu.Lock()
			early = rec.rdEnd.Sub(ac.cl.t0) < a.timeout
			rec.mu.Unlock()
		}
	} else if !ac.partial {
		rec.openGate()
		waitCh(rec.rdDone, waitStep)
	}
	ac.cl.fin()
	limit := a.timeout + waitStep
	if !waitCh(rec.closedDone, a.timeout+500*time.Millisecond) {
		// An accepted REPLAY of another connection's client stream carries that connection's request: if it reached the
		// fake target before the original did, it is the one held back until the original's FirstWrite step.  Let every
		// target answer now (the original then merely gets its response earlier than scheduled).
		a.s.openAllGates()
		a.forms["(target gates opened early for a replayed request)"]++
		if !waitCh(rec.closedDone, limit) {
			fatal("connection %d was not closed within %v", rec.id, limit)
		}
	}
	waitCh(rec.rdDone, waitStep)
	rec.mu.Lock()
	authm := 0
	if rec.authmCalled {
		authm = nameOfID(rec.authm)
	}
	probe := ""
	if rec.probeCalled {
		probe = rec.probeSt
	}
	a.emit(ev{"ev": "End", "c": ac.c, "closed": rec.closedSt, "probe": probe, "bytes": len(rec.raw), "dial": rec.dials > 0,
		"authm": authm, "early": early, "waited": waited, "drain": rec.probeDrain})
	rec.mu.Unlock()
	ac.cl.close()
}

func runAuthBehaviour(steps []authStep, keys []keySpec, kmap []int, seed int64, timeout time.Duration) []ev {
	debug := seed%2 == 0 // every second behaviour runs with a DEBUG-level logger (-verbose)
	a := &authRun{rng: rand.New(rand.NewSource(seed)), keys: keys, kmap: kmap, timeout: timeout, conns: map[int]*aconn{},
		intern: map[string]int{}, saltOf: map[int][]byte{}, stream: map[int][]byte{}, skey: map[int]keySpec{}, forms: map[string]int{}}
	for i, st := range steps {
		switch st.A {
		case "New":
			a.s = newServer(st.Cache, timeout, false, false, false, debug)
			defer a.s.close()
			gen := a.s.reg.build(keys, 1)
			a.s.cl.Update(gen)
			a.emit(ev{"ev": "New", "cache": st.Cache, "seed": seed, "debug": debug})
		case "Hello":
			a.hello(st)
		case "FindKey", "CheckSalt", "CheckReplay":
			// inside the authenticator: observed as its return value
		case "FirstWrite":
			a.firstWrite(st.C, st.Resp)
		case "Absorb":
			if ac := a.conns[st.C]; ac != nil && ac.refused {
				a.end(ac, true)
			}
		default:
			fatal("step %d: unknown action %q", i, st.A)
		}
	}
	for c := 1; c <= 64; c++ {
		if ac := a.conns[c]; ac != nil && !ac.ended {
			if !ac.refused {
				a.firstWrite(c, 0)
			}
			a.end(ac, false)
		}
	}
	a.emit(ev{"ev": "Forms", "forms": a.forms})
	return a.out
}

type authInput struct {
	Keys []keySpec    `json:"keys"`
	Behs [][]authStep `json:"behs"`
	Pad  int          `json:"pad"`
}

func modeAuth(in, outPath, keysOut string, seed int64, par int, timeout time.Duration) {
	var inp authInput
	readJSON(in, &inp)
	// real key list = the model's keys in order, padded at seed-chosen positions (the same list for the whole run,
	// because it is a constant of the trace specification)
	rng := rand.New(rand.NewSource(seed * 31337))
	keys := append([]keySpec{}, inp.Keys...)
	mark := make([]int, len(keys)) // model index of each real key (0 = padding)
	for i := range mark {
		mark[i] = i + 1
	}
	for i := 0; i < inp.Pad; i++ {
		k := keySpec{Name: 1000 + i, Cls: 1 + rng.Intn(4), Sec: 1000 + i}
		pos := rng.Intn(len(keys) + 1)
		keys = append(keys, keySpec{})
		copy(keys[pos+1:], keys[pos:])
		keys[pos] = k
		mark = append(mark, 0)
		copy(mark[pos+1:], mark[pos:])
		mark[pos] = 0
	}
	kmap := make([]int, len(inp.Keys)+1)
	for ri, m := range mark {
		if m > 0 {
			kmap[m] = ri + 1
		}
	}
	writeJSON(keysOut, keys)
	res := make([][]ev, len(inp.Behs))
	var wg sync.WaitGroup
	sem := make(chan struct{}, par)
	for i := range inp.Behs {
		wg.Add(1)
		sem <- struct{}{}
		go func(i int) {
			defer wg.Done()
			defer func() { <-sem }()
			res[i] = runAuthBehaviour(inp.Behs[i], keys, kmap, seed*1000003+int64(i)*13, timeout)
		}(i)
	}
	wg.Wait()
	tr := newTrace(outPath)
	forms := map[string]int{}
	for i, evs := range res {
		for _, e := range evs {
			if e["ev"] == "Forms" {
				for k, v := range e["forms"].(map[string]int) {
					forms[k] += v
				}
				continue
			}
			if e["ev"] == "New" {
				e["beh"] = i
			}
			tr.Emit(e)
		}
	}
	tr.Close()
	writeJSONStdout(map[string]any{"behaviours": len(inp.Behs), "forms": forms, "keys": len(keys)})
}

// ---------------------------------------------------------------------------------------------------------------
// `salts`: many authenticated connections; the first saltSize bytes of every response (freshness at scale, marks)
// ---------------------------------------------------------------------------------------------------------------

type saltObs struct {
	salt string
	cls  int
	mark bool
	ok   bool
}

func modeSalts(outPath string, n, par int, seed int64) {
	keys := []keySpec{}
	for sec := 1; sec <= 3; sec++ {
		for cls := 1; cls <= 4; cls++ {
			keys = append(keys, keySpec{Name: len(keys) + 1, Cls: cls, Sec: sec})
		}
	}
	const nsrv = 4
	srv := make([]*server, nsrv)
	for i := range srv {
		srv[i] = newServer("on", 5*time.Second, false, false, true, i%2 == 1)
		defer srv[i].close()
		srv[i].cl.Update(srv[i].reg.build(keys, 1))
	}
	obs := make([]saltObs, n)
	var wg sync.WaitGroup
	next := make(chan int, par)
	for w := 0; w < par; w++ {
		wg.Add(1)
		go func(w int) {
			defer wg.Done()
			rng := rand.New(rand.NewSource(seed*977 + int64(w)))
			for i := range next {
				s := srv[i%nsrv]
				ks := keys[rng.Intn(len(keys))]
				// a connection attempt that is reset by the kernel (old TIME-WAIT tuple) says nothing about the server: retried
				for attempt := 0; attempt < 4 && !obs[i].ok; attempt++ {
					cl, err := s.connect(1 + (i/nsrv+attempt*5)%16)
					if err != nil {
						time.Sleep(50 * time.Millisecond)
						continue
					}
					cl.rec.openGate()
					cl.send(validStream(encKey(ks.Cls, ks.Sec), cl.rec.id, nil, rng))
					if !waitCh(cl.rec.rdDone, 20*time.Second) {
						fatal("no response within 20s (conn %d)", cl.rec.id)
					}
					cl.rec.mu.Lock()
					raw := cl.rec.raw
					cl.rec.mu.Unlock()
					ss := saltSizes[ks.Cls]
					if len(raw) >= ss {
						obs[i] = saltObs{hex.EncodeToString(raw[:ss]), ks.Cls, markOK(secretOf(ks.Sec), raw[:ss]), true}
					}
					cl.conn.SetLinger(0)
					cl.close()
				}
			}
		}(w)
	}
	for i := 0; i < n; i++ {
		next <- i
	}
	close(next)
	wg.Wait()
	tr := newTrace(outPath)
	intern := map[string]int{}
	missing := 0
	for _, o := range obs {
		if !o.ok {
			missing++
			continue
		}
		t, seen := intern[o.salt]
		if !seen {
			t = len(intern) + 1
			intern[o.salt] = t
		}
		e := ev{"ev": "MassResp", "t": t, "cls": o.cls, "mark": o.mark}
		if seen || (!o.mark && o.cls != 4) {
			e["salt"] = o.salt
		}
		tr.Emit(e)
	}
	tr.Close()
	writeJSONStdout(map[string]any{"connections": n, "responses": n - missing, "distinct": len(intern)})
	if missing > n/1000 {
		fatal("%d of %d authenticated connections received no response", missing, n)
	}
}
