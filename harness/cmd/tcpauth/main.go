// tcpauth: conformance driver for TCP access-key authentication (spec/CipherList.tla, spec/TcpAuth.tla; C01, C08 and
// the key-list part of C19).  Public API only: service.NewCipherList / MakeCipherEntry / Update behind a recording,
// gating wrapper; service.NewShadowsocksStreamAuthenticator; service.NewStreamHandler + SetTargetDialer;
// service.NewReplayCache; real loopback TCP; real encryption with the outline-sdk for all four ciphers.
//
//	beh   -in behaviours.json -out trace.ndjson     spec -> code: CipherListGen behaviours (schedules with Update
//	                                                between snapshot, search and mark); trace for CipherListTrace
//	auth  -in input.json -out trace.ndjson -keys k  spec -> code: TcpAuthGen behaviours (salt choices incl. reflected
//	                                                real server output); trace for TcpAuthTrace
//	salts -n N -out trace.ndjson                    response salts of N real connections (freshness, marks)
//	storm -g G -n N -sample S -out trace.ndjson     G goroutines x N genuine handshakes on ONE key at the same time (per
//	                                                marked cipher class) + reflections of the recordings; TcpAuthTrace
//	fault -n K -out trace.ndjson                    crypto/rand fails while response salts are drawn (K connections per
//	                                                cipher class and failure count); TcpAuthTrace
//	conc  -g G -n N -out trace.ndjson               code -> spec: G goroutines of lookups / marks against Updates on one
//	                                                real list (build with -race); call/return trace for CipherListTrace
//
// The driver never judges: TLC decides on the recorded traces.
package main

import (
	"encoding/json"
	"flag"
	"os"
	"time"

	"verifharness/hx"
)

func fatal(format string, a ...any) { hx.Fatal(format, a...) }
func readJSON(path string, v any)   { hx.ReadJSON(path, v) }
func writeJSON(path string, v any)  { hx.WriteJSON(path, v) }
func newTrace(path string) *hx.Trace { return hx.NewTrace(path) }
func writeJSONStdout(v any) {
	b, _ := json.Marshal(v)
	os.Stdout.Write(append(b, '\n'))
}

func main() {
	if len(os.Args) < 2 {
		fatal("usage: tcpauth beh|auth|salts|conc ...")
	}
	mode := os.Args[1]
	fs := flag.NewFlagSet(mode, flag.ExitOnError)
	in := fs.String("in", "", "input json")
	out := fs.String("out", "trace.ndjson", "trace output")
	keysOut := fs.String("keys", "keys.json", "auth: where to write the real key list")
	seed := fs.Int64("seed", 1, "seed")
	par := fs.Int("par", 8, "behaviours / connections in parallel")
	n := fs.Int("n", 500, "salts: connections; conc: operations per goroutine")
	g := fs.Int("g", 8, "conc: lookup goroutines")
	sample := fs.Int("sample", 300, "storm: recordings reflected per cipher class")
	upd := fs.Int("upd", 1, "conc: updater goroutines")
	gens := fs.Int("gens", 60, "conc: list generations prepared per round (the updaters stop when the lookups are done)")
	pace := fs.Int("pace", 3000, "conc: an updater sleeps 200..200+pace microseconds between Updates")
	rounds := fs.Int("rounds", 1, "conc: rounds")
	size := fs.Int("size", 6, "conc: keys per list")
	timeoutMs := fs.Int("timeout", 2000, "handshake timeout of the handler in ms")
	fs.Parse(os.Args[2:])
	to := time.Duration(*timeoutMs) * time.Millisecond
	switch mode {
	case "beh":
		modeBeh(*in, *out, *seed, *par, to)
	case "auth":
		modeAuth(*in, *out, *keysOut, *seed, *par, to)
	case "salts":
		modeSalts(*out, *n, *par, *seed)
	case "fault":
		modeFault(*out, *n, *seed)
	case "storm":
		modeStorm(*out, *g, *n, *sample, *seed)
	case "conc":
		modeConc(*out, *g, *upd, *n, *gens, *size, *rounds, *pace, *seed)
	default:
		fatal("unknown mode %s", mode)
	}
}
