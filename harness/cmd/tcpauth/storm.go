package main

import (
	"bytes"
	"encoding/hex"
	"math/rand"
	"net"
	"sync"
	"time"

	"github.com/Jigsaw-Code/outline-sdk/transport/shadowsocks"
	"github.com/Jigsaw-Code/outline-ss-server/service"
)

// ---------------------------------------------------------------------------------------------------------------
// `storm` (C08): many genuine handshakes on ONE key at the same instant, through the real
// NewShadowsocksStreamAuthenticator (capacity-0 replay cache), for each cipher class whose salts are marked (chacha20,
// aes-256, aes-192).  G goroutines hammer the one CipherEntry - hence its one salt generator - so that IsServerSalt
// (on the client's salt) and GetSalt (first write of the response) of different connections overlap.
//
//	phase 1: G x N genuine handshakes; the first saltSize bytes of every response are recorded
//	phase 2: G x N/2 operations, alternating genuine handshakes with REFLECTIONS of phase-1 recordings (the recorded
//	         server output itself, or the client's own stream under that salt), still all at the same time
//
// Recorded for TLC (TcpAuthTrace): every response salt as a MassResp event (new? mark verified by the independent
// HKDF-SHA1/HMAC-SHA1 implementation?), and for every reflected recording the full story
// Hello(fresh)/Auth/Resp ... Hello(server salt)/Auth.  The driver never judges.
// ---------------------------------------------------------------------------------------------------------------

// capConn: client bytes in, server bytes captured
type capConn struct {
	memConn
	mu  sync.Mutex
	out []byte
}

func (c *capConn) Write(b []byte) (int, error) {
	c.mu.Lock()
	c.out = append(c.out, b...)
	c.mu.Unlock()
	return len(b), nil
}

type stormRec struct {
	cls       int
	cliSalt   []byte
	name      int
	st        string
	resp      []byte // whole server output
	pi        *panicInfo
	reflected bool
	// reflection of this recording
	rForm string
	rName int
	rSt   string
	rSalt []byte
	rPi   *panicInfo
}

func modeStorm(outPath string, g, n, sample int, seed int64) {
	// the aes-256 key is the one configured without an id
	keys := []keySpec{{Name: 1, Cls: 1, Sec: 1}, {Name: emptyName, Cls: 2, Sec: 2}, {Name: 3, Cls: 3, Sec: 3}}
	reg := newRegistry()
	cl := service.NewCipherList()
	cl.Update(reg.build(keys, 1))
	cache := service.NewReplayCache(0)
	// two authenticators over the same list and cache: without a logger, and with a DEBUG-level logger (-verbose);
	// odd goroutines use the second
	auths := []service.StreamAuthenticateFunc{service.NewShadowsocksStreamAuthenticator(cl, &cache, nil, nil),
		service.NewShadowsocksStreamAuthenticator(cl, &cache, nil, debugLogger(true))}
	payload := []byte("response bytes of the storm stage")

	// one connection, run like a handler of service.StreamServe: a panic of the code under test ends this connection
	// only.  st = "PANIC" if it happened before the authenticator returned; pi != nil with st = "OK" if it happened
	// while the response was started.
	handshake := func(gi int, key *shadowsocks.EncryptionKey, stream []byte, ip net.IP) (name int, st string, out []byte, pi *panicInfo) {
		auth := auths[gi%2]
		c := &capConn{memConn: memConn{r: bytes.NewReader(stream), ip: ip}}
		st = "PANIC"
		pi = guard(func() {
			id, conn, err := auth(c)
			if err != nil {
				st = err.Status
				return
			}
			name, st = nameOfID(id), "OK"
			conn.Write(payload) // first write: the response writer draws its salt from the entry's generator
		})
		if st != "OK" {
			name = 0
		}
		return name, st, c.out, pi
	}

	var all []*stormRec
	for _, ks := range keys {
		key := encKey(ks.Cls, ks.Sec)
		ss := saltSizes[ks.Cls]
		// phase 1
		recs := make([][]*stormRec, g)
		var wg sync.WaitGroup
		start := make(chan struct{})
		for gi := 0; gi < g; gi++ {
			wg.Add(1)
			go func(gi int) {
				defer wg.Done()
				rng := rand.New(rand.NewSource(seed*7919 + int64(ks.Cls)*131 + int64(gi)))
				ip := net.IPv4(127, 0, 0, byte(2+gi%4)).To4()
				// the client streams are prepared beforehand so that the goroutines spend their time in the authenticator
				streams := make([][]byte, n)
				for i := range streams {
					streams[i] = validStream(key, i, nil, rng)
				}
				<-start
				out := make([]*stormRec, 0, n)
				for i := 0; i < n; i++ {
					name, st, resp, pi := handshake(gi, key, streams[i], ip)
					out = append(out, &stormRec{cls: ks.Cls, cliSalt: streams[i][:ss], name: name, st: st, resp: resp, pi: pi})
				}
				recs[gi] = out
			}(gi)
		}
		close(start)
		wg.Wait()
		var p1 []*stormRec
		for _, r := range recs {
			p1 = append(p1, r...)
		}
		// phase 2: reflections of phase-1 recordings in the middle of more genuine handshakes
		var cand []*stormRec
		for _, r := range p1 {
			if r.st == "OK" && r.pi == nil && len(r.resp) >= 50 {
				cand = append(cand, r)
			}
		}
		prng := rand.New(rand.NewSource(seed*31 + int64(ks.Cls)))
		prng.Shuffle(len(cand), func(i, j int) { cand[i], cand[j] = cand[j], cand[i] })
		if len(cand) > sample {
			cand = cand[:sample]
		}
		recs2 := make([][]*stormRec, g)
		start2 := make(chan struct{})
		for gi := 0; gi < g; gi++ {
			wg.Add(1)
			go func(gi int) {
				defer wg.Done()
				rng := rand.New(rand.NewSource(seed*104729 + int64(ks.Cls)*131 + int64(gi)))
				ip := net.IPv4(127, 0, 0, byte(2+gi%4)).To4()
				var mine []*stormRec
				for i := gi; i < len(cand); i += g {
					mine = append(mine, cand[i])
				}
				type job struct {
					rec    *stormRec
					stream []byte
				}
				var jobs []job
				for i, r := range mine {
					jobs = append(jobs, job{nil, validStream(key, i, nil, rng)})
					var s []byte
					switch rng.Intn(5) {
					case 0:
						s, r.rForm = append([]byte{}, r.resp...), "recorded-whole"
					case 1:
						s, r.rForm = append([]byte{}, r.resp[:50]...), "recorded-truncated-50"
					case 2:
						extra := make([]byte, 1+rng.Intn(60))
						rng.Read(extra)
						s, r.rForm = append(append([]byte{}, r.resp...), extra...), "recorded-extended"
					case 3:
						other := make([]byte, 50-(ss+2+tagSize)+1+rng.Intn(60))
						rng.Read(other)
						s, r.rForm = append(append([]byte{}, r.resp[:ss+2+tagSize]...), other...), "recorded-header-then-other-bytes"
					default:
						s, r.rForm = validStream(key, i, r.resp[:ss], rng), "own-stream-under-that-salt"
					}
					jobs = append(jobs, job{r, s})
				}
				<-start2
				var out []*stormRec
				for _, j := range jobs {
					name, st, resp, pi := handshake(gi, key, j.stream, ip)
					if j.rec == nil {
						out = append(out, &stormRec{cls: ks.Cls, cliSalt: j.stream[:ss], name: name, st: st, resp: resp, pi: pi})
					} else {
						j.rec.reflected, j.rec.rName, j.rec.rSt, j.rec.rSalt, j.rec.rPi = true, name, st, j.stream[:ss], pi
						if st == "OK" && pi == nil {
							// an accepted reflection produced a response as well
							out = append(out, &stormRec{cls: ks.Cls, cliSalt: j.stream[:ss], name: name, st: st, resp: resp})
						}
					}
				}
				recs2[gi] = out
			}(gi)
		}
		close(start2)
		wg.Wait()
		all = append(all, p1...)
		for _, r := range recs2 {
			all = append(all, r...)
		}
	}

	// the trace (serialised afterwards; the properties judged here do not depend on the order of concurrent handshakes)
	tr := newTrace(outPath)
	tr.Emit(ev{"ev": "New", "cache": "zero", "seed": seed, "storm": true, "goroutines": g})
	intern := map[string]int{}
	tok := func(b []byte) int {
		h := hex.EncodeToString(b)
		if t, ok := intern[h]; ok {
			return t
		}
		intern[h] = len(intern) + 1
		return len(intern)
	}
	kidx := func(cls int) int { return cls } // keys[i] has class i+1
	var refl []*stormRec
	for _, r := range all {
		if r.reflected {
			refl = append(refl, r)
		}
	}
	// first the genuine handshakes whose recordings were reflected, then the reflections
	for _, r := range refl {
		ss := saltSizes[r.cls]
		tr.Emit(ev{"ev": "Hello", "c": 1, "k": kidx(r.cls), "t": tok(r.cliSalt), "form": "fresh"})
		tr.Emit(ev{"ev": "Auth", "c": 1, "name": r.name, "st": r.st})
		tr.Emit(ev{"ev": "Resp", "c": 1, "t": tok(r.resp[:ss]), "mark": markOK(secretOf(kidx(r.cls)), r.resp[:ss]), "bytes": len(r.resp),
			"cls": r.cls, "salt": hex.EncodeToString(r.resp[:ss])})
	}
	nrefl, naccepted, npanic := 0, 0, 0
	for _, r := range refl {
		nrefl++
		if r.rSt == "OK" {
			naccepted++
		}
		tr.Emit(ev{"ev": "Hello", "c": 2, "k": kidx(r.cls), "t": tok(r.rSalt), "form": "server:" + r.rForm})
		if r.rSt != "PANIC" {
			tr.Emit(ev{"ev": "Auth", "c": 2, "name": r.rName, "st": r.rSt})
		}
		if r.rPi != nil {
			npanic++
			tr.Emit(ev{"ev": "Panic", "c": 2, "where": r.rPi.Where, "msg": r.rPi.Msg, "cls": r.cls})
		}
	}
	// every response salt of the storm: new? marked?
	mass := map[string]int{}
	nresp, nfail, nunmarked := 0, 0, 0
	for _, r := range all {
		if r.st != "OK" || r.pi != nil {
			nfail++
			tr.Emit(ev{"ev": "Hello", "c": 3, "k": kidx(r.cls), "t": tok(r.cliSalt), "form": "fresh"})
			if r.st != "PANIC" {
				tr.Emit(ev{"ev": "Auth", "c": 3, "name": r.name, "st": r.st})
			}
			if r.pi != nil {
				npanic++
				tr.Emit(ev{"ev": "Panic", "c": 3, "where": r.pi.Where, "msg": r.pi.Msg, "cls": r.cls})
			}
			continue
		}
		ss := saltSizes[r.cls]
		if len(r.resp) < ss {
			fatal("authenticated in-memory connection produced only %d response bytes", len(r.resp))
		}
		h := hex.EncodeToString(r.resp[:ss])
		t, seen := mass[h]
		if !seen {
			t = len(mass) + 1
			mass[h] = t
		}
		ok := markOK(secretOf(kidx(r.cls)), r.resp[:ss])
		e := ev{"ev": "MassResp", "t": t, "cls": r.cls, "mark": ok}
		if seen || !ok {
			e["salt"] = h
			nunmarked++
		}
		tr.Emit(e)
		nresp++
	}
	tr.Close()
	writeJSONStdout(map[string]any{"handshakes": len(all), "responses": nresp, "refused_genuine": nfail, "reflections": nrefl,
		"reflections_accepted": naccepted, "bad_or_repeated_salts": nunmarked, "goroutines": g, "panics": npanic})
	_ = time.Now
}
