// locationlabel: conformance driver for spec/LocationLabel.tla (C20, "every client address maps to exactly one
// location label decided by its class alone").
//
//	locationlabel -in rows.json -out trace.ndjson
//
// rows.json is the decision table printed by TLC (entry point, address class, database behaviour).  Every row is
// executed on the REAL ipinfo.GetIPInfoFromAddr / GetIPInfoFromIP with many concrete addresses of that class (the
// class of each address is known by construction, not computed with the code under test) and with several concrete
// databases per database behaviour.  The database is a recording wrapper: it logs whether and with which IP it was
// asked, and it answers the configured country only for the IP it expects (anything else gets country "!!").
// The driver never judges: TLC (LocationLabelTrace) decides on the recorded trace.
package main

import (
	"errors"
	"flag"
	"net"

	"github.com/Jigsaw-Code/outline-ss-server/ipinfo"
	"verifharness/hx"
)

type row struct {
	Entry string `json:"entry"`
	Cls   string `json:"cls"`
	DB    string `json:"db"`
}

type strAddr string

func (a strAddr) Network() string { return "tcp" }
func (a strAddr) String() string  { return string(a) }

// concrete members of every class.  host literals; the driver derives "host:port" / "[host]:port" forms, TCPAddr and
// UDPAddr values, and 4-/16-byte net.IP values from them.
var ipClasses = map[string][]string{
	"loopback":    {"127.0.0.1", "127.0.0.77", "127.255.255.254", "::1", "::ffff:127.0.0.1"},
	"linklocal":   {"169.254.0.1", "169.254.169.254", "fe80::1", "febf::1", "::ffff:169.254.1.1"},
	"multicast":   {"224.0.0.1", "224.0.0.251", "239.255.255.250", "ff01::1", "ff02::1", "ff0e::1", "::ffff:224.0.0.1"},
	"unspecified": {"0.0.0.0", "::", "::ffff:0.0.0.0"},
	"broadcast":   {"255.255.255.255", "::ffff:255.255.255.255"},
	"private": {"10.0.0.1", "10.255.255.254", "172.16.0.1", "172.31.255.254", "192.168.0.1", "192.168.255.254", "100.64.0.1",
		"fd00::2", "fc00::1", "198.18.0.1", "240.0.0.1", "::ffff:10.0.0.1"},
	"globalv4": {"8.8.8.8", "1.1.1.1", "203.0.113.77", "192.0.2.2", "223.255.255.254", "126.255.255.255", "128.0.0.1", "169.253.255.255",
		"169.255.0.1", "172.15.255.255", "172.32.0.1", "9.255.255.255", "11.0.0.1", "192.167.255.255", "192.169.0.1"},
	"globalv6": {"2001:db8::77", "2606:4700:4700::1111", "2a00:1450:4001::200e", "fe7f::1", "fec0::1", "feff::1", "2000::1", "3fff:ffff::1"},
	"mapped":   {"::ffff:8.8.8.8", "::ffff:203.0.113.77", "::ffff:cb00:714d"},
}

var addrOnly = map[string][]string{
	// SplitHostPort fails
	"unsplittable": {"host-no-port", "8.8.8.8", "::1", "[::1]", "", "8.8.8.8:1:2", "[8.8.8.8", "2001:db8::77:443", "[2001:db8::77]", "8.8.8.8]:1"},
	// splits, but the host is not an IP literal
	"nonip": {"example.com:443", "localhost:80", "1.2.3:80", "256.1.1.1:80", ":80", "1.2.3.4.5:80", "0x7f.0.0.1:80", "8.8.8.8 :80",
		"[2001:db8::g]:80", "08.8.8.8:53x", "１.１.１.１:80"},
	// zoned literals (global, link-local and loopback addresses with a zone)
	"zoned": {"[fe80::1%eth0]:80", "[fe80::fc:ff:fe00:1%eth0]:443", "[fe80::1%1]:80", "[2001:db8::77%eth0]:80", "[::1%lo]:80", "[ff02::1%eth0]:5353"},
}

type dbVariant struct {
	name    string
	country string // answered for the expected IP
	asn     int
	org     string
	fail    bool
	real    bool // the repository's own MMDB map opened without database files
}

var dbVariants = map[string][]dbVariant{
	"disabled":  {{name: "nil"}},
	"hit":       {{name: "cc+asn", country: "QQ", asn: 64999, org: "Fake Org"}, {name: "cc", country: "US"}},
	"nocountry": {{name: "empty"}, {name: "asn-only", asn: 64998, org: "ASN Only"}, {name: "mmdb-without-files", real: true}},
	"error":     {{name: "err"}, {name: "err+partial", country: "QQ", asn: 64997, org: "Partial"}},
}

type recDB struct {
	v      dbVariant
	expect net.IP
	inner  ipinfo.IPInfoMap
	calls  []net.IP
}

func (d *recDB) GetIPInfo(ip net.IP) (ipinfo.IPInfo, error) {
	d.calls = append(d.calls, append(net.IP(nil), ip...))
	if d.inner != nil {
		return d.inner.GetIPInfo(ip)
	}
	info := ipinfo.IPInfo{CountryCode: ipinfo.CountryCode(d.v.country), ASN: ipinfo.ASN{Number: d.v.asn, Organization: d.v.org}}
	if d.expect == nil || !d.expect.Equal(ip) {
		info.CountryCode = "!!"
	}
	if d.v.fail {
		return info, errors.New("fake database failure")
	}
	return info, nil
}

func mkDB(mode string, v dbVariant, expect net.IP) (ipinfo.IPInfoMap, *recDB) {
	if mode == "disabled" {
		return nil, nil
	}
	v.fail = mode == "error"
	d := &recDB{v: v, expect: expect}
	if v.real {
		m, err := ipinfo.NewMMDBIPInfoMap("", "")
		if err != nil {
			hx.Fatal("NewMMDBIPInfoMap without files: %v", err)
		}
		d.inner = m
	}
	return d, d
}

func hostPort(h string, port string) string {
	return net.JoinHostPort(h, port)
}

func main() {
	in := flag.String("in", "", "rows json")
	out := flag.String("out", "trace.ndjson", "trace output")
	flag.Parse()
	var rows []row
	hx.ReadJSON(*in, &rows)
	tr := hx.NewTrace(*out)
	defer tr.Close()

	emit := func(r row, v dbVariant, form, addr string, info ipinfo.IPInfo, err error, d *recDB) {
		label := info.CountryCode.String()
		norm := label
		if v.country != "" && label == v.country {
			norm = "CC"
		}
		ev := map[string]any{"ev": "Label", "entry": r.Entry, "cls": r.Cls, "db": r.DB, "variant": v.name, "form": form, "addr": addr,
			"label": norm, "raw": label, "asn": info.ASN.Number, "asorg": info.ASN.Organization, "err": err != nil,
			"consulted": d != nil && len(d.calls) > 0}
		if d != nil && len(d.calls) > 0 {
			ev["dbarg"] = d.calls[0].String()
			ev["ncalls"] = len(d.calls)
		}
		tr.Emit(ev)
	}

	for _, r := range rows {
		for _, v := range dbVariants[r.DB] {
			switch {
			case r.Entry == "FromAddr" && r.Cls == "niladdr":
				m, d := mkDB(r.DB, v, nil)
				info, err := ipinfo.GetIPInfoFromAddr(m, nil)
				emit(r, v, "nil", "<nil>", info, err, d)
			case r.Entry == "FromIP" && r.Cls == "nilip":
				m, d := mkDB(r.DB, v, nil)
				info, err := ipinfo.GetIPInfoFromIP(m, nil)
				emit(r, v, "nil", "<nil>", info, err, d)
			case r.Entry == "FromAddr" && addrOnly[r.Cls] != nil:
				for _, a := range addrOnly[r.Cls] {
					m, d := mkDB(r.DB, v, nil)
					info, err := ipinfo.GetIPInfoFromAddr(m, strAddr(a))
					emit(r, v, "string", a, info, err, d)
				}
				if r.Cls == "zoned" {
					for _, z := range []struct{ ip, zone string }{{"fe80::1", "eth0"}, {"fe80::2", "lo"}, {"2001:db8::77", "eth0"}} {
						for _, a := range []net.Addr{&net.TCPAddr{IP: net.ParseIP(z.ip), Port: 54321, Zone: z.zone},
							&net.UDPAddr{IP: net.ParseIP(z.ip), Port: 54321, Zone: z.zone}} {
							m, d := mkDB(r.DB, v, nil)
							info, err := ipinfo.GetIPInfoFromAddr(m, a)
							emit(r, v, a.Network(), a.String(), info, err, d)
						}
					}
				}
			case ipClasses[r.Cls] != nil:
				for _, h := range ipClasses[r.Cls] {
					ip := net.ParseIP(h)
					if ip == nil {
						hx.Fatal("bad literal in the driver's class table: %q", h)
					}
					if r.Entry == "FromAddr" {
						addrs := []net.Addr{strAddr(hostPort(h, "54321")), strAddr(hostPort(h, "0")), strAddr(hostPort(h, "port")),
							&net.TCPAddr{IP: ip, Port: 54321}, &net.UDPAddr{IP: ip, Port: 54322}}
						for _, a := range addrs {
							m, d := mkDB(r.DB, v, ip)
							info, err := ipinfo.GetIPInfoFromAddr(m, a)
							emit(r, v, a.Network(), a.String(), info, err, d)
						}
					} else {
						forms := []net.IP{ip}
						if v4 := ip.To4(); v4 != nil {
							forms = append(forms, v4, ip.To16())
						}
						for _, f := range forms {
							m, d := mkDB(r.DB, v, ip)
							info, err := ipinfo.GetIPInfoFromIP(m, f)
							emit(r, v, "ip", f.String(), info, err, d)
						}
					}
				}
			default:
				hx.Fatal("row not executable: %+v", r)
			}
		}
	}
}
