package main

import (
	"encoding/binary"
	"flag"
	"math/rand"
	"net"
	"runtime"
	"sort"
	"sync"
	"sync/atomic"
	"time"

	onet "github.com/Jigsaw-Code/outline-ss-server/net"
	"verifharness/hx"
)

type block struct {
	N string `json:"n"`
	B []int  `json:"b"`
	P int    `json:"p"`
	C string `json:"c"`
}

type specTable struct {
	V4  []block `json:"v4"`
	V6  []block `json:"v6"`
	GU6 struct {
		B []int `json:"b"`
		P int   `json:"p"`
	} `json:"gu6"`
}

const (
	clsAccept = iota
	clsReject
	clsDontCare
)

var clsName = []string{"accept", "reject", "dontcare"}

type seg struct {
	lo, hi uint64 // inclusive
	cls    int
}

func v4range(b block) (uint64, uint64) {
	lo := uint64(b.B[0])<<24 | uint64(b.B[1])<<16 | uint64(b.B[2])<<8 | uint64(b.B[3])
	size := uint64(1) << (32 - uint(b.P))
	return lo, lo + size - 1
}

// segments4 splits the IPv4 space at every block boundary of the exported table; the class is constant per segment.
func segments4(t *specTable) []seg {
	cuts := map[uint64]bool{0: true, 1 << 32: true}
	for _, b := range t.V4 {
		lo, hi := v4range(b)
		cuts[lo] = true
		cuts[hi+1] = true
	}
	var cs []uint64
	for c := range cuts {
		cs = append(cs, c)
	}
	sort.Slice(cs, func(i, j int) bool { return cs[i] < cs[j] })
	var out []seg
	for i := 0; i+1 < len(cs); i++ {
		out = append(out, seg{cs[i], cs[i+1] - 1, class4(t, cs[i])})
	}
	return out
}

func class4(t *specTable, a uint64) int {
	in := false
	for _, b := range t.V4 {
		lo, hi := v4range(b)
		if a >= lo && a <= hi {
			if b.C == "reject" {
				return clsReject
			}
			in = true
		}
	}
	if in {
		return clsDontCare
	}
	return clsAccept
}

func prefix6(b []int) [16]byte {
	var o [16]byte
	for i, h := range b {
		o[2*i] = byte(h >> 8)
		o[2*i+1] = byte(h)
	}
	return o
}

func inPrefix6(a, base [16]byte, p int) bool {
	for i := 0; i < 16 && p > 0; i++ {
		n := 8
		if p < 8 {
			n = p
		}
		m := byte(0xff) << uint(8-n)
		if a[i]&m != base[i]&m {
			return false
		}
		p -= n
	}
	return true
}

var mappedPrefix = [12]byte{0, 0, 0, 0, 0, 0, 0, 0, 0, 0, 0xff, 0xff}

func class6(t *specTable, a [16]byte) int {
	var pre [12]byte
	copy(pre[:], a[:12])
	if pre == mappedPrefix { // evaluated after un-mapping
		return class4(t, uint64(binary.BigEndian.Uint32(a[12:])))
	}
	in := false
	for _, b := range t.V6 {
		if inPrefix6(a, prefix6(b.B), b.P) {
			if b.C == "reject" {
				return clsReject
			}
			in = true
		}
	}
	if in || !inPrefix6(a, prefix6(t.GU6.B), t.GU6.P) {
		return clsDontCare
	}
	return clsAccept
}

type mismatch struct {
	A      []int  `json:"a"`
	Form   int    `json:"form"`
	Rej    bool   `json:"rej"`
	Status string `json:"status"`
	Cls    string `json:"cls"`
}

type sweepStats struct {
	n          uint64
	byCls      [3][2]uint64 // class x rejected
	mism       []mismatch
	mismCount  uint64
	firstOfRun map[string]bool
}

func (s *sweepStats) note(ip net.IP, form int, cls int, rej bool) {
	s.n++
	r := 0
	if rej {
		r = 1
	}
	s.byCls[cls][r]++
	if (cls == clsReject && !rej) || (cls == clsAccept && rej) {
		s.mismCount++
		if len(s.mism) < 40 {
			a := ipToAddr(ip)
			if form == 16 && ip.To4() != nil {
				a = ipToAddr(ip.To4())
			}
			s.mism = append(s.mism, mismatch{a, form, rej, statusOf(onet.RequirePublicIP(ip)), clsName[cls]})
		}
	}
}

func runSweep(args []string) {
	fs := flag.NewFlagSet("sweep", flag.ExitOnError)
	tab := fs.String("table", "", "block table exported by TLC (json)")
	mode := fs.String("mode", "quick", "quick | full")
	seed := fs.Int64("seed", 1, "seed")
	out := fs.String("out", "sweep.json", "result")
	workers := fs.Int("workers", runtime.NumCPU(), "goroutines")
	n6 := fs.Int("n6", 0, "IPv6 random fills per block (default 5000 quick / 200000 full)")
	fs.Parse(args)
	var t specTable
	hx.ReadJSON(*tab, &t)
	if len(t.V4) == 0 || len(t.V6) == 0 || len(t.GU6.B) != 8 {
		hx.Fatal("table incomplete")
	}
	if *n6 == 0 {
		*n6 = 5000
		if *mode == "full" {
			*n6 = 200000
		}
	}
	t0 := time.Now()
	segs := segments4(&t)
	segOf := func(a uint64) int {
		return sort.Search(len(segs), func(i int) bool { return segs[i].hi >= a })
	}

	// ---- IPv4 ----
	const chunkBits = 20
	nchunks := uint64(1) << (32 - chunkBits)
	var next uint64
	stats := make([]sweepStats, *workers)
	var wg sync.WaitGroup
	for w := 0; w < *workers; w++ {
		wg.Add(1)
		go func(w int) {
			defer wg.Done()
			st := &stats[w]
			rng := rand.New(rand.NewSource(*seed*7919 + int64(w)))
			ip4 := make(net.IP, 4)
			ip16 := make(net.IP, 16)
			ip16[10], ip16[11] = 0xff, 0xff
			eval := func(a uint64, cls int) {
				binary.BigEndian.PutUint32(ip4, uint32(a))
				st.note(ip4, 4, cls, onet.RequirePublicIP(ip4) != nil)
				binary.BigEndian.PutUint32(ip16[12:], uint32(a))
				st.note(ip16, 16, cls, onet.RequirePublicIP(ip16) != nil)
			}
			for {
				c := atomic.AddUint64(&next, 1) - 1
				if c >= nchunks {
					return
				}
				lo := c << chunkBits
				hi := lo + (1 << chunkBits) - 1
				si := segOf(lo)
				if *mode == "full" {
					for a := lo; a <= hi; a++ {
						for segs[si].hi < a {
							si++
						}
						eval(a, segs[si].cls)
					}
				} else {
					// every /24: first, last and one random host
					for p := lo; p <= hi; p += 256 {
						for _, a := range []uint64{p, p + 255, p + uint64(rng.Intn(254)) + 1} {
							eval(a, segs[segOf(a)].cls)
						}
					}
				}
			}
		}(w)
	}
	wg.Wait()
	var tot4 sweepStats
	for i := range stats {
		tot4.n += stats[i].n
		tot4.mismCount += stats[i].mismCount
		for c := 0; c < 3; c++ {
			tot4.byCls[c][0] += stats[i].byCls[c][0]
			tot4.byCls[c][1] += stats[i].byCls[c][1]
		}
		tot4.mism = append(tot4.mism, stats[i].mism...)
	}
	wall4 := time.Since(t0)

	// ---- IPv6: per block boundaries + random fill inside + random neighbours; random global unicast; random anywhere;
	// random mapped ----
	t1 := time.Now()
	var s6 sweepStats
	rng := rand.New(rand.NewSource(*seed))
	eval6 := func(a [16]byte) {
		ip := net.IP(a[:])
		s6.note(ip, 16, class6(&t, a), onet.RequirePublicIP(ip) != nil)
	}
	fill := func(base [16]byte, p int) [16]byte {
		var a [16]byte
		rng.Read(a[:])
		for i := 0; i < 16 && p > 0; i++ {
			n := 8
			if p < 8 {
				n = p
			}
			m := byte(0xff) << uint(8-n)
			a[i] = base[i]&m | a[i]&^m
			p -= n
		}
		return a
	}
	inc := func(a [16]byte, d int) [16]byte {
		for i := 15; i >= 0; i-- {
			v := int(a[i]) + d
			a[i] = byte(v)
			if v >= 0 && v <= 255 {
				break
			}
		}
		return a
	}
	blocks := append([]block{}, t.V6...)
	blocks = append(blocks, block{N: "global-unicast", B: t.GU6.B, P: t.GU6.P})
	for _, b := range blocks {
		base := prefix6(b.B)
		first := base
		last := base
		for bit := b.P; bit < 128; bit++ {
			last[bit/8] |= 1 << uint(7-bit%8)
		}
		for _, a := range [][16]byte{first, last, inc(first, -1), inc(last, 1), inc(first, 1), inc(last, -1)} {
			eval6(a)
		}
		for i := 0; i < *n6; i++ {
			eval6(fill(base, b.P))
			if b.P >= 4 {
				eval6(fill(base, b.P-rng.Intn(4)-1)) // a neighbour sharing a slightly shorter prefix
			}
		}
	}
	for i := 0; i < 4**n6; i++ {
		eval6(fill(prefix6(t.GU6.B), t.GU6.P))
		var a [16]byte
		rng.Read(a[:])
		eval6(a)
		copy(a[:12], mappedPrefix[:])
		eval6(a)
	}
	wall6 := time.Since(t1)

	cls := func(s *sweepStats) map[string]any {
		m := map[string]any{}
		for c := 0; c < 3; c++ {
			m[clsName[c]] = map[string]uint64{"accepted": s.byCls[c][0], "rejected": s.byCls[c][1]}
		}
		return m
	}
	hx.WriteJSON(*out, map[string]any{
		"mode":            *mode,
		"v4_evaluations":  tot4.n,
		"v4_addresses":    tot4.n / 2,
		"v4_exhaustive":   *mode == "full" && tot4.n == 2*(1<<32),
		"v4_forms":        []int{4, 16},
		"v4_segments":     len(segs),
		"v4_by_class":     cls(&tot4),
		"v4_mismatches":   tot4.mismCount,
		"v4_wall_ms":      wall4.Milliseconds(),
		"v6_evaluations":  s6.n,
		"v6_by_class":     cls(&s6),
		"v6_mismatches":   s6.mismCount,
		"v6_wall_ms":      wall6.Milliseconds(),
		"mismatch_sample": append(tot4.mism, s6.mism...),
		"workers":         *workers,
	})
}
