package main

import (
	"bytes"
	"container/list"
	"context"
	"flag"
	"fmt"
	"io"
	"log/slog"
	"math/rand"
	"net"
	"regexp"
	"sort"
	"strconv"
	"strings"
	"sync"
	"sync/atomic"
	"time"

	"github.com/Jigsaw-Code/outline-sdk/transport/shadowsocks"
	"github.com/Jigsaw-Code/outline-ss-server/service"
	"github.com/Jigsaw-Code/outline-ss-server/service/metrics"
	"verifharness/hx"
)

const dnsSuffix = ".verif.test"

type dest struct {
	T int    `json:"t"`
	K string `json:"k"`
	A []int  `json:"a"`
	Z bool   `json:"z"`
	H string `json:"h"`
}

type step struct {
	Act string   `json:"a"`
	Log string   `json:"log"` // level of the logger given to the handler: "info" (the handlers' default) | "debug"
	D   dest     `json:"d"`
	Ans [][]int  `json:"ans"`
	Pos int      `json:"pos"`
	Cls []string `json:"cls"`
}

type behTable struct {
	Sinks   [][]int `json:"sinks"`
	StandIn [][]int `json:"standin"`
}

func isMapped(a []int) bool {
	return len(a) == 8 && a[0] == 0 && a[1] == 0 && a[2] == 0 && a[3] == 0 && a[4] == 0 && a[5] == 0xffff
}

func unmap(a []int) []int {
	if isMapped(a) {
		return []int{a[6] >> 8, a[6] & 0xff, a[7] >> 8, a[7] & 0xff}
	}
	return a
}

func akey(a []int) string { return fmt.Sprint(a) }

// literal renders an address the way a client would type it (mapped addresses keep their ::ffff: form).
func literal(a []int) string {
	if isMapped(a) {
		return "::ffff:" + addrToIP(unmap(a)).String()
	}
	return addrToIP(a).String()
}

// ---------------------------------------------------------------------------------------------------------------
// sinks
// ---------------------------------------------------------------------------------------------------------------
type sinkEv struct {
	id, pos int
	addr    []int
}

type sinks struct {
	mu       sync.Mutex
	port     int
	bound    map[string]bool // akey(addr) of the addresses a sink could be bound to
	zoneOf   map[string]string
	standin  map[string]bool
	contacts []sinkEv // TCP: a connection was accepted
	sents    []sinkEv // UDP: a datagram arrived
	orphans  []sinkEv
	tcp      []*net.TCPListener
	udp      []*net.UDPConn
	skipped  []string
	onUDP    func(addr []int, payload []byte) bool // conc stage: takes the datagram if it returns true
}

var tokRe = regexp.MustCompile(`^([TU])(\d+)(?::(\d+))?;`)

func zoneFor(ip net.IP) string {
	ifs, _ := net.Interfaces()
	for _, ifc := range ifs {
		addrs, _ := ifc.Addrs()
		for _, a := range addrs {
			if n, ok := a.(*net.IPNet); ok && n.IP.Equal(ip) {
				return ifc.Name
			}
		}
	}
	return ""
}

func (s *sinks) tryBind(addrs [][]int, port int) bool {
	for _, a := range addrs {
		ip := addrToIP(a)
		zone := ""
		if ip.IsLinkLocalUnicast() {
			zone = zoneFor(ip)
		}
		tl, err := net.ListenTCP("tcp", &net.TCPAddr{IP: ip, Port: port, Zone: zone})
		if err != nil {
			if port == 0 || !strings.Contains(err.Error(), "address already in use") {
				s.skipped = append(s.skipped, fmt.Sprintf("no sink on %s: %v", ip, err))
				continue
			}
			return false
		}
		if port == 0 {
			port = tl.Addr().(*net.TCPAddr).Port
		}
		ul, err := net.ListenUDP("udp", &net.UDPAddr{IP: ip, Port: port, Zone: zone})
		if err != nil {
			tl.Close()
			return false
		}
		s.tcp = append(s.tcp, tl)
		s.udp = append(s.udp, ul)
		s.bound[akey(a)] = true
		s.zoneOf[akey(a)] = zone
		go s.serveTCP(tl, a)
		go s.serveUDP(ul, a)
	}
	s.port = port
	return true
}

// newSinks binds a TCP listener and a UDP socket on every given address, all on ONE port (hostnames resolve to several
// addresses but a destination has a single port).
func newSinks(addrs, standin [][]int) *sinks {
	for try := 0; try < 50; try++ {
		s := &sinks{bound: map[string]bool{}, zoneOf: map[string]string{}, standin: map[string]bool{}}
		for _, a := range standin {
			s.standin[akey(a)] = true
		}
		if s.tryBind(addrs, 0) && s.port != 0 {
			return s
		}
		s.close()
	}
	hx.Fatal("could not bind the sinks on a common port")
	return nil
}

func (s *sinks) close() {
	for _, l := range s.tcp {
		l.Close()
	}
	for _, u := range s.udp {
		u.Close()
	}
}

func (s *sinks) serveTCP(l *net.TCPListener, addr []int) {
	for {
		c, err := l.AcceptTCP()
		if err != nil {
			return
		}
		go func() {
			defer c.Close()
			c.SetDeadline(time.Now().Add(4 * time.Second))
			buf := make([]byte, 0, 64)
			tmp := make([]byte, 64)
			for len(buf) < 64 && !bytes.Contains(buf, []byte(";")) {
				n, err := c.Read(tmp)
				buf = append(buf, tmp[:n]...)
				if err != nil {
					break
				}
			}
			m := tokRe.FindSubmatch(buf)
			s.mu.Lock()
			if m != nil && string(m[1]) == "T" {
				id, _ := strconv.Atoi(string(m[2]))
				s.contacts = append(s.contacts, sinkEv{id: id, addr: addr})
			} else {
				s.orphans = append(s.orphans, sinkEv{addr: addr})
			}
			s.mu.Unlock()
			if m != nil && s.standin[akey(addr)] {
				c.Write([]byte("ECHO:" + string(m[0])))
				c.CloseWrite()
			}
		}()
	}
}

func (s *sinks) serveUDP(u *net.UDPConn, addr []int) {
	buf := make([]byte, 2048)
	for {
		n, _, err := u.ReadFromUDP(buf)
		if err != nil {
			return
		}
		if s.onUDP != nil && s.onUDP(addr, buf[:n]) {
			continue
		}
		m := tokRe.FindSubmatch(buf[:n])
		s.mu.Lock()
		if m != nil && string(m[1]) == "U" {
			id, _ := strconv.Atoi(string(m[2]))
			pos, _ := strconv.Atoi(string(m[3]))
			s.sents = append(s.sents, sinkEv{id: id, pos: pos, addr: addr})
		} else {
			s.orphans = append(s.orphans, sinkEv{addr: addr})
		}
		s.mu.Unlock()
		// never reply (a reply from a zoned link-local source is another property's subject)
	}
}

// ---------------------------------------------------------------------------------------------------------------
// SOCKS5 address encodings
// ---------------------------------------------------------------------------------------------------------------
func encodeDest(d dest, port int, s *sinks) []byte {
	p := []byte{byte(port >> 8), byte(port)}
	name := func(n string) []byte {
		if len(n) > 255 {
			hx.Fatal("name too long")
		}
		return append(append([]byte{3, byte(len(n))}, n...), p...)
	}
	switch d.K {
	case "ip":
		ip := addrToIP(d.A)
		if d.T == 1 && len(ip) == 4 {
			return append(append([]byte{1}, ip...), p...)
		}
		if d.T == 4 && len(ip) == 16 {
			return append(append([]byte{4}, ip...), p...) // raw 16 bytes: mapped addresses stay mapped
		}
	case "lit":
		n := literal(d.A)
		if d.Z {
			z := s.zoneOf[akey(d.A)]
			if z == "" {
				z = zoneFor(addrToIP(d.A))
			}
			if z == "" {
				z = "eth0"
			}
			n += "%" + z
		}
		return name(n)
	case "empty":
		return name("")
	case "host":
		return name(d.H + dnsSuffix)
	}
	hx.Fatal("cannot encode destination %+v", d)
	return nil
}

// wire addresses the destination can lead to (the spec's candidates), to decide whether every one has a sink
func wireAddrs(d dest, ans [][]int) [][]int {
	switch d.K {
	case "ip", "lit":
		return [][]int{unmap(d.A)}
	case "empty":
		return [][]int{{0, 0, 0, 0}}
	}
	var out [][]int
	for _, a := range ans {
		out = append(out, unmap(a))
	}
	return out
}

// ---------------------------------------------------------------------------------------------------------------
// TCP side: the real stream handler with its default dialer
// ---------------------------------------------------------------------------------------------------------------
type tcpReg struct {
	ready   chan struct{}
	timeout time.Duration
	debug   bool
	closed  chan string
	probe   chan string
}

type tcpRegs struct {
	mu sync.Mutex
	m  map[int]*tcpReg
}

func (r *tcpRegs) get(port int) *tcpReg {
	r.mu.Lock()
	defer r.mu.Unlock()
	x := r.m[port]
	if x == nil {
		x = &tcpReg{ready: make(chan struct{}), closed: make(chan string, 4), probe: make(chan string, 4)}
		r.m[port] = x
	}
	return x
}

func (r *tcpRegs) drop(port int) {
	r.mu.Lock()
	delete(r.m, port)
	r.mu.Unlock()
}

type tcpMetrics struct{ reg *tcpReg }

func (m *tcpMetrics) AddAuthenticated(string) {}
func (m *tcpMetrics) AddClosed(status string, _ metrics.ProxyMetrics, _ time.Duration) {
	m.reg.closed <- status
}
func (m *tcpMetrics) AddProbe(status, _ string, _ int64) { m.reg.probe <- status }

type tcpResult struct {
	status string
	echo   bool
}

func makeCiphers(secret string) (service.CipherList, *shadowsocks.EncryptionKey) {
	key, err := shadowsocks.NewEncryptionKey(shadowsocks.CHACHA20IETFPOLY1305, secret)
	if err != nil {
		hx.Fatal("key: %v", err)
	}
	l := list.New()
	e := service.MakeCipherEntry("key-0", key, secret)
	l.PushBack(&e)
	cl := service.NewCipherList()
	cl.Update(l)
	return cl, key
}

// ---------------------------------------------------------------------------------------------------------------
// UDP side: the real packet handler with its default validator
// ---------------------------------------------------------------------------------------------------------------
type ssRec struct {
	n  int64
	ch chan bool
}

func (s *ssRec) AddCipherSearch(found bool, _ time.Duration) {
	atomic.AddInt64(&s.n, 1)
	s.ch <- found
}

type udpReport struct {
	idx    int64 // number of cipher searches done when the report was made = index of the datagram it belongs to
	status string
}

type udpRec struct {
	ss      *ssRec
	mu      sync.Mutex
	natAt   []int64
	removed int
	reports []udpReport
}

func (u *udpRec) AddUDPNatEntry(net.Addr, string) service.UDPConnMetrics {
	u.mu.Lock()
	u.natAt = append(u.natAt, atomic.LoadInt64(&u.ss.n))
	u.mu.Unlock()
	return u
}
func (u *udpRec) AddPacketFromClient(status string, _, _ int64) {
	u.mu.Lock()
	u.reports = append(u.reports, udpReport{atomic.LoadInt64(&u.ss.n), status})
	u.mu.Unlock()
}
func (u *udpRec) AddPacketFromTarget(string, int64, int64) {}
func (u *udpRec) RemoveNatEntry() {
	u.mu.Lock()
	u.removed++
	u.mu.Unlock()
}

type udpPktResult struct {
	reported bool
	status   string
	nat      bool
}

// ---------------------------------------------------------------------------------------------------------------
func runBehave(args []string) {
	fs := flag.NewFlagSet("behave", flag.ExitOnError)
	in := fs.String("in", "", "behaviours (json list of lists of steps)")
	tab := fs.String("table", "", "table exported by TLC (sinks, standin)")
	out := fs.String("out", "trace.ndjson", "trace output")
	info := fs.String("info", "", "run information (json)")
	seed := fs.Int64("seed", 1, "seed")
	par := fs.Int("par", 32, "scenarios in flight")
	slowMs := fs.Int("slowms", 1200, "handler context deadline (ms) for destinations without a sink")
	fs.Parse(args)
	var behs [][]step
	hx.ReadJSON(*in, &behs)
	var bt behTable
	hx.ReadJSON(*tab, &bt)
	if len(bt.Sinks) == 0 {
		hx.Fatal("table has no sinks")
	}
	rng := rand.New(rand.NewSource(*seed))
	rng.Shuffle(len(behs), func(i, j int) { behs[i], behs[j] = behs[j], behs[i] })

	// environment: sinks, fake DNS, handlers
	sk := newSinks(bt.Sinks, bt.StandIn)
	zone := map[string][]net.IP{}
	for _, b := range behs {
		for _, st := range b {
			if st.D.K == "host" {
				var ips []net.IP
				for _, a := range st.Ans {
					ips = append(ips, addrToIP(a))
				}
				zone[st.D.H+dnsSuffix] = ips
			}
		}
	}
	dns, err := startFakeDNS(zone)
	if err != nil {
		hx.Fatal("dns: %v", err)
	}
	secret := fmt.Sprintf("verif-secret-%d", *seed)
	ciphers, key := makeCiphers(secret)
	replay := service.NewReplayCache(0)
	auth := service.NewShadowsocksStreamAuthenticator(ciphers, &replay, nil, nil)
	sh := service.NewStreamHandler(auth, 10*time.Second) // DEFAULT dialer: SetTargetDialer is never called
	// the same, with a DEBUG-level logger (what the binary's -verbose flag gives the handlers)
	debugLogger := func() *slog.Logger {
		return slog.New(slog.NewTextHandler(io.Discard, &slog.HandlerOptions{Level: slog.LevelDebug}))
	}
	shDebug := service.NewStreamHandler(auth, 10*time.Second)
	shDebug.SetLogger(debugLogger())
	regs := &tcpRegs{m: map[int]*tcpReg{}}
	pl, err := net.ListenTCP("tcp", &net.TCPAddr{IP: net.IPv4(127, 0, 0, 1)})
	if err != nil {
		hx.Fatal("listen: %v", err)
	}
	go func() {
		for {
			c, err := pl.AcceptTCP()
			if err != nil {
				return
			}
			go func() {
				reg := regs.get(c.RemoteAddr().(*net.TCPAddr).Port)
				select {
				case <-reg.ready:
				case <-time.After(10 * time.Second):
					c.Close()
					return
				}
				ctx, cancel := context.WithTimeout(context.Background(), reg.timeout)
				defer cancel()
				if reg.debug {
					shDebug.Handle(ctx, c, &tcpMetrics{reg})
				} else {
					sh.Handle(ctx, c, &tcpMetrics{reg})
				}
			}()
		}
	}()

	hasSink := func(d dest, ans [][]int) bool {
		for _, a := range wireAddrs(d, ans) {
			k := akey(a)
			if k == akey([]int{0, 0, 0, 0}) || k == akey([]int{0, 0, 0, 0, 0, 0, 0, 0}) {
				continue // this host: the loopback sinks
			}
			if !sk.bound[k] {
				return false
			}
		}
		return true
	}

	runTCP := func(id int, st step) tcpResult {
		c, err := net.DialTCP("tcp", nil, pl.Addr().(*net.TCPAddr))
		if err != nil {
			hx.Fatal("dial proxy: %v", err)
		}
		defer c.Close()
		lp := c.LocalAddr().(*net.TCPAddr).Port
		reg := regs.get(lp)
		defer regs.drop(lp)
		reg.timeout = 8 * time.Second
		reg.debug = st.Log == "debug"
		if !hasSink(st.D, st.Ans) {
			reg.timeout = time.Duration(*slowMs) * time.Millisecond
		}
		close(reg.ready)
		tok := fmt.Sprintf("T%d;", id)
		w := shadowsocks.NewWriter(c, key)
		w.Write(append(encodeDest(st.D, sk.port, sk), tok...))
		c.SetReadDeadline(time.Now().Add(reg.timeout + 4*time.Second))
		r := shadowsocks.NewReader(c, key)
		var got []byte
		tmp := make([]byte, 256)
		for len(got) < 1024 {
			n, err := r.Read(tmp)
			got = append(got, tmp[:n]...)
			if err != nil {
				break
			}
		}
		res := tcpResult{echo: bytes.Contains(got, []byte("ECHO:"+tok))}
		c.Close() // the relay ends when both directions are closed
		select {
		case res.status = <-reg.closed:
		case p := <-reg.probe:
			hx.Fatal("scenario %d: the handler treated an authenticated client as a probe (%s)", id, p)
		case <-time.After(reg.timeout + 6*time.Second):
			hx.Fatal("scenario %d (%+v): AddClosed was not reported", id, st.D)
		}
		return res
	}

	runUDP := func(id int, pkts []step) []udpPktResult {
		pc, err := net.ListenPacket("udp", "127.0.0.1:0")
		if err != nil {
			hx.Fatal("udp listen: %v", err)
		}
		ss := &ssRec{ch: make(chan bool, 64)}
		rec := &udpRec{ss: ss}
		ph := service.NewPacketHandler(60*time.Second, ciphers, rec, ss) // DEFAULT validator
		if pkts[0].Log == "debug" {
			ph.SetLogger(debugLogger())
		}
		done := make(chan struct{})
		go func() { ph.Handle(pc); close(done) }()
		cl, err := net.ListenPacket("udp", "127.0.0.1:0")
		if err != nil {
			hx.Fatal("udp client: %v", err)
		}
		send := func(b []byte, what string) {
			if _, err := cl.WriteTo(b, pc.LocalAddr()); err != nil {
				hx.Fatal("udp write: %v", err)
			}
			select {
			case <-ss.ch:
			case <-time.After(10 * time.Second):
				hx.Fatal("association %d: the handler did not process %s", id, what)
			}
		}
		buf := make([]byte, 2048)
		for _, p := range pkts {
			plain := append(encodeDest(p.D, sk.port, sk), fmt.Sprintf("U%d:%d;", id, p.Pos)...)
			pkt, err := shadowsocks.Pack(buf, plain, key)
			if err != nil {
				hx.Fatal("pack: %v", err)
			}
			send(pkt, fmt.Sprintf("datagram %d", p.Pos))
		}
		// fence: undecryptable bytes; when its cipher search is reported the last datagram has been fully processed
		garbage := make([]byte, 80)
		for i := range garbage {
			garbage[i] = byte(id*31 + i*7 + 1)
		}
		send(garbage, "the fence")
		rec.mu.Lock()
		res := make([]udpPktResult, len(pkts))
		for i := range pkts {
			idx := int64(i + 1)
			for _, r := range rec.reports {
				if r.idx == idx {
					res[i].reported, res[i].status = true, r.status
				}
			}
			for _, n := range rec.natAt {
				if n <= idx {
					res[i].nat = true
				}
			}
		}
		rec.mu.Unlock()
		pc.Close()
		cl.Close()
		select {
		case <-done:
		case <-time.After(10 * time.Second):
			hx.Fatal("association %d: Handle did not return after Close", id)
		}
		return res
	}

	// run
	type result struct {
		tcp *tcpResult
		udp []udpPktResult
	}
	results := make([]result, len(behs))
	sem := make(chan struct{}, *par)
	var wg sync.WaitGroup
	for i, b := range behs {
		if len(b) == 0 {
			continue
		}
		wg.Add(1)
		sem <- struct{}{}
		go func(i int, b []step) {
			defer wg.Done()
			defer func() { <-sem }()
			if b[0].Act == "Tcp" {
				r := runTCP(i+1, b[0])
				results[i].tcp = &r
			} else {
				results[i].udp = runUDP(i+1, b)
			}
		}(i, b)
	}
	wg.Wait()
	time.Sleep(300 * time.Millisecond) // let the sinks drain what may still be in their queues
	sk.mu.Lock()
	contacts := map[int][][]int{}
	for _, e := range sk.contacts {
		contacts[e.id] = append(contacts[e.id], e.addr)
	}
	sents := map[[2]int][][]int{}
	strayUDP := 0
	for _, e := range sk.sents {
		sents[[2]int{e.id, e.pos}] = append(sents[[2]int{e.id, e.pos}], e.addr)
	}
	orphans := append([]sinkEv{}, sk.orphans...)
	sk.mu.Unlock()

	tr := hx.NewTrace(*out)
	ntcp, nudp, npk := 0, 0, 0
	for i, b := range behs {
		id := i + 1
		if results[i].tcp != nil {
			ntcp++
			tr.Emit(map[string]any{"ev": "Tcp", "id": id, "log": logOf(b[0]), "d": b[0].D, "ans": nonNil(b[0].Ans)})
			cs := contacts[id]
			sort.Slice(cs, func(x, y int) bool { return akey(cs[x]) < akey(cs[y]) })
			for _, a := range cs {
				tr.Emit(map[string]any{"ev": "Contact", "id": id, "a": a})
			}
			delete(contacts, id)
			tr.Emit(map[string]any{"ev": "Closed", "id": id, "status": results[i].tcp.status, "echo": results[i].tcp.echo})
		} else if results[i].udp != nil {
			nudp++
			tr.Emit(map[string]any{"ev": "Udp", "id": id, "log": logOf(b[0])})
			for j, p := range b {
				npk++
				tr.Emit(map[string]any{"ev": "Pkt", "id": id, "pos": p.Pos, "d": p.D, "ans": nonNil(p.Ans)})
				for _, a := range sents[[2]int{id, p.Pos}] {
					tr.Emit(map[string]any{"ev": "Sent", "id": id, "pos": p.Pos, "a": a})
				}
				delete(sents, [2]int{id, p.Pos})
				r := results[i].udp[j]
				tr.Emit(map[string]any{"ev": "Rep", "id": id, "pos": p.Pos, "reported": r.reported, "status": r.status, "nat": r.nat})
			}
		}
	}
	// whatever a sink saw that belongs to no scenario step
	for _, as := range contacts {
		for _, a := range as {
			tr.Emit(map[string]any{"ev": "Orphan", "a": a})
		}
	}
	for _, as := range sents {
		for _, a := range as {
			strayUDP++
			tr.Emit(map[string]any{"ev": "Orphan", "a": a})
		}
	}
	for _, e := range orphans {
		tr.Emit(map[string]any{"ev": "Orphan", "a": e.addr})
	}
	tr.Close()
	pl.Close()
	sk.close()
	var bound []string
	for k := range sk.bound {
		bound = append(bound, k)
	}
	sort.Strings(bound)
	if *info != "" {
		hx.WriteJSON(*info, map[string]any{
			"sinks_bound": bound, "skipped": sk.skipped, "port": sk.port, "dns_queries": atomic.LoadInt64(&dns.queries),
			"tcp_scenarios": ntcp, "udp_associations": nudp, "udp_datagrams": npk, "orphans": len(orphans) + strayUDP,
		})
	}
}

func logOf(s step) string {
	if s.Log == "debug" {
		return "debug"
	}
	return "info"
}

func nonNil(a [][]int) [][]int {
	if a == nil {
		return [][]int{}
	}
	return a
}
