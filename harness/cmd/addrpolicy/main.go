// addrpolicy: conformance driver for spec/AddrPolicy.tla (property C05).
//
//	table  -in addrs.json -out trace.ndjson
//	       decision table: every address TLC listed (block boundaries, mapped and embedded forms) is given to the real
//	       onet.RequirePublicIP in its 4-byte and 16-byte form; the results are recorded as "Dec" events.
//	sweep  -table table.json -mode quick|full -seed S -out sweep.json
//	       all 2^32 IPv4 addresses (full) or every /24 x {first,last,random} (quick), in both byte forms, and IPv6 by
//	       prefix class x boundaries x random fill, against the block table exported by TLC.
//	behave -in behs.json -out trace.ndjson -info info.json -seed S
//	       TLC-generated scenarios executed on the real handlers (service.NewStreamHandler +
//	       NewShadowsocksStreamAuthenticator, service.NewPacketHandler; DEFAULT dialer / validator) by a Shadowsocks
//	       client on loopback; sink sockets on 127.0.0.1, ::1, fd00::2, fe80::..%eth0 and 192.0.2.2; fake DNS.
//
//	conc   -in conc.json -table table.json -out trace.ndjson -info info.json -dur 2500ms
//	       TLC-generated concurrent scenario (AddrPolicyConc): ONE service.NewPacketHandler (DEFAULT validator), two
//	       packet listeners each served by its own Handle goroutine, two Shadowsocks UDP clients, each with its own
//	       list of destinations; what the sinks received is recorded as "CSent" events.
//
// The driver never judges: TLC (AddrPolicyTrace) decides on the recorded trace.  The sweep compares against the table
// TLC exported and only reports candidates, which are then confirmed by TLC as "Dec" events.
package main

import (
	"errors"
	"flag"
	"net"
	"os"

	onet "github.com/Jigsaw-Code/outline-ss-server/net"
	"verifharness/hx"
)

// addrToIP converts the spec's representation (4 octets / 8 hextets) to a net.IP of 4 or 16 bytes.
func addrToIP(a []int) net.IP {
	switch len(a) {
	case 4:
		return net.IP{byte(a[0]), byte(a[1]), byte(a[2]), byte(a[3])}
	case 8:
		ip := make(net.IP, 16)
		for i, h := range a {
			ip[2*i] = byte(h >> 8)
			ip[2*i+1] = byte(h)
		}
		return ip
	}
	return nil
}

func ipToAddr(ip net.IP) []int {
	if len(ip) == 4 {
		return []int{int(ip[0]), int(ip[1]), int(ip[2]), int(ip[3])}
	}
	if len(ip) == 16 {
		out := make([]int, 8)
		for i := range out {
			out[i] = int(ip[2*i])<<8 | int(ip[2*i+1])
		}
		return out
	}
	return []int{}
}

// to16 returns the 16-byte form net.ParseIP produces for an IPv4 address.
func to16(ip net.IP) net.IP {
	if len(ip) == 4 {
		return net.IPv4(ip[0], ip[1], ip[2], ip[3])
	}
	return ip
}

func statusOf(err error) string {
	if err == nil {
		return "OK"
	}
	var ce *onet.ConnectionError
	if errors.As(err, &ce) {
		return ce.Status
	}
	return "ERR_OTHER"
}

type tableAddr struct {
	A   []int  `json:"a"`
	Cls string `json:"cls"`
}

func runTable(args []string) {
	fs := flag.NewFlagSet("table", flag.ExitOnError)
	in := fs.String("in", "", "addresses (json list of {a,cls})")
	out := fs.String("out", "trace.ndjson", "trace output")
	fs.Parse(args)
	var addrs []tableAddr
	hx.ReadJSON(*in, &addrs)
	tr := hx.NewTrace(*out)
	defer tr.Close()
	emit := func(a []int, form int, ip net.IP) {
		st := statusOf(onet.RequirePublicIP(ip))
		tr.Emit(map[string]any{"ev": "Dec", "a": a, "form": form, "rej": st != "OK", "status": st})
	}
	for _, x := range addrs {
		ip := addrToIP(x.A)
		if ip == nil {
			hx.Fatal("bad address %v", x.A)
		}
		if len(ip) == 4 {
			emit(x.A, 4, ip)
			emit(x.A, 16, to16(ip))
		} else {
			emit(x.A, 16, ip)
		}
	}
	// Go's nil IP (what net.ParseIP yields for "" or a zoned literal)
	emit([]int{}, 0, nil)
}

func main() {
	if len(os.Args) < 2 {
		hx.Fatal("usage: addrpolicy table|sweep|behave ...")
	}
	switch os.Args[1] {
	case "table":
		runTable(os.Args[2:])
	case "sweep":
		runSweep(os.Args[2:])
	case "behave":
		runBehave(os.Args[2:])
	case "conc":
		runConc(os.Args[2:])
	default:
		hx.Fatal("unknown mode %s", os.Args[1])
	}
}
