package main

// conc: the concurrent stage of C05 (spec/AddrPolicyConc.tla).  One packet handler, one Handle goroutine per listener
// (what cmd/outline-ss-server/main.go does for a service with several UDP listeners), one client per listener.  Every
// datagram carries "C<loop>:<seq>:<index of its destination in the loop's list>;".  The driver records what the sinks
// received; TLC (AddrPolicyTrace, events Conc / CSent) judges.

import (
	"flag"
	"fmt"
	"io"
	"log/slog"
	"net"
	"regexp"
	"sort"
	"strconv"
	"sync"
	"sync/atomic"
	"time"

	"github.com/Jigsaw-Code/outline-sdk/transport/shadowsocks"
	"github.com/Jigsaw-Code/outline-ss-server/service"
	"verifharness/hx"
)

type concStep struct {
	Loop int  `json:"loop"`
	Seq  int  `json:"seq"`
	D    dest `json:"d"`
}

type concMetrics struct {
	mu     sync.Mutex
	status map[string]int
	nat    int
}

func (c *concMetrics) AddCipherSearch(bool, time.Duration) {}
func (c *concMetrics) AddUDPNatEntry(net.Addr, string) service.UDPConnMetrics {
	c.mu.Lock()
	c.nat++
	c.mu.Unlock()
	return c
}
func (c *concMetrics) AddPacketFromClient(status string, _, _ int64) {
	c.mu.Lock()
	c.status[status]++
	c.mu.Unlock()
}
func (c *concMetrics) AddPacketFromTarget(string, int64, int64) {}
func (c *concMetrics) RemoveNatEntry()                         {}

var concRe = regexp.MustCompile(`^C(\d+):(\d+):(\d+);`)

type concArrival struct {
	loop, seq, idx int
	addr           []int
}

func runConc(args []string) {
	fs := flag.NewFlagSet("conc", flag.ExitOnError)
	in := fs.String("in", "", "concurrent scenario (json list of {loop,seq,d})")
	tab := fs.String("table", "", "table exported by TLC (sinks, standin)")
	out := fs.String("out", "conc.ndjson", "trace output")
	info := fs.String("info", "", "run information (json)")
	dur := fs.Duration("dur", 2500*time.Millisecond, "how long the clients send")
	maxPer := fs.Int("max", 40000, "datagrams per client at most")
	logLvl := fs.String("log", "debug", "logger level of the handler")
	fs.Parse(args)
	var steps []concStep
	hx.ReadJSON(*in, &steps)
	var bt behTable
	hx.ReadJSON(*tab, &bt)
	lists := map[int][]dest{}
	for _, s := range steps {
		if s.D.K != "ip" {
			hx.Fatal("concurrent scenarios use IP destinations only: %+v", s.D)
		}
		lists[s.Loop] = append(lists[s.Loop], s.D)
	}
	if len(lists) != 2 || len(lists[1]) == 0 || len(lists[2]) == 0 {
		hx.Fatal("need two non-empty loops, got %d", len(lists))
	}

	sk := newSinks(bt.Sinks, bt.StandIn)
	const keepPerSink = 40
	var amu sync.Mutex
	var arrivals []concArrival
	counts := map[string]int{} // "loop@sink" -> datagrams
	var stray int64
	sk.onUDP = func(addr []int, payload []byte) bool {
		m := concRe.FindSubmatch(payload)
		if m == nil {
			atomic.AddInt64(&stray, 1)
			return false // becomes an Orphan of the sink
		}
		lp, _ := strconv.Atoi(string(m[1]))
		sq, _ := strconv.Atoi(string(m[2]))
		ix, _ := strconv.Atoi(string(m[3]))
		k := fmt.Sprintf("%d@%s", lp, akey(addr))
		amu.Lock()
		counts[k]++
		if counts[k] <= keepPerSink {
			arrivals = append(arrivals, concArrival{lp, sq, ix, addr})
		}
		amu.Unlock()
		return true
	}

	ciphers, key := makeCiphers("verif-conc-secret")
	cm := &concMetrics{status: map[string]int{}}
	ph := service.NewPacketHandler(60*time.Second, ciphers, cm, cm) // DEFAULT validator
	if *logLvl == "debug" {
		ph.SetLogger(slog.New(slog.NewTextHandler(io.Discard, &slog.HandlerOptions{Level: slog.LevelDebug})))
	}
	var pcs []net.PacketConn
	var dones []chan struct{}
	for i := 0; i < 2; i++ {
		pc, err := net.ListenUDP("udp", &net.UDPAddr{IP: net.IPv4(127, 0, 0, 1)})
		if err != nil {
			hx.Fatal("udp listen: %v", err)
		}
		done := make(chan struct{})
		pcs, dones = append(pcs, pc), append(dones, done)
		go func(pc net.PacketConn, done chan struct{}) { ph.Handle(pc); close(done) }(pc, done)
	}
	sentN := make([]int64, 3)
	var wg sync.WaitGroup
	stop := time.Now().Add(*dur)
	for lp := 1; lp <= 2; lp++ {
		wg.Add(1)
		go func(lp int) {
			defer wg.Done()
			cl, err := net.ListenPacket("udp", "127.0.0.1:0")
			if err != nil {
				hx.Fatal("udp client: %v", err)
			}
			defer cl.Close()
			lst := lists[lp]
			enc := make([][]byte, len(lst))
			for i, d := range lst {
				enc[i] = encodeDest(d, sk.port, sk)
			}
			buf := make([]byte, 2048)
			for seq := 1; seq <= *maxPer && time.Now().Before(stop); seq++ {
				ix := (seq - 1) % len(lst)
				plain := append(append([]byte{}, enc[ix]...), fmt.Sprintf("C%d:%d:%d;", lp, seq, ix)...)
				pkt, err := shadowsocks.Pack(buf, plain, key)
				if err != nil {
					hx.Fatal("pack: %v", err)
				}
				if _, err := cl.WriteTo(pkt, pcs[lp-1].LocalAddr()); err != nil {
					hx.Fatal("udp write: %v", err)
				}
				atomic.AddInt64(&sentN[lp], 1)
				if seq%16 == 0 {
					time.Sleep(200 * time.Microsecond) // keep the listener's receive queue from overflowing
				}
			}
		}(lp)
	}
	wg.Wait()
	time.Sleep(400 * time.Millisecond) // handler queues and sinks drain
	for i, pc := range pcs {
		pc.Close()
		select {
		case <-dones[i]:
		case <-time.After(10 * time.Second):
			hx.Fatal("conc: Handle of listener %d did not return after Close", i+1)
		}
	}
	time.Sleep(100 * time.Millisecond)
	sk.close()

	amu.Lock()
	sort.SliceStable(arrivals, func(x, y int) bool {
		if arrivals[x].loop != arrivals[y].loop {
			return arrivals[x].loop < arrivals[y].loop
		}
		return arrivals[x].seq < arrivals[y].seq
	})
	tr := hx.NewTrace(*out)
	tr.Emit(map[string]any{"ev": "Conc", "id": 1, "log": *logLvl, "loops": 2})
	for _, a := range arrivals {
		lst := lists[a.loop]
		if lst == nil || a.idx >= len(lst) {
			tr.Emit(map[string]any{"ev": "Orphan", "a": a.addr})
			continue
		}
		tr.Emit(map[string]any{"ev": "CSent", "loop": a.loop, "seq": a.seq, "d": lst[a.idx], "a": a.addr})
	}
	sk.mu.Lock()
	for _, e := range sk.orphans {
		tr.Emit(map[string]any{"ev": "Orphan", "a": e.addr})
	}
	sk.mu.Unlock()
	tr.Close()
	amu.Unlock()
	var bound []string
	for k := range sk.bound {
		bound = append(bound, k)
	}
	sort.Strings(bound)
	if *info != "" {
		cm.mu.Lock()
		hx.WriteJSON(*info, map[string]any{
			"sinks_bound": bound, "port": sk.port, "sent": []int64{sentN[1], sentN[2]}, "arrived": counts,
			"statuses": cm.status, "nat_entries": cm.nat, "recorded": len(arrivals),
			"dests": []int{len(lists[1]), len(lists[2])},
		})
		cm.mu.Unlock()
	}
}
