// procdrive: process-level conformance driver (L4a).  It runs the REAL outline-ss-server binary (built by the check from
// the working tree) as a subprocess, reloads it with SIGHUP, and observes it only through sockets, its /metrics endpoint
// and its log lines.  Same scenario and trace format as the in-package reload harness (spec/Reload.tla, ReloadTrace.tla).
//
//	procdrive -bin <outline-ss-server> -in scenarios.json -out trace.ndjson
package main

import (
	"bufio"
	"bytes"
	"errors"
	"flag"
	"fmt"
	"io"
	"net"
	"net/http"
	"os"
	"os/exec"
	"path/filepath"
	"regexp"
	"strconv"
	"strings"
	"sync"
	"syscall"
	"time"

	"github.com/Jigsaw-Code/outline-sdk/transport/shadowsocks"
	"github.com/shadowsocks/go-shadowsocks2/socks"
	"verifharness/hx"
)

type vKey struct{ id, cipher, secret string }

var vKeys = map[int]vKey{
	1: {"id1", "chacha20-ietf-poly1305", "secret-one"},
	2: {"id2", "aes-128-gcm", "secret-two"},
	3: {"id3", "aes-256-gcm", "secret-three"},
	4: {"id4", "chacha20-ietf-poly1305", "secret-one"},
	5: {"id5", "bogus-cipher-9000", "secret-five"},
	6: {"id6", "aes-192-gcm", "secret-four"},
	7: {"id7", "aes-256-gcm", "secret-one"}, // the secret of key 1 under another cipher: a different key
	8: {"id1", "aes-256-gcm", "secret-one"}, // key 1 (same id, same secret) under another cipher: what a reload that changes a key's cipher loads
}
var vClassKey = map[int]int{1: 1, 2: 2, 3: 3, 4: 6, 5: 7}
var vIDNum = map[string]int{"id1": 1, "id2": 2, "id3": 3, "id4": 4, "id5": 5, "id6": 6, "id7": 7}

type vSvc struct {
	Ks []int           `json:"ks"`
	Ls [][]interface{} `json:"ls"`
}
type vCfg struct {
	Kind   string  `json:"kind"`
	Legacy [][]int `json:"legacy"`
	Svcs   []vSvc  `json:"svcs"`
}
type vClient struct {
	Addr int    `json:"addr"`
	Key  int    `json:"key"`
	Kind string `json:"kind"`
}
type vStep struct {
	A       string          `json:"a"`
	Cfg     vCfg            `json:"cfg"`
	Frn     [][]interface{} `json:"frn"`
	Ok      bool            `json:"ok"`
	Clients []vClient       `json:"clients"`
}
type vScenario struct {
	Ports  []int   `json:"ports"`
	ID     int     `json:"id"`
	Replay int     `json:"replay"`
	Mode   string  `json:"mode"`
	Steps  []vStep `json:"steps"`
	// Verbose: the server runs with -verbose (debug logging formats errors and their causes: more code that input reaches)
	Verbose bool `json:"verbose"`
	// Burst: every reload is requested by TWO SIGHUPs a few milliseconds apart (the second arrives while the first reload is
	// still running: configurations carry filler keys so that a reload takes a while)
	Burst bool `json:"burst"`
}
type vInput struct {
	Scenarios []vScenario `json:"scenarios"`
}

const clientIP = "127.0.0.77" // distinctive client address (differs from every server-side address)

type drv struct {
	tr          *hx.Trace
	bin         string
	verbose     bool
	fill        int // filler keys per service / legacy configuration (burst scenarios)
	dir         string
	ports       []int
	mport       int
	cmd         *exec.Cmd
	logMu       sync.Mutex
	logLines    []string
	exited      chan struct{}
	sinkUDP     net.PacketConn
	nextPort    int
	clientPorts []int
}

func (d *drv) addr(a int) string { return fmt.Sprintf("127.0.0.1:%d", d.ports[a-1]) }

// cfgAddr: the address as written in the configuration; ids >= 10 are malformed address strings
func (d *drv) cfgAddr(a int) string {
	switch a {
	case 11:
		return fmt.Sprintf("localhost:%d", d.ports[0])
	case 12:
		return "127.0.0.1"
	case 13:
		return fmt.Sprintf(":%d", d.ports[1])
	case 14: // the wildcard address of legacy port 4, spelled as an IPv4 address
		return fmt.Sprintf("0.0.0.0:%d", d.ports[3])
	case 15: // ... and as an IPv6 address
		return fmt.Sprintf("[::]:%d", d.ports[3])
	}
	return d.addr(a)
}

func (d *drv) yaml(c vCfg) string {
	var b strings.Builder
	if len(c.Legacy) > 0 {
		b.WriteString("keys:\n")
		for _, lk := range c.Legacy {
			k := vKeys[lk[1]]
			fmt.Fprintf(&b, "  - id: %s\n    port: %d\n    cipher: %s\n    secret: %s\n", k.id, d.ports[lk[0]-1], k.cipher, k.secret)
		}
		// filler keys nobody uses: they only make a (re)load take noticeable time
		for i := 0; i < d.fill; i++ {
			fmt.Fprintf(&b, "  - id: filler-%d\n    port: %d\n    cipher: chacha20-ietf-poly1305\n    secret: filler-secret-%d\n", i, d.ports[c.Legacy[0][0]-1], i)
		}
	}
	if len(c.Svcs) > 0 {
		b.WriteString("services:\n")
		for _, s := range c.Svcs {
			b.WriteString("  - listeners:\n")
			for _, l := range s.Ls {
				fmt.Fprintf(&b, "      - type: %s\n        address: \"%s\"\n", l[0].(string), d.cfgAddr(int(l[1].(float64))))
			}
			b.WriteString("    keys:\n")
			for _, ki := range s.Ks {
				k := vKeys[ki]
				fmt.Fprintf(&b, "      - id: %s\n        cipher: %s\n        secret: %s\n", k.id, k.cipher, k.secret)
			}
			for i := 0; i < d.fill; i++ {
				fmt.Fprintf(&b, "      - id: filler-%d\n        cipher: chacha20-ietf-poly1305\n        secret: filler-secret-%d\n", i, i)
			}
		}
	}
	return b.String()
}

func (d *drv) cfgPath() string { return filepath.Join(d.dir, "config.yml") }

func (d *drv) writeConfig(c vCfg) {
	p := d.cfgPath()
	os.RemoveAll(p)
	switch c.Kind {
	case "unreadable":
		os.Mkdir(p, 0o700) // reading a directory fails
	case "malformed":
		os.WriteFile(p, []byte("services: [ {listeners: \n  - !!binary |\n :::: not yaml\n\t- x"), 0o600)
	default:
		os.WriteFile(p, []byte(d.yaml(c)), 0o600)
	}
}

func (d *drv) logCount(sub string) int {
	d.logMu.Lock()
	defer d.logMu.Unlock()
	n := 0
	for _, l := range d.logLines {
		if strings.Contains(l, sub) {
			n++
		}
	}
	return n
}

func (d *drv) alive() bool {
	select {
	case <-d.exited:
		return false
	default:
		return true
	}
}

func (d *drv) start(replay int) error {
	d.exited = make(chan struct{})
	d.cmd = exec.Command(d.bin, "-config", d.cfgPath(), "-metrics", fmt.Sprintf("127.0.0.1:%d", d.mport),
		"-replay_history", strconv.Itoa(replay), "-udptimeout", "200ms")
	if d.verbose {
		d.cmd.Args = append(d.cmd.Args, "-verbose")
	}
	stderr, _ := d.cmd.StderrPipe()
	d.cmd.Stdout = io.Discard
	if err := d.cmd.Start(); err != nil {
		return err
	}
	go func() {
		sc := bufio.NewScanner(stderr)
		sc.Buffer(make([]byte, 1<<20), 1<<20)
		for sc.Scan() {
			d.logMu.Lock()
			d.logLines = append(d.logLines, sc.Text())
			d.logMu.Unlock()
		}
		d.cmd.Wait()
		close(d.exited)
	}()
	return nil
}

// waitLoaded waits for one more "Loaded config." or failure line than before
func (d *drv) waitLoad(okBefore, failBefore int) (bool, error) {
	deadline := time.Now().Add(10 * time.Second)
	for time.Now().Before(deadline) {
		if d.logCount("Loaded config.") > okBefore {
			// loadConfig stops the old config after this line; wait for that too unless this is the first load
			if okBefore == 0 || d.logCount("Stopped all listeners for running config.") >= okBefore {
				return true, nil
			}
		}
		if d.logCount("Failed to update server") > failBefore || d.logCount("Server failed to start") > 0 {
			return false, nil
		}
		if !d.alive() {
			return false, errors.New("process exited")
		}
		time.Sleep(2 * time.Millisecond)
	}
	return false, errors.New("no load result in the log within 10s")
}

// waitSecond: after two SIGHUPs in a row the first reload has reported its result.  The server may run a second reload (the
// signal channel holds one pending signal) or fold the two requests into one: wait until whatever it does has settled (a
// result for every reload it announced, or nothing new for a while).  What a reload leaves behind is judged by the probes
// and by the next load, not here.
func (d *drv) waitSecond(hupBefore, okBefore, failBefore int) error {
	deadline := time.Now().Add(4 * time.Second)
	last, lastChange := -1, time.Now()
	for time.Now().Before(deadline) {
		received := d.logCount("SIGHUP received") - hupBefore
		loaded := d.logCount("Loaded config.") - okBefore
		done := loaded + d.logCount("Failed to update server") - failBefore
		if !d.alive() {
			return errors.New("process exited after the second SIGHUP")
		}
		if sum := received*1000 + done; sum != last {
			last, lastChange = sum, time.Now()
		}
		settled := done >= received && d.logCount("Stopped all listeners for running config.") >= d.logCount("Loaded config.")-1
		if settled && time.Since(lastChange) > 300*time.Millisecond {
			return nil
		}
		if time.Since(lastChange) > 1500*time.Millisecond {
			return nil
		}
		time.Sleep(2 * time.Millisecond)
	}
	return nil
}

var labelRe = regexp.MustCompile(`([a-zA-Z_][a-zA-Z0-9_]*)="([^"]*)"`)
var metricLine = regexp.MustCompile(`^([a-zA-Z_:][a-zA-Z0-9_:]*)(\{[^}]*\})? ([0-9eE+\-.]+|NaN|\+Inf)$`)

func (d *drv) scrape() (map[string]float64, string, error) {
	resp, err := http.Get(fmt.Sprintf("http://127.0.0.1:%d/metrics", d.mport))
	if err != nil {
		return nil, "", err
	}
	defer resp.Body.Close()
	b, _ := io.ReadAll(resp.Body)
	out := map[string]float64{}
	for _, ln := range strings.Split(string(b), "\n") {
		if m := metricLine.FindStringSubmatch(ln); m != nil {
			v, _ := strconv.ParseFloat(m[3], 64)
			out[m[1]+m[2]] = v
		}
	}
	return out, string(b), nil
}

func label(series, name string) string {
	i := strings.Index(series, name+`="`)
	if i < 0 {
		return ""
	}
	rest := series[i+len(name)+2:]
	j := strings.Index(rest, `"`)
	return rest[:j]
}

// delta of series with a given prefix between two scrapes
func deltas(before, after map[string]float64, prefix string) map[string]float64 {
	out := map[string]float64{}
	for k, v := range after {
		if strings.HasPrefix(k, prefix) && v-before[k] > 0 {
			out[k] = v - before[k]
		}
	}
	return out
}

func hello(k vKey, target string) []byte {
	key, err := shadowsocks.NewEncryptionKey(k.cipher, k.secret)
	if err != nil {
		panic(err)
	}
	var buf bytes.Buffer
	w := shadowsocks.NewWriter(&buf, key)
	w.Write([]byte(socks.ParseAddr(target)))
	return buf.Bytes()
}

// reuseAddr: a local port that another process left in TIME_WAIT may be bound (this process never uses a port twice)
func reuseAddr(network, address string, c syscall.RawConn) error {
	var serr error
	c.Control(func(fd uintptr) { serr = syscall.SetsockoptInt(int(fd), syscall.SOL_SOCKET, syscall.SO_REUSEADDR, 1) })
	return serr
}

func (d *drv) dial(addr string) (net.Conn, error) {
	var err error
	for i := 0; i < 200; i++ {
		d.nextPort++
		if d.nextPort > 60000 {
			d.nextPort = 33000
		}
		if i%25 == 24 {
			d.nextPort = 33000 + (d.nextPort-33000+3571)%27000 // a whole run of ports is taken: move to another region
		}
		dl := net.Dialer{Timeout: 4 * time.Second, LocalAddr: &net.TCPAddr{IP: net.ParseIP(clientIP), Port: d.nextPort}, Control: reuseAddr}
		var c net.Conn
		c, err = dl.Dial("tcp", addr)
		if err == nil {
			d.clientPorts = append(d.clientPorts, d.nextPort)
			return c, nil
		}
		if errors.Is(err, syscall.ECONNREFUSED) {
			return nil, err
		}
		var ne net.Error
		if errors.As(err, &ne) && ne.Timeout() && i < 3 {
			continue
		}
		if !errors.Is(err, syscall.EADDRINUSE) && !errors.Is(err, syscall.EADDRNOTAVAIL) && !strings.Contains(err.Error(), "bind:") {
			return nil, err
		}
	}
	return nil, err
}

// tcpProbe: presents `hl` on addr; returns listening, id number, status.  The connection is recognised in the exposition
// as the one closed-connection series that moves; when a straggler of an earlier connection moves a second one, the
// measurement is ambiguous and is repeated with a fresh connection.
func (d *drv) tcpProbe(addr string, hl []byte) (bool, int, string, error) {
	var ln bool
	var id int
	var status string
	var err error
	for attempt := 0; attempt < 4; attempt++ {
		ln, id, status, err = d.tcpProbeOnce(addr, hl)
		if err == nil || !strings.Contains(err.Error(), "closed-connection series moved") {
			return ln, id, status, err
		}
	}
	return ln, id, status, err
}

// quiesce waits until two consecutive scrapes show the same closed-connection counters
func (d *drv) quiesce() (map[string]float64, error) {
	prev, _, err := d.scrape()
	if err != nil {
		return nil, err
	}
	for i := 0; i < 200; i++ {
		time.Sleep(3 * time.Millisecond)
		cur, _, err := d.scrape()
		if err != nil {
			return nil, err
		}
		if len(deltas(prev, cur, "shadowsocks_tcp_connections_closed{")) == 0 {
			return cur, nil
		}
		prev = cur
	}
	return prev, nil
}

func (d *drv) tcpProbeOnce(addr string, hl []byte) (bool, int, string, error) {
	before, err := d.quiesce()
	if err != nil {
		return false, 0, "", err
	}
	c, err := d.dial(addr)
	if err != nil {
		if errors.Is(err, syscall.ECONNREFUSED) {
			return false, 0, "", nil
		}
		return false, 0, "", err
	}
	c.Write(hl)
	c.(*net.TCPConn).CloseWrite()
	c.SetReadDeadline(time.Now().Add(3 * time.Second))
	io.Copy(io.Discard, c)
	c.Close()
	deadline := time.Now().Add(3 * time.Second)
	for time.Now().Before(deadline) {
		after, _, err := d.scrape()
		if err != nil {
			return true, 0, "", err
		}
		dl := deltas(before, after, "shadowsocks_tcp_connections_closed{")
		if len(dl) == 1 {
			for s := range dl {
				return true, vIDNum[label(s, "access_key")], label(s, "status"), nil
			}
		}
		if len(dl) > 1 {
			return true, 0, "", fmt.Errorf("one probe connection, %d closed-connection series moved: %v", len(dl), dl)
		}
		time.Sleep(2 * time.Millisecond)
	}
	return true, 0, "", errors.New("connections_closed did not move within 3s")
}

func (d *drv) udpHeld(addr string) bool {
	l, err := net.ListenPacket("udp", addr)
	if err != nil {
		return true
	}
	l.Close()
	return false
}

func (d *drv) udpProbe(addr string, k vKey) (int, error) {
	key, _ := shadowsocks.NewEncryptionKey(k.cipher, k.secret)
	before, _, err := d.scrape()
	if err != nil {
		return 0, err
	}
	ra, _ := net.ResolveUDPAddr("udp", addr)
	var c *net.UDPConn
	for i := 0; i < 200; i++ { // a local port never used before: associations are keyed by client address
		d.nextPort++
		if d.nextPort > 60000 {
			d.nextPort = 33000
		}
		c, err = net.DialUDP("udp", &net.UDPAddr{IP: net.ParseIP(clientIP), Port: d.nextPort}, ra)
		if err == nil {
			break
		}
	}
	if err != nil {
		return 0, err
	}
	defer c.Close()
	d.clientPorts = append(d.clientPorts, c.LocalAddr().(*net.UDPAddr).Port)
	plain := append([]byte(socks.ParseAddr(d.sinkUDP.LocalAddr().String())), 'x')
	buf := make([]byte, len(plain)+key.SaltSize()+key.TagSize()+16)
	pkt, _ := shadowsocks.Pack(buf, plain, key)
	c.Write(pkt)
	deadline := time.Now().Add(3 * time.Second)
	for time.Now().Before(deadline) {
		after, _, err := d.scrape()
		if err != nil {
			return 0, err
		}
		if len(deltas(before, after, `shadowsocks_time_to_cipher_ms_count{found_key="false",proto="udp"}`)) > 0 {
			return 0, nil
		}
		if len(deltas(before, after, `shadowsocks_time_to_cipher_ms_count{found_key="true",proto="udp"}`)) > 0 {
			// the per-key byte counter follows the cipher search
			for i := 0; i < 500; i++ {
				dl := deltas(before, after, `shadowsocks_data_bytes{access_key=`)
				for s := range dl {
					if label(s, "proto") == "udp" && label(s, "dir") == "c>p" {
						return vIDNum[label(s, "access_key")], nil
					}
				}
				time.Sleep(2 * time.Millisecond)
				after, _, _ = d.scrape()
			}
			return 0, errors.New("udp datagram authenticated but no per-key byte counter moved")
		}
		time.Sleep(2 * time.Millisecond)
	}
	return 0, fmt.Errorf("datagram to %s was not processed within 3s", addr)
}

func (d *drv) probe(tag string) {
	serving := [][]interface{}{}
	listening := [][]interface{}{}
	unhandled := [][]interface{}{}
	problems := []string{}
	for a := 1; a <= len(d.ports); a++ {
		addr := d.addr(a)
		tcpL := false
		for cs := 1; cs <= len(vClassKey); cs++ {
			ln, id, _, err := d.tcpProbe(addr, hello(vKeys[vClassKey[cs]], "127.0.0.1:9"))
			if err != nil && ln && strings.Contains(err.Error(), "connections_closed did not move") {
				unhandled = append(unhandled, []interface{}{"tcp", a})
				tcpL = true
				break
			}
			if err != nil {
				problems = append(problems, err.Error())
			}
			if !ln {
				break
			}
			tcpL = true
			if id != 0 {
				serving = append(serving, []interface{}{"tcp", a, cs, id})
			}
		}
		if tcpL {
			listening = append(listening, []interface{}{"tcp", a})
			// a prober that sends garbage and then RESETS the connection while the server is draining it: the socket
			// error must not carry the client's address into any label
			if c, err := d.dial(addr); err == nil {
				c.Write(bytes.Repeat([]byte{0x5a}, 60))
				time.Sleep(3 * time.Millisecond)
				c.(*net.TCPConn).SetLinger(0)
				c.Close()
				time.Sleep(3 * time.Millisecond)
			}
		}
		if d.udpHeld(addr) {
			listening = append(listening, []interface{}{"udp", a})
			for cs := 1; cs <= len(vClassKey); cs++ {
				id, err := d.udpProbe(addr, vKeys[vClassKey[cs]])
				if err != nil && strings.Contains(err.Error(), "was not processed") {
					unhandled = append(unhandled, []interface{}{"udp", a})
					break
				}
				if err != nil {
					problems = append(problems, err.Error())
					continue
				}
				if id != 0 {
					serving = append(serving, []interface{}{"udp", a, cs, id})
				}
			}
		}
	}
	if !d.alive() {
		problems = append(problems, "process exited")
	}
	d.tr.Emit(map[string]any{"ev": "Probe", "tag": tag, "serving": serving, "listening": listening, "runners": -1, "problems": problems, "unhandled": unhandled,
		"natlife": [][]interface{}{}, "natms": 0, "natslack": 0})
	// C20 at process level: nothing the server exports may contain the client's address
	_, text, err := d.scrape()
	if err == nil {
		exposed := []string{}
		if strings.Contains(text, clientIP) {
			exposed = append(exposed, clientIP)
		}
		// ports: a label value (other than a histogram bound) that is the client's port or ends in ":<port>",
		// or a metric/label NAME containing the port
		ports := map[string]bool{}
		seenExp := map[string]bool{}
		for _, p := range d.clientPorts {
			ports[strconv.Itoa(p)] = true
		}
		for _, m := range labelRe.FindAllStringSubmatch(text, -1) {
			name, val := m[1], m[2]
			if name == "le" || name == "quantile" {
				continue
			}
			hit := ports[val]
			if i := strings.LastIndex(val, ":"); !hit && i >= 0 && ports[val[i+1:]] {
				hit = true
			}
			if hit && !seenExp[name+"="+val] && len(exposed) < 20 {
				seenExp[name+"="+val] = true
				exposed = append(exposed, name+"="+val)
			}
		}
		keysG, portsG := -1.0, -1.0
		for _, ln := range strings.Split(text, "\n") {
			if strings.HasPrefix(ln, "shadowsocks_keys ") {
				keysG, _ = strconv.ParseFloat(strings.TrimPrefix(ln, "shadowsocks_keys "), 64)
			}
			if strings.HasPrefix(ln, "shadowsocks_ports ") {
				portsG, _ = strconv.ParseFloat(strings.TrimPrefix(ln, "shadowsocks_ports "), 64)
			}
		}
		d.tr.Emit(map[string]any{"ev": "Exposition", "exposed": exposed, "keys": int(keysG), "ports": int(portsG), "bytes": len(text)})
	}
}

func cfgJSON(c vCfg) map[string]any {
	legacy := [][]int{}
	legacy = append(legacy, c.Legacy...)
	svcs := []map[string]any{}
	for _, s := range c.Svcs {
		ks := []int{}
		ks = append(ks, s.Ks...)
		ls := [][]interface{}{}
		ls = append(ls, s.Ls...)
		svcs = append(svcs, map[string]any{"ks": ks, "ls": ls})
	}
	return map[string]any{"kind": c.Kind, "legacy": legacy, "svcs": svcs}
}

func (d *drv) hold(frn [][]interface{}) []io.Closer {
	var cs []io.Closer
	for _, l := range frn {
		proto, a := l[0].(string), int(l[1].(float64))
		if proto == "tcp" {
			if ln, err := net.Listen("tcp", d.addr(a)); err == nil {
				cs = append(cs, ln)
			} else {
				d.tr.Emit(map[string]any{"ev": "ForeignFailed", "l": []interface{}{proto, a}, "what": err.Error()})
			}
		} else {
			if pc, err := net.ListenPacket("udp", d.addr(a)); err == nil {
				cs = append(cs, pc)
			} else {
				d.tr.Emit(map[string]any{"ev": "ForeignFailed", "l": []interface{}{proto, a}, "what": err.Error()})
			}
		}
	}
	return cs
}

func (d *drv) run(sc vScenario) {
	d.ports = sc.Ports[:5]
	d.mport = sc.Ports[5]
	d.dir, _ = os.MkdirTemp("", "procdrive-")
	defer os.RemoveAll(d.dir)
	d.logLines = nil
	d.clientPorts = nil
	d.verbose = sc.Verbose
	d.fill = 0
	if sc.Burst {
		d.fill = 6000
	}
	d.tr.Emit(map[string]any{"ev": "Scenario", "id": sc.ID, "replay": sc.Replay, "verbose": sc.Verbose})
	started := false
	nload := 0
	recorded := map[string][]byte{}
	frn0 := [][]interface{}{}
	for _, st := range sc.Steps {
		switch st.A {
		case "Load":
			okB, failB := d.logCount("Loaded config."), d.logCount("Failed to update server")
			d.writeConfig(st.Cfg)
			held := d.hold(st.Frn)
			var ok bool
			var err error
			if !started {
				if err = d.start(sc.Replay); err == nil {
					started = true
					ok, err = d.waitLoad(okB, failB)
					// the metrics endpoint is started by a goroutine of its own: wait until it answers
					for i := 0; i < 2500 && err == nil; i++ {
						if _, _, e := d.scrape(); e == nil {
							break
						} else if i == 2499 {
							err = fmt.Errorf("metrics endpoint never answered: %v", e)
						}
						time.Sleep(2 * time.Millisecond)
					}
				}
			} else if sc.Burst && len(st.Frn) == 0 {
				hupB := d.logCount("SIGHUP received")
				d.cmd.Process.Signal(syscall.SIGHUP)
				// back to back (both reloads then run their steps almost at the same time, if the server lets them) up to
				// well inside the first reload
				time.Sleep([]time.Duration{0, 200 * time.Microsecond, time.Millisecond, 5 * time.Millisecond, 20 * time.Millisecond, 50 * time.Millisecond,
					105 * time.Millisecond, 130 * time.Millisecond, 160 * time.Millisecond}[(nload+sc.ID)%9])
				d.cmd.Process.Signal(syscall.SIGHUP)
				ok, err = d.waitLoad(okB, failB)
				if err == nil {
					err = d.waitSecond(hupB, okB, failB)
				}
			} else {
				d.cmd.Process.Signal(syscall.SIGHUP)
				ok, err = d.waitLoad(okB, failB)
			}
			nload++
			for _, c := range held {
				c.Close()
			}
			errText := ""
			if err != nil {
				// the server did not report a result for this (re)load: the process died or stayed silent.  That is an
				// observation about the server (a reload that neither loads nor reports), judged by the trace spec.
				ok = false
				errText = err.Error()
			}
			f := st.Frn
			if f == nil {
				f = frn0
			}
			d.tr.Emit(map[string]any{"ev": "Load", "cfg": cfgJSON(st.Cfg), "frn": f, "ok": ok, "err": errText})
			if started && d.alive() {
				if sc.Mode != "noprobe" { // probes are authenticated handshakes themselves: they would fill the replay history
					d.probe("after-load")
				}
			} else {
				d.tr.Emit(map[string]any{"ev": "HarnessProblem", "what": "process not running after load"})
			}
		case "Replay":
			for _, c := range st.Clients {
				hl, ok := recorded[c.Kind]
				if !ok {
					hl = hello(vKeys[c.Key], "127.0.0.1:9")
					recorded[c.Kind] = hl
				}
				ln, id, status, err := d.tcpProbe(d.addr(c.Addr), hl)
				d.tr.Emit(map[string]any{"ev": "Handshake", "name": c.Kind, "addr": c.Addr, "key": c.Key, "listening": ln, "id": id, "status": status, "err": fmt.Sprint(err)})
			}
		}
	}
	if started {
		d.cmd.Process.Signal(syscall.SIGTERM)
		select {
		case <-d.exited:
		case <-time.After(3 * time.Second):
			d.cmd.Process.Kill()
			<-d.exited
		}
		d.logMu.Lock()
		panicked := false
		for _, l := range d.logLines {
			if strings.HasPrefix(l, "panic:") || strings.Contains(l, "fatal error:") {
				panicked = true
			}
		}
		d.logMu.Unlock()
		d.tr.Emit(map[string]any{"ev": "ProcessEnd", "panicked": panicked})
	}
}

func main() {
	bin := flag.String("bin", "", "outline-ss-server binary")
	in := flag.String("in", "", "scenarios")
	out := flag.String("out", "trace.ndjson", "trace")
	flag.Parse()
	var inp vInput
	hx.ReadJSON(*in, &inp)
	tr := hx.NewTrace(*out)
	defer tr.Close()
	d := &drv{tr: tr, bin: *bin, nextPort: 33000 + (os.Getpid()*131)%20000}
	var err error
	d.sinkUDP, err = net.ListenPacket("udp", "192.0.2.2:0")
	if err != nil {
		d.sinkUDP, _ = net.ListenPacket("udp", "127.0.0.1:0")
	}
	defer d.sinkUDP.Close()
	for _, sc := range inp.Scenarios {
		d.run(sc)
	}
	tr.Emit(map[string]any{"ev": "Done"})
}
