// listeners: conformance driver for service.ListenerManager (spec/Listeners.tla, properties C12, C13).
//
//	sched  -in schedules.json -out trace.ndjson   spec -> code: replay TLC schedules through the verif gates
//	stress -out trace.ndjson -rounds R -threads T -ops N -seed S
//	                                              code -> spec: free-running random scripts, API-level events recorded
//
// The driver records what the real code did (API call results, client-side view of every connection, re-bindability,
// goroutines left); TLC (ListenersTrace) judges the recorded trace.
package main

import (
	"bytes"
	"log/slog"
	"errors"
	"flag"
	"fmt"
	"io"
	"math/rand"
	"net"
	"os"
	"regexp"
	"runtime"
	"strconv"
	"strings"
	"sync"
	"time"

	"github.com/Jigsaw-Code/outline-ss-server/service"
	"verifharness/hx"
)

type op struct {
	A string `json:"a"`
	K int    `json:"k"`
	H int    `json:"h"`
}

type schedule struct {
	Script [][]op          `json:"script"`
	Steps  [][]interface{} `json:"steps"`
	Dead   bool            `json:"dead"`
	Mode   string          `json:"mode"` // "" = alternate; "lazy" / "eager" = placement of the gates around the selects
}

type input struct {
	Foreign   []int             `json:"foreign"` // keys whose address a foreign socket holds during the scenario
	Kinds     map[string]string `json:"kinds"`   // key -> "s" | "p"
	Schedules []schedule        `json:"schedules"`
}

// ---------------------------------------------------------------------------------------------------------
// goroutine identification and state inspection
// ---------------------------------------------------------------------------------------------------------
func goid() int64 {
	var buf [64]byte
	n := runtime.Stack(buf[:], false)
	// "goroutine 123 [running]:"
	f := strings.Fields(string(buf[:n]))
	id, _ := strconv.ParseInt(f[1], 10, 64)
	return id
}

var gHeader = regexp.MustCompile(`(?m)^goroutine (\d+) \[([^\]]+)\]:`)

// gstates returns goroutine id -> runtime wait state, and the full dump
func gstates() (map[int64]string, string) {
	buf := make([]byte, 1<<20)
	for {
		n := runtime.Stack(buf, true)
		if n < len(buf) {
			buf = buf[:n]
			break
		}
		buf = make([]byte, 2*len(buf))
	}
	s := string(buf)
	out := map[int64]string{}
	for _, m := range gHeader.FindAllStringSubmatch(s, -1) {
		id, _ := strconv.ParseInt(m[1], 10, 64)
		st := m[2]
		if i := strings.Index(st, ","); i >= 0 {
			st = st[:i]
		}
		out[id] = st
	}
	return out, s
}

func blockedState(st string) bool {
	switch st {
	case "sync.Mutex.Lock", "semacquire", "chan send", "chan receive", "select", "IO wait", "sync.Cond.Wait", "sync.RWMutex.Lock", "sync.RWMutex.RLock":
		return true
	}
	return false
}

// countLeaks counts goroutines running the shared listeners' accept/read loops
func countLeaks() (int, string) {
	_, dump := gstates()
	n := 0
	var states []string
	for _, g := range strings.Split(dump, "\n\n") {
		if strings.Contains(g, "service.(*multiStreamListener).Acquire.func") || strings.Contains(g, "service.(*multiPacketListener).Acquire.func") {
			// the closures include onCloseFunc (func2); only count the goroutine loops: they are started by `go`
			if strings.Contains(g, "created by github.com/Jigsaw-Code/outline-ss-server/service.(*multi") {
				n++
				if m := gHeader.FindStringSubmatch(g); m != nil {
					states = append(states, m[2])
				}
			}
		}
	}
	return n, strings.Join(states, ";")
}

// ---------------------------------------------------------------------------------------------------------
// gate scheduler
// ---------------------------------------------------------------------------------------------------------
type parked struct {
	label string
	ch    chan struct{}
}

type sched struct {
	mu      sync.Mutex
	active  bool
	role    map[int64]int     // goroutine id -> process id (threads 1.., goroutines 101..)
	parked  map[int]*parked   // process id -> where it is parked
	gids    map[int]int64     // process id -> goroutine id
	nextGor int               // next listener goroutine index
	unknown map[int64]*parked // goroutines parked before a role was assigned
}

func newSched() *sched {
	return &sched{role: map[int64]int{}, parked: map[int]*parked{}, gids: map[int]int64{}, unknown: map[int64]*parked{}}
}

func (s *sched) register(pid int) {
	s.mu.Lock()
	id := goid()
	s.role[id] = pid
	s.gids[pid] = id
	s.mu.Unlock()
}

func isGorLabel(l string) bool {
	return l == "Gtop" || l == "Gaccept" || l == "Gsend" || l == "Pread" || l == "Psel"
}

// gate is installed as service.VerifGate
func (s *sched) gate(label string) {
	s.mu.Lock()
	if !s.active {
		s.mu.Unlock()
		return
	}
	id := goid()
	pid, ok := s.role[id]
	if !ok {
		if !isGorLabel(label) {
			s.mu.Unlock()
			return // some goroutine not under control (e.g. cleanup)
		}
		s.nextGor++
		pid = 100 + s.nextGor
		s.role[id] = pid
		s.gids[pid] = id
	}
	p := &parked{label: label, ch: make(chan struct{})}
	s.parked[pid] = p
	s.mu.Unlock()
	<-p.ch
}

func (s *sched) parkedAt(pid int) string {
	s.mu.Lock()
	defer s.mu.Unlock()
	if p := s.parked[pid]; p != nil {
		return p.label
	}
	return ""
}

func (s *sched) release(pid int) {
	s.mu.Lock()
	p := s.parked[pid]
	delete(s.parked, pid)
	s.mu.Unlock()
	if p != nil {
		close(p.ch)
	}
}

func (s *sched) openAll() {
	s.mu.Lock()
	s.active = false
	ps := s.parked
	s.parked = map[int]*parked{}
	s.mu.Unlock()
	for _, p := range ps {
		close(p.ch)
	}
}

// waitParked waits until process pid is parked at one of the labels; returns the label or "" on timeout.
func (s *sched) waitParked(pid int, d time.Duration, labels ...string) string {
	deadline := time.Now().Add(d)
	for {
		l := s.parkedAt(pid)
		for _, w := range labels {
			if l == w {
				return l
			}
		}
		if time.Now().After(deadline) {
			return ""
		}
		time.Sleep(50 * time.Microsecond)
	}
}

// settle waits until pid is parked at a gate, finished (done() true), or blocked in the runtime.
func (s *sched) settle(pid int, done func() bool, d time.Duration) string {
	deadline := time.Now().Add(d)
	for {
		if l := s.parkedAt(pid); l != "" {
			return "parked:" + l
		}
		if done != nil && done() {
			return "done"
		}
		s.mu.Lock()
		id, ok := s.gids[pid]
		s.mu.Unlock()
		if ok {
			st, _ := gstates()
			if x, ok := st[id]; !ok {
				return "exited"
			} else if blockedState(x) {
				// make sure it is not just about to park (parking is a chan receive inside gate)
				if l := s.parkedAt(pid); l != "" {
					return "parked:" + l
				}
				return "blocked:" + x
			}
		}
		if time.Now().After(deadline) {
			return "timeout"
		}
		time.Sleep(100 * time.Microsecond)
	}
}

// ---------------------------------------------------------------------------------------------------------
// one scenario (used by both modes)
// ---------------------------------------------------------------------------------------------------------
type handle struct {
	kind   string
	sl     service.StreamListener
	pc     net.PacketConn
	key    int
	filled bool
	closed bool // Close has been called by a script or the cleanup
}

type item struct {
	from string // local address of the sending socket (datagrams)
	gap  bool   // at some moment since it was sent no handle of its key was open: it may have been dropped
	id   int
	key  int
	conn net.Conn // stream client side
	ok   bool
	pre  []byte // bytes the early look at the client side has already read
}

type addrObs struct {
	item     int
	addr     net.Addr
	atReturn string
}

type scenario struct {
	tr       *hx.Trace
	mgr      service.ListenerManager
	kinds    map[int]string
	addrs    map[int]string
	mu       sync.Mutex
	cond     *sync.Cond
	slots    map[int]*handle
	items    []*item
	inOp     map[int]string    // thread -> current op ("" if between ops / done)
	got      map[int]bool      // items received by some accept/read call
	addrSeen []addrObs         // source addresses returned by packet reads
	foreign  map[int]io.Closer // foreign sockets holding the addresses of the keys whose listen must fail
	waitKey  map[int]int       // thread -> key of the handle it is waiting on in accept/read (0 = none)
	openCnt  map[int]int       // key -> handles listened and not yet closed (driver-side estimate, only used to avoid useless waiting)
	finished map[int]bool
	lg       sync.Mutex
	// an accept error was injected in this scenario (AcceptStream may legitimately return it)
	injectedErr bool
}

func (sc *scenario) emit(ev map[string]any) {
	sc.lg.Lock()
	sc.tr.Emit(ev)
	sc.lg.Unlock()
}

var (
	portMu   sync.Mutex
	portRng  = rand.New(rand.NewSource(time.Now().UnixNano() ^ int64(os.Getpid())<<20))
	usedPort = map[int]bool{}
)

// freePort picks a port outside the kernel's ephemeral range (so that no other process binding :0 can be given it
// between the probe and its use) that is currently free for both TCP and UDP.
func freePort() int {
	portMu.Lock()
	defer portMu.Unlock()
	for i := 0; i < 200000; i++ {
		p := 10000 + portRng.Intn(22000)
		if usedPort[p] || !hx.ReservePort(p) {
			continue
		}
		l, err := net.Listen("tcp", fmt.Sprintf("127.0.0.1:%d", p))
		if err != nil {
			continue
		}
		u, err2 := net.ListenPacket("udp", fmt.Sprintf("127.0.0.1:%d", p))
		l.Close()
		if err2 != nil {
			continue
		}
		u.Close()
		if l6, err := net.Listen("tcp", fmt.Sprintf("[::1]:%d", p)); err == nil {
			l6.Close()
			u6, err := net.ListenPacket("udp", fmt.Sprintf("[::1]:%d", p))
			if err != nil {
				continue
			}
			u6.Close()
		} else if len(v6Keys) > 0 {
			continue
		}
		usedPort[p] = true
		return p
	}
	hx.Fatal("no free port")
	return 0
}

var foreignKeys = map[int]bool{}

// keys that live on the IPv6 loopback ([::1]); their datagrams go up to the IPv6 maximum of 65527 bytes
var v6Keys = map[int]bool{}

// datagram sizes the environment cycles through (the first entry means "just the header line")
var dgramSizes4 = []int{0, 0, 1200, 65507}
var dgramSizes6 = []int{0, 65507, 65508, 65527}

func newScenario(tr *hx.Trace, kinds map[int]string) *scenario {
	sc := &scenario{tr: tr, mgr: service.NewListenerManager(), kinds: kinds, addrs: map[int]string{},
		slots: map[int]*handle{}, inOp: map[int]string{}, finished: map[int]bool{}, got: map[int]bool{}, waitKey: map[int]int{}, openCnt: map[int]int{}}
	sc.cond = sync.NewCond(&sc.mu)
	// keys that model the same address for tcp and udp may share a port; simply give each key its own port
	sc.foreign = map[int]io.Closer{}
	for k := range kinds {
		if v6Keys[k] {
			sc.addrs[k] = fmt.Sprintf("[::1]:%d", freePort())
		} else {
			sc.addrs[k] = fmt.Sprintf("127.0.0.1:%d", freePort())
		}
		if foreignKeys[k] {
			if kinds[k] == "s" {
				if l, err := net.Listen("tcp", sc.addrs[k]); err == nil {
					sc.foreign[k] = l
				}
			} else if c, err := net.ListenPacket("udp", sc.addrs[k]); err == nil {
				sc.foreign[k] = c
			}
		}
	}
	// keys 1 (stream) and 2 (packet) are the SAME address, as a service that listens on tcp and udp of one port has it (the
	// manager keeps separate books for the two kinds)
	if kinds[1] == "s" && kinds[2] == "p" && !v6Keys[1] && !v6Keys[2] && !foreignKeys[1] && !foreignKeys[2] {
		sc.addrs[2] = sc.addrs[1]
	}
	return sc
}

func (sc *scenario) slot(t, h int) *handle {
	sc.mu.Lock()
	defer sc.mu.Unlock()
	sc.inOp[t] = "waitslot"
	for sc.slots[h] == nil || !sc.slots[h].filled {
		sc.cond.Wait()
	}
	return sc.slots[h]
}

func (sc *scenario) isForeign(k int) bool {
	sc.mu.Lock()
	defer sc.mu.Unlock()
	return sc.foreign[k] != nil
}

func (sc *scenario) setOp(t int, s string) {
	sc.mu.Lock()
	sc.inOp[t] = s
	sc.mu.Unlock()
}

func (sc *scenario) runThread(t int, script []op, s *sched, wg *sync.WaitGroup) {
	defer wg.Done()
	if s != nil {
		s.register(t)
	}
	for _, o := range script {
		switch o.A {
		case "listen":
			sc.setOp(t, "listen")
			kind := sc.kinds[o.K]
			hnd := &handle{kind: kind, key: o.K}
			var err error
			sc.emit(map[string]any{"ev": "ListenStart", "t": t, "h": o.H, "k": o.K})
			if kind == "s" {
				hnd.sl, err = sc.mgr.ListenStream(sc.addrs[o.K])
			} else {
				hnd.pc, err = sc.mgr.ListenPacket(sc.addrs[o.K])
			}
			sc.emit(map[string]any{"ev": "ListenEnd", "t": t, "h": o.H, "k": o.K, "ok": err == nil, "err": fmt.Sprint(err), "foreign": sc.isForeign(o.K)})
			sc.mu.Lock()
			if err == nil {
				hnd.filled = true
				sc.openCnt[o.K]++
			} else {
				hnd.filled = true
				hnd.closed = true
				hnd.kind = "x"
			}
			sc.slots[o.H] = hnd
			sc.cond.Broadcast()
			sc.mu.Unlock()
		case "free":
			// the foreign socket that held the key's address goes away
			sc.mu.Lock()
			c := sc.foreign[o.K]
			delete(sc.foreign, o.K)
			sc.mu.Unlock()
			if c != nil {
				c.Close()
			}
			sc.emit(map[string]any{"ev": "Free", "t": t, "k": o.K})
		case "close":
			hnd := sc.slot(t, o.H)
			if hnd.kind == "x" {
				continue
			}
			sc.setOp(t, "close")
			sc.mu.Lock()
			already := hnd.closed
			hnd.closed = true
			if !already {
				sc.openCnt[hnd.key]--
				if sc.openCnt[hnd.key] <= 0 {
					for _, it := range sc.items {
						if it.key == hnd.key {
							it.gap = true
						}
					}
				}
			}
			sc.mu.Unlock()
			if already && hnd.kind == "p" {
				continue // a packet handle must be closed once only (API contract)
			}
			sc.emit(map[string]any{"ev": "CloseStart", "t": t, "h": o.H})
			if hnd.kind == "s" {
				hnd.sl.Close()
			} else {
				hnd.pc.Close()
			}
			sc.emit(map[string]any{"ev": "CloseEnd", "t": t, "h": o.H})
		case "accept":
			hnd := sc.slot(t, o.H)
			if hnd.kind == "x" {
				continue
			}
			sc.setOp(t, "accept")
			sc.mu.Lock()
			sc.waitKey[t] = hnd.key
			sc.mu.Unlock()
			sc.emit(map[string]any{"ev": "AcceptStart", "t": t, "h": o.H})
			if hnd.kind == "s" {
				c, err := hnd.sl.AcceptStream()
				if err == nil {
					// identify the connection by the first bytes the client sent ("item <id>\n")
					c.SetReadDeadline(time.Now().Add(2 * time.Second))
					buf := make([]byte, 32)
					n, _ := c.Read(buf)
					id := parseItem(string(buf[:n]))
					c.Write([]byte(fmt.Sprintf("H%d\n", o.H)))
					c.Close()
					sc.mu.Lock()
					sc.got[id] = true
					sc.mu.Unlock()
					sc.emit(map[string]any{"ev": "AcceptEnd", "t": t, "h": o.H, "res": "item", "item": id})
				} else if errors.Is(err, net.ErrClosed) {
					sc.emit(map[string]any{"ev": "AcceptEnd", "t": t, "h": o.H, "res": "closed", "item": 0})
				} else {
					sc.mu.Lock()
					inj := sc.injectedErr
					sc.mu.Unlock()
					sc.emit(map[string]any{"ev": "AcceptEnd", "t": t, "h": o.H, "res": "err", "item": 0, "err": err.Error(), "injected": inj})
				}
			} else {
				buf := make([]byte, 65600)
				n, raddr, err := hnd.pc.ReadFrom(buf)
				if err == nil {
					if id, want := parseItemLen(string(buf[:min(n, 64)])); want > 0 && want != n {
						sc.emit(map[string]any{"ev": "Truncated", "t": t, "h": o.H, "item": id, "size": n, "want": want})
					}
					sc.mu.Lock()
					sc.got[parseItem(string(buf[:min(n, 64)]))] = true
					// the address handed out with a datagram must be, and remain, the sender's
					sc.addrSeen = append(sc.addrSeen, addrObs{item: parseItem(string(buf[:min(n, 64)])), addr: raddr, atReturn: fmt.Sprint(raddr)})
					sc.mu.Unlock()
					sc.emit(map[string]any{"ev": "AcceptEnd", "t": t, "h": o.H, "res": "item", "item": parseItem(string(buf[:min(n, 64)]))})
				} else if errors.Is(err, net.ErrClosed) {
					sc.emit(map[string]any{"ev": "AcceptEnd", "t": t, "h": o.H, "res": "closed", "item": 0})
				} else {
					sc.emit(map[string]any{"ev": "AcceptEnd", "t": t, "h": o.H, "res": "err", "item": 0, "err": err.Error()})
				}
			}
		}
		sc.setOp(t, "")
		sc.mu.Lock()
		sc.waitKey[t] = 0
		sc.mu.Unlock()
	}
	sc.mu.Lock()
	sc.finished[t] = true
	sc.mu.Unlock()
}

func parseItem(s string) int {
	id, _ := parseItemLen(s)
	return id
}

// parseItemLen: an item starts with the line "item <id> [<total length>]"; datagrams may be padded up to that length
func parseItemLen(s string) (int, int) {
	if i := strings.IndexByte(s, '\n'); i >= 0 {
		s = s[:i]
	}
	f := strings.Fields(s)
	if len(f) >= 2 && f[0] == "item" {
		n, err := strconv.Atoi(f[1])
		if err != nil {
			return -1, 0
		}
		l := 0
		if len(f) >= 3 {
			l, _ = strconv.Atoi(f[2])
		}
		return n, l
	}
	return -1, 0
}

// connect: the environment sends a connection / datagram to key k
func (sc *scenario) connect(k int) {
	sc.mu.Lock()
	id := len(sc.items) + 1
	it := &item{id: id, key: k, gap: sc.openCnt[k] <= 0}
	sc.items = append(sc.items, it)
	sc.mu.Unlock()
	msg := []byte(fmt.Sprintf("item %d\n", id))
	// the item reaches the socket at some instant between ConnectStart and Connect
	sc.emit(map[string]any{"ev": "ConnectStart", "item": id, "k": k})
	if sc.isForeign(k) {
		// the address belongs to a foreign socket, not to the manager under test: nothing is sent
	} else if sc.kinds[k] == "s" {
		c, err := net.DialTimeout("tcp", sc.addrs[k], time.Second)
		if err == nil {
			c.Write(msg)
			it.conn = c
			it.ok = true
		}
	} else {
		c, err := net.Dial("udp", sc.addrs[k])
		if err == nil {
			it.from = c.LocalAddr().String()
			sizes := dgramSizes4
			if v6Keys[k] {
				sizes = dgramSizes6
			}
			if want := sizes[id%len(sizes)]; want > 0 {
				msg = []byte(fmt.Sprintf("item %d %d\n", id, want))
				msg = append(msg, bytes.Repeat([]byte{'x'}, want-len(msg))...)
			}
			_, err = c.Write(msg)
			it.ok = err == nil
			c.Close()
		}
	}
	sc.emit(map[string]any{"ev": "Connect", "item": id, "k": k, "ok": it.ok, "kind": sc.kinds[k]})
}

// settleDeliveries waits until every successfully sent item has been received by some call, or nobody is waiting in
// accept/read any more, or the time is up.
func (sc *scenario) settleDeliveries(d time.Duration) {
	deadline := time.Now().Add(d)
	for time.Now().Before(deadline) {
		sc.mu.Lock()
		pending, waiting := 0, 1
		for _, it := range sc.items {
			if it.ok && !it.gap && !sc.got[it.id] {
				for t, o := range sc.inOp {
					if o == "accept" && sc.waitKey[t] == it.key {
						pending++
						break
					}
				}
			}
		}
		sc.mu.Unlock()
		if pending == 0 || waiting == 0 {
			return
		}
		time.Sleep(time.Millisecond)
	}
}

// clientView: the client side of every stream connection that no accept call has returned so far, looked at BEFORE the
// cleanup closes the handles that are still open.  A connection on which the client has received nothing and now sees the
// end of the stream or a reset was closed by the server itself (a connection that a call returned is answered with "H<h>"
// by the driver before it is closed).  Whether the server was entitled to do so is the trace specification's business.
func (sc *scenario) clientView() {
	sc.mu.Lock()
	var look []*item
	for _, it := range sc.items {
		if it.ok && it.conn != nil && sc.kinds[it.key] == "s" && !sc.got[it.id] {
			look = append(look, it)
		}
	}
	sc.mu.Unlock()
	for _, it := range look {
		it.conn.SetReadDeadline(time.Now().Add(3 * time.Millisecond))
		buf := make([]byte, 64)
		n, err := it.conn.Read(buf)
		it.pre = append(it.pre, buf[:n]...)
		it.conn.SetReadDeadline(time.Time{})
		if n > 0 || err == nil {
			continue
		}
		var ne net.Error
		if errors.As(err, &ne) && ne.Timeout() {
			continue // open and silent: queued, or held by the accept goroutine
		}
		what := "reset"
		if errors.Is(err, io.EOF) {
			what = "closed"
		}
		sc.emit(map[string]any{"ev": "ClientSaw", "item": it.id, "what": what, "err": err.Error()})
	}
}

func (sc *scenario) threadDone(t int) bool {
	sc.mu.Lock()
	defer sc.mu.Unlock()
	return sc.finished[t]
}

func (sc *scenario) opOf(t int) string {
	sc.mu.Lock()
	defer sc.mu.Unlock()
	return sc.inOp[t]
}

// finish: watchdog, cleanup and final observations.  nThreads threads were started.
func (sc *scenario) finish(nThreads int, wg *sync.WaitGroup, watchdog time.Duration, leaksBefore int) {
	allDone := make(chan struct{})
	go func() { wg.Wait(); close(allDone) }()
	// phase 1: listen/close calls must never block for long; threads waiting in accept/read or for a handle that
	// another thread has not created yet are not pending.  The state must be stable for a while.
	deadline := time.Now().Add(watchdog)
	stuck := map[int]string{}
	stableSince := time.Time{}
	for {
		stuck = map[int]string{}
		for t := 1; t <= nThreads; t++ {
			if sc.threadDone(t) {
				continue
			}
			o := sc.opOf(t)
			if o == "listen" || o == "close" {
				stuck[t] = o
			}
		}
		select {
		case <-allDone:
			stuck = map[int]string{}
		default:
		}
		if len(stuck) == 0 {
			if stableSince.IsZero() {
				stableSince = time.Now()
			} else if time.Since(stableSince) > 15*time.Millisecond {
				break
			}
		} else {
			stableSince = time.Time{}
			if time.Now().After(deadline) {
				break
			}
		}
		time.Sleep(500 * time.Microsecond)
	}
	if len(stuck) > 0 {
		_, dump := gstates()
		nlock := strings.Count(dump, "sync.(*Mutex).Lock")
		for t, o := range stuck {
			sc.emit(map[string]any{"ev": "Stuck", "t": t, "op": o, "mutex_waiters": nlock})
		}
		os.Stderr.WriteString("STUCK-DUMP-BEGIN\n" + filterDump(dump) + "\nSTUCK-DUMP-END\n")
	}
	// phase 2: cleanup: repeatedly close every handle that is still open so that parked accepts return and scripts
	// can run to their end
	clean := len(stuck) == 0
	if clean {
		// "never lost while some handle keeps accepting": give every connection/datagram that nobody has received yet
		// ample time to reach one of the calls that are still waiting, then mark the instant for the trace spec
		sc.settleDeliveries(3 * time.Second)
		sc.clientView()
		sc.emit(map[string]any{"ev": "CleanupStart"})
		cdeadline := time.Now().Add(2 * watchdog)
		for {
			finished := false
			select {
			case <-allDone:
				finished = true
			default:
			}
			sc.mu.Lock()
			var toClose []int
			for h, hnd := range sc.slots {
				if hnd.filled && !hnd.closed {
					hnd.closed = true
					toClose = append(toClose, h)
				}
			}
			sc.mu.Unlock()
			if finished && len(toClose) == 0 {
				break
			}
			cdone := make(chan struct{})
			go func() {
				for _, h := range toClose {
					hnd := sc.slots[h]
					sc.emit(map[string]any{"ev": "CloseStart", "t": 0, "h": h})
					if hnd.kind == "s" {
						hnd.sl.Close()
					} else if hnd.kind == "p" {
						hnd.pc.Close()
					}
					sc.emit(map[string]any{"ev": "CloseEnd", "t": 0, "h": h})
				}
				close(cdone)
			}()
			select {
			case <-cdone:
			case <-time.After(watchdog):
				clean = false
				sc.emit(map[string]any{"ev": "Stuck", "t": 0, "op": "close", "mutex_waiters": 0})
			}
			if !clean {
				break
			}
			if time.Now().After(cdeadline) {
				clean = false
				for t := 1; t <= nThreads; t++ {
					if !sc.threadDone(t) {
						o := sc.opOf(t)
						if o == "accept" {
							o = "accept-after-close" // every handle has been closed: a pending accept/read must have returned
						}
						sc.emit(map[string]any{"ev": "Stuck", "t": t, "op": o, "mutex_waiters": 0})
					}
				}
				break
			}
			time.Sleep(time.Millisecond)
		}
	}
	if !clean {
		// a deadlocked manager cannot be inspected further
		sc.emit(map[string]any{"ev": "End", "clean": false})
		return
	}
	// final observations: all handles are closed now
	for k, kind := range sc.kinds {
		used := false
		for _, h := range sc.slots {
			if h.key == k {
				used = true
			}
		}
		if !used || sc.isForeign(k) {
			continue
		}
		ok := false
		for i := 0; i < 500 && !ok; i++ {
			if kind == "s" {
				l, err := net.Listen("tcp", sc.addrs[k])
				if err == nil {
					l.Close()
					ok = true
				}
			} else {
				l, err := net.ListenPacket("udp", sc.addrs[k])
				if err == nil {
					l.Close()
					ok = true
				}
			}
			if !ok {
				time.Sleep(2 * time.Millisecond)
			}
		}
		sc.emit(map[string]any{"ev": "Rebind", "k": k, "ok": ok})
	}
	// client-side view of every stream connection
	for _, it := range sc.items {
		if sc.kinds[it.key] != "s" || !it.ok {
			continue
		}
		it.conn.SetReadDeadline(time.Now().Add(1500 * time.Millisecond))
		b, err := io.ReadAll(it.conn)
		b = append(it.pre, b...)
		fate := "closed"
		by := 0
		if len(b) > 1 && b[0] == 'H' {
			fate = "served"
			by, _ = strconv.Atoi(strings.TrimSpace(string(b[1:])))
		} else if err != nil {
			var ne net.Error
			if errors.As(err, &ne) && ne.Timeout() {
				fate = "hanging"
			}
		}
		it.conn.Close()
		sc.emit(map[string]any{"ev": "ItemFate", "item": it.id, "fate": fate, "by": by})
	}
	// source addresses returned by packet reads: equal to the sender's address when returned, and still so now
	sc.mu.Lock()
	for _, o := range sc.addrSeen {
		sender := ""
		for _, it := range sc.items {
			if it.id == o.item {
				sender = it.from
			}
		}
		if sender != "" {
			sc.emit(map[string]any{"ev": "AddrCheck", "item": o.item, "sender": sender, "atReturn": o.atReturn, "atEnd": fmt.Sprint(o.addr)})
		}
	}
	sc.mu.Unlock()
	// goroutines of the shared listeners must be gone (grace period)
	n, states := 0, ""
	for i := 0; i < 1000; i++ { // generous grace period: it only costs time when something really is left
		n, states = countLeaks()
		if n <= leaksBefore {
			break
		}
		time.Sleep(2 * time.Millisecond)
	}
	sc.emit(map[string]any{"ev": "Leak", "n": n - leaksBefore, "states": states})
	for _, c := range sc.foreign {
		c.Close()
	}
	sc.emit(map[string]any{"ev": "End", "clean": true})
}

func filterDump(d string) string {
	var out []string
	for _, g := range strings.Split(d, "\n\n") {
		if strings.Contains(g, "outline-ss-server/service") {
			lines := strings.Split(g, "\n")
			if len(lines) > 9 {
				lines = lines[:9]
			}
			out = append(out, strings.Join(lines, "\n"))
		}
	}
	return strings.Join(out, "\n\n")
}

// ---------------------------------------------------------------------------------------------------------
// modes
// ---------------------------------------------------------------------------------------------------------
// releaseListenerGoroutines lets every accept/read goroutine that is held before its channel operation proceed
func (s *sched) releaseListenerGoroutines() {
	s.mu.Lock()
	var pids []int
	for pid, p := range s.parked {
		if pid > 100 && (p.label == "Gsend" || p.label == "Psel") {
			pids = append(pids, pid)
		}
	}
	s.mu.Unlock()
	for _, pid := range pids {
		s.release(pid)
		s.settle(pid, nil, 200*time.Millisecond)
	}
}

// runSchedule replays one TLC schedule.  Two placements of the gates around the selects are used (alternating):
//
//	lazy  - an API thread is held BEFORE its select until the model lets the select fire; a listener goroutine enters
//	        its channel operation as soon as it has something to hand over;
//	eager - an API thread enters its select at once and waits there (as the model's pc = A2 means); a listener
//	        goroutine is held BEFORE its channel operation until the model moves it (hand-over, give-up, exit).
//
// Both are schedules of the same model; they differ in which real interleavings of select branches they can produce.
func runSchedule(tr *hx.Trace, idx int, kinds map[int]string, sd schedule, watchdog time.Duration, stepTimeout time.Duration) {
	eager := idx%2 == 0
	if sd.Mode != "" {
		eager = sd.Mode == "eager"
	}
	leaks0, _ := countLeaks()
	sc := newScenario(tr, kinds)
	s := newSched()
	s.active = true
	installGate(s.gate)
	sc.emit(map[string]any{"ev": "Sched", "id": idx, "dead": sd.Dead, "eager": eager})
	var wg sync.WaitGroup
	for t := range sd.Script {
		wg.Add(1)
		go sc.runThread(t+1, sd.Script[t], s, &wg)
	}
	diverged := ""
	executed := 0
	for si, st := range sd.Steps {
		pid := int(st[0].(float64))
		label := st[1].(string)
		switch {
		case pid == 0: // Connect<k>
			k, _ := strconv.Atoi(strings.TrimPrefix(label, "Connect"))
			sc.connect(k)
		case pid < 100:
			t := pid
			gate := label
			if label == "A2recv" || label == "A2closed" {
				gate = "A2"
			}
			if gate == "A2" && s.parkedAt(t) != "A2" && sc.opOf(t) != "accept" {
				break // the real select already fired (eager passive step)
			}
			if eager && gate == "A2" {
				// the thread is already inside its select; the model now lets it complete
				if label == "A2recv" {
					s.releaseListenerGoroutines()
				}
				if s.parkedAt(t) == "A2" {
					s.release(t)
				}
				s.settle(t, func() bool { return sc.threadDone(t) || sc.opOf(t) != "accept" }, stepTimeout)
				break
			}
			if gate != "C1w" && s.waitParked(t, stepTimeout/4, "C1w", gate) == "C1w" {
				// a schedule of a model variant without the wait of Close for the calls in flight (pinned code): the real
				// Close passes through it by itself
				s.release(t)
				s.settle(t, func() bool { return sc.threadDone(t) }, stepTimeout)
			}
			if got := s.waitParked(t, stepTimeout, gate); got == "" {
				diverged = fmt.Sprintf("step %d: thread %d not parked at %s (at %q, op %q)", si, t, gate, s.parkedAt(t), sc.opOf(t))
			} else {
				s.release(t)
				r := s.settle(t, func() bool { return sc.threadDone(t) }, stepTimeout)
				if eager && label == "A1" && r == "parked:A2" {
					s.release(t) // enter the select and wait there
					s.settle(t, func() bool { return sc.threadDone(t) }, stepTimeout)
				}
			}
		default:
			g := pid
			switch label {
			case "GacceptErr":
				// the next accept of this goroutine fails with EMFILE: the descriptor table is filled up while it runs
				if got := s.waitParked(g, stepTimeout, "Gaccept"); got == "" {
					diverged = fmt.Sprintf("step %d: goroutine %d not parked at Gaccept (at %q)", si, g, s.parkedAt(g))
					break
				}
				restore, ferr := exhaustFds()
				if ferr != nil {
					diverged = fmt.Sprintf("step %d: cannot exhaust the descriptor table: %v", si, ferr)
					break
				}
				sc.mu.Lock()
				sc.injectedErr = true
				sc.mu.Unlock()
				s.release(g)
				r := s.settle(g, nil, stepTimeout)
				restore()
				if r == "parked:Gsend" && !eager {
					s.release(g)
					s.settle(g, nil, stepTimeout)
				}
			case "Gtop", "Gaccept", "Pread":
				if got := s.waitParked(g, stepTimeout, label); got == "" {
					diverged = fmt.Sprintf("step %d: goroutine %d not parked at %s (at %q)", si, g, label, s.parkedAt(g))
					break
				}
				s.release(g)
				if label != "Gtop" {
					next := "Gsend"
					if label == "Pread" {
						next = "Psel"
					}
					// the I/O call returns (a connection/datagram is queued or the socket is closed), then the goroutine
					// reaches its channel operation
					r := s.settle(g, nil, stepTimeout)
					if r == "parked:"+next && !eager {
						s.release(g)
						s.settle(g, nil, stepTimeout)
					}
				} else {
					s.settle(g, nil, stepTimeout)
				}
			default: // Ggiveup, Pdone: happen by themselves in the real code once the goroutine is in its channel operation
				if l := s.parkedAt(g); eager && (l == "Gsend" || l == "Psel") {
					s.release(g)
					s.settle(g, nil, stepTimeout)
				}
			}
		}
		if diverged != "" {
			break
		}
		executed++
	}
	sc.emit(map[string]any{"ev": "Replayed", "steps": executed, "of": len(sd.Steps), "diverged": diverged})
	s.openAll()
	sc.finish(len(sd.Script), &wg, watchdog, leaks0)
	installGate(nil)
}

func randomScript(rng *rand.Rand, nThreads, nOps int, keys []int, nh int) [][]op {
	// handle slots are assigned to listen ops in creation order; close/accept refer to slots that some thread fills
	script := make([][]op, nThreads)
	slot := 0
	type pend struct{ h int }
	var listens []int
	for t := 0; t < nThreads; t++ {
		for i := 0; i < nOps; i++ {
			r := rng.Intn(10)
			switch {
			case (r < 4 || len(listens) == 0) && slot < nh:
				slot++
				script[t] = append(script[t], op{A: "listen", K: keys[rng.Intn(len(keys))], H: slot})
				listens = append(listens, slot)
			case r < 7 && len(listens) > 0:
				script[t] = append(script[t], op{A: "close", H: listens[rng.Intn(len(listens))]})
			case len(listens) > 0:
				script[t] = append(script[t], op{A: "accept", H: listens[rng.Intn(len(listens))]})
			}
		}
	}
	return script
}

func main() {
	if len(os.Args) < 2 {
		hx.Fatal("usage: listeners sched|stress ...")
	}
	mode := os.Args[1]
	fs := flag.NewFlagSet(mode, flag.ExitOnError)
	in := fs.String("in", "", "schedules json")
	out := fs.String("out", "trace.ndjson", "trace output")
	seed := fs.Int64("seed", 1, "seed")
	rounds := fs.Int("rounds", 50, "stress rounds")
	threads := fs.Int("threads", 4, "stress threads")
	ops := fs.Int("ops", 4, "ops per thread")
	conns := fs.Int("conns", 3, "connections/datagrams per round")
	churnDur := fs.Duration("dur", 3*time.Second, "churn: how long to run")
	debugLog := fs.Bool("debuglog", false, "default logger at debug level (what -verbose does in the server); output discarded")
	many := fs.Int("many", 0, "extra rounds with this many addresses, all listened on and then all closed")
	wd := fs.Duration("watchdog", 2*time.Second, "deadlock watchdog")
	stepTO := fs.Duration("steptimeout", 500*time.Millisecond, "per-step timeout of the schedule replayer")
	fs.Parse(os.Args[2:])
	if *debugLog {
		slog.SetDefault(slog.New(slog.NewTextHandler(io.Discard, &slog.HandlerOptions{Level: slog.LevelDebug})))
	}
	tr := hx.NewTrace(*out)
	defer tr.Close()
	defer hx.ReleasePorts()
	switch mode {
	case "sched":
		var inp input
		hx.ReadJSON(*in, &inp)
		kinds := map[int]string{}
		for k, v := range inp.Kinds {
			n, _ := strconv.Atoi(k)
			kinds[n] = v
		}
		for _, k := range inp.Foreign {
			foreignKeys[k] = true
		}
		if !gatesAvailable() {
			hx.Fatal("schedule replay needs the verif gates (build with -tags verif)")
		}
		for i, sd := range inp.Schedules {
			runSchedule(tr, i+1, kinds, sd, *wd, *stepTO)
		}
	case "stress":
		rng := rand.New(rand.NewSource(*seed))
		kinds := map[int]string{1: "s", 2: "p", 3: "s", 4: "s", 5: "p", 6: "p"}
		foreignKeys[4], foreignKeys[5] = true, true
		v6Keys[6] = true // a packet listener on [::1]: datagrams up to 65527 bytes
		keys := []int{1, 2, 3, 6}
		for r := 0; r < *rounds; r++ {
			leaks0, _ := countLeaks()
			sc := newScenario(tr, kinds)
			// fewer keys => more sharing and more last-close/listen races
			ks := keys[:1+rng.Intn(3)]
			if r%4 == 3 {
				ks = []int{6, 2}[:1+rng.Intn(2)] // packet listeners only, the IPv6 one first
			}
			if rng.Intn(3) == 0 {
				ks = append(append([]int{}, ks...), 4+rng.Intn(2)) // some listens must fail: a foreign socket holds the address
			}
			script := randomScript(rng, *threads, *ops, ks, 8)
			sc.emit(map[string]any{"ev": "Sched", "id": r + 1, "dead": false, "script": script})
			var wg sync.WaitGroup
			for t := range script {
				wg.Add(1)
				go sc.runThread(t+1, script[t], nil, &wg)
			}
			for c := 0; c < *conns; c++ {
				time.Sleep(time.Duration(rng.Intn(300)) * time.Microsecond)
				sc.connect(ks[rng.Intn(len(ks))])
			}
			sc.finish(len(script), &wg, *wd, leaks0)
		}
		// "any number of addresses": many addresses of both kinds are acquired and then released without a listen in
		// between (what stopping a large configuration does), by one thread and by two threads
		if *many > 0 {
			for v, nt := range []int{1, 2} {
				leaks0, _ := countLeaks()
				mk := map[int]string{}
				for i := 1; i <= *many; i++ {
					mk[10+i] = []string{"s", "p"}[i%2]
				}
				sc := newScenario(tr, mk)
				script := make([][]op, nt)
				for t := 0; t < nt; t++ {
					for i := 1 + t; i <= *many; i += nt {
						script[t] = append(script[t], op{A: "listen", K: 10 + i, H: i})
					}
					for i := 1 + t; i <= *many; i += nt {
						script[t] = append(script[t], op{A: "close", H: i})
					}
				}
				sc.emit(map[string]any{"ev": "Sched", "id": *rounds + v + 1, "dead": false, "script": script})
				var wg sync.WaitGroup
				for t := range script {
					wg.Add(1)
					go sc.runThread(t+1, script[t], nil, &wg)
				}
				sc.finish(len(script), &wg, *wd, leaks0)
			}
		}
	case "churn":
		churn(tr, *churnDur/2, 25)
		churnDgram(tr, *churnDur/2, 15)
	default:
		hx.Fatal("unknown mode")
	}
}
