//go:build verif

package main

import "github.com/Jigsaw-Code/outline-ss-server/service"

func installGate(f func(string)) { service.VerifGate = f }
func gatesAvailable() bool       { return true }
