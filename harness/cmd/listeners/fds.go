package main

import (
	"os"
	"strconv"
	"syscall"
)

// exhaustFds makes the next descriptor allocation of this process fail with EMFILE: the soft limit is lowered to just above
// the highest descriptor in use and the holes below it are filled.  The returned function undoes both.
func exhaustFds() (func(), error) {
	var old syscall.Rlimit
	if err := syscall.Getrlimit(syscall.RLIMIT_NOFILE, &old); err != nil {
		return nil, err
	}
	ents, err := os.ReadDir("/proc/self/fd")
	if err != nil {
		return nil, err
	}
	max := 0
	for _, e := range ents {
		if n, err := strconv.Atoi(e.Name()); err == nil && n > max {
			max = n
		}
	}
	low := old
	low.Cur = uint64(max + 1)
	if err := syscall.Setrlimit(syscall.RLIMIT_NOFILE, &low); err != nil {
		return nil, err
	}
	var fill []int
	for {
		fd, err := syscall.Open("/dev/null", syscall.O_RDONLY|syscall.O_CLOEXEC, 0)
		if err != nil {
			break
		}
		fill = append(fill, fd)
	}
	return func() {
		for _, fd := range fill {
			syscall.Close(fd)
		}
		syscall.Setrlimit(syscall.RLIMIT_NOFILE, &old)
	}, nil
}
