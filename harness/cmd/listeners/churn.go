package main

// churn: acquire / accept / close in tight loops on ONE address of a fresh manager, a few goroutines, no connections.
// The races of interest have windows of a few instructions (a new handle acquired while the last one is being released),
// so events are not written under a lock while the loops run: every goroutine keeps its events in memory, stamped from one
// atomic counter (Start events take their stamp before the call, End events after it returned, so the stamp order is a
// real-time order).  A batch uses at most 45 handle slots; its events are written out afterwards in stamp order and judged
// by ListenersTrace like every other trace.  The driver only decides WHICH batches to write (all those in which something
// looks odd, and the first ones): the verdict is TLC's.

import (
	"bytes"
	"errors"
	"fmt"
	"net"
	"runtime"
	"sort"
	"sync"
	"sync/atomic"
	"time"

	"github.com/Jigsaw-Code/outline-ss-server/service"

	"verifharness/hx"
)

const nG = 3

type cev struct {
	seq int64
	m   map[string]any
}

type churnG struct {
	mu  sync.Mutex // only the accept helpers share a churnG
	evs []cev
}

var churnSeq atomic.Int64

func (g *churnG) rec(m map[string]any) int64 {
	s := churnSeq.Add(1)
	g.mu.Lock()
	g.evs = append(g.evs, cev{s, m})
	g.mu.Unlock()
	return s
}

func churnBatch(kind string, addr string, perG int) (evs []cev, odd bool, stuck bool) {
	mgr := service.NewListenerManager()
	gs := make([]*churnG, nG+1)
	for i := range gs {
		gs[i] = &churnG{}
	}
	var oddFlag atomic.Bool
	var inOp [nG + 2]atomic.Value // what each goroutine is doing right now ("" = between calls)
	for i := range inOp {
		inOp[i].Store("")
	}
	listen := func(g *churnG, t, h int) (service.StreamListener, net.PacketConn, bool) {
		g.rec(map[string]any{"ev": "ListenStart", "t": t, "h": h, "k": 1})
		inOp[t].Store("listen")
		defer inOp[t].Store("")
		var sl service.StreamListener
		var pc net.PacketConn
		var err error
		if kind == "s" {
			sl, err = mgr.ListenStream(addr)
		} else {
			pc, err = mgr.ListenPacket(addr)
		}
		g.rec(map[string]any{"ev": "ListenEnd", "t": t, "h": h, "k": 1, "ok": err == nil, "err": fmt.Sprint(err), "foreign": false})
		if err != nil {
			oddFlag.Store(true)
		}
		return sl, pc, err == nil
	}
	closeH := func(g *churnG, t, h int, sl service.StreamListener, pc net.PacketConn) int64 {
		s := g.rec(map[string]any{"ev": "CloseStart", "t": t, "h": h})
		inOp[t].Store("close")
		defer inOp[t].Store("")
		func() {
			defer func() {
				if r := recover(); r != nil {
					g.rec(map[string]any{"ev": "Panic", "t": t, "op": "close", "what": fmt.Sprint(r)})
					oddFlag.Store(true)
				}
			}()
			if sl != nil {
				sl.Close()
			} else {
				pc.Close()
			}
		}()
		g.rec(map[string]any{"ev": "CloseEnd", "t": t, "h": h})
		return s
	}
	var wg sync.WaitGroup
	start := make(chan struct{})
	for gi := 1; gi <= nG; gi++ {
		wg.Add(1)
		go func(gi int) {
			defer wg.Done()
			g := gs[gi]
			<-start
			for i := 0; i < perG; i++ {
				h := (gi-1)*perG + i + 1
				sl, pc, ok := listen(g, gi, h)
				if !ok {
					continue
				}
				if gi != 2 {
					closeH(g, gi, h, sl, pc)
					continue
				}
				// the accepting goroutine: a call is pending on the open handle when it is closed
				res := make(chan cev, 1)
				ga := gs[0]
				go func() {
					t := nG + 1
					ga.rec(map[string]any{"ev": "AcceptStart", "t": t, "h": h})
					var err error
					func() {
						defer func() {
							if r := recover(); r != nil {
								err = fmt.Errorf("panic: %v", r)
							}
						}()
						if sl != nil {
							var c net.Conn
							c, err = sl.AcceptStream()
							if err == nil {
								c.Close()
								err = errors.New("unexpected connection")
							}
						} else {
							_, _, err = pc.ReadFrom(make([]byte, 64))
							if err == nil {
								err = errors.New("unexpected datagram")
							}
						}
					}()
					m := map[string]any{"ev": "AcceptEnd", "t": t, "h": h, "res": "closed", "item": 0}
					if !errors.Is(err, net.ErrClosed) {
						m = map[string]any{"ev": "AcceptEnd", "t": t, "h": h, "res": "err", "item": 0, "err": fmt.Sprint(err)}
					}
					res <- cev{ga.rec(m), m}
				}()
				if i%2 == 0 {
					runtime.Gosched()
				}
				var early *cev
				select {
				case r := <-res: // returned although nobody has closed the handle
					early = &r
				default:
				}
				cs := closeH(g, gi, h, sl, pc)
				if early == nil {
					select {
					case r := <-res:
						if r.seq < cs || r.m["res"] != "closed" {
							oddFlag.Store(true)
						}
					case <-time.After(2 * time.Second):
						g.rec(map[string]any{"ev": "Stuck", "t": nG + 1, "op": "accept-after-close"})
						oddFlag.Store(true)
					}
				} else {
					oddFlag.Store(true)
				}
			}
		}(gi)
	}
	close(start)
	finished := make(chan struct{})
	go func() { wg.Wait(); close(finished) }()
	select {
	case <-finished:
	case <-time.After(8 * time.Second):
		// some call never returned: report which, and give the batch up (its goroutines are abandoned)
		stuck = true
		oddFlag.Store(true)
		for t := 1; t <= nG; t++ {
			if op := inOp[t].Load().(string); op != "" {
				gs[t].rec(map[string]any{"ev": "Stuck", "t": t, "op": op})
			}
		}
	}
	for _, g := range gs {
		g.mu.Lock()
		evs = append(evs, g.evs...)
		g.mu.Unlock()
	}
	sort.Slice(evs, func(i, j int) bool { return evs[i].seq < evs[j].seq })
	return evs, oddFlag.Load(), stuck
}

func churn(tr *hx.Trace, dur time.Duration, keepFirst int) {
	port := freePort()
	addr := fmt.Sprintf("127.0.0.1:%d", port)
	deadline := time.Now().Add(dur)
	n, written, odd := 0, 0, 0
	for time.Now().Before(deadline) {
		kind := []string{"s", "s", "p"}[n%3]
		evs, isOdd, stuck := churnBatch(kind, addr, 15)
		n++
		if isOdd {
			odd++
		}
		if isOdd && odd <= 20 || n <= keepFirst {
			written++
			tr.Emit(map[string]any{"ev": "Sched", "id": 100000 + n, "dead": false, "script": []any{}, "churn": kind})
			for _, e := range evs {
				tr.Emit(e.m)
			}
			tr.Emit(map[string]any{"ev": "End", "clean": !isOdd})
		}
		if stuck {
			break // the address may still be held by the abandoned goroutines
		}
	}
	tr.Emit(map[string]any{"ev": "Churn", "batches": n, "written": written, "odd": odd})
}

// churnDgramBatch: one packet handle stays open with a reader looping on it; round after round a second handle is acquired,
// starts a read, a numbered datagram is sent, and the second handle is closed a few microseconds later.  Whatever the race
// between that Close and the delivery under way, every datagram must come out exactly once, on one of the two handles.
func churnDgramBatch(addr string, rounds int, sweep int) (evs []cev, odd bool) {
	mgr := service.NewListenerManager()
	gs := []*churnG{{}, {}, {}}
	var oddFlag atomic.Bool
	got := make([]atomic.Int32, rounds+1)
	pc1, err := mgr.ListenPacket(addr)
	gs[0].rec(map[string]any{"ev": "ListenEnd", "t": 0, "h": 1, "k": 1, "ok": err == nil, "err": fmt.Sprint(err), "foreign": false})
	if err != nil {
		return gs[0].evs, true
	}
	read := func(g *churnG, t, h int, pc net.PacketConn) string {
		g.rec(map[string]any{"ev": "AcceptStart", "t": t, "h": h})
		buf := make([]byte, 256)
		n, _, err := pc.ReadFrom(buf)
		switch {
		case err == nil:
			id := parseItem(string(buf[:n]))
			g.rec(map[string]any{"ev": "AcceptEnd", "t": t, "h": h, "res": "item", "item": id})
			if id >= 1 && id <= rounds {
				got[id].Add(1) // after the event is stamped: the main loop stamps CleanupStart once it has seen every item
			}
			return "item"
		case errors.Is(err, net.ErrClosed):
			g.rec(map[string]any{"ev": "AcceptEnd", "t": t, "h": h, "res": "closed", "item": 0})
			return "closed"
		default:
			g.rec(map[string]any{"ev": "AcceptEnd", "t": t, "h": h, "res": "err", "item": 0, "err": fmt.Sprint(err)})
			return "err"
		}
	}
	readerDone := make(chan struct{})
	go func() { // the handle that keeps reading
		defer close(readerDone)
		for read(gs[1], 1, 1, pc1) == "item" {
		}
	}()
	g := gs[0]
	for i := 1; i <= rounds; i++ {
		h := i + 1
		g.rec(map[string]any{"ev": "ListenStart", "t": 0, "h": h, "k": 1})
		pc, err := mgr.ListenPacket(addr)
		g.rec(map[string]any{"ev": "ListenEnd", "t": 0, "h": h, "k": 1, "ok": err == nil, "err": fmt.Sprint(err), "foreign": false})
		if err != nil {
			oddFlag.Store(true)
			continue
		}
		res := make(chan string, 1)
		go func() { res <- read(gs[2], 2, h, pc) }()
		runtime.Gosched()
		g.rec(map[string]any{"ev": "ConnectStart", "item": i, "k": 1})
		c, err := net.Dial("udp", addr)
		ok := false
		if err == nil {
			_, err = c.Write([]byte(fmt.Sprintf("item %d\n", i)))
			ok = err == nil
			c.Close()
		}
		g.rec(map[string]any{"ev": "Connect", "item": i, "k": 1, "ok": ok, "kind": "p"})
		for spin := 0; spin < (i*7+sweep)%64*40; spin++ { // 0 .. ~60 us
			runtime.KeepAlive(spin)
		}
		g.rec(map[string]any{"ev": "CloseStart", "t": 0, "h": h})
		pc.Close()
		g.rec(map[string]any{"ev": "CloseEnd", "t": 0, "h": h})
		select {
		case <-res:
		case <-time.After(2 * time.Second):
			g.rec(map[string]any{"ev": "Stuck", "t": 2, "op": "accept-after-close"})
			oddFlag.Store(true)
		}
	}
	// let the deliveries under way complete; the first reader is still waiting
	deadline := time.Now().Add(300 * time.Millisecond)
	for time.Now().Before(deadline) {
		all := true
		for i := 1; i <= rounds; i++ {
			if got[i].Load() == 0 {
				all = false
			}
		}
		if all {
			break
		}
		time.Sleep(time.Millisecond)
	}
	for i := 1; i <= rounds; i++ {
		if got[i].Load() != 1 {
			oddFlag.Store(true)
		}
	}
	g.rec(map[string]any{"ev": "CleanupStart"})
	g.rec(map[string]any{"ev": "CloseStart", "t": 0, "h": 1})
	pc1.Close()
	g.rec(map[string]any{"ev": "CloseEnd", "t": 0, "h": 1})
	select {
	case <-readerDone:
	case <-time.After(2 * time.Second):
		g.rec(map[string]any{"ev": "Stuck", "t": 1, "op": "accept-after-close"})
		oddFlag.Store(true)
	}
	for _, x := range gs {
		x.mu.Lock()
		evs = append(evs, x.evs...)
		x.mu.Unlock()
	}
	sort.Slice(evs, func(i, j int) bool { return evs[i].seq < evs[j].seq })
	return evs, oddFlag.Load()
}

func churnDgram(tr *hx.Trace, dur time.Duration, keepFirst int) {
	addr := fmt.Sprintf("127.0.0.1:%d", freePort())
	deadline := time.Now().Add(dur)
	n, written, odd := 0, 0, 0
	for time.Now().Before(deadline) {
		var evs []cev
		var isOdd bool
		if n%3 == 2 {
			evs, isOdd = churnReadersBatch(addr, 40)
		} else {
			evs, isOdd = churnDgramBatch(addr, 40, n)
		}
		n++
		if isOdd {
			odd++
		}
		if isOdd && odd <= 20 || n <= keepFirst {
			written++
			tr.Emit(map[string]any{"ev": "Sched", "id": 200000 + n, "dead": false, "script": []any{}, "churn": "dgram"})
			for _, e := range evs {
				tr.Emit(e.m)
			}
			tr.Emit(map[string]any{"ev": "End", "clean": !isOdd})
		}
	}
	tr.Emit(map[string]any{"ev": "Churn", "batches": n, "written": written, "odd": odd, "what": "dgram"})
}

// churnReadersBatch: SEVERAL reads in flight on one packet handle while datagrams of different lengths arrive back to back
// from different sockets: every read must return one datagram whole, with the length and the source address of that datagram.
func churnReadersBatch(addr string, items int) (evs []cev, odd bool) {
	mgr := service.NewListenerManager()
	const nReaders = 4
	gs := make([]*churnG, nReaders+1)
	for i := range gs {
		gs[i] = &churnG{}
	}
	var oddFlag atomic.Bool
	pc, err := mgr.ListenPacket(addr)
	g := gs[0]
	g.rec(map[string]any{"ev": "ListenEnd", "t": 0, "h": 1, "k": 1, "ok": err == nil, "err": fmt.Sprint(err), "foreign": false})
	if err != nil {
		return g.evs, true
	}
	type seen struct {
		n    int
		from string
	}
	got := make([]atomic.Pointer[seen], items+1)
	var delivered atomic.Int32
	var wg sync.WaitGroup
	for r := 1; r <= nReaders; r++ {
		wg.Add(1)
		go func(r int) {
			defer wg.Done()
			buf := make([]byte, 2048)
			for {
				gs[r].rec(map[string]any{"ev": "AcceptStart", "t": r, "h": 1})
				n, raddr, err := pc.ReadFrom(buf)
				if err != nil {
					res := "err"
					if errors.Is(err, net.ErrClosed) {
						res = "closed"
					}
					gs[r].rec(map[string]any{"ev": "AcceptEnd", "t": r, "h": 1, "res": res, "item": 0})
					return
				}
				id, want := parseItemLen(string(buf[:min(n, 64)]))
				gs[r].rec(map[string]any{"ev": "AcceptEnd", "t": r, "h": 1, "res": "item", "item": id})
				if want != n {
					gs[r].rec(map[string]any{"ev": "Truncated", "t": r, "h": 1, "item": id, "size": n, "want": want})
					oddFlag.Store(true)
				}
				if id >= 1 && id <= items {
					got[id].Store(&seen{n, fmt.Sprint(raddr)})
				}
				delivered.Add(1)
			}
		}(r)
	}
	socks := make([]net.Conn, 4)
	for i := range socks {
		c, err := net.Dial("udp", addr)
		if err != nil {
			oddFlag.Store(true)
			continue
		}
		socks[i] = c
		defer c.Close()
	}
	from := make([]string, items+1)
	for i := 1; i <= items; i++ {
		c := socks[i%len(socks)]
		if c == nil {
			continue
		}
		size := 40 + (i*37)%300
		msg := []byte(fmt.Sprintf("item %d %d\n", i, size))
		msg = append(msg, bytes.Repeat([]byte{'x'}, size-len(msg))...)
		g.rec(map[string]any{"ev": "ConnectStart", "item": i, "k": 1})
		_, err := c.Write(msg)
		from[i] = c.LocalAddr().String()
		g.rec(map[string]any{"ev": "Connect", "item": i, "k": 1, "ok": err == nil, "kind": "p"})
	}
	deadline := time.Now().Add(300 * time.Millisecond)
	for int(delivered.Load()) < items && time.Now().Before(deadline) {
		time.Sleep(time.Millisecond)
	}
	for i := 1; i <= items; i++ {
		s := got[i].Load()
		if s == nil {
			oddFlag.Store(true)
			continue
		}
		if s.from != from[i] {
			oddFlag.Store(true)
		}
		g.rec(map[string]any{"ev": "AddrCheck", "item": i, "sender": from[i], "atReturn": s.from, "atEnd": s.from})
	}
	g.rec(map[string]any{"ev": "CleanupStart"})
	g.rec(map[string]any{"ev": "CloseStart", "t": 0, "h": 1})
	pc.Close()
	g.rec(map[string]any{"ev": "CloseEnd", "t": 0, "h": 1})
	wg.Wait()
	for _, x := range gs {
		x.mu.Lock()
		evs = append(evs, x.evs...)
		x.mu.Unlock()
	}
	sort.Slice(evs, func(i, j int) bool { return evs[i].seq < evs[j].seq })
	return evs, oddFlag.Load()
}
