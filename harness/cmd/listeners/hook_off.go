//go:build !verif

package main

func installGate(f func(string)) {}
func gatesAvailable() bool       { return false }
