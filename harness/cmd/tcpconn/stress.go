package main

func runStress(n int, seed int64, out string) {}
