//go:build go1.25

package main

// vt_test.go: the behaviours of spec/TcpConn.tla under VIRTUAL time (testing/synctest; run with go1.26 and
// GODEBUG=asynctimerchan=0).  The handler is the real service.NewStreamHandler with the service's 59 s timeout; client
// and target are in-memory transport.StreamConn whose read deadlines are timers of the bubble, so every instant is exact.
// Single-connection behaviours only; records have the same shape as the real-socket driver's and are judged by TLC.
//
//	TCPVT_IN=behs.json TCPVT_OUT=cases.ndjson TCPVT_SEED=n go1.26.8 test -run TestVT ./cmd/tcpconn

import (
	"context"
	"errors"
	"fmt"
	"io"
	"log/slog"
	"math/rand"
	"net"
	"os"
	"strconv"
	"sync"
	"syscall"
	"testing"
	"testing/synctest"
	"time"

	"github.com/Jigsaw-Code/outline-sdk/transport"
	"github.com/Jigsaw-Code/outline-sdk/transport/shadowsocks"
	"github.com/Jigsaw-Code/outline-ss-server/service"
	"verifharness/hx"
)

// ---- in-memory half-closable connection ------------------------------------------------------------------------
type memPipe struct {
	mu       sync.Mutex
	buf      []byte
	wclosed  bool // the writer half-closed: EOF after buf
	rst      bool // reset by the writer's side
	rclosed  bool // the reader shut its side down
	changed  chan struct{}
	deadline time.Time
}

func newPipe() *memPipe { return &memPipe{changed: make(chan struct{})} }

func (p *memPipe) signal() { // p.mu held
	close(p.changed)
	p.changed = make(chan struct{})
}

type memConn struct {
	in, out       *memPipe
	local, remote net.Addr
	wrote         func(n int) // bytes a Write really accepted
}

func memPair(a, b net.Addr) (*memConn, *memConn) {
	x, y := newPipe(), newPipe()
	return &memConn{in: x, out: y, local: a, remote: b}, &memConn{in: y, out: x, local: b, remote: a}
}

func (c *memConn) Read(b []byte) (int, error) {
	p := c.in
	for {
		p.mu.Lock()
		switch {
		case p.rclosed:
			p.mu.Unlock()
			return 0, net.ErrClosed
		case !p.deadline.IsZero() && !time.Now().Before(p.deadline):
			p.mu.Unlock()
			return 0, os.ErrDeadlineExceeded
		case len(p.buf) > 0:
			n := copy(b, p.buf)
			p.buf = p.buf[n:]
			p.mu.Unlock()
			return n, nil
		case p.rst:
			p.mu.Unlock()
			return 0, syscall.ECONNRESET
		case p.wclosed:
			p.mu.Unlock()
			return 0, io.EOF
		}
		ch, dl := p.changed, p.deadline
		p.mu.Unlock()
		if dl.IsZero() {
			<-ch
		} else {
			t := time.NewTimer(time.Until(dl))
			select {
			case <-ch:
			case <-t.C:
			}
			t.Stop()
		}
	}
}

func (c *memConn) Write(b []byte) (int, error) {
	p := c.out
	p.mu.Lock()
	defer p.mu.Unlock()
	if p.wclosed {
		return 0, syscall.EPIPE
	}
	if p.rclosed { // the peer is gone: the kernel would answer RST
		return 0, syscall.ECONNRESET
	}
	p.buf = append(p.buf, b...)
	p.signal()
	if c.wrote != nil {
		c.wrote(len(b))
	}
	return len(b), nil
}

func (c *memConn) CloseWrite() error {
	c.out.mu.Lock()
	c.out.wclosed = true
	c.out.signal()
	c.out.mu.Unlock()
	return nil
}

func (c *memConn) CloseRead() error {
	// like shutdown(SHUT_RD): local reads end; the peer may keep writing (discarded)
	c.in.mu.Lock()
	c.in.buf = nil
	c.in.wclosed = true
	c.in.signal()
	c.in.mu.Unlock()
	return nil
}

// Close: unread input makes the peer see a reset instead of an orderly end of stream
func (c *memConn) Close() error {
	c.in.mu.Lock()
	unread := len(c.in.buf) > 0
	already := c.in.rclosed
	c.in.rclosed = true
	c.in.signal()
	c.in.mu.Unlock()
	c.out.mu.Lock()
	if !already {
		if unread {
			c.out.rst = true
		}
		c.out.wclosed = true
		c.out.signal()
	}
	c.out.mu.Unlock()
	return nil
}

// abort: SO_LINGER 0 + close
func (c *memConn) abort() {
	c.out.mu.Lock()
	c.out.buf = nil
	c.out.rst = true
	c.out.signal()
	c.out.mu.Unlock()
	c.in.mu.Lock()
	c.in.rclosed = true
	c.in.signal()
	c.in.mu.Unlock()
}

func (c *memConn) LocalAddr() net.Addr  { return c.local }
func (c *memConn) RemoteAddr() net.Addr { return c.remote }
func (c *memConn) SetDeadline(t time.Time) error {
	c.SetReadDeadline(t)
	return nil
}
func (c *memConn) SetReadDeadline(t time.Time) error {
	c.in.mu.Lock()
	c.in.deadline = t
	c.in.signal()
	c.in.mu.Unlock()
	return nil
}
func (c *memConn) SetWriteDeadline(t time.Time) error { return nil }

var _ transport.StreamConn = (*memConn)(nil)

// ---- runner ----------------------------------------------------------------------------------------------------
type vtDialer struct {
	b    *board
	cc   *cconn
	tsrv **memConn // target's end, set on dial
}

func (d *vtDialer) DialStream(ctx context.Context, addr string) (transport.StreamConn, error) {
	c := d.cc.plan.C
	d.b.update(c, func(o *connObs) { o.dials++; o.dialAddrs = append(o.dialAddrs, addr) })
	if d.cc.plan.Tk != "ok" {
		return nil, &net.OpError{Op: "dial", Net: "tcp", Err: syscall.ECONNREFUSED}
	}
	px, tg := memPair(&net.TCPAddr{IP: net.IPv4(127, 0, 0, 1), Port: 40000}, &net.TCPAddr{IP: net.IPv4(192, 0, 2, 9), Port: 443})
	px.wrote = func(n int) { d.b.update(c, func(o *connObs) { o.wirePT += int64(n) }) }
	d.b.mu.Lock()
	*d.tsrv = tg
	d.b.mu.Unlock()
	d.b.update(c, func(o *connObs) { o.tAccepted = true })
	return px, nil
}

const vtTimeout = 59 * time.Second // service.tcpReadTimeout

func runVT(idx int, beh behaviour, seed int64) *caseRec {
	rng := rand.New(rand.NewSource(seed*1000003 + int64(idx)))
	opt := options{seed: seed}
	nk, keys, klist, replayOn := setupKeys(rng, idx, beh, opt)
	ciphers := service.NewCipherList()
	ciphers.Update(klist)
	rcap := 0
	if replayOn {
		rcap = 50
	}
	rc := service.NewReplayCache(rcap)
	var logger *slog.Logger
	if idx%3 == 2 {
		logger = debugLogger() // the server's -verbose
	}
	auth := service.NewShadowsocksStreamAuthenticator(ciphers, &rc, nil, logger)
	b := newBoard()
	sc := beh.Sc[0]
	var kinds []kv
	ntgt := 0
	for _, e := range beh.Tr {
		switch e.A {
		case "CSend":
			kinds = append(kinds, kv{e.V / 10, e.V % 10})
		case "TSend":
			ntgt++
		}
	}
	pos := []int{0, nk - 1, nk / 2}[rng.Intn(3)]
	if beh.Ov != nil && beh.Ov.KeyPos != nil {
		pos = *beh.Ov.KeyPos % nk
	}
	if sc.Hs == "replayS" {
		for keys[pos].key.SaltSize() < 20 {
			pos = (pos + 1) % nk
		}
	}
	atyp := []int{1, 3, 4}[rng.Intn(3)]
	req := map[int]string{1: "192.0.2.77:8080", 3: "vt-target.example.test:443", 4: "[2001:db8::77]:8443"}[atyp]
	cc := &cconn{cfinAt: -1, preDoneAt: -1, lastSendAt: -1, addrDoneAt: -1, stallKinds: []string{}, tcl: "no"}
	var primes []*connPlan
	cc.plan = buildPlan(rng, 1, sc.Hs, sc.Tk, keys[pos], kinds, ntgt, req, atyp, beh.Ov, func(p *connPlan) { primes = append(primes, p) })
	cc.plan.KeyPos = pos
	var tsrv *memConn
	handler := service.NewStreamHandler(auth, vtTimeout)
	handler.SetLogger(logger)
	handler.SetTargetDialer(&vtDialer{b: b, cc: cc, tsrv: &tsrv})

	// how a connection is handed to the code: directly to the StreamHandler (with the harness' metrics object), or - when
	// TCPVT_SERVICE=1 and the behaviour needs no target - through service.NewShadowsocksService(...).HandleStream, the
	// wiring layer that creates the metrics object with ServiceMetrics.AddOpenTCPConnection
	handle := func(ctx context.Context, conn transport.StreamConn) {
		b.update(1, func(o *connObs) {
			o.opened = true
			o.acceptAt = time.Since(b.t0).Milliseconds()
			o.mlog = append(o.mlog, mrec{M: "Open", N: []int64{}})
		})
		handler.Handle(ctx, conn, &recMetrics{b: b, c: 1})
	}
	viaService := os.Getenv("TCPVT_SERVICE") == "1" && ntgt == 0 && sc.Hs != "valid"
	if viaService {
		svc, err := service.NewShadowsocksService(service.WithCiphers(ciphers), service.WithReplayCache(&rc),
			service.WithMetrics(&recServiceMetrics{b: b, c: func(net.Conn) int { return 1 }}), service.WithLogger(logger))
		if err != nil {
			panic(err)
		}
		handle = func(ctx context.Context, conn transport.StreamConn) {
			b.update(1, func(o *connObs) { o.opened = true; o.acceptAt = time.Since(b.t0).Milliseconds() })
			svc.HandleStream(ctx, conn)
		}
	}
	// prime the replay cache (a complete earlier use of the same handshake; not part of the case)
	for _, p := range primes {
		cli, srv := memPair(&net.TCPAddr{IP: net.IPv4(127, 0, 0, 1), Port: 50001}, &net.TCPAddr{IP: net.IPv4(127, 0, 0, 1), Port: 9000})
		var first []byte
		for _, t := range p.Toks {
			if t.Kind == kPre {
				first = append(first, t.Bytes...)
			}
		}
		done := make(chan struct{})
		go func() { handler.Handle(context.Background(), srv, nil); close(done) }()
		cli.Write(first)
		cli.CloseWrite()
		<-done
		cli.Close()
	}

	// the context StreamServe hands to its handlers; cancelled when the listener is closed (tcp.go:234-240)
	srvCtx, srvCancel := context.WithCancel(context.Background())
	defer srvCancel()
	base := time.Now()
	ms := func() int64 { return time.Since(base).Milliseconds() }
	unit := vtTimeout / 2
	r := &caseRec{Ev: "Case", Beh: idx, C: 1, Hs: sc.Hs, Tk: sc.Tk, Cipher: cc.plan.Key.cipher, NKeys: nk, KeyPos: pos, KeyID: cc.plan.Key.id,
		Replay: replayOn, Atyp: atyp, Variant: cc.plan.Variant, TimeoutMs: int(vtTimeout / time.Millisecond), CfinAt: -1, PreDoneAt: -1, LastSendAt: -1,
		CloseAt: -1, AcceptAt: -1, AddrDoneAt: -1, Script: []scriptStep{}, Csent: []tokOut{}, Tlog: []int{}, Clog: []int{}, Mlog: []mrec{}, Snaps: []snap{}, Stalls: []string{},
		DialAddrs: []string{}, StallKinds: []string{}}
	cc.rec = r
	var cli *memConn
	var wg sync.WaitGroup
	takeSnap := func(i int, e event) {
		b.mu.Lock()
		o := b.get(1)
		s := snap{I: i, A: e.A, NCS: cc.nsent, NTS: cc.ntsent, Cfin: cc.cfin, Tfin: cc.tfin, Trst: cc.trst,
			ML: len(o.mlog), DL: o.dials, CL: len(o.clog), TL: len(o.tlog), WCS: o.wireCS, WTS: o.wireTS, WTR: o.wireTR, WCR: o.wireCR,
			CloseAt: o.closeAt, TfinPolite: cc.tfinPolite, PreDoneAt: cc.preDoneAt, LastSendAt: cc.lastSendAt, CfinAt: cc.cfinAt,
			AddrDoneAt: cc.addrDoneAt, StallKinds: append([]string{}, cc.stallKinds...), Tcl: cc.tcl, Crst: cc.crst, WCPL: cc.wcpl,
			AfterClose: cc.afterClose}
		b.mu.Unlock()
		r.Snaps = append(r.Snaps, s)
		addStep(cc, e, s)
	}
	holds := func(e event) bool {
		b.mu.Lock()
		defer b.mu.Unlock()
		o := b.get(1)
		switch e.A {
		case "Open":
			return o.opened
		case "MAuth", "MProbe", "MClosed":
			for _, m := range o.mlog {
				if "M"+m.M == e.A {
					return true
				}
			}
			return false
		case "Dial":
			return o.dials > 0
		case "TRecv":
			return has(o.tlog, e.V)
		case "TSawFin":
			return has(o.tlog, 0)
		case "CRecv":
			return has(o.clog, e.V)
		case "CSawFin":
			return has(o.clog, 0)
		case "CClose":
			return o.clientDone
		}
		return true
	}
	var tReaderStarted bool
	startTargetReader := func() {
		if tReaderStarted || tsrv == nil {
			return
		}
		tReaderStarted = true
		wg.Add(1)
		go func(tc *memConn) {
			defer wg.Done()
			ch := newChopper(cc.plan.Payloads, func(id int) { b.update(1, func(o *connObs) { o.tlog = append(o.tlog, id) }) })
			buf := make([]byte, 32768)
			for {
				n, err := tc.Read(buf)
				if n > 0 {
					b.update(1, func(o *connObs) { o.wireTR += int64(n) })
					ch.feed(buf[:n])
				}
				if err != nil {
					k := closeKind(err)
					b.update(1, func(o *connObs) {
						if k == 0 || k == -1 {
							o.tlog = append(o.tlog, k)
						}
						o.targetDone = true
					})
					return
				}
			}
		}(tsrv)
	}
	var pending []event
	envLog := []string{}
	for i, e := range beh.Tr {
		if obsActs[e.A] {
			pending = append(pending, e)
			continue
		}
		if !envActs[e.A] {
			continue
		}
		synctest.Wait() // everything the previous actions cause has happened
		b.mu.Lock()
		if tsrv != nil && !tReaderStarted {
			b.mu.Unlock()
			startTargetReader()
			synctest.Wait()
		} else {
			b.mu.Unlock()
		}
		for _, pe := range pending {
			if !holds(pe) {
				cc.stallKinds = append(cc.stallKinds, pe.A)
				r.Stalls = append(r.Stalls, fmt.Sprintf("%s(%d) before step %d %s", pe.A, pe.V, i, e.A))
			}
		}
		pending = nil
		if e.A == "CFin" && cc.hasBadSent && sc.Hs == "valid" {
			time.Sleep(300 * time.Millisecond) // the client keeps the invalid stream open for a while (virtual)
			synctest.Wait()
		}
		takeSnap(i, e)
		envLog = append(envLog, fmt.Sprintf("%s/%d/%d", e.A, e.C, e.V))
		switch e.A {
		case "Tick":
			if d := time.Until(base.Add(time.Duration(e.V) * unit)); d > 0 {
				time.Sleep(d)
			}
		case "Connect":
			var srv *memConn
			cli, srv = memPair(&net.TCPAddr{IP: net.IPv4(127, 0, 0, 1), Port: 50000 + idx%10000}, &net.TCPAddr{IP: net.IPv4(127, 0, 0, 1), Port: 9000})
			r.Connected = true
			srv.wrote = func(n int) { b.update(1, func(o *connObs) { o.wirePC += int64(n) }) }
			wg.Add(2)
			go func() {
				defer wg.Done()
				func() {
					// as StreamServe does (tcp.go:247-256): deferred close of the connection, recovered panic
					defer func() {
						if rv := recover(); rv != nil {
							b.mu.Lock()
							b.panics++
							b.mu.Unlock()
						}
					}()
					handle(srvCtx, srv)
				}()
				srv.Close() // StreamServe's deferred clientConn.Close()
				b.update(1, func(o *connObs) { o.handled = true })
			}()
			go func(cli *memConn) {
				defer wg.Done()
				cr := &countingReader{r: cli, n: func(n int) { b.update(1, func(o *connObs) { o.wireCR += int64(n) }) }}
				ssr := shadowsocks.NewReader(cr, cc.plan.Key.key)
				ch := newChopper(cc.plan.TPayloads, func(id int) { b.update(1, func(o *connObs) { o.clog = append(o.clog, id) }) })
				buf := make([]byte, 32768)
				for {
					n, err := ssr.Read(buf)
					if n > 0 {
						ch.feed(buf[:n])
					}
					if err != nil {
						if cr.term == nil {
							b.update(1, func(o *connObs) { o.clog = append(o.clog, 9999) })
							io.Copy(io.Discard, cr)
						}
						break
					}
				}
				k := closeKind(cr.term)
				b.update(1, func(o *connObs) {
					if k == 0 || k == -1 {
						o.clog = append(o.clog, k)
					}
					o.closeAt = ms()
					o.clientDone = true
				})
			}(cli)
		case "CloseListener":
			srvCancel()
		case "CSend":
			t := cc.plan.Toks[cc.nsent]
			cc.nsent++
			if t.Kind == kData || t.Kind == kAddrPlus {
				cc.wcpl += int64(len(cc.plan.Payloads[cc.ndataSent]))
				cc.ndataSent++
			}
			n, err := cli.Write(t.Bytes)
			if err != nil {
				r.WriteErrs++
			}
			cc.sentBytes += n
			now := ms()
			cc.lastSendAt = now
			if cc.preDoneAt < 0 && cc.sentBytes >= 50 {
				cc.preDoneAt = now
			}
			if cc.addrDoneAt < 0 && (t.Kind == kAddr || t.Kind == kAddrPlus || t.Kind == kAddrRest) {
				cc.addrDoneAt = now
			}
			if t.Kind == kBad || t.Kind == kBadAddr {
				cc.hasBadSent = true
			}
			b.update(1, func(o *connObs) { o.wireCS += int64(n) })
			r.Csent = append(r.Csent, tokOut{K: kindNames[t.Kind], V: t.V, N: len(t.Bytes), Note: t.Note})
		case "CFin":
			cc.cfin = true
			cc.cfinAt = ms()
			cli.CloseWrite()
		case "TSend":
			if tsrv == nil {
				r.Stalls = append(r.Stalls, "target never dialled")
				continue
			}
			pl := cc.plan.TPayloads[cc.ntsent]
			cc.ntsent++
			n, _ := tsrv.Write(pl)
			b.update(1, func(o *connObs) { o.wireTS += int64(n) })
		case "TFin":
			if tsrv == nil {
				continue
			}
			cc.tfin = true
			b.mu.Lock()
			cc.tfinPolite = has(b.get(1).tlog, 0)
			b.mu.Unlock()
			tsrv.CloseWrite()
		case "TRst":
			if tsrv == nil {
				continue
			}
			cc.trst = true
			tsrv.abort()
		}
	}
	synctest.Wait()
	startTargetReader()
	synctest.Wait()
	for _, pe := range pending {
		if !holds(pe) {
			cc.stallKinds = append(cc.stallKinds, pe.A)
			r.Stalls = append(r.Stalls, fmt.Sprintf("%s(%d) at the end", pe.A, pe.V))
		}
	}
	// the behaviour is over
	if cli != nil {
		b.mu.Lock()
		handled := b.get(1).handled
		b.mu.Unlock()
		if !handled && !cc.cfin {
			time.Sleep(300 * time.Millisecond)
			synctest.Wait()
			b.mu.Lock()
			handled = b.get(1).handled
			b.mu.Unlock()
			if !handled {
				takeSnap(len(beh.Tr), event{A: "EndHold", C: 1})
				cc.cfin = true
				cc.cfinAt = ms()
				cli.CloseWrite()
				synctest.Wait()
			}
		}
		b.mu.Lock()
		handled = b.get(1).handled
		b.mu.Unlock()
		if !handled && tsrv != nil && !cc.tfin && !cc.trst {
			takeSnap(len(beh.Tr), event{A: "EndTFin", C: 1})
			cc.tfin = true
			cc.tfinPolite = true
			tsrv.CloseWrite()
			synctest.Wait()
		}
		b.mu.Lock()
		handled = b.get(1).handled
		b.mu.Unlock()
		if !handled {
			time.Sleep(2 * vtTimeout) // nothing but a timer can still end it
			synctest.Wait()
			b.mu.Lock()
			handled = b.get(1).handled
			b.mu.Unlock()
			r.Hung = !handled
		}
		if tsrv != nil {
			tsrv.Close()
		}
		cli.Close()
		if r.Hung { // unblock whatever is left so that the bubble can end
			cli.abort()
			if tsrv != nil {
				tsrv.abort()
			}
		}
	}
	wg.Wait()
	b.mu.Lock()
	o := b.get(1)
	r.Tsent = cc.ntsent
	r.Cfin, r.Tfin, r.Trst = cc.cfin, cc.tfin, cc.trst
	r.Tlog = append(r.Tlog, o.tlog...)
	r.Clog = append(r.Clog, o.clog...)
	r.Mlog = append(r.Mlog, o.mlog...)
	r.Dials = o.dials
	r.Handled = o.handled
	if beh.Ov != nil && beh.Ov.EmptyKeys {
		r.NKeys = 0
	}
	if b.panics > 0 {
		r.Stalls = append(r.Stalls, "the handler panicked (recovered as StreamServe would)")
	}
	r.Tcl, r.Crst, r.WCPL, r.AfterClose = cc.tcl, cc.crst, cc.wcpl, cc.afterClose
	r.DialAddrs = append(r.DialAddrs, o.dialAddrs...)
	r.AcceptAt, r.CloseAt = o.acceptAt, o.closeAt
	r.CfinAt, r.PreDoneAt, r.LastSendAt, r.AddrDoneAt = cc.cfinAt, cc.preDoneAt, cc.lastSendAt, cc.addrDoneAt
	r.StallKinds = append([]string{}, cc.stallKinds...)
	r.TfinPolite = cc.tfinPolite
	r.WCS, r.WTR, r.WTS, r.WCR = o.wireCS, o.wireTR, o.wireTS, o.wireCR
	r.WPT, r.WPC = o.wirePT, o.wirePC
	r.DebugLog = logger != nil
	for _, m := range o.mlog {
		if m.M == "Probe" {
			r.Drain = m.Drain
		}
	}
	r.Env = envLog
	b.mu.Unlock()
	return r
}

func TestVT(t *testing.T) {
	in, out := os.Getenv("TCPVT_IN"), os.Getenv("TCPVT_OUT")
	if in == "" || out == "" {
		t.Skip("TCPVT_IN / TCPVT_OUT not set")
	}
	seed, _ := strconv.ParseInt(os.Getenv("TCPVT_SEED"), 10, 64)
	base, _ := strconv.Atoi(os.Getenv("TCPVT_BASE"))
	var behs []behaviour
	hx.ReadJSON(in, &behs)
	tr := hx.NewTrace(out)
	defer tr.Close()
	for i, beh := range behs {
		if len(beh.Sc) != 1 {
			continue
		}
		var rec *caseRec
		synctest.Test(t, func(t *testing.T) { rec = runVT(i+base, beh, seed) })
		if rec == nil {
			t.Fatalf("behaviour %d: no record", i)
		}
		rec.Beh = i
		tr.Emit(toMap(rec))
	}
}

var _ = errors.Is
