package main

// prom.go: the REAL prometheus.NewServiceMetrics registered in a private registry (C15 second pass).

import (
	"net"

	outline_prometheus "github.com/Jigsaw-Code/outline-ss-server/prometheus"
	"github.com/Jigsaw-Code/outline-ss-server/service"
	"github.com/prometheus/client_golang/prometheus"
	dto "github.com/prometheus/client_model/go"
	"verifharness/hx"
)

type promSink struct {
	reg *prometheus.Registry
	sm  service.ServiceMetrics
}

func newPromSink() *promSink {
	sm, err := outline_prometheus.NewServiceMetrics(nil)
	if err != nil {
		hx.Fatal("NewServiceMetrics: %v", err)
	}
	reg := prometheus.NewRegistry()
	if err := reg.Register(sm); err != nil {
		hx.Fatal("register: %v", err)
	}
	return &promSink{reg: reg, sm: sm}
}

func (p *promSink) open(conn net.Conn, c int) service.TCPConnMetrics {
	return p.sm.AddOpenTCPConnection(conn)
}

func label(m *dto.Metric, name string) string {
	for _, l := range m.Label {
		if l.GetName() == name {
			return l.GetValue()
		}
	}
	return ""
}

// gather: sums of tcp_connections_opened, tcp_connections_closed by status, data_bytes{proto="tcp"} by direction,
// tcp_probes sample count by status
func (p *promSink) gather() map[string]any {
	mfs, err := p.reg.Gather()
	if err != nil {
		hx.Fatal("gather: %v", err)
	}
	opened := 0.0
	closed := map[string]float64{}
	bytes := map[string]float64{}
	probes := map[string]uint64{}
	probeBytes := map[string]float64{}
	for _, mf := range mfs {
		for _, m := range mf.Metric {
			switch mf.GetName() {
			case "tcp_connections_opened":
				opened += m.GetCounter().GetValue()
			case "tcp_connections_closed":
				closed[label(m, "status")] += m.GetCounter().GetValue()
			case "data_bytes":
				if label(m, "proto") == "tcp" {
					bytes[label(m, "dir")] += m.GetCounter().GetValue()
				}
			case "tcp_probes":
				probes[label(m, "status")] += m.GetHistogram().GetSampleCount()
				probeBytes[label(m, "status")] += m.GetHistogram().GetSampleSum()
			}
		}
	}
	return map[string]any{"opened": opened, "closed": closed, "data_bytes": bytes, "probes": probes, "probe_bytes": probeBytes}
}
