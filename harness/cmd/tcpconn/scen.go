package main

// scen.go: executes one TLC-generated behaviour of spec/TcpConn.tla against the real code:
// service.StreamServe + service.NewStreamHandler(NewShadowsocksStreamAuthenticator(real key list), timeout) on a real
// loopback listener, a real Shadowsocks client (SDK writer/reader), scripted targets reached through a recording
// dialer, recording TCPConnMetrics.  Environment actions are performed in the behaviour's order; before each of them
// the driver waits for the observable actions that precede it in the behaviour.

import (
	"container/list"
	"context"
	"fmt"
	"io"
	"log/slog"
	"math/rand"
	"net"
	"strconv"
	"strings"
	"sync"
	"sync/atomic"
	"syscall"
	"time"

	"github.com/Jigsaw-Code/outline-sdk/transport"
	"github.com/Jigsaw-Code/outline-sdk/transport/shadowsocks"
	"github.com/Jigsaw-Code/outline-ss-server/service"
)

type event struct {
	A string `json:"a"`
	C int    `json:"c"`
	V int    `json:"v"`
	T int    `json:"t"`
}
type scen struct {
	Hs string `json:"hs"`
	Tk string `json:"tk"`
}
type behaviour struct {
	Sc []scen    `json:"sc"`
	Tr []event   `json:"tr"`
	Ov *override `json:"ov,omitempty"`
}

// override: concrete parameters chosen by the check instead of the seed (sweeps over ciphers, key-list sizes, lengths)
type override struct {
	Cipher  string `json:"cipher"`
	NKeys   int    `json:"nkeys"`
	Replay  *bool  `json:"replay"`
	Lens    []int  `json:"lens"`    // byte lengths of the client tokens of a stream that does not authenticate
	Variant string `json:"variant"` // "random", "flip-salt", "flip-len", "flip-lentag"
	KeyPos  *int   `json:"keypos"`
	// crafted authenticated plaintext (C18): "zero" (a zero-length chunk before every data chunk), "overlen" (length field
	// above 0x3FFF), "full" (0x3FFF-byte chunks), "atyp-N" (address type N in a bad address), "domlen-N" (domain of N bytes),
	// "trunc-N" (address header cut after N bytes), "slow" (the target reads 512 bytes every 2 ms), "pause" (the target does
	// not read at all for 400 ms, then reads everything), "dialpanic" (fault injection: the StreamDialer given to
	// SetTargetDialer panics when connection 1 is dialled)
	Craft string `json:"craft"`
	// DataSize / TDataSize force the payload size of every client data token / target chunk (large transfers)
	DataSize  int `json:"datasize"`
	TDataSize int `json:"tdatasize"`
	// the service has NO keys (key-list size 0): every opener fails authentication
	EmptyKeys bool `json:"emptykeys"`
}

var envActs = map[string]bool{"TPause": true, "TResume": true, "CPause": true, "CResume": true, "TClose": true, "CRst": true, "Connect": true, "CSend": true, "CFin": true, "TSend": true, "TFin": true, "TRst": true, "Tick": true, "CloseListener": true}
var obsActs = map[string]bool{"Open": true, "MAuth": true, "MProbe": true, "MClosed": true, "Dial": true, "TRecv": true, "TSawFin": true,
	"CRecv": true, "CSawFin": true, "CClose": true, "ServeReturn": true}

type options struct {
	seed       int64
	timeoutMs  int
	unitMs     int
	awaitMs    int
	holdMs     int
	hangMs     int
	openHook   func(conn net.Conn, c int) service.TCPConnMetrics // extra (real Prometheus) metrics sink, may be nil
	nkeys      int                                               // 0: seed-chosen from {1,3,100}
	cipher     string                                            // "": seed-chosen
	ownWaits   bool
	debugEvery int
}

type snap struct {
	I          int      `json:"i"`
	A          string   `json:"a"`
	NCS        int      `json:"ncs"`
	NTS        int      `json:"nts"`
	Cfin       bool     `json:"cfin"`
	Tfin       bool     `json:"tfin"`
	Trst       bool     `json:"trst"`
	ML         int      `json:"ml"`
	DL         int      `json:"dl"`
	CL         int      `json:"cl"`
	TL         int      `json:"tl"`
	WCS        int64    `json:"wcs"`
	WTS        int64    `json:"wts"`
	WTR        int64    `json:"wtr"`
	WCR        int64    `json:"wcr"`
	CloseAt    int64    `json:"closeAt"`
	TfinPolite bool     `json:"tfinPolite"`
	PreDoneAt  int64    `json:"preDoneAt"`
	LastSendAt int64    `json:"lastSendAt"`
	CfinAt     int64    `json:"cfinAt"`
	AddrDoneAt int64    `json:"addrDoneAt"`
	StallKinds []string `json:"stallKinds"`
	Cancelled  bool     `json:"cancelled"`
	Tcl        string   `json:"tcl"`
	Crst       bool     `json:"crst"`
	WCPL       int64    `json:"wcpl"`
	AfterClose int      `json:"afterClose"`
}

// scriptStep: one environment action as performed on (or affecting) this connection, with how much each observer of
// the connection had logged just before it (TcpConnTraceM)
type scriptStep struct {
	A  string `json:"a"`
	K  string `json:"k"`
	V  int    `json:"v"`
	TL int    `json:"tl"`
	CL int    `json:"cl"`
	ML int    `json:"ml"`
	DL int    `json:"dl"`
}

type tokOut struct {
	K    string `json:"k"`
	V    int    `json:"v"`
	N    int    `json:"n"`
	Note string `json:"note,omitempty"`
}

type caseRec struct {
	Ev         string       `json:"ev"`
	Beh        int          `json:"beh"`
	C          int          `json:"c"`
	Hs         string       `json:"hs"`
	Tk         string       `json:"tk"`
	Cipher     string       `json:"cipher"`
	NKeys      int          `json:"nkeys"`
	KeyPos     int          `json:"keypos"`
	KeyID      string       `json:"keyid"`
	Replay     bool         `json:"replaycache"`
	Atyp       int          `json:"atyp"`
	Variant    string       `json:"variant"`
	TimeoutMs  int          `json:"timeoutMs"`
	Csent      []tokOut     `json:"csent"`
	Tsent      int          `json:"tsent"`
	Cfin       bool         `json:"cfin"`
	Tfin       bool         `json:"tfin"`
	Trst       bool         `json:"trst"`
	Tlog       []int        `json:"tlog"`
	Clog       []int        `json:"clog"`
	Mlog       []mrec       `json:"mlog"`
	Dials      int          `json:"dials"`
	DialAddrs  []string     `json:"dialAddrs"`
	AcceptAt   int64        `json:"acceptAt"`
	CloseAt    int64        `json:"closeAt"`
	CfinAt     int64        `json:"cfinAt"`
	PreDoneAt  int64        `json:"preDoneAt"`
	AddrDoneAt int64        `json:"addrDoneAt"`
	StallKinds []string     `json:"stallKinds"`
	LastSendAt int64        `json:"lastSendAt"`
	TfinPolite bool         `json:"tfinPolite"`
	Drain      string       `json:"drain"`
	WCS        int64        `json:"wcs"`
	WTR        int64        `json:"wtr"`
	WTS        int64        `json:"wts"`
	WCR        int64        `json:"wcr"`
	Snaps      []snap       `json:"snaps"`
	Stalls     []string     `json:"stalls"`
	Hung       bool         `json:"hung"`
	Handled    bool         `json:"handled"`
	WPT        int64        `json:"wpt"`
	WPC        int64        `json:"wpc"`
	DebugLog   bool         `json:"debuglog"`
	Tcl        string       `json:"tcl"`
	Crst       bool         `json:"crst"`
	WCPL       int64        `json:"wcpl"`
	AfterClose int          `json:"afterClose"`
	Cancelled  bool         `json:"cancelled"`
	Connected  bool         `json:"connected"`
	Reset      bool         `json:"reset"` // never accepted: the listener was closed first
	WriteErrs  int          `json:"writeErrs"`
	ReqAddr    string       `json:"reqAddr"`
	Script     []scriptStep `json:"script"`
	Env        []string     `json:"env"` // the environment script as performed (for replays and samples)
}

type behRec struct {
	Ev                     string `json:"ev"`
	Beh                    int    `json:"beh"`
	ServeReturned          bool   `json:"serveReturned"`
	HandlersAtServeReturn  int    `json:"handlersAtServeReturn"`
	ListenerClosedByScript bool   `json:"listenerClosedByScript"`
	Panics                 int    `json:"panics"`
	InjectedPanics         int    `json:"injectedPanics"`
	Accepted               int    `json:"accepted"`
	WallMs                 int64  `json:"wallMs"`
}

type cconn struct {
	plan                                      *connPlan
	conn                                      *net.TCPConn
	tln                                       *net.TCPListener
	tconn                                     *net.TCPConn
	nsent                                     int
	ntsent                                    int
	cfin                                      bool
	tfin                                      bool
	trst                                      bool
	cfinAt, preDoneAt, lastSendAt, addrDoneAt int64
	stallKinds                                []string
	tfinPolite                                bool
	sentBytes                                 int
	rec                                       *caseRec
	hasBadSent                                bool
	cancelled                                 bool
	slow                                      bool
	pause                                     bool
	// back-pressure scenarios (TPause/TResume/CPause/CResume in the behaviour): the readers stop reading while paused, all socket
	// buffers on the way are small, and the peers' writes are performed by their own goroutines (a write may block for long)
	async            bool
	tpaused, cpaused atomic.Bool
	cjobs, tjobs     chan func()
	jobsWG           sync.WaitGroup
	tcl              string
	ndataSent        int
	crst             bool
	wcpl             int64
	afterClose       int
	refuseFd         int
}

type mapDialer struct {
	mu       sync.Mutex
	b        *board
	targets  map[string]*cconn // requested address -> connection
	priming  bool
	panicFor int // fault injection: panic when this connection is dialled (0: never)
	injected int
}

func (d *mapDialer) DialStream(ctx context.Context, addr string) (transport.StreamConn, error) {
	d.mu.Lock()
	cc := d.targets[addr]
	priming := d.priming
	d.mu.Unlock()
	if cc == nil || priming {
		return nil, fmt.Errorf("harness: no target for %q", addr)
	}
	if d.panicFor == cc.plan.C {
		d.mu.Lock()
		d.injected++
		d.mu.Unlock()
		var np *connPlan
		_ = np.C // injected fault: nil dereference inside the handler of this ONE connection
	}
	var dl net.Dialer
	var real string
	if cc.plan.Tk == "refuse" {
		real = cc.plan.Variant // a closed loopback port
	} else {
		real = cc.tln.Addr().String()
	}
	conn, err := dl.DialContext(ctx, "tcp", real)
	// the dial is an observation only once it has happened (a scripted target reset must not race with connect())
	if err != nil {
		d.b.update(cc.plan.C, func(o *connObs) { o.dials++; o.dialAddrs = append(o.dialAddrs, addr, "error: "+err.Error()) })
		return nil, err
	}
	if cc.async {
		conn.(*net.TCPConn).SetWriteBuffer(smallBuf)
	}
	d.b.update(cc.plan.C, func(o *connObs) { o.dials++; o.dialAddrs = append(o.dialAddrs, addr) })
	c := cc.plan.C
	return &countedConn{c: conn.(*net.TCPConn), wrote: func(n int) { d.b.update(c, func(o *connObs) { o.wirePT += int64(n) }) }}, nil
}

func makeKeys(rng *rand.Rand, n int, seed int64, force string) ([]keyInfo, *list.List) {
	l := list.New()
	keys := make([]keyInfo, n)
	off := rng.Intn(4)
	for i := 0; i < n; i++ {
		cn := cipherNames[(i+off)%4]
		if force != "" {
			cn = force
		}
		k := keyInfo{id: fmt.Sprintf("key-%d", i), secret: fmt.Sprintf("s3cret-%d-%d", seed, i), cipher: cn}
		k.key = mustKey(cn, k.secret)
		keys[i] = k
		e := service.MakeCipherEntry(k.id, k.key, k.secret)
		l.PushBack(&e)
	}
	return keys, l
}

// setupKeys: key list (1, 3 or 100 keys of mixed ciphers), replay cache on/off - seed-chosen unless overridden
func setupKeys(rng *rand.Rand, idx int, beh behaviour, opt options) (int, []keyInfo, *list.List, bool) {
	nk := opt.nkeys
	force := opt.cipher
	if beh.Ov != nil && beh.Ov.NKeys > 0 {
		nk = beh.Ov.NKeys
	}
	if beh.Ov != nil && beh.Ov.Cipher != "" {
		force = beh.Ov.Cipher
	}
	if nk == 0 {
		nk = []int{1, 3, 100}[rng.Intn(3)]
	}
	keys, klist := makeKeys(rng, nk, opt.seed+int64(idx), force)
	needReplay := false
	for _, sc := range beh.Sc {
		if sc.Hs == "replayC" {
			needReplay = true
		}
		if sc.Hs == "replayS" {
			markable := false
			for _, k := range keys {
				markable = markable || k.key.SaltSize() >= 20
			}
			if !markable { // 16-byte salts carry no server mark: the reflected replay needs another cipher
				keys, klist = makeKeys(rng, nk, opt.seed+int64(idx), cipherNames[rng.Intn(3)])
			}
		}
	}
	replayOn := needReplay || rng.Intn(3) > 0
	if beh.Ov != nil && beh.Ov.Replay != nil {
		replayOn = *beh.Ov.Replay || needReplay
	}
	if beh.Ov != nil && beh.Ov.EmptyKeys {
		klist = list.New() // the clients still use keys[...]; the service knows none of them
	}
	return nk, keys, klist, replayOn
}

// refusingPort: a loopback port on which connect() is refused for as long as the returned descriptor stays open (a socket
// that is bound but never listens; the port cannot be handed to another listener meanwhile)
func refusingPort() (string, int) {
	fd, err := syscall.Socket(syscall.AF_INET, syscall.SOCK_STREAM, 0)
	if err != nil {
		panic(err)
	}
	if err := syscall.Bind(fd, &syscall.SockaddrInet4{Addr: [4]byte{127, 0, 0, 1}}); err != nil {
		panic(err)
	}
	sa, err := syscall.Getsockname(fd)
	if err != nil {
		panic(err)
	}
	return fmt.Sprintf("127.0.0.1:%d", sa.(*syscall.SockaddrInet4).Port), fd
}

func runBehaviour(idx int, beh behaviour, opt options) ([]*caseRec, *behRec) {
	start := time.Now()
	rng := rand.New(rand.NewSource(opt.seed*1000003 + int64(idx)))
	hasPause := false
	for _, e := range beh.Tr {
		if e.A == "TPause" || e.A == "CPause" {
			hasPause = true
		}
	}
	nk, keys, klist, replayOn := setupKeys(rng, idx, beh, opt)
	ciphers := service.NewCipherList()
	ciphers.Update(klist)
	rcap := 0
	if replayOn {
		rcap = 50 + 10*len(beh.Sc) // every replayed handshake must stay inside the history while the behaviour runs
	}
	rc := service.NewReplayCache(rcap)
	// every third behaviour runs with a debug-level logger (the server's -verbose)
	var logger *slog.Logger
	if opt.debugEvery > 0 && idx%opt.debugEvery == opt.debugEvery-1 {
		logger = debugLogger()
	}
	auth := service.NewShadowsocksStreamAuthenticator(ciphers, &rc, nil, logger)
	timeout := time.Duration(opt.timeoutMs) * time.Millisecond
	b := newBoard()
	dialer := &mapDialer{b: b, targets: map[string]*cconn{}}
	if beh.Ov != nil && beh.Ov.Craft == "dialpanic" {
		dialer.panicFor = 1
	}
	handler := service.NewStreamHandler(auth, timeout)
	handler.SetTargetDialer(dialer)
	denyHandler := service.NewStreamHandler(auth, timeout) // the repository's default (validating) dialer
	handler.SetLogger(logger)
	denyHandler.SetLogger(logger)

	ln, err := net.ListenTCP("tcp", &net.TCPAddr{IP: net.IPv4(127, 0, 0, 1)})
	if err != nil {
		panic(err)
	}
	var portMu sync.Mutex
	ports := map[int]int{} // client local port -> connection id
	conns := map[int]*cconn{}

	serveDone := make(chan struct{})
	go func() {
		service.StreamServe(func() (transport.StreamConn, error) {
			c, err := ln.AcceptTCP()
			if err != nil {
				return nil, err
			}
			b.mu.Lock()
			b.accepted++
			b.mu.Unlock()
			if hasPause {
				c.SetWriteBuffer(smallBuf)
			}
			rport := c.RemoteAddr().(*net.TCPAddr).Port
			return &countedConn{c: c, wrote: func(n int) {
				portMu.Lock()
				id, ok := ports[rport]
				portMu.Unlock()
				if ok {
					b.update(id, func(o *connObs) { o.wirePC += int64(n) })
				}
			}}, nil
		}, func(ctx context.Context, conn transport.StreamConn) {
			port := conn.RemoteAddr().(*net.TCPAddr).Port
			c := -1
			b.wait(2*time.Second, func() bool {
				portMu.Lock()
				defer portMu.Unlock()
				v, ok := ports[port]
				if ok {
					c = v
				}
				return ok
			})
			b.mu.Lock()
			b.running++
			b.mu.Unlock()
			defer func() {
				b.mu.Lock()
				b.running--
				b.finished++
				b.mu.Unlock()
				b.update(c, func(o *connObs) { o.handled = true })
			}()
			cc, _ := conn.(*countedConn)
			var m service.TCPConnMetrics = &recMetrics{b: b, c: c, conn: cc}
			if opt.openHook != nil && c >= 1 && c <= len(beh.Sc) { // not for the priming connections
				m = &teeMetrics{a: m, b: opt.openHook(conn, c)}
			}
			b.update(c, func(o *connObs) {
				o.opened = true
				o.acceptAt = b.ms()
				o.mlog = append(o.mlog, mrec{M: "Open", N: []int64{}})
			})
			h := handler
			if c >= 1 && c <= len(beh.Sc) && beh.Sc[c-1].Tk == "deny" {
				h = denyHandler
			}
			h.Handle(ctx, conn, m)
		})
		b.mu.Lock()
		b.serveReturned = true
		b.handlersAtServeReturn = b.accepted - b.finished // accepted connections whose handler has not returned
		b.mu.Unlock()
		b.cond.Broadcast()
		close(serveDone)
	}()

	// ---- plan ----
	nconn := len(beh.Sc)
	kinds := make([][]kv, nconn+1)
	ntgt := make([]int, nconn+1)
	for _, e := range beh.Tr {
		switch e.A {
		case "CSend":
			kinds[e.C] = append(kinds[e.C], kv{e.V / 10, e.V % 10})
		case "TSend":
			ntgt[e.C]++
		}
	}
	var primes []*connPlan
	for c := 1; c <= nconn; c++ {
		sc := beh.Sc[c-1]
		pos := []int{0, nk - 1, nk / 2}[rng.Intn(3)]
		if beh.Ov != nil && beh.Ov.KeyPos != nil {
			pos = *beh.Ov.KeyPos % nk
		}
		if sc.Hs == "replayS" {
			for keys[pos].key.SaltSize() < 20 { // 16-byte salts carry no server mark
				pos = (pos + 1) % nk
			}
			if keys[pos].key.SaltSize() < 20 {
				panic("no key with a markable salt")
			}
		}
		atyp := []int{1, 3, 4}[rng.Intn(3)]
		var req string
		switch sc.Tk {
		case "deny":
			x, y := c%250+1, (c/250+idx)%250+1
			req = []string{
				fmt.Sprintf("10.%d.%d.1:80", y, x), fmt.Sprintf("127.0.%d.%d:81", y, x), fmt.Sprintf("192.168.%d.%d:443", y, x),
				fmt.Sprintf("[fd00::%x:%x]:80", y, x), fmt.Sprintf("169.254.%d.%d:80", y, x), fmt.Sprintf("[fe80::%x:%x]:80", y, x),
				fmt.Sprintf("100.64.%d.%d:80", y, x), fmt.Sprintf("224.0.%d.%d:80", y, x)}[rng.Intn(8)]
			h, _, _ := net.SplitHostPort(req)
			if net.ParseIP(h).To4() != nil {
				atyp = 1
			} else {
				atyp = 4
			}
		default:
			switch atyp {
			case 1:
				req = fmt.Sprintf("192.0.2.%d:%d", c%250+1, 8000+(idx*7+c)%50000)
			case 3:
				req = fmt.Sprintf("target-%d-%d.example.test:%d", idx, c, 443)
			case 4:
				req = fmt.Sprintf("[2001:db8::%x:%x]:%d", idx%60000+1, c, 8443)
			}
		}
		if beh.Ov != nil && strings.HasPrefix(beh.Ov.Craft, "domlen-") && sc.Tk != "deny" {
			n, _ := strconv.Atoi(beh.Ov.Craft[7:])
			atyp = 3
			host := strings.Repeat("x", n)
			if n > 8 {
				host = fmt.Sprintf("h%d-%d.", idx, c) + strings.Repeat("y", n-len(fmt.Sprintf("h%d-%d.", idx, c)))
			}
			req = fmt.Sprintf("%s:%d", host, 7000+c)
		}
		cc := &cconn{cfinAt: -1, preDoneAt: -1, lastSendAt: -1, addrDoneAt: -1, stallKinds: []string{}, tcl: "no"}
		cc.plan = buildPlan(rng, c, sc.Hs, sc.Tk, keys[pos], kinds[c], ntgt[c], req, atyp, beh.Ov, func(p *connPlan) { primes = append(primes, p) })
		cc.plan.KeyPos = pos
		cc.async = hasPause
		if hasPause {
			cc.startJobs()
		}
		cc.slow = beh.Ov != nil && beh.Ov.Craft == "slow"
		cc.pause = beh.Ov != nil && beh.Ov.Craft == "pause"
		switch sc.Tk {
		case "ok":
			if hasPause {
				lc := net.ListenConfig{Control: smallRcvBuf}
				l, lerr := lc.Listen(context.Background(), "tcp", "127.0.0.1:0")
				if lerr != nil {
					panic(lerr)
				}
				cc.tln = l.(*net.TCPListener)
			} else {
				cc.tln, err = net.ListenTCP("tcp", &net.TCPAddr{IP: net.IPv4(127, 0, 0, 1)})
				if err != nil {
					panic(err)
				}
			}
			go targetAccept(b, cc)
		case "refuse":
			cc.plan.Variant, cc.refuseFd = refusingPort()
		}
		dialer.targets[req] = cc
		conns[c] = cc
	}

	// ---- prime the replay cache with the handshakes that will be replayed (not part of the case) ----
	if len(primes) > 0 {
		dialer.mu.Lock()
		dialer.priming = true
		dialer.mu.Unlock()
		for i, p := range primes {
			pc, err := net.DialTCP("tcp", nil, ln.Addr().(*net.TCPAddr))
			if err != nil {
				panic(err)
			}
			id := 1000 + i
			portMu.Lock()
			ports[pc.LocalAddr().(*net.TCPAddr).Port] = id
			portMu.Unlock()
			b.cond.Broadcast()
			// the whole first chunk: authenticates, asks for an address the dialer refuses while priming
			var first []byte
			for _, t := range p.Toks {
				if t.Kind == kPre {
					first = append(first, t.Bytes...)
				}
			}
			// complete to 50 bytes / whole chunk from the plan's salted stream is not needed: 50 bytes authenticate
			if len(first) < 50 {
				first = append(first, make([]byte, 50-len(first))...)
			}
			pc.Write(first)
			pc.CloseWrite()
			b.wait(3*time.Second, func() bool { return b.get(id).handled })
			pc.Close()
		}
		dialer.mu.Lock()
		dialer.priming = false
		dialer.mu.Unlock()
	}

	// ---- execute ----
	base := time.Now()
	unit := time.Duration(opt.unitMs) * time.Millisecond
	await := time.Duration(opt.awaitMs) * time.Millisecond
	br := &behRec{Ev: "Beh", Beh: idx}
	var pending []event
	var envLog []string
	recs := map[int]*caseRec{}
	for c := 1; c <= nconn; c++ {
		p := conns[c].plan
		r := &caseRec{Ev: "Case", Beh: idx, C: c, Hs: p.Hs, Tk: p.Tk, Cipher: p.Key.cipher, NKeys: nk, KeyPos: p.KeyPos, KeyID: p.Key.id,
			Replay: replayOn, Atyp: p.Atyp, Variant: p.Variant, ReqAddr: p.ReqAddr, TimeoutMs: opt.timeoutMs, CfinAt: -1, PreDoneAt: -1, LastSendAt: -1, CloseAt: -1, AcceptAt: -1,
			Script: []scriptStep{}, Csent: []tokOut{}, Tlog: []int{}, Clog: []int{}, Mlog: []mrec{}, Snaps: []snap{}, Stalls: []string{}, DialAddrs: []string{}}
		recs[c] = r
		conns[c].rec = r
	}
	obsHolds := func(e event) func() bool {
		return func() bool {
			o := b.get(e.C)
			switch e.A {
			case "Open":
				return o.opened
			case "MAuth", "MProbe", "MClosed":
				for _, m := range o.mlog {
					if "M"+m.M == e.A {
						return true
					}
				}
				return false
			case "Dial":
				return o.dials > 0
			case "TRecv":
				return has(o.tlog, e.V)
			case "TSawFin":
				return has(o.tlog, 0)
			case "CRecv":
				return has(o.clog, e.V)
			case "CSawFin":
				return has(o.clog, 0)
			case "CClose":
				return o.clientDone
			case "ServeReturn":
				return b.serveReturned
			}
			return true
		}
	}
	takeSnap := func(i int, e event) {
		cc := conns[e.C]
		if cc == nil {
			return
		}
		b.mu.Lock()
		o := b.get(e.C)
		// antecedent logs first (metrics, dialer), then what the peers have received so far
		s := snap{I: i, A: e.A, NCS: cc.nsent, NTS: cc.ntsent, Cfin: cc.cfin, Tfin: cc.tfin, Trst: cc.trst,
			ML: len(o.mlog), DL: o.dials, CL: len(o.clog), TL: len(o.tlog), WCS: o.wireCS, WTS: o.wireTS, WTR: o.wireTR, WCR: o.wireCR,
			CloseAt: o.closeAt, TfinPolite: cc.tfinPolite, PreDoneAt: cc.preDoneAt, LastSendAt: cc.lastSendAt, CfinAt: cc.cfinAt,
			AddrDoneAt: cc.addrDoneAt, StallKinds: append([]string{}, cc.stallKinds...), Cancelled: cc.cancelled,
			Tcl: cc.tcl, Crst: cc.crst, WCPL: cc.wcpl, AfterClose: cc.afterClose}
		b.mu.Unlock()
		cc.rec.Snaps = append(cc.rec.Snaps, s)
		addStep(cc, e, s)
	}
	for i, e := range beh.Tr {
		if obsActs[e.A] {
			pending = append(pending, e)
			continue
		}
		if !envActs[e.A] {
			continue
		}
		stalled := map[int]bool{}
		var later []event
		for _, pe := range pending {
			if opt.ownWaits && e.C != 0 && pe.C != e.C {
				later = append(later, pe) // another connection's observation: its own next action waits for it
				continue
			}
			w := await
			if stalled[pe.C] {
				w = 0 // what follows a missing observation of the same connection is not waited for again
			}
			if x := conns[pe.C]; x != nil && (x.pause || x.tpaused.Load()) && (pe.A == "TRecv" || pe.A == "TSawFin") {
				continue // the target itself is not reading yet
			}
			if x := conns[pe.C]; x != nil && x.cpaused.Load() && (pe.A == "CRecv" || pe.A == "CSawFin" || pe.A == "CClose") {
				continue // the client itself is not reading
			}
			if x := conns[pe.C]; x != nil && x.async && (x.cpaused.Load() || x.tpaused.Load()) {
				continue // a blocked direction also holds up what follows it (reports, closes)
			}
			if !b.wait(w, obsHolds(pe)) {
				stalled[pe.C] = true
				if cs := conns[pe.C]; cs != nil {
					cs.stallKinds = append(cs.stallKinds, pe.A)
				}
				if r := recs[pe.C]; r != nil {
					r.Stalls = append(r.Stalls, fmt.Sprintf("%s(%d) before step %d %s", pe.A, pe.V, i, e.A))
				}
			}
		}
		pending = later
		cc := conns[e.C]
		if cc != nil && e.A == "CFin" && cc.hasBadSent && cc.plan.Hs == "valid" && opt.holdMs > 0 {
			// an authenticated stream that turned invalid: the client keeps the connection open for a while
			time.Sleep(time.Duration(opt.holdMs) * time.Millisecond)
		}
		takeSnap(i, e)
		if e.C == 0 { // clock and listener: part of every connection's script
			for c2 := 1; c2 <= nconn; c2++ {
				b.mu.Lock()
				o := b.get(c2)
				sn := snap{ML: len(o.mlog), DL: o.dials, CL: len(o.clog), TL: len(o.tlog)}
				b.mu.Unlock()
				addStep(conns[c2], e, sn)
			}
		}
		envLog = append(envLog, fmt.Sprintf("%s/%d/%d", e.A, e.C, e.V))
		switch e.A {
		case "Tick":
			if d := time.Until(base.Add(time.Duration(e.V) * unit)); d > 0 {
				time.Sleep(d)
			}
		case "Connect":
			var conn *net.TCPConn
			var err error
			if hasPause {
				var gc net.Conn
				gc, err = (&net.Dialer{Control: smallRcvBuf}).Dial("tcp", ln.Addr().String())
				if err == nil {
					conn = gc.(*net.TCPConn)
				}
			} else {
				conn, err = net.DialTCP("tcp", nil, ln.Addr().(*net.TCPAddr))
			}
			if err != nil {
				cc.rec.Stalls = append(cc.rec.Stalls, "connect failed: "+err.Error())
				continue
			}
			cc.conn = conn
			cc.rec.Connected = true
			portMu.Lock()
			ports[conn.LocalAddr().(*net.TCPAddr).Port] = e.C
			portMu.Unlock()
			b.cond.Broadcast()
			go clientRead(b, cc)
		case "CSend":
			if cc.conn == nil {
				continue
			}
			t := cc.plan.Toks[cc.nsent]
			cc.nsent++
			if cc.tcl != "no" {
				// the target has closed completely: give the RST that answers the proxy's previous write time to arrive, so that
				// "the first write after the close is lost, the next one fails" holds as in the model
				time.Sleep(40 * time.Millisecond)
				if t.Kind == kData {
					cc.afterClose++
				}
			}
			if t.Kind == kData || t.Kind == kAddrPlus {
				cc.wcpl += int64(len(cc.plan.Payloads[cc.ndataSent]))
				cc.ndataSent++
			}
			tb, cconn2, cid := t.Bytes, cc.conn, e.C
			cc.cdo(func() {
				n, err := cconn2.Write(tb)
				b.update(cid, func(o *connObs) {
					o.wireCS += int64(n)
					if err != nil {
						o.writeErrs++
					}
				})
			})
			cc.sentBytes += len(t.Bytes)
			now := b.ms()
			cc.lastSendAt = now
			if cc.preDoneAt < 0 && cc.sentBytes >= 50 {
				cc.preDoneAt = now
			}
			if cc.addrDoneAt < 0 && (t.Kind == kAddr || t.Kind == kAddrPlus || t.Kind == kAddrRest) {
				cc.addrDoneAt = now
			}
			if t.Kind == kBad || t.Kind == kBadAddr {
				cc.hasBadSent = true
			}
			cc.rec.Csent = append(cc.rec.Csent, tokOut{K: kindNames[t.Kind], V: t.V, N: len(t.Bytes), Note: t.Note})
		case "CFin":
			if cc.conn == nil {
				continue
			}
			cc.cfin = true
			cc.cfinAt = b.ms()
			cw := cc.conn
			cc.cdo(func() { cw.CloseWrite() })
		case "TPause":
			cc.tpaused.Store(true)
		case "TResume":
			cc.tpaused.Store(false)
		case "CPause":
			cc.cpaused.Store(true)
		case "CResume":
			cc.cpaused.Store(false)
		case "TSend":
			if !b.wait(await, func() bool { return cc.tconn != nil }) {
				cc.rec.Stalls = append(cc.rec.Stalls, "target never accepted")
				continue
			}
			pl := cc.plan.TPayloads[cc.ntsent]
			cc.ntsent++
			tw, cid := cc.tconn, e.C
			cc.tdo(func() {
				n, _ := tw.Write(pl)
				b.update(cid, func(o *connObs) { o.wireTS += int64(n) })
			})
		case "TFin":
			if !b.wait(await, func() bool { return cc.tconn != nil }) {
				continue
			}
			cc.tfin = true
			b.mu.Lock()
			cc.tfinPolite = has(b.get(e.C).tlog, 0)
			b.mu.Unlock()
			tw := cc.tconn
			cc.tdo(func() { tw.CloseWrite() })
		case "TRst":
			if !b.wait(await, func() bool { return cc.tconn != nil }) {
				continue
			}
			if cc.async && cc.tpaused.Load() {
				time.Sleep(150 * time.Millisecond) // let the proxy run into the full buffers and block in its write
			}
			cc.trst = true
			cc.tconn.SetLinger(0)
			cc.tconn.Close()
		case "TClose":
			if !b.wait(await, func() bool { return cc.tconn != nil }) {
				continue
			}
			// complete, orderly close after the half-close: the target application is gone; what the proxy writes from now
			// on is answered by RST
			cc.tcl = "closed"
			cc.tconn.Close()
		case "CRst":
			if cc.conn == nil {
				continue
			}
			if cc.async && cc.cpaused.Load() {
				time.Sleep(150 * time.Millisecond)
			}
			cc.crst = true
			cc.conn.SetLinger(0)
			cc.conn.Close()
		case "CloseListener":
			br.ListenerClosedByScript = true
			b.mu.Lock()
			for c2, x := range conns { // connections whose dial has not been seen yet run with a cancelled context from now on
				if b.get(c2).dials == 0 {
					x.cancelled = true
				}
			}
			b.mu.Unlock()
			ln.Close()
		}
	}
	stalledEnd := map[int]bool{}
	for _, pe := range pending {
		w := await
		if stalledEnd[pe.C] {
			w = 0
		}
		if x := conns[pe.C]; x != nil && x.pause && (pe.A == "TRecv" || pe.A == "TSawFin") {
			continue
		}
		if !b.wait(w, obsHolds(pe)) {
			stalledEnd[pe.C] = true
			if cs := conns[pe.C]; cs != nil {
				cs.stallKinds = append(cs.stallKinds, pe.A)
			}
			if r := recs[pe.C]; r != nil {
				r.Stalls = append(r.Stalls, fmt.Sprintf("%s(%d) at the end", pe.A, pe.V))
			}
		}
	}

	// ---- the behaviour is over: everything must come to rest ----
	for c := 1; c <= nconn; c++ {
		if cc := conns[c]; cc.async { // every receiver eventually reads again; every queued write completes
			cc.tpaused.Store(false)
			cc.cpaused.Store(false)
			jobs := make(chan struct{})
			go func(cc *cconn) { close(cc.cjobs); close(cc.tjobs); cc.jobsWG.Wait(); close(jobs) }(cc)
			select {
			case <-jobs:
			case <-time.After(15 * time.Second):
				cc.rec.Stalls = append(cc.rec.Stalls, "queued writes did not complete")
			}
			cc.cjobs, cc.tjobs = nil, nil
		}
	}
	hang := time.Duration(opt.hangMs) * time.Millisecond
	for c := 1; c <= nconn; c++ {
		cc := conns[c]
		if cc.conn == nil {
			continue
		}
		accepted := b.wait(200*time.Millisecond, func() bool { return b.get(c).opened })
		if !accepted {
			cc.rec.Reset = true
		} else {
			if !cc.cfin && !cc.crst && !b.wait(time.Duration(opt.holdMs)*time.Millisecond, func() bool { return b.get(c).handled }) {
				// the script never made this client half-close: it has now held the connection open for holdMs;
				// record what it has seen so far, then let it close (every client eventually does)
				takeSnap(len(beh.Tr), event{A: "EndHold", C: c})
				cc.cfin = true
				cc.cfinAt = b.ms()
				cc.conn.CloseWrite()
			}
			if !b.wait(await, func() bool { return b.get(c).handled }) {
				// likewise every target eventually ends its stream (the real handler may have dialled where the model's
				// behaviour had the dial fail or not happen, so the script has no TFin for it)
				b.mu.Lock()
				tc := cc.tconn
				b.mu.Unlock()
				if tc != nil && !cc.tfin && !cc.trst && cc.tcl == "no" {
					takeSnap(len(beh.Tr), event{A: "EndTFin", C: c})
					cc.tfin = true
					cc.tfinPolite = true
					tc.CloseWrite()
				}
			}
			if !b.wait(hang, func() bool { return b.get(c).handled }) {
				cc.rec.Hung = true
			}
		}
		b.wait(time.Second, func() bool { return b.get(c).clientDone })
	}
	if !br.ListenerClosedByScript {
		ln.Close()
	}
	select {
	case <-serveDone:
	case <-time.After(hang):
	}
	for c := 1; c <= nconn; c++ {
		cc := conns[c]
		if cc.tconn != nil && !cc.trst {
			tw := 500 * time.Millisecond
			if cc.pause {
				tw = 5 * time.Second
			}
			b.wait(tw, func() bool { return b.get(c).targetDone })
		}
		if cc.conn != nil {
			cc.conn.Close()
		}
		if cc.tln != nil {
			cc.tln.Close()
		}
		if cc.refuseFd > 0 {
			syscall.Close(cc.refuseFd)
		}
		b.mu.Lock()
		tc := cc.tconn
		b.mu.Unlock()
		if tc != nil {
			tc.Close()
		}
	}
	b.mu.Lock()
	br.ServeReturned = b.serveReturned
	br.HandlersAtServeReturn = b.handlersAtServeReturn
	br.Accepted = b.accepted
	dialer.mu.Lock()
	br.InjectedPanics = dialer.injected
	dialer.mu.Unlock()
	var out []*caseRec
	for c := 1; c <= nconn; c++ {
		cc := conns[c]
		o := b.get(c)
		r := cc.rec
		r.Tsent = cc.ntsent
		r.Cfin, r.Tfin, r.Trst = cc.cfin, cc.tfin, cc.trst
		r.Tlog = append(r.Tlog, o.tlog...)
		r.Clog = append(r.Clog, o.clog...)
		r.Mlog = append(r.Mlog, o.mlog...)
		r.Dials = o.dials
		r.Handled = o.handled
		r.WriteErrs += o.writeErrs
		if beh.Ov != nil && beh.Ov.EmptyKeys {
			r.NKeys = 0
		}
		r.Tcl, r.Crst, r.WCPL, r.AfterClose = cc.tcl, cc.crst, cc.wcpl, cc.afterClose
		r.Cancelled = cc.cancelled
		r.DialAddrs = append(r.DialAddrs, o.dialAddrs...)
		r.AcceptAt, r.CloseAt = o.acceptAt, o.closeAt
		r.CfinAt, r.PreDoneAt, r.LastSendAt = cc.cfinAt, cc.preDoneAt, cc.lastSendAt
		r.AddrDoneAt = cc.addrDoneAt
		r.StallKinds = append([]string{}, cc.stallKinds...)
		r.TfinPolite = cc.tfinPolite
		r.WCS, r.WTR, r.WTS, r.WCR = o.wireCS, o.wireTR, o.wireTS, o.wireCR
		r.WPT, r.WPC = o.wirePT, o.wirePC
		r.DebugLog = logger != nil
		for _, m := range o.mlog {
			if m.M == "Probe" {
				r.Drain = m.Drain
			}
		}
		r.Env = envLog
		out = append(out, r)
	}
	b.mu.Unlock()
	br.WallMs = time.Since(start).Milliseconds()
	return out, br
}

func (cc *cconn) cdo(f func()) {
	if cc.async && cc.cjobs != nil {
		cc.cjobs <- f
		return
	}
	f()
}

func (cc *cconn) tdo(f func()) {
	if cc.async && cc.tjobs != nil {
		cc.tjobs <- f
		return
	}
	f()
}

func (cc *cconn) startJobs() {
	cc.cjobs, cc.tjobs = make(chan func(), 256), make(chan func(), 256)
	for _, ch := range []chan func(){cc.cjobs, cc.tjobs} {
		cc.jobsWG.Add(1)
		go func(ch chan func()) {
			defer cc.jobsWG.Done()
			for f := range ch {
				f()
			}
		}(ch)
	}
}

const smallBuf = 16 << 10

func smallRcvBuf(network, address string, c syscall.RawConn) error {
	return c.Control(func(fd uintptr) { syscall.SetsockoptInt(int(fd), syscall.SOL_SOCKET, syscall.SO_RCVBUF, smallBuf) })
}

// addStep appends the environment action to the connection's script (before it is performed)
func addStep(cc *cconn, e event, s snap) {
	st := scriptStep{A: e.A, V: e.V, TL: s.TL, CL: s.CL, ML: s.ML, DL: s.DL}
	switch e.A {
	case "CSend":
		if cc.nsent < len(cc.plan.Toks) {
			t := cc.plan.Toks[cc.nsent]
			st.K, st.V = kindNames[t.Kind], t.V
		}
	case "EndHold":
		st.A = "CFin"
	case "EndTFin":
		st.A = "TFin"
	}
	cc.rec.Script = append(cc.rec.Script, st)
}

func targetAccept(b *board, cc *cconn) {
	conn, err := cc.tln.AcceptTCP()
	if err != nil {
		return
	}
	b.mu.Lock()
	cc.tconn = conn
	b.mu.Unlock()
	b.update(cc.plan.C, func(o *connObs) { o.tAccepted = true })
	c := cc.plan.C
	ch := newChopper(cc.plan.Payloads, func(id int) { b.update(c, func(o *connObs) { o.tlog = append(o.tlog, id) }) })
	buf := make([]byte, 32768)
	if cc.slow {
		buf = buf[:512]
	}
	if cc.pause {
		time.Sleep(400 * time.Millisecond)
	}
	for {
		if cc.slow {
			time.Sleep(2 * time.Millisecond)
		}
		for cc.tpaused.Load() {
			time.Sleep(5 * time.Millisecond)
		}
		n, err := conn.Read(buf)
		if n > 0 {
			b.update(c, func(o *connObs) { o.wireTR += int64(n) })
			ch.feed(buf[:n])
		}
		if err != nil {
			k := closeKind(err)
			b.update(c, func(o *connObs) {
				if k == 0 || k == -1 {
					o.tlog = append(o.tlog, k)
				}
				o.targetDone = true
			})
			return
		}
	}
}

func clientRead(b *board, cc *cconn) {
	c := cc.plan.C
	cr := &countingReader{r: cc.conn, n: func(n int) { b.update(c, func(o *connObs) { o.wireCR += int64(n) }) }}
	ssr := shadowsocks.NewReader(cr, cc.plan.Key.key)
	ch := newChopper(cc.plan.TPayloads, func(id int) { b.update(c, func(o *connObs) { o.clog = append(o.clog, id) }) })
	buf := make([]byte, 32768)
	for {
		for cc.cpaused.Load() {
			time.Sleep(5 * time.Millisecond)
		}
		n, err := ssr.Read(buf)
		if n > 0 {
			ch.feed(buf[:n])
		}
		if err != nil {
			if cr.term == nil {
				// the stream does not decrypt: note it and keep reading the socket to see how it ends
				b.update(c, func(o *connObs) { o.clog = append(o.clog, 9999) })
				io.Copy(io.Discard, cr)
			}
			break
		}
	}
	k := closeKind(cr.term)
	b.update(c, func(o *connObs) {
		if k == 0 || k == -1 {
			o.clog = append(o.clog, k)
		}
		o.closeAt = b.ms()
		o.clientDone = true
	})
}

type teeMetrics struct{ a, b service.TCPConnMetrics }

func (t *teeMetrics) AddAuthenticated(k string) { t.a.AddAuthenticated(k); t.b.AddAuthenticated(k) }
func (t *teeMetrics) AddClosed(s string, d metricsProxy, dur time.Duration) {
	t.a.AddClosed(s, d, dur)
	t.b.AddClosed(s, d, dur)
}
func (t *teeMetrics) AddProbe(s, dr string, n int64) { t.a.AddProbe(s, dr, n); t.b.AddProbe(s, dr, n) }
