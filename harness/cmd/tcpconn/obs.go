package main

// obs.go: observers.  Each observer (client reader, target reader, dialer, metrics, accept wrapper) appends to its own
// log under one scenario-wide mutex and wakes the script goroutine.  Nothing here judges.

import (
	"errors"
	"io"
	"log/slog"
	"net"
	"sync"
	"sync/atomic"
	"syscall"
	"time"

	"github.com/Jigsaw-Code/outline-ss-server/service"
	"github.com/Jigsaw-Code/outline-ss-server/service/metrics"
)

type metricsProxy = metrics.ProxyMetrics

type mrec struct {
	M     string  `json:"m"`
	S     string  `json:"s"`
	N     []int64 `json:"n"`
	Drain string  `json:"drain,omitempty"`
	Key   string  `json:"key,omitempty"`
}

// connObs: what the observers of one connection saw
type connObs struct {
	tlog, clog     []int
	mlog           []mrec
	dials          int
	dialAddrs      []string
	wireTR         int64 // plaintext bytes the target read
	wireCR         int64 // ciphertext bytes the client read
	wireTS         int64 // plaintext bytes the target wrote
	wireCS         int64 // ciphertext bytes the client wrote
	wirePT, wirePC int64 // bytes the proxy's writes really handed to the target / client socket
	opened         bool
	handled        bool // Handle returned
	acceptAt       int64
	closeAt        int64 // client saw EOF/RST (ms since T0), -1
	clientDone     bool
	targetDone     bool
	tAccepted      bool
	badPieces      int
	writeErrs      int
}

type board struct {
	mu                    sync.Mutex
	cond                  *sync.Cond
	t0                    time.Time
	obs                   map[int]*connObs
	serveReturned         bool
	handlersAtServeReturn int // handlers still running when StreamServe returned
	running               int
	accepted, finished    int
	panics                int
}

func newBoard() *board {
	b := &board{obs: map[int]*connObs{}, t0: time.Now()}
	b.cond = sync.NewCond(&b.mu)
	return b
}

func (b *board) ms() int64 { return time.Since(b.t0).Milliseconds() }
func (b *board) us() int64 { return time.Since(b.t0).Microseconds() }

func (b *board) get(c int) *connObs {
	o := b.obs[c]
	if o == nil {
		o = &connObs{closeAt: -1, acceptAt: -1}
		b.obs[c] = o
	}
	return o
}

func (b *board) update(c int, f func(o *connObs)) {
	b.mu.Lock()
	f(b.get(c))
	b.mu.Unlock()
	b.cond.Broadcast()
}

// wait until pred holds or the timeout passes; returns whether it held
func (b *board) wait(d time.Duration, pred func() bool) bool {
	deadline := time.Now().Add(d)
	t := time.AfterFunc(d, func() { b.cond.Broadcast() })
	defer t.Stop()
	b.mu.Lock()
	defer b.mu.Unlock()
	for !pred() {
		if !time.Now().Before(deadline) {
			return false
		}
		b.cond.Wait()
	}
	return true
}

func has(l []int, x int) bool {
	for _, v := range l {
		if v == x {
			return true
		}
	}
	return false
}

// ---- metrics --------------------------------------------------------------------------------------------------
type recMetrics struct {
	b *board
	c int
	// the proxy's socket towards the client when the harness counts what its read calls return (nil otherwise): AddProbe then
	// also records how many bytes the handler had taken from the socket at the moment of the report
	conn *countedConn
}

func (m *recMetrics) AddAuthenticated(accessKey string) {
	m.b.update(m.c, func(o *connObs) { o.mlog = append(o.mlog, mrec{M: "Auth", Key: accessKey, N: []int64{}}) })
}
func (m *recMetrics) AddClosed(status string, d metrics.ProxyMetrics, _ time.Duration) {
	m.b.update(m.c, func(o *connObs) {
		o.mlog = append(o.mlog, mrec{M: "Closed", S: status, N: []int64{d.ClientProxy, d.ProxyTarget, d.TargetProxy, d.ProxyClient}})
	})
}
func (m *recMetrics) AddProbe(status, drainResult string, n int64) {
	m.b.update(m.c, func(o *connObs) {
		ns := []int64{n}
		if m.conn != nil {
			ns = append(ns, m.conn.nread.Load())
		}
		o.mlog = append(o.mlog, mrec{M: "Probe", S: status, N: ns, Drain: drainResult})
	})
}

// recServiceMetrics: a service.ServiceMetrics whose AddOpenTCPConnection logs "Open" and returns the recording TCPConnMetrics of
// the connection (opened-once / closed-once is then judged at the interface the server's wiring layer uses)
type recServiceMetrics struct {
	b *board
	c func(conn net.Conn) int // which model connection this is
}

func (m *recServiceMetrics) AddOpenTCPConnection(conn net.Conn) service.TCPConnMetrics {
	c := m.c(conn)
	m.b.update(c, func(o *connObs) { o.mlog = append(o.mlog, mrec{M: "Open", N: []int64{}}) })
	return &recMetrics{b: m.b, c: c}
}
func (m *recServiceMetrics) AddCipherSearch(proto string, accessKeyFound bool, timeToCipher time.Duration) {
}
func (m *recServiceMetrics) AddUDPNatEntry(clientAddr net.Addr, accessKey string) service.UDPConnMetrics {
	return nil
}

// countedConn: the proxy's own socket (towards the target or towards the client) with the byte counts that its write system
// calls really returned - the ground truth for "bytes actually sent".  No ReaderFrom/WriterTo short cuts: every byte goes
// through Write.
type countedConn struct {
	c     *net.TCPConn
	wrote func(n int)
	nread atomic.Int64 // bytes the read calls of the code under test have returned so far
}

func (w *countedConn) Read(b []byte) (int, error) {
	n, err := w.c.Read(b)
	if n > 0 {
		w.nread.Add(int64(n))
	}
	return n, err
}
func (w *countedConn) Write(b []byte) (int, error) {
	n, err := w.c.Write(b)
	if n > 0 {
		w.wrote(n)
	}
	return n, err
}
func (w *countedConn) Close() error                       { return w.c.Close() }
func (w *countedConn) CloseRead() error                   { return w.c.CloseRead() }
func (w *countedConn) CloseWrite() error                  { return w.c.CloseWrite() }
func (w *countedConn) LocalAddr() net.Addr                { return w.c.LocalAddr() }
func (w *countedConn) RemoteAddr() net.Addr               { return w.c.RemoteAddr() }
func (w *countedConn) SetDeadline(t time.Time) error      { return w.c.SetDeadline(t) }
func (w *countedConn) SetReadDeadline(t time.Time) error  { return w.c.SetReadDeadline(t) }
func (w *countedConn) SetWriteDeadline(t time.Time) error { return w.c.SetWriteDeadline(t) }

// debugLogger: what -verbose gives the server (every debug statement of the handlers is evaluated)
func debugLogger() *slog.Logger {
	return slog.New(slog.NewTextHandler(io.Discard, &slog.HandlerOptions{Level: slog.LevelDebug}))
}

// ---- stream chopper: cuts an incoming byte stream into the pieces the peer is known to have written -------------
type chopper struct {
	sizes  []int
	shas   []string
	idx    int
	cur    []byte
	emit   func(id int)
	extraN int
}

func newChopper(pieces [][]byte, emit func(id int)) *chopper {
	ch := &chopper{emit: emit}
	for _, p := range pieces {
		ch.sizes = append(ch.sizes, len(p))
		ch.shas = append(ch.shas, sha(p))
	}
	return ch
}

func (ch *chopper) feed(b []byte) {
	for len(b) > 0 {
		if ch.idx >= len(ch.sizes) {
			ch.extraN += len(b)
			ch.emit(9000) // bytes nobody sent
			return
		}
		need := ch.sizes[ch.idx] - len(ch.cur)
		n := need
		if n > len(b) {
			n = len(b)
		}
		ch.cur = append(ch.cur, b[:n]...)
		b = b[n:]
		if len(ch.cur) == ch.sizes[ch.idx] {
			if sha(ch.cur) == ch.shas[ch.idx] {
				ch.emit(ch.idx + 1)
			} else {
				ch.emit(9001 + ch.idx) // right length, wrong content
			}
			ch.idx++
			ch.cur = ch.cur[:0]
		}
	}
}

func closeKind(err error) int {
	if err == nil || errors.Is(err, io.EOF) {
		return 0
	}
	if errors.Is(err, syscall.ECONNRESET) || errors.Is(err, syscall.EPIPE) {
		return -1
	}
	var ne net.Error
	if errors.As(err, &ne) && ne.Timeout() {
		return -3
	}
	if errors.Is(err, net.ErrClosed) {
		return -4 // we closed it ourselves
	}
	return -2
}

// countingReader counts raw bytes and remembers the terminal error of the socket
type countingReader struct {
	r    io.Reader
	n    func(int)
	term error
}

func (c *countingReader) Read(p []byte) (int, error) {
	n, err := c.r.Read(p)
	if n > 0 {
		c.n(n)
	}
	if err != nil {
		c.term = err
	}
	return n, err
}
