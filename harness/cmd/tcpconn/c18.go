package main

func runC18(family string, seed int64, out string) {}
