package main

// plan.go: maps the abstract tokens of spec/TcpConn.tla to concrete bytes.
//
// The client side uses the SDK's shadowsocks.Writer (a real Shadowsocks client) to produce the valid part of a
// stream; corrupt chunks are valid chunks with one bit flipped; crafted streams (zero-length chunks, length fields
// above 0x3FFF, arbitrary plaintext) are sealed with the key's own AEAD by chunkEnc.

import (
	"bytes"
	"crypto/cipher"
	"crypto/sha256"
	"encoding/binary"
	"encoding/hex"
	"fmt"
	"math/rand"
	"net"
	"strconv"
	"strings"

	"github.com/Jigsaw-Code/outline-sdk/transport/shadowsocks"
	"github.com/Jigsaw-Code/outline-ss-server/service"
)

var cipherNames = []string{shadowsocks.CHACHA20IETFPOLY1305, shadowsocks.AES256GCM, shadowsocks.AES192GCM, shadowsocks.AES128GCM}

// token kinds, numbered as in TcpConn.tla (CSend event value = code*10 + v)
const (
	kPre = iota + 1
	kAddr
	kAddrPlus
	kAddrPart
	kAddrRest
	kBadAddr
	kData
	kBad
	kJunk
)

var kindNames = map[int]string{kPre: "pre", kAddr: "addr", kAddrPlus: "addrplus", kAddrPart: "addrpart", kAddrRest: "addrrest",
	kBadAddr: "badaddr", kData: "data", kBad: "bad", kJunk: "junk"}

type token struct {
	Kind  int
	V     int
	Bytes []byte // what goes on the wire
	Note  string
}

type keyInfo struct {
	id     string
	secret string
	cipher string
	key    *shadowsocks.EncryptionKey
}

func mustKey(cipherName, secret string) *shadowsocks.EncryptionKey {
	k, err := shadowsocks.NewEncryptionKey(cipherName, secret)
	if err != nil {
		panic(err)
	}
	return k
}

// fixedSalt is a SaltGenerator that returns a given salt (used to replay a handshake and to cross-check chunkEnc)
type fixedSalt []byte

func (f fixedSalt) GetSalt(salt []byte) error { copy(salt, f); return nil }

// chunkEnc seals raw chunks with the key's AEAD (independent of the SDK's Writer)
type chunkEnc struct {
	aead    cipher.AEAD
	counter []byte
}

func newChunkEnc(key *shadowsocks.EncryptionKey, salt []byte) *chunkEnc {
	a, err := key.NewAEAD(salt)
	if err != nil {
		panic(err)
	}
	return &chunkEnc{aead: a, counter: make([]byte, a.NonceSize())}
}

func (e *chunkEnc) seal(p []byte) []byte {
	out := e.aead.Seal(nil, e.counter, p, nil)
	for i := range e.counter {
		e.counter[i]++
		if e.counter[i] != 0 {
			break
		}
	}
	return out
}

// chunk seals one chunk whose length FIELD is lenField (may differ from len(payload) for crafted streams)
func (e *chunkEnc) chunk(lenField int, payload []byte) []byte {
	var l [2]byte
	binary.BigEndian.PutUint16(l[:], uint16(lenField))
	return append(e.seal(l[:]), e.seal(payload)...)
}

func socksAddr(atyp int, host string, port int) []byte {
	var b []byte
	switch atyp {
	case 1:
		b = append([]byte{1}, net.ParseIP(host).To4()...)
	case 4:
		b = append([]byte{4}, net.ParseIP(host).To16()...)
	case 3:
		b = append([]byte{3, byte(len(host))}, host...)
	}
	return append(b, byte(port>>8), byte(port))
}

func sha(b []byte) string { s := sha256.Sum256(b); return hex.EncodeToString(s[:8]) }

var sizeMenu = []int{1, 2, 1000, 16383}

func pickSize(rng *rand.Rand) int {
	switch r := rng.Intn(10); {
	case r < 4:
		return sizeMenu[r]
	case r < 7:
		return 1 + rng.Intn(3000)
	case r < 9:
		return 1 + rng.Intn(16383)
	default:
		return 16384 + rng.Intn(30000) // several chunks for one token
	}
}

func randBytes(rng *rand.Rand, n int) []byte { b := make([]byte, n); rng.Read(b); return b }

func flipBit(b []byte, off int, rng *rand.Rand) { b[off] ^= 1 << uint(rng.Intn(8)) }

// connPlan: everything concrete about one model connection
type connPlan struct {
	C         int
	Hs, Tk    string
	Key       keyInfo
	KeyPos    int
	Atyp      int
	ReqAddr   string // what the client asks for (host:port as the proxy will hand it to the dialer)
	Toks      []token
	Payloads  [][]byte // plaintext of the data ids 1..n (client -> target)
	TPayloads [][]byte // plaintext of the target tokens 1..n (target -> client)
	Salt      []byte
	Variant   string
}

type kv struct{ k, v int }

// buildPlan: kinds is the sequence of client tokens the behaviour will send (in order).
func buildPlan(rng *rand.Rand, c int, hs, tk string, key keyInfo, kinds []kv, ntgt int, reqAddr string, atyp int, ov *override, primed func(p *connPlan)) *connPlan {
	p := &connPlan{C: c, Hs: hs, Tk: tk, Key: key, Atyp: atyp, ReqAddr: reqAddr}
	for i := 0; i < ntgt; i++ {
		tsz := pickSize(rng)
		if ov != nil && ov.TDataSize > 0 {
			tsz = ov.TDataSize
		}
		p.TPayloads = append(p.TPayloads, randBytes(rng, tsz))
	}
	host, portS, _ := net.SplitHostPort(reqAddr)
	port, _ := strconv.Atoi(portS)
	addr := socksAddr(atyp, host, port)

	var wire bytes.Buffer
	ssw := shadowsocks.NewWriter(&wire, key.key)
	switch hs {
	case "replayS":
		// a salt carrying the server's own mark (reflected replay)
		ssw.SetSaltGenerator(service.NewServerSaltGenerator(key.secret))
	}
	take := func() []byte { b := append([]byte(nil), wire.Bytes()...); wire.Reset(); return b }
	craft := ""
	if ov != nil {
		craft = ov.Craft
	}
	// crafted streams are sealed chunk by chunk with the key's AEAD (the SDK writer cannot emit these)
	var enc *chunkEnc
	var encSalt []byte
	if craft == "zero" || craft == "overlen" {
		encSalt = randBytes(rng, key.key.SaltSize())
		enc = newChunkEnc(key.key, encSalt)
	}
	seal := func(pl []byte, data bool) []byte { // one application write -> wire bytes
		if enc == nil {
			ssw.Write(pl)
			return take()
		}
		var out []byte
		if encSalt != nil {
			out = append(out, encSalt...)
			encSalt = nil
		}
		for len(pl) > 0 || out == nil {
			n := len(pl)
			if n > 0x3FFF {
				n = 0x3FFF
			}
			if data && craft == "zero" {
				out = append(out, enc.chunk(0, nil)...)
			}
			lf := n
			if data && craft == "overlen" {
				lf |= []int{0x4000, 0x8000, 0xC000}[rng.Intn(3)]
			}
			out = append(out, enc.chunk(lf, pl[:n])...)
			pl = pl[n:]
			if len(pl) == 0 {
				break
			}
		}
		return out
	}
	dataSize := func() int {
		if ov != nil && ov.DataSize > 0 {
			return ov.DataSize
		}
		if craft == "full" {
			return 0x3FFF
		}
		return pickSize(rng)
	}

	npre := 0
	for _, k := range kinds {
		if k.k == kPre {
			npre++
		}
	}
	// the first 50 bytes and the rest of the first chunk
	var first []byte // whole first flight (>= 50 bytes when the script goes beyond the key-search bytes)
	garbage := hs == "garbage"
	body := kinds[npre:]
	switch {
	case garbage:
		v := rng.Intn(4)
		if ov != nil && ov.Variant != "" {
			v = map[string]int{"random": 0, "flip-salt": 1, "flip-len": 2, "flip-lentag": 3}[ov.Variant]
		}
		if v == 0 || (len(body) == 0 && (ov == nil || ov.Variant == "")) {
			p.Variant = "random"
			first = randBytes(rng, 50)
		} else {
			// a valid stream with one bit flipped in the salt / encrypted length / length tag
			ssw.Write(append(append([]byte(nil), addr...), randBytes(rng, 200+rng.Intn(200))...))
			first = take()
			ss := key.key.SaltSize()
			cls := []string{"salt", "len", "lentag"}[v-1]
			var off int
			switch cls {
			case "salt":
				off = rng.Intn(ss)
			case "len":
				off = ss + rng.Intn(2)
			default:
				off = ss + 2 + rng.Intn(key.key.TagSize())
			}
			flipBit(first, off, rng)
			p.Variant = "flip-" + cls
		}
	default:
		// valid opener (also for the replays): first chunk depends on the token after the pre tokens
		var pl []byte
		if len(body) == 0 {
			pl = addr // never sent beyond 50 bytes; any valid first chunk will do
		} else {
			switch body[0].k {
			case kAddr:
				pl = addr
			case kAddrPlus:
				d := randBytes(rng, pickSize(rng)%16000+1)
				if len(addr)+len(d) > 16383 {
					d = d[:16383-len(addr)]
				}
				p.Payloads = append(p.Payloads, d)
				pl = append(append([]byte(nil), addr...), d...)
			case kAddrPart:
				cut := 1 + rng.Intn(len(addr)-1)
				if strings.HasPrefix(craft, "trunc-") {
					if n, _ := strconv.Atoi(craft[6:]); n >= 1 && n < len(addr) {
						cut = n
					}
				}
				pl = addr[:cut]
				addr = addr[cut:] // rest goes with addrrest
			case kBadAddr:
				choice := rng.Intn(3)
				if strings.HasPrefix(craft, "atyp-") {
					choice = 0
				}
				switch choice {
				case 0:
					bad := []byte{0, 2, 5, 255, 6, 127}[rng.Intn(6)]
					if strings.HasPrefix(craft, "atyp-") {
						n, _ := strconv.Atoi(craft[5:])
						bad = byte(n)
					}
					pl = append([]byte{bad}, randBytes(rng, 6+rng.Intn(20))...)
					p.Variant = fmt.Sprintf("atyp-%d", bad)
				default:
					pl = addr
					p.Variant = "addr-chunk-corrupt"
				}
			default:
				pl = addr
			}
		}
		first = seal(pl, false)
		if p.Variant == "addr-chunk-corrupt" {
			ss := key.key.SaltSize()
			off := ss + 2 + key.key.TagSize() + rng.Intn(len(first)-ss-2-key.key.TagSize())
			flipBit(first, off, rng)
		}
		p.Salt = append([]byte(nil), first[:key.key.SaltSize()]...)
	}
	if hs == "replayC" && primed != nil {
		primed(p) // the caller sends `first` (+ a FIN) on a separate connection beforehand
	}
	// pre tokens
	cut := 50
	if npre == 2 {
		cut = 1 + rng.Intn(49)
	}
	idx := 0
	units := 0
	for _, k := range kinds[:npre] {
		var b []byte
		switch {
		case k.v == 2:
			b = first[:50]
		case units == 0:
			if npre == 1 { // a short probe: fewer than 50 bytes, never completed
				n := []int{1, 25, 49, 1 + rng.Intn(49)}[rng.Intn(4)]
				b = first[:n]
			} else {
				b = first[:cut]
			}
		default:
			b = first[cut:50]
		}
		units += k.v
		p.Toks = append(p.Toks, token{Kind: kPre, V: k.v, Bytes: b})
		idx++
	}
	if ov != nil && len(ov.Lens) > 0 && garbage {
		// forced byte lengths: the stream is `first` followed by random bytes, cut as the override says
		stream := append(append([]byte(nil), first...), randBytes(rng, 70000)...)
		p.Toks = p.Toks[:0]
		off := 0
		for i, k := range kinds {
			n := ov.Lens[i%len(ov.Lens)]
			p.Toks = append(p.Toks, token{Kind: k.k, V: k.v, Bytes: stream[off : off+n]})
			off += n
		}
		return p
	}
	rest := first[50:]
	ndata := len(p.Payloads)
	afterBad := false
	for i, k := range body {
		var b []byte
		note := ""
		switch {
		case garbage || hs == "replayC" || hs == "replayS" || k.k == kJunk && !afterBad:
			// bytes after an opener that does not authenticate
			if i == 0 && len(rest) > 0 {
				b = rest
			} else {
				b = randBytes(rng, []int{1, 23, 41, 1000, 18 + rng.Intn(3000)}[rng.Intn(5)])
			}
		case k.k == kAddr || k.k == kAddrPlus || k.k == kAddrPart || k.k == kBadAddr:
			b = rest
		case k.k == kAddrRest:
			b = seal(addr, false)
		case k.k == kData:
			d := randBytes(rng, dataSize())
			ndata++
			p.Payloads = append(p.Payloads, d)
			b = seal(d, true)
		case k.k == kBad:
			// a chunk that does not authenticate.  If junk follows in the script, the corruption is in the length
			// block and the junk token is the chunk's own payload block; otherwise it is in the payload block
			// (the reader consumes the whole chunk before failing).
			d := randBytes(rng, 2+pickSize(rng)%4000)
			ch := seal(d, false)
			lb := 2 + key.key.TagSize()
			if i+1 < len(body) && body[i+1].k == kJunk && rng.Intn(2) == 0 {
				flipBit(ch, rng.Intn(lb), rng)
				b = ch[:lb]
				rest = ch[lb:]
				note = "len-block"
			} else {
				flipBit(ch, lb+rng.Intn(len(ch)-lb), rng)
				b = ch
				rest = nil
				note = "payload-block"
			}
			afterBad = true
		case k.k == kJunk:
			if len(rest) > 0 {
				b = rest
				rest = nil
				note = "payload-of-bad-chunk"
			} else if rng.Intn(2) == 0 {
				d := randBytes(rng, 1+pickSize(rng)%3000)
				b = seal(d, false) // a VALID next chunk of the same stream
				note = "valid-next-chunk"
			} else {
				b = randBytes(rng, 18+rng.Intn(2000))
				note = "random"
			}
		}
		p.Toks = append(p.Toks, token{Kind: k.k, V: k.v, Bytes: b, Note: note})
	}
	return p
}
