// tcpconn: conformance driver for spec/TcpConn.tla (C02, C06, C15, C18-tcp).
//
//	replay -in behs.json -out cases.ndjson [-seed N -timeout-ms 400 -unit-ms 200 -par 8 -prom]
//	       spec -> code: executes TLC-generated behaviours (see scen.go) and records, per connection, the script as
//	       performed plus what every observer saw (code -> spec: validated by spec/TcpConnTrace.tla).
//	       -prom: the handler also reports to the real prometheus.NewServiceMetrics (private registry); the gathered
//	       totals are written next to the recorded ones (out + ".prom.json").
//	       -own-waits: before an environment action of connection c only c's observations are waited for (used for
//	       behaviours merged from many single-connection behaviours: hundreds of connections open at once)
//	       -leak: C18 accounting: recovered panics (slog records "Panic in TCP handler"), goroutines with frames in the
//	       repository's packages and open descriptors after all behaviours (out + ".leak.json"); an unrecovered panic
//	       kills this process, which the check sees as a non-zero exit status
//
//	accepterr -rounds R -n N -out f   accept errors (EMFILE) injected between connections (see burst.go)
//	burst -rounds R -n N -out f   n connections accepted back to back right before accept reports net.ErrClosed (see burst.go)
//
// The driver never judges a property; it only records (exit 3 = harness failure).
package main

import (
	"encoding/json"
	"flag"
	"net"
	"os"
	"runtime/debug"
	"sort"
	"sync"
	"time"

	"verifharness/hx"
)

func main() {
	if len(os.Args) < 2 {
		hx.Fatal("usage: tcpconn replay|burst|accepterr ...")
	}
	mode := os.Args[1]
	fs := flag.NewFlagSet(mode, flag.ExitOnError)
	in := fs.String("in", "", "behaviours (json array of {sc,tr})")
	out := fs.String("out", "cases.ndjson", "output")
	seed := fs.Int64("seed", 1, "seed")
	timeoutMs := fs.Int("timeout-ms", 400, "handshake timeout of the handler")
	unitMs := fs.Int("unit-ms", 200, "real time of one model tick (timeout = 2 ticks)")
	awaitMs := fs.Int("await-ms", 300, "how long to wait for an observation the behaviour expects")
	holdMs := fs.Int("hold-ms", 300, "how long a client keeps an invalid authenticated stream open")
	hangMs := fs.Int("hang-ms", 4000, "how long to wait for handlers to return at the end")
	par := fs.Int("par", 8, "behaviours executed concurrently")
	prom := fs.Bool("prom", false, "also report to the real Prometheus collectors")
	debugEvery := fs.Int("debug-every", 3, "every k-th behaviour / round runs with a debug-level logger (0: never)")
	ownWaits := fs.Bool("own-waits", false, "wait only for observations of the acting connection")
	rounds := fs.Int("rounds", 30, "burst: rounds")
	burstN := fs.Int("n", 3, "burst: connections pending in the backlog when the listener is closed")
	leak := fs.Bool("leak", false, "C18 accounting: panics, goroutines, descriptors")
	nkeys := fs.Int("nkeys", 0, "key list size (0 = seed-chosen from 1,3,100)")
	cipher := fs.String("cipher", "", "force one cipher for all keys")
	baseIdx := fs.Int("base-idx", 0, "index of the first behaviour (seeds the per-behaviour randomness; used to re-run one behaviour)")
	fs.Parse(os.Args[2:])

	switch mode {
	case "replay":
		var behs []behaviour
		hx.ReadJSON(*in, &behs)
		opt := options{seed: *seed, timeoutMs: *timeoutMs, unitMs: *unitMs, awaitMs: *awaitMs, holdMs: *holdMs, hangMs: *hangMs,
			nkeys: *nkeys, cipher: *cipher, ownWaits: *ownWaits, debugEvery: *debugEvery}
		var cap *capture
		fd0 := 0
		if *leak {
			cap = installCapture()
			// no garbage collection: a socket the server forgot to close must stay open (a finalizer would close it)
			debug.SetGCPercent(-1)
			// warm up the runtime's own descriptors (netpoller) before taking the baseline
			if ln, err := net.Listen("tcp", "127.0.0.1:0"); err == nil {
				if c, err := net.Dial("tcp", ln.Addr().String()); err == nil {
					c.Close()
				}
				ln.Close()
			}
			time.Sleep(20 * time.Millisecond)
			fd0 = fdCount()
		}
		var pm *promSink
		if *prom {
			pm = newPromSink()
			opt.openHook = pm.open
		}
		type res struct {
			cases []*caseRec
			beh   *behRec
		}
		results := make([]res, len(behs))
		sem := make(chan struct{}, *par)
		var wg sync.WaitGroup
		for i := range behs {
			wg.Add(1)
			sem <- struct{}{}
			go func(i int) {
				defer wg.Done()
				defer func() { <-sem }()
				c, b := runBehaviour(i+*baseIdx, behs[i], opt)
				for _, cr := range c {
					cr.Beh = i
				}
				b.Beh = i
				results[i] = res{c, b}
			}(i)
		}
		wg.Wait()
		tr := hx.NewTrace(*out)
		for _, r := range results {
			for _, c := range r.cases {
				tr.Emit(toMap(c))
			}
			tr.Emit(toMap(r.beh))
		}
		tr.Close()
		if *leak {
			gs, fds := settle(fd0, 3*time.Second)
			if gs == nil {
				gs = []string{}
			}
			ps := cap.panics()
			if ps == nil {
				ps = []string{}
			}
			hx.WriteJSON(*out+".leak.json", leakReport{FdBefore: fd0, FdAfter: fds, Goroutines: gs, Panics: ps, Warnings: len(cap.recs)})
		}
		if pm != nil {
			var all []*caseRec
			for _, r := range results {
				all = append(all, r.cases...)
			}
			hx.WriteJSON(*out+".prom.json", map[string]any{"gathered": pm.gather(), "recorded": recordedTotals(all)})
		}
	case "burst":
		runBurst(*rounds, *burstN, *seed, *out)
	case "accepterr":
		runAcceptErr(*rounds, *burstN, *seed, *out)
	default:
		hx.Fatal("unknown mode %s", mode)
	}
}

func toMap(v any) map[string]any {
	b, err := json.Marshal(v)
	if err != nil {
		hx.Fatal("marshal: %v", err)
	}
	var m map[string]any
	json.Unmarshal(b, &m)
	return m
}

// totals of the recording metrics, in the shape of the gathered Prometheus families
func recordedTotals(cases []*caseRec) map[string]any {
	opened, closed := 0, map[string]int{}
	bytes := map[string]int64{}
	for _, c := range cases {
		for _, m := range c.Mlog {
			switch m.M {
			case "Open":
				opened++
			case "Closed":
				closed[m.S]++
				bytes["c>p"] += m.N[0]
				bytes["p>t"] += m.N[1]
				bytes["p<t"] += m.N[2]
				bytes["c<p"] += m.N[3]
			}
		}
	}
	keys := []string{}
	for k := range closed {
		keys = append(keys, k)
	}
	sort.Strings(keys)
	return map[string]any{"opened": opened, "closed": closed, "data_bytes": bytes}
}
