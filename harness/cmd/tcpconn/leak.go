package main

// leak.go: accounting for C18 - recovered panics (slog records), goroutines with frames in the repository's packages,
// open file descriptors.

import (
	"context"
	"log/slog"
	"os"
	"runtime"
	"strings"
	"sync"
	"time"
)

type capture struct {
	mu   sync.Mutex
	recs []string
}

func (c *capture) Enabled(context.Context, slog.Level) bool { return true }
func (c *capture) Handle(_ context.Context, r slog.Record) error {
	if r.Level >= slog.LevelWarn {
		msg := r.Message
		r.Attrs(func(a slog.Attr) bool { msg += " " + a.Key + "=" + a.Value.String(); return true })
		c.mu.Lock()
		c.recs = append(c.recs, msg)
		c.mu.Unlock()
	}
	return nil
}
func (c *capture) WithAttrs([]slog.Attr) slog.Handler { return c }
func (c *capture) WithGroup(string) slog.Handler      { return c }

func installCapture() *capture {
	c := &capture{}
	slog.SetDefault(slog.New(c))
	return c
}

func (c *capture) panics() []string {
	c.mu.Lock()
	defer c.mu.Unlock()
	var out []string
	for _, r := range c.recs {
		if strings.Contains(r, "Panic") || strings.Contains(r, "panic") {
			out = append(out, r)
		}
	}
	return out
}

const repoPkg = "github.com/Jigsaw-Code/outline-ss-server/"

// repoGoroutines: stacks of goroutines that have a frame in one of the repository's packages
func repoGoroutines() []string {
	buf := make([]byte, 1<<22)
	n := runtime.Stack(buf, true)
	var out []string
	for _, g := range strings.Split(string(buf[:n]), "\n\n") {
		if strings.Contains(g, repoPkg) {
			if len(g) > 1500 {
				g = g[:1500]
			}
			out = append(out, g)
		}
	}
	return out
}

func fdCount() int {
	ents, err := os.ReadDir("/proc/self/fd")
	if err != nil {
		return -1
	}
	return len(ents)
}

type leakReport struct {
	FdBefore   int      `json:"fdBefore"`
	FdAfter    int      `json:"fdAfter"`
	Goroutines []string `json:"goroutines"` // repository goroutines still alive at the end
	Panics     []string `json:"panics"`     // recovered-panic log records
	Warnings   int      `json:"warnings"`
}

// settle: wait (up to d) until no repository goroutine is left and the fd count is back at the baseline
func settle(fdBefore int, d time.Duration) ([]string, int) {
	deadline := time.Now().Add(d)
	for {
		gs, fds := repoGoroutines(), fdCount()
		if (len(gs) == 0 && fds <= fdBefore) || time.Now().After(deadline) {
			return gs, fds
		}
		time.Sleep(20 * time.Millisecond)
	}
}
