package main

// burst.go: StreamServe must return only after the handlers of ALL accepted connections have returned, also for
// connections accepted in the instant before accept reports net.ErrClosed.  In TcpConn.tla these are the behaviours
// Connect(c) for every c, Accept(c) for every c, CloseListener, ServeBreak ... with every handler still at "start" when the
// accept loop breaks (invariant C18_ServeWaits).  The accept function given to StreamServe hands out n connections that
// were already pending in the kernel backlog back to back and then reports the listener closed; the handlers are busy for
// 30 ms (the clients stay silent that long, then half-close).

import (
	"context"
	"io"
	"log/slog"
	"math/rand"
	"net"
	"sync"
	"sync/atomic"
	"syscall"
	"time"

	"github.com/Jigsaw-Code/outline-sdk/transport"
	"github.com/Jigsaw-Code/outline-ss-server/service"
	"verifharness/hx"
)

func runBurst(rounds, n int, seed int64, out string) {
	rng := rand.New(rand.NewSource(seed))
	tr := hx.NewTrace(out)
	defer tr.Close()
	for r := 0; r < rounds; r++ {
		_, klist := makeKeys(rng, 3, seed+int64(r), "")
		ciphers := service.NewCipherList()
		ciphers.Update(klist)
		rc := service.NewReplayCache(10)
		// the server's wiring layer: ssService.HandleStream creates the metrics object with ServiceMetrics.AddOpenTCPConnection
		// and passes it to the stream handler (59 s handshake timeout; the clients half-close after 20-40 ms)
		b := newBoard()
		var portMu sync.Mutex
		ports := map[int]int{}
		connID := func(conn net.Conn) int {
			portMu.Lock()
			defer portMu.Unlock()
			return ports[conn.RemoteAddr().(*net.TCPAddr).Port]
		}
		var logger *slog.Logger
		if r%2 == 1 {
			logger = debugLogger() // the server's -verbose
		}
		svc, err := service.NewShadowsocksService(service.WithCiphers(ciphers), service.WithReplayCache(&rc),
			service.WithMetrics(&recServiceMetrics{b: b, c: connID}), service.WithLogger(logger))
		if err != nil {
			hx.Fatal("NewShadowsocksService: %v", err)
		}
		ln, err := net.ListenTCP("tcp", &net.TCPAddr{IP: net.IPv4(127, 0, 0, 1)})
		if err != nil {
			hx.Fatal("listen: %v", err)
		}
		gate := make(chan struct{})
		var accepted, started, finished int32
		calls := 0
		accept := func() (transport.StreamConn, error) {
			if calls == 0 {
				<-gate
			}
			calls++
			if calls > n {
				ln.Close()
				_, err := ln.AcceptTCP() // net.ErrClosed
				return nil, err
			}
			c, err := ln.AcceptTCP()
			if err != nil {
				return nil, err
			}
			atomic.AddInt32(&accepted, 1)
			return c, nil
		}
		var clients []*net.TCPConn
		for i := 0; i < n; i++ {
			c, err := net.DialTCP("tcp", nil, ln.Addr().(*net.TCPAddr))
			if err != nil {
				hx.Fatal("dial: %v", err)
			}
			clients = append(clients, c)
			portMu.Lock()
			ports[c.LocalAddr().(*net.TCPAddr).Port] = i + 1
			portMu.Unlock()
		}
		cfinAt := make([]int64, n+1)
		var eofs int32
		var cw sync.WaitGroup
		for i, c := range clients {
			cw.Add(1)
			busy := time.Duration(20+rng.Intn(20)) * time.Millisecond
			go func(id int, c *net.TCPConn) {
				defer cw.Done()
				<-gate
				time.Sleep(busy)
				cfinAt[id] = b.ms()
				c.CloseWrite()
				c.SetReadDeadline(time.Now().Add(3 * time.Second))
				nr, err := io.Copy(io.Discard, c)
				k := closeKind(err)
				b.update(id, func(o *connObs) {
					o.wireCR += nr
					if k == 0 || k == -1 {
						o.clog = append(o.clog, k)
						o.closeAt = b.ms()
					}
				})
				if err == nil {
					atomic.AddInt32(&eofs, 1)
				}
				c.Close()
			}(i+1, c)
		}
		done := make(chan [3]int32, 1)
		go func() {
			service.StreamServe(accept, func(ctx context.Context, conn transport.StreamConn) {
				atomic.AddInt32(&started, 1)
				id := connID(conn)
				b.update(id, func(o *connObs) { o.opened = true; o.acceptAt = b.ms() })
				svc.HandleStream(ctx, conn)
				atomic.AddInt32(&finished, 1)
				b.update(id, func(o *connObs) { o.handled = true })
			})
			done <- [3]int32{atomic.LoadInt32(&accepted), atomic.LoadInt32(&started), atomic.LoadInt32(&finished)}
		}()
		time.Sleep(5 * time.Millisecond) // the connections are in the backlog, StreamServe is parked in accept
		close(gate)
		var at [3]int32
		returned := true
		select {
		case at = <-done:
		case <-time.After(5 * time.Second):
			returned = false
		}
		cw.Wait()
		// one record per connection, judged by TLC like every other connection record (opened once / closed once at the
		// ServiceMetrics interface, probe report, silence, close not before the client's)
		b.mu.Lock()
		for id := 1; id <= n; id++ {
			o := b.get(id)
			rec := &caseRec{Ev: "Case", Beh: r, C: id, Hs: "garbage", Tk: "ok", TimeoutMs: 59000, Cfin: true, CfinAt: cfinAt[id], PreDoneAt: -1,
				AddrDoneAt: -1, LastSendAt: -1, AcceptAt: o.acceptAt, CloseAt: o.closeAt, Csent: []tokOut{}, Tlog: []int{}, Clog: append([]int{}, o.clog...),
				Mlog: append([]mrec{}, o.mlog...), Snaps: []snap{}, Stalls: []string{}, StallKinds: []string{}, DialAddrs: []string{}, Script: []scriptStep{},
				Env: []string{"burst"}, Handled: o.handled, Connected: true, Tcl: "no", WCR: o.wireCR, Cancelled: true}
			for _, m := range o.mlog {
				if m.M == "Probe" {
					rec.Drain = m.Drain
				}
			}
			tr.Emit(toMap(rec))
		}
		b.mu.Unlock()
		tr.Emit(map[string]any{"ev": "Burst", "round": r, "n": n, "serveReturned": returned, "accepted": at[0], "startedAtReturn": at[1],
			"finishedAtReturn": at[2], "finishedLater": atomic.LoadInt32(&finished), "clientsSawEOF": eofs})
	}
}

// runAcceptErr: accept errors that are neither net.ErrClosed nor timeouts (EMFILE: the process ran out of descriptors for a
// moment) are injected between connections by the accept function given to StreamServe.  The listener stays open, so
// StreamServe must go on accepting: every connection that follows is served (tcp.go:238-244; in TcpConn.tla a failed accept
// is a stuttering step of the Serve loop: srv stays "accept").
func runAcceptErr(rounds, n int, seed int64, out string) {
	rng := rand.New(rand.NewSource(seed))
	tr := hx.NewTrace(out)
	defer tr.Close()
	for r := 0; r < rounds; r++ {
		_, klist := makeKeys(rng, 3, seed+int64(r), "")
		ciphers := service.NewCipherList()
		ciphers.Update(klist)
		rc := service.NewReplayCache(10)
		handler := service.NewStreamHandler(service.NewShadowsocksStreamAuthenticator(ciphers, &rc, nil, nil), 2*time.Second)
		ln, err := net.ListenTCP("tcp", &net.TCPAddr{IP: net.IPv4(127, 0, 0, 1)})
		if err != nil {
			hx.Fatal("listen: %v", err)
		}
		var served, injected int32
		calls := 0
		accept := func() (transport.StreamConn, error) {
			calls++
			if calls%2 == 0 && int(atomic.LoadInt32(&injected)) < n { // every second call fails
				atomic.AddInt32(&injected, 1)
				return nil, &net.OpError{Op: "accept", Net: "tcp", Addr: ln.Addr(), Err: syscall.EMFILE}
			}
			return ln.AcceptTCP()
		}
		done := make(chan struct{})
		go func() {
			service.StreamServe(accept, func(ctx context.Context, conn transport.StreamConn) {
				handler.Handle(ctx, conn, nil)
				atomic.AddInt32(&served, 1)
			})
			close(done)
		}()
		eofs := 0
		early := false
		for i := 0; i < n; i++ { // one client after the other: each must be served although accept failed in between
			c, err := net.DialTCP("tcp", nil, ln.Addr().(*net.TCPAddr))
			if err != nil {
				continue
			}
			time.Sleep(10 * time.Millisecond)
			c.CloseWrite()
			c.SetReadDeadline(time.Now().Add(1500 * time.Millisecond))
			if _, err := io.Copy(io.Discard, c); err == nil {
				eofs++
			}
			c.Close()
			select {
			case <-done:
				early = true // StreamServe ended although nobody closed the listener
			default:
			}
		}
		ln.Close()
		returned := true
		select {
		case <-done:
		case <-time.After(3 * time.Second):
			returned = false
		}
		tr.Emit(map[string]any{"ev": "AcceptErr", "round": r, "n": n, "injected": injected, "served": atomic.LoadInt32(&served),
			"clientsSawEOF": eofs, "serveEndedWithListenerOpen": early, "serveReturned": returned})
	}
}
