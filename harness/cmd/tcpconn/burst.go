package main

// burst.go: StreamServe must return only after the handlers of ALL accepted connections have returned, also for
// connections accepted in the instant before accept reports net.ErrClosed.  In TcpConn.tla these are the behaviours
// Connect(c) for every c, Accept(c) for every c, CloseListener, ServeBreak ... with every handler still at "start" when the
// accept loop breaks (invariant C18_ServeWaits).  The accept function given to StreamServe hands out n connections that
// were already pending in the kernel backlog back to back and then reports the listener closed; the handlers are busy for
// 30 ms (the clients stay silent that long, then half-close).

import (
	"context"
	"io"
	"math/rand"
	"net"
	"sync"
	"sync/atomic"
	"time"

	"github.com/Jigsaw-Code/outline-sdk/transport"
	"github.com/Jigsaw-Code/outline-ss-server/service"
	"verifharness/hx"
)

func runBurst(rounds, n int, seed int64, out string) {
	rng := rand.New(rand.NewSource(seed))
	tr := hx.NewTrace(out)
	defer tr.Close()
	for r := 0; r < rounds; r++ {
		_, klist := makeKeys(rng, 3, seed+int64(r), "")
		ciphers := service.NewCipherList()
		ciphers.Update(klist)
		rc := service.NewReplayCache(10)
		handler := service.NewStreamHandler(service.NewShadowsocksStreamAuthenticator(ciphers, &rc, nil, nil), 2*time.Second)
		ln, err := net.ListenTCP("tcp", &net.TCPAddr{IP: net.IPv4(127, 0, 0, 1)})
		if err != nil {
			hx.Fatal("listen: %v", err)
		}
		gate := make(chan struct{})
		var accepted, started, finished int32
		calls := 0
		accept := func() (transport.StreamConn, error) {
			if calls == 0 {
				<-gate
			}
			calls++
			if calls > n {
				ln.Close()
				_, err := ln.AcceptTCP() // net.ErrClosed
				return nil, err
			}
			c, err := ln.AcceptTCP()
			if err != nil {
				return nil, err
			}
			atomic.AddInt32(&accepted, 1)
			return c, nil
		}
		var clients []*net.TCPConn
		for i := 0; i < n; i++ {
			c, err := net.DialTCP("tcp", nil, ln.Addr().(*net.TCPAddr))
			if err != nil {
				hx.Fatal("dial: %v", err)
			}
			clients = append(clients, c)
		}
		var eofs int32
		var cw sync.WaitGroup
		for _, c := range clients {
			cw.Add(1)
			busy := time.Duration(20+rng.Intn(20)) * time.Millisecond
			go func(c *net.TCPConn) {
				defer cw.Done()
				<-gate
				time.Sleep(busy)
				c.CloseWrite()
				c.SetReadDeadline(time.Now().Add(3 * time.Second))
				if _, err := io.Copy(io.Discard, c); err == nil {
					atomic.AddInt32(&eofs, 1)
				}
				c.Close()
			}(c)
		}
		done := make(chan [3]int32, 1)
		go func() {
			service.StreamServe(accept, func(ctx context.Context, conn transport.StreamConn) {
				atomic.AddInt32(&started, 1)
				handler.Handle(ctx, conn, nil)
				atomic.AddInt32(&finished, 1)
			})
			done <- [3]int32{atomic.LoadInt32(&accepted), atomic.LoadInt32(&started), atomic.LoadInt32(&finished)}
		}()
		time.Sleep(5 * time.Millisecond) // the connections are in the backlog, StreamServe is parked in accept
		close(gate)
		var at [3]int32
		returned := true
		select {
		case at = <-done:
		case <-time.After(5 * time.Second):
			returned = false
		}
		cw.Wait()
		tr.Emit(map[string]any{"ev": "Burst", "round": r, "n": n, "serveReturned": returned, "accepted": at[0], "startedAtReturn": at[1],
			"finishedAtReturn": at[2], "finishedLater": atomic.LoadInt32(&finished), "clientsSawEOF": eofs})
	}
}
