// In-package conformance harness for spec/TunnelTime.tla (C17) and the exposure clause of C20.
// Added to package prometheus with `go test -overlay` (nothing in the repository is replaced).
//
// Input  (VERIF_TT_IN):  {"behaviours":[[{"a":"Init","locmap":[..]},{"a":"Open","c":1,"ip":1},...], ...],
//                         "db":"fake"|"nil"|"alt", "child":false}
// Output (VERIF_TT_OUT): NDJSON trace of what REALLY happened, validated by TLC (TunnelTimeTrace.tla).
//
// The clock is the package variable `now`, driven by the model's Tick steps.  The interleaving "something happens
// between Collect's clock read and its Lock" needs no hook: a scrape runs in its own goroutine, the `now` stub parks
// that goroutine inside Collect's clock read (CollectBegin) and the driver performs the model's next steps until the
// model says CollectLocked, then lets the scrape continue.  Whether the clock is read before the lock (code as it is) or
// under the lock is PROBED first (a start that is attempted while the scrape is parked completes or not) and reported
// as {"ev":"Mode"}; with the clock under the lock a scrape is atomic and is executed as a whole at CollectLocked.
//
// The harness never judges; it records.  A panic inside Collect is recovered here (Collect is called directly in a
// harness goroutine) and recorded as "panic":true.  In child mode the scrape goes through Registry.Gather, whose
// collector goroutines nobody can recover: the process then dies, which is what the parent check classifies.
package prometheus

import (
	"bufio"
	"bytes"
	"encoding/json"
	"errors"
	"fmt"
	"net"
	"os"
	"regexp"
	"sort"
	"sync"
	"testing"
	"time"

	"github.com/Jigsaw-Code/outline-ss-server/ipinfo"
	"github.com/Jigsaw-Code/outline-ss-server/service"
	"github.com/Jigsaw-Code/outline-ss-server/service/metrics"
	"github.com/prometheus/client_golang/prometheus"
	dto "github.com/prometheus/client_model/go"
	"github.com/prometheus/common/expfmt"
)

// ---- distinctive client addresses (C20 exposure) and listener addresses ----
var vfClientIPs = []string{"203.0.113.77", "2001:db8::77", "127.0.0.77", "10.77.0.7", "fe80::77"}
var vfClientPorts = []int{54321, 54322, 54323, 54324, 54325}
var vfClientLocal = []bool{false, false, true, false, true} // loopback, link-local: never looked up (XL)
var vfClientClass = []string{"globalv4", "globalv6", "loopback", "private", "linklocal"}
var vfListeners = []*net.TCPAddr{
	{IP: net.ParseIP("192.0.2.2"), Port: 9001},
	{IP: net.ParseIP("2001:db8:ffff::1"), Port: 9002},
}

type vfStep struct {
	A      string `json:"a"`
	C      int    `json:"c"`
	IP     int    `json:"ip"`
	Key    int    `json:"key"`
	D      int    `json:"d"`
	S      int    `json:"s"`
	F      int    `json:"f"` // form of the client address: 1 = 16-byte TCPAddr/UDPAddr, 2 = 4-byte, 3 = string-backed
	Locmap []int  `json:"locmap"`
}

type vfInput struct {
	Behaviours [][]vfStep `json:"behaviours"`
	DB         string     `json:"db"`    // fake | nil | alt (alternate per behaviour)
	Child      bool       `json:"child"` // scrape through Registry.Gather (a panic kills the process)
	UnitsMs    []int      `json:"units_ms"` // length of one model clock unit, per behaviour (round robin); default 1000
}

// ---- fake location database: answers per client IP as the behaviour's locmap says ----
type vfDB struct {
	mu    sync.Mutex
	ans   map[string]ipinfo.IPInfo
	fail  map[string]bool // clients for which the database ERRORS (e.g. an IPv6 client against an IPv4-only MMDB)
	calls []string
}

func (d *vfDB) GetIPInfo(ip net.IP) (ipinfo.IPInfo, error) {
	d.mu.Lock()
	defer d.mu.Unlock()
	d.calls = append(d.calls, ip.String())
	if d.fail[ip.String()] {
		return ipinfo.IPInfo{}, errors.New("scripted database failure")
	}
	return d.ans[ip.String()], nil
}

// clients (indices into vfClientIPs) whose lookups fail when a behaviour runs with the erroring database: the global
// IPv6 client and the private IPv4 client (both are looked up: Go-global addresses)
var vfFailing = map[int]bool{2: true, 4: true}

func vfLocTuple(x int) ipinfo.IPInfo {
	cc := string([]byte{byte('A' + x), byte('A' + x)})
	return ipinfo.IPInfo{CountryCode: ipinfo.CountryCode(cc), ASN: ipinfo.ASN{Number: 64500 + x, Organization: fmt.Sprintf("Org-%d", x)}}
}

// ---- the stub clock ----
type vfScrape struct {
	id      int
	arrived chan struct{}
	release chan struct{}
	done    chan string // "" or panic text
	fams    map[string][]*dto.Metric
}

type vfClock struct {
	mu      sync.Mutex
	t       int64         // model clock (units)
	unit    time.Duration // length of one unit on the code side (deliberately not always a whole number of seconds)
	pending *vfScrape
}

var vfBase = time.Unix(1700000000, 0)

func (k *vfClock) now() time.Time {
	k.mu.Lock()
	sc := k.pending
	k.pending = nil
	t := k.t
	unit := k.unit
	k.mu.Unlock()
	if unit == 0 {
		unit = time.Second
	}
	if sc != nil {
		// this is the scrape's clock read: park it (CollectBegin), continue when the model says so
		sc.arrived <- struct{}{}
		<-sc.release
	}
	return vfBase.Add(time.Duration(t) * unit)
}

func (k *vfClock) tick(d int) {
	k.mu.Lock()
	k.t += int64(d)
	k.mu.Unlock()
}

var vfDescName = regexp.MustCompile(`fqName: "([^"]+)"`)

// collect runs the collector's Collect in the calling goroutine (so that a panic can be recovered) and groups what it
// sent by metric name - what Registry.Gather does, minus the goroutines.
func vfCollect(c prometheus.Collector) (fams map[string][]*dto.Metric, panicked string) {
	ch := make(chan prometheus.Metric, 1<<14)
	func() {
		defer func() {
			if r := recover(); r != nil {
				panicked = fmt.Sprint(r)
			}
		}()
		c.Collect(ch)
	}()
	close(ch)
	fams = map[string][]*dto.Metric{}
	if panicked != "" {
		return
	}
	for m := range ch {
		var d dto.Metric
		if err := m.Write(&d); err != nil {
			continue
		}
		name := ""
		if mm := vfDescName.FindStringSubmatch(m.Desc().String()); mm != nil {
			name = mm[1]
		}
		fams[name] = append(fams[name], &d)
	}
	return
}

func vfLabels(m *dto.Metric) map[string]string {
	out := map[string]string{}
	for _, lp := range m.GetLabel() {
		out[lp.GetName()] = lp.GetValue()
	}
	return out
}

// tunnel-time values of a scrape
func vfTunnel(fams map[string][]*dto.Metric) (keyv map[string]float64, locv []map[string]any) {
	keyv = map[string]float64{}
	for _, m := range fams["tunnel_time_seconds"] {
		keyv[vfLabels(m)["access_key"]] += m.GetCounter().GetValue()
	}
	locv = []map[string]any{}
	for _, m := range fams["tunnel_time_seconds_per_location"] {
		l := vfLabels(m)
		locv = append(locv, map[string]any{"l": []string{l["location"], l["asn"], l["asorg"]}, "v": m.GetCounter().GetValue()})
	}
	sort.Slice(locv, func(i, j int) bool { return fmt.Sprint(locv[i]["l"]) < fmt.Sprint(locv[j]["l"]) })
	return
}

func vfFamsFromGather(mfs []*dto.MetricFamily) map[string][]*dto.Metric {
	fams := map[string][]*dto.Metric{}
	for _, mf := range mfs {
		fams[mf.GetName()] = mf.GetMetric()
	}
	return fams
}

type vfTCPConn struct {
	net.Conn
	local, remote net.Addr
}

func (c *vfTCPConn) LocalAddr() net.Addr  { return c.local }
func (c *vfTCPConn) RemoteAddr() net.Addr { return c.remote }

type vfOut struct {
	w *bufio.Writer
}

func (o *vfOut) emit(ev map[string]any) {
	b, err := json.Marshal(ev)
	if err != nil {
		panic(err)
	}
	o.w.Write(b)
	o.w.WriteByte('\n')
}

// vfProbeMode decides whether Collect reads the clock before taking the lock ("asis"), under it ("underlock"),
// or not through `now` at all ("noclock").
func vfProbeMode(k *vfClock) string {
	m, _ := NewServiceMetrics(nil)
	m.AddUDPNatEntry(&net.UDPAddr{IP: net.ParseIP(vfClientIPs[0]), Port: vfClientPorts[0]}, "probe-0")
	sc := &vfScrape{arrived: make(chan struct{}), release: make(chan struct{}), done: make(chan string, 1)}
	k.mu.Lock()
	k.pending = sc
	k.mu.Unlock()
	go func() {
		_, p := vfCollect(m)
		sc.done <- p
	}()
	select {
	case <-sc.arrived:
	case <-sc.done:
		k.mu.Lock()
		k.pending = nil
		k.mu.Unlock()
		return "noclock"
	}
	started := make(chan struct{})
	go func() {
		m.AddUDPNatEntry(&net.UDPAddr{IP: net.ParseIP(vfClientIPs[1]), Port: vfClientPorts[1]}, "probe-1")
		close(started)
	}()
	mode := "asis"
	select {
	case <-started:
	case <-time.After(500 * time.Millisecond):
		// not finished: the lock is held across the clock read.  Look again for a while before deciding, so that a
		// descheduled test process cannot turn "asis" into "underlock" (both select cases ready at once).
		mode = "underlock"
		for i := 0; i < 50 && mode == "underlock"; i++ {
			select {
			case <-started:
				mode = "asis"
			default:
				time.Sleep(10 * time.Millisecond)
			}
		}
	}
	close(sc.release)
	<-sc.done
	<-started
	return mode
}

type vfRun struct {
	t      *testing.T
	k      *vfClock
	out    *vfOut
	mode   string
	child  bool
	m      *serviceMetrics
	reg    *prometheus.Registry
	tcp    map[int]service.TCPConnMetrics
	udp    map[int]service.UDPConnMetrics
	sc     map[int]*vfScrape
	wedged bool
	nstep  int
}

func (r *vfRun) scrapeBody() (map[string][]*dto.Metric, string) {
	if r.child {
		mfs, err := r.reg.Gather() // a panic in a collector goroutine cannot be recovered: the process dies
		if err != nil {
			return nil, "gather error: " + err.Error()
		}
		return vfFamsFromGather(mfs), ""
	}
	return vfCollect(r.m)
}

func (r *vfRun) emitEnd(s int, fams map[string][]*dto.Metric, p string) {
	if p != "" {
		r.wedged = true // the collector's mutex is left locked by the panic
		r.out.emit(map[string]any{"ev": "CollectEnd", "s": s, "panic": true, "msg": p})
		return
	}
	keyv, locv := vfTunnel(fams)
	r.out.emit(map[string]any{"ev": "CollectEnd", "s": s, "panic": false, "keyv": keyv, "locv": locv})
}

// a complete scrape with nothing inside it
func (r *vfRun) scrapeAtomic(s int) {
	r.out.emit(map[string]any{"ev": "CollectBegin", "s": s})
	fams, p := r.scrapeBody()
	r.emitEnd(s, fams, p)
}

func (r *vfRun) begin(s int) {
	if r.wedged {
		return
	}
	if r.mode != "asis" {
		return // the call of Collect touches nothing shared before the lock: executed as a whole at CollectLocked
	}
	sc := &vfScrape{id: s, arrived: make(chan struct{}), release: make(chan struct{}), done: make(chan string, 1)}
	r.k.mu.Lock()
	r.k.pending = sc
	r.k.mu.Unlock()
	go func() {
		fams, p := r.scrapeBody()
		sc.fams = fams
		sc.done <- p
	}()
	select {
	case <-sc.arrived:
		r.sc[s] = sc
		r.out.emit(map[string]any{"ev": "CollectBegin", "s": s})
	case p := <-sc.done: // Collect never read the stub clock
		r.k.mu.Lock()
		r.k.pending = nil
		r.k.mu.Unlock()
		r.out.emit(map[string]any{"ev": "CollectBegin", "s": s})
		r.emitEnd(s, sc.fams, p)
	}
}

func (r *vfRun) end(s int) {
	if r.wedged {
		return
	}
	if r.mode != "asis" {
		r.scrapeAtomic(s)
		return
	}
	sc := r.sc[s]
	if sc == nil {
		return
	}
	delete(r.sc, s)
	close(sc.release)
	p := <-sc.done
	r.emitEnd(s, sc.fams, p)
}

func vfTCPAddr(ip int) *net.TCPAddr {
	return &net.TCPAddr{IP: net.ParseIP(vfClientIPs[ip-1]), Port: vfClientPorts[ip-1]}
}
func vfUDPAddr(ip int) *net.UDPAddr {
	return &net.UDPAddr{IP: net.ParseIP(vfClientIPs[ip-1]), Port: vfClientPorts[ip-1]}
}
// access key IDs: key 2 of every key universe is the key whose configured ID is the EMPTY string (both config formats
// allow a key without `id:`); for the specifications it is just another key.
const vfEmptyKey = 2

func vfKey(k int) string {
	if k == vfEmptyKey {
		return ""
	}
	return fmt.Sprintf("k%d", k)
}

// vfPlainKey: key IDs of the harnesses that do not have the empty ID in their universe
func vfPlainKey(k int) string { return fmt.Sprintf("k%d", k) }

// string-backed address (what a wrapper around a connection may return): only String() tells the client
type vfStrAddr struct{ network, s string }

func (a vfStrAddr) Network() string { return a.network }
func (a vfStrAddr) String() string  { return a.s }

// vfAddrF returns the address of client `ip` in one of the representations a real server sees for ONE client:
// 1 = *net.TCPAddr / *net.UDPAddr with the 16-byte IP (IPv4 clients: the IPv4-mapped form a dual-stack [::]:port
// socket reports), 2 = the same with the 4-byte IP (what an IPv4 socket reports), 3 = string-backed net.Addr.
func vfAddrF(ip int, f int, udp bool) net.Addr {
	p := net.ParseIP(vfClientIPs[ip-1])
	port := vfClientPorts[ip-1]
	switch f {
	case 2:
		if v4 := p.To4(); v4 != nil {
			p = v4
		}
	case 3:
		nw := "tcp"
		if udp {
			nw = "udp"
		}
		return vfStrAddr{nw, net.JoinHostPort(p.String(), fmt.Sprint(port))}
	default:
		p = p.To16()
	}
	if udp {
		return &net.UDPAddr{IP: p, Port: port}
	}
	return &net.TCPAddr{IP: p, Port: port}
}

func (r *vfRun) step(st vfStep) {
	r.nstep++
	n := int64(r.nstep%7 + 1)
	switch st.A {
	case "Open":
		l := vfListeners[st.C%len(vfListeners)]
		r.tcp[st.C] = r.m.AddOpenTCPConnection(&vfTCPConn{local: l, remote: vfAddrF(st.IP, st.F, false)})
		r.out.emit(map[string]any{"ev": "Open", "c": st.C, "ip": st.IP, "f": st.F})
	case "Auth":
		r.m.AddCipherSearch("tcp", true, time.Duration(n)*time.Millisecond)
		r.tcp[st.C].AddAuthenticated(vfKey(st.Key))
		r.out.emit(map[string]any{"ev": "Auth", "c": st.C, "key": st.Key})
	case "Close":
		status := "OK"
		if r.nstep%3 == 0 {
			status = "ERR_RELAY_CLIENT"
		}
		r.tcp[st.C].AddClosed(status, metrics.ProxyMetrics{ClientProxy: 10 * n, ProxyTarget: 9 * n, TargetProxy: 20 * n, ProxyClient: 21 * n},
			time.Duration(n)*time.Second)
		r.out.emit(map[string]any{"ev": "Close", "c": st.C})
	case "Probe":
		r.m.AddCipherSearch("tcp", false, time.Duration(n)*time.Millisecond)
		r.tcp[st.C].AddProbe("ERR_CIPHER", []string{"eof", "timeout", "other"}[r.nstep%3], 50+n)
		r.out.emit(map[string]any{"ev": "Probe", "c": st.C})
	case "NatAdd":
		r.m.AddCipherSearch("udp", true, time.Duration(n)*time.Millisecond)
		r.udp[st.C] = r.m.AddUDPNatEntry(vfAddrF(st.IP, st.F, true), vfKey(st.Key))
		r.out.emit(map[string]any{"ev": "NatAdd", "c": st.C, "ip": st.IP, "key": st.Key, "f": st.F})
	case "Packet":
		if r.nstep%2 == 0 {
			r.udp[st.C].AddPacketFromClient("OK", 30+n, 20+n)
		} else {
			r.udp[st.C].AddPacketFromTarget("OK", 40+n, 50+n)
		}
		r.out.emit(map[string]any{"ev": "Packet", "c": st.C})
	case "NatRemove":
		r.udp[st.C].RemoveNatEntry()
		r.out.emit(map[string]any{"ev": "NatRemove", "c": st.C})
	case "RemoveAgain":
		r.udp[st.C].RemoveNatEntry()
		r.out.emit(map[string]any{"ev": "RemoveAgain", "c": st.C})
	case "Tick":
		r.k.tick(st.D)
		r.out.emit(map[string]any{"ev": "Tick", "d": st.D})
	case "CollectBegin":
		r.begin(st.S)
	case "CollectLocked":
		r.end(st.S)
	default:
		r.t.Fatalf("HARNESS-ERROR: unknown step %q", st.A)
	}
}

func vfExpLabel(ip int, db bool, dbErr bool, locmap []int) []string {
	if !db {
		return []string{"", "", ""}
	}
	if vfClientLocal[ip-1] {
		return []string{"XL", "", ""}
	}
	if dbErr && vfFailing[ip] {
		return []string{"XD", "", ""} // C20 table: database error for a global address
	}
	li := vfLocTuple(locmap[ip-1])
	return []string{li.CountryCode.String(), fmt.Sprint(li.ASN.Number), li.ASN.Organization}
}

func (r *vfRun) behaviour(idx int, beh []vfStep, useDB bool, dbErr bool, unitMs int) {
	if len(beh) == 0 || beh[0].A != "Init" {
		r.t.Fatalf("HARNESS-ERROR: behaviour %d does not start with Init", idx)
	}
	locmap := beh[0].Locmap
	var db *vfDB
	var ip2info ipinfo.IPInfoMap
	if useDB {
		db = &vfDB{ans: map[string]ipinfo.IPInfo{}, fail: map[string]bool{}}
		for i := range locmap {
			db.ans[net.ParseIP(vfClientIPs[i]).String()] = vfLocTuple(locmap[i])
			if dbErr && vfFailing[i+1] {
				db.fail[net.ParseIP(vfClientIPs[i]).String()] = true
			}
		}
		ip2info = db
	}
	r.k.mu.Lock()
	r.k.t = 0
	r.k.unit = time.Duration(unitMs) * time.Millisecond
	r.k.pending = nil
	r.k.mu.Unlock()
	m, err := NewServiceMetrics(ip2info)
	if err != nil {
		r.t.Fatalf("HARNESS-ERROR: NewServiceMetrics: %v", err)
	}
	r.m = m
	r.reg = prometheus.NewPedanticRegistry()
	r.reg.MustRegister(m)
	r.tcp, r.udp, r.sc = map[int]service.TCPConnMetrics{}, map[int]service.UDPConnMetrics{}, map[int]*vfScrape{}
	r.wedged = false
	labels := [][]string{}
	addrs := []string{}
	for i := range locmap {
		labels = append(labels, vfExpLabel(i+1, useDB, dbErr, locmap))
		addrs = append(addrs, vfTCPAddr(i+1).String())
	}
	lst := []string{}
	for _, l := range vfListeners {
		lst = append(lst, l.String())
	}
	r.out.emit(map[string]any{"ev": "Reset", "beh": idx, "db": useDB, "dberr": useDB && dbErr, "labels": labels, "clients": addrs, "listeners": lst,
		"mode": r.mode, "unit_ms": unitMs})
	maxS := 0
	for _, st := range beh[1:] {
		if st.S > maxS {
			maxS = st.S
		}
		r.step(st)
		if r.wedged {
			break
		}
	}
	if r.wedged {
		// scrapes still parked in their clock read would block on the wedged mutex for ever: let them go, do not wait
		for _, sc := range r.sc {
			close(sc.release)
		}
		return
	}
	// scrapes the behaviour left open
	ids := []int{}
	for s := range r.sc {
		ids = append(ids, s)
	}
	sort.Ints(ids)
	for _, s := range ids {
		r.end(s)
		if r.wedged {
			return
		}
	}
	if r.child {
		return
	}
	// final quiescent scrape through the registry (the path of the /metrics handler) + text exposition (C20)
	final := maxS + 1
	r.out.emit(map[string]any{"ev": "CollectBegin", "s": final})
	mfs, gerr := r.reg.Gather()
	if gerr != nil {
		r.t.Fatalf("HARNESS-ERROR: gather: %v", gerr)
	}
	r.emitEnd(final, vfFamsFromGather(mfs), "")
	var buf bytes.Buffer
	series := []map[string]any{}
	for _, mf := range mfs {
		expfmt.MetricFamilyToText(&buf, mf)
		for _, mm := range mf.GetMetric() {
			series = append(series, map[string]any{"name": mf.GetName(), "labels": vfLabels(mm)})
		}
	}
	dbcalls := []string{}
	if db != nil {
		dbcalls = db.calls
	}
	r.out.emit(map[string]any{"ev": "Expo", "beh": idx, "text": buf.String(), "series": series, "dbcalls": dbcalls})
}

func TestVerifTunnelTime(t *testing.T) {
	inPath, outPath := os.Getenv("VERIF_TT_IN"), os.Getenv("VERIF_TT_OUT")
	if inPath == "" || outPath == "" {
		t.Skip("VERIF_TT_IN / VERIF_TT_OUT not set")
	}
	raw, err := os.ReadFile(inPath)
	if err != nil {
		t.Fatalf("HARNESS-ERROR: %v", err)
	}
	var in vfInput
	if err := json.Unmarshal(raw, &in); err != nil {
		t.Fatalf("HARNESS-ERROR: %v", err)
	}
	f, err := os.Create(outPath)
	if err != nil {
		t.Fatalf("HARNESS-ERROR: %v", err)
	}
	defer f.Close()
	out := &vfOut{w: bufio.NewWriterSize(f, 1<<20)}
	defer out.w.Flush()

	k := &vfClock{}
	saved := now
	now = k.now
	defer func() { now = saved }()

	mode := vfProbeMode(k)
	out.emit(map[string]any{"ev": "Mode", "mode": mode})
	r := &vfRun{t: t, k: k, out: out, mode: mode, child: in.Child}
	for i, beh := range in.Behaviours {
		// alt: database with answers / no database / database that errors for some global clients, round robin
		useDB := in.DB == "fake" || in.DB == "fakeerr" || (in.DB == "alt" && i%3 != 1)
		dbErr := in.DB == "fakeerr" || (in.DB == "alt" && i%3 == 2)
		unitMs := 1000
		if len(in.UnitsMs) > 0 {
			unitMs = in.UnitsMs[i%len(in.UnitsMs)]
		}
		r.behaviour(i, beh, useDB, dbErr, unitMs)
		if in.Child {
			out.w.Flush()
		}
	}
	out.emit(map[string]any{"ev": "Done", "behaviours": len(in.Behaviours)})
}
