// Concurrent driver for the metrics collectors (C19, "metrics collectors (traffic against scrapes)").
// Added to package prometheus with `go test -overlay`, built with -race by lib/checks/c19_metrics.py.
//
// G worker goroutines perform random open/auth/close, probe, nat add/packets/remove on the REAL collectors of
// NewServiceMetrics while S scraper goroutines call Registry.Gather concurrently.  The stub clock is constant inside a
// phase and advances only at the barrier between phases, where one quiescent scrape is recorded.  Because every
// operation of a phase happens at the same instant of the logical clock, every serialisation that respects each
// worker's program order has the same ideal account; the recorded trace (workers one after the other, then the
// quiescent scrape, then the tick) is validated by TLC (TunnelTimeTrace): the totals after quiescence must equal the
// ideal accounting whatever the real interleaving was.  The race detector watches the whole run.
//
// VERIF_MC_OUT: NDJSON trace; VERIF_MC_CFG: {"g":8,"s":3,"phases":6,"ops":30,"seed":1}
package prometheus

import (
	"bufio"
	"context"
	"encoding/json"
	"log/slog"
	"math/rand"
	"net"
	"os"
	"sync"
	"sync/atomic"
	"testing"
	"time"

	"github.com/Jigsaw-Code/outline-ss-server/ipinfo"
	"github.com/Jigsaw-Code/outline-ss-server/service"
	"github.com/Jigsaw-Code/outline-ss-server/service/metrics"
	"github.com/prometheus/client_golang/prometheus"
)

type vmCfg struct {
	G      int   `json:"g"`
	S      int   `json:"s"`
	Phases int   `json:"phases"`
	Ops    int   `json:"ops"`
	Seed   int64 `json:"seed"`
	NK     int   `json:"nk"`
	UnitMs int   `json:"unit_ms"`
}

type vmDB struct {
	slow atomic.Bool // burst rounds: a lookup takes a millisecond, as a real database walk may
}

func (d *vmDB) GetIPInfo(ip net.IP) (ipinfo.IPInfo, error) {
	if d.slow.Load() {
		time.Sleep(time.Millisecond)
	}
	// location by address family / last byte: a pure function, safe for concurrent use
	x := int(ip[len(ip)-1]) % 3
	return vfLocTuple(x + 1), nil
}

// log sink of the run: discards everything; while `slow` is set it accepts debug records and takes its time over the
// "Reporting tunnel time." record that reportTunnelTime emits between reading a client's start time and resetting it
// (a slow log sink is part of the environment, not of the code under test)
type vmLog struct{ slow *atomic.Bool }

func (h vmLog) Enabled(_ context.Context, l slog.Level) bool { return l >= slog.LevelWarn || h.slow.Load() }
func (h vmLog) Handle(_ context.Context, r slog.Record) error {
	if h.slow.Load() && r.Message == "Reporting tunnel time." {
		time.Sleep(50 * time.Microsecond)
	}
	return nil
}
func (h vmLog) WithAttrs([]slog.Attr) slog.Handler { return h }
func (h vmLog) WithGroup(string) slog.Handler      { return h }

type vmConn struct {
	id    int
	ip    int
	tcp   service.TCPConnMetrics
	udp   service.UDPConnMetrics
	authd bool
}

func TestVerifMetricsConcurrent(t *testing.T) {
	outPath, cfgPath := os.Getenv("VERIF_MC_OUT"), os.Getenv("VERIF_MC_CFG")
	if outPath == "" || cfgPath == "" {
		t.Skip("VERIF_MC_OUT / VERIF_MC_CFG not set")
	}
	raw, err := os.ReadFile(cfgPath)
	if err != nil {
		t.Fatalf("HARNESS-ERROR: %v", err)
	}
	var cfg vmCfg
	if err := json.Unmarshal(raw, &cfg); err != nil {
		t.Fatalf("HARNESS-ERROR: %v", err)
	}
	if cfg.NK == 0 {
		cfg.NK = 4
	}
	if cfg.UnitMs == 0 {
		cfg.UnitMs = 700
	}
	unit := time.Duration(cfg.UnitMs) * time.Millisecond
	f, err := os.Create(outPath)
	if err != nil {
		t.Fatalf("HARNESS-ERROR: %v", err)
	}
	defer f.Close()
	w := bufio.NewWriterSize(f, 1<<20)
	defer w.Flush()
	emit := func(ev map[string]any) {
		b, _ := json.Marshal(ev)
		w.Write(b)
		w.WriteByte('\n')
	}

	var clock atomic.Int64
	saved := now
	now = func() time.Time { return vfBase.Add(time.Duration(clock.Load()) * unit) }
	defer func() { now = saved }()

	var slowLog atomic.Bool
	savedLog := slog.Default()
	slog.SetDefault(slog.New(vmLog{slow: &slowLog}))
	defer slog.SetDefault(savedLog)

	db := &vmDB{}
	m, err := NewServiceMetrics(db)
	if err != nil {
		t.Fatalf("HARNESS-ERROR: %v", err)
	}
	reg := prometheus.NewPedanticRegistry()
	reg.MustRegister(m)

	ni := len(vfClientIPs)
	labels := [][]string{}
	addrs := []string{}
	for i := 1; i <= ni; i++ {
		var lb []string
		if vfClientLocal[i-1] {
			lb = []string{"XL", "", ""}
		} else {
			ip := net.ParseIP(vfClientIPs[i-1])
			li, _ := db.GetIPInfo(ip)
			lb = []string{li.CountryCode.String(), asnLabel(li.ASN.Number), li.ASN.Organization}
		}
		labels = append(labels, lb)
		addrs = append(addrs, vfTCPAddr(i).String())
	}
	emit(map[string]any{"ev": "Mode", "mode": "concurrent"})
	emit(map[string]any{"ev": "Reset", "beh": 0, "db": true, "labels": labels, "clients": addrs, "listeners": []string{}, "mode": "concurrent", "unit_ms": cfg.UnitMs})

	var nextID atomic.Int64
	open := make([][]*vmConn, cfg.G) // per worker: connections it owns
	var gathers atomic.Int64
	scrape := func() {
		emit(map[string]any{"ev": "CollectBegin", "s": 1})
		mfs, gerr := reg.Gather()
		if gerr != nil {
			t.Fatalf("HARNESS-ERROR: gather: %v", gerr)
		}
		keyv, locv := vfTunnel(vfFamsFromGather(mfs))
		emit(map[string]any{"ev": "CollectEnd", "s": 1, "panic": false, "keyv": keyv, "locv": locv})
	}
	tick := func(d int) {
		clock.Add(int64(d))
		emit(map[string]any{"ev": "Tick", "d": d})
	}
	// everybody runs f(g) at once (released together); the logs are emitted worker by worker afterwards
	together := func(n int, f func(g int, lg func(map[string]any))) {
		logs := make([][]map[string]any, n)
		start := make(chan struct{})
		var wg sync.WaitGroup
		for g := 0; g < n; g++ {
			wg.Add(1)
			go func(g int) {
				defer wg.Done()
				<-start
				f(g, func(ev map[string]any) { logs[g] = append(logs[g], ev) })
			}(g)
		}
		close(start)
		wg.Wait()
		for g := 0; g < n; g++ {
			for _, ev := range logs[g] {
				emit(ev)
			}
		}
	}
	bursts := 0
	for ph := 0; ph < cfg.Phases; ph++ {
		// ---- burst round: all workers open the FIRST tunnels of one idle (ip, key) at the same instant (UDP associations
		// and authenticated TCP connections alike), while a lookup takes a millisecond.  Half of them close after one tick,
		// the rest after another: the totals at each quiescent scrape must equal the ideal account.
		for rep := 0; rep < 3; rep++ {
			bip, bkey := (ph+rep)%ni+1, cfg.NK+1
			bc := make([]*vmConn, cfg.G)
			db.slow.Store(true)
			together(cfg.G, func(g int, lg func(map[string]any)) {
				c := &vmConn{id: int(nextID.Add(1)), ip: bip}
				if g%2 == 0 {
					c.udp = m.AddUDPNatEntry(vfAddrF(bip, g%3+1, true), vfPlainKey(bkey))
					lg(map[string]any{"ev": "NatAdd", "c": c.id, "ip": bip, "key": bkey, "f": g%3 + 1})
				} else {
					c.tcp = m.AddOpenTCPConnection(&vfTCPConn{local: vfListeners[g%2], remote: vfAddrF(bip, g%3+1, false)})
					lg(map[string]any{"ev": "Open", "c": c.id, "ip": bip, "f": g%3 + 1})
					c.tcp.AddAuthenticated(vfPlainKey(bkey))
					lg(map[string]any{"ev": "Auth", "c": c.id, "key": bkey})
				}
				bc[g] = c
			})
			db.slow.Store(false)
			bursts++
			scrape()
			tick(1 + rep%2)
			// several scrapes AT ONCE while the clients' periods are unreported (and the log sink is slow): however many
			// scrapers run simultaneously, the interval must be added exactly once
			slowLog.Store(true)
			together(4, func(g int, lg func(map[string]any)) {
				if _, err := reg.Gather(); err != nil {
					t.Errorf("HARNESS-ERROR: gather: %v", err)
				}
				gathers.Add(1)
			})
			slowLog.Store(false)
			closeOne := func(g int, lg func(map[string]any)) {
				c := bc[g]
				if c.udp != nil {
					c.udp.RemoveNatEntry()
					lg(map[string]any{"ev": "NatRemove", "c": c.id})
				} else {
					c.tcp.AddClosed("OK", metrics.ProxyMetrics{ClientProxy: 1, ProxyTarget: 1, TargetProxy: 2, ProxyClient: 2}, time.Second)
					lg(map[string]any{"ev": "Close", "c": c.id})
				}
			}
			half := cfg.G / 2
			together(half, closeOne)
			scrape()
			tick(2)
			scrape()
			together(cfg.G-half, func(g int, lg func(map[string]any)) { closeOne(g+half, lg) })
			scrape()
		}
		logs := make([][]map[string]any, cfg.G)
		var wg sync.WaitGroup
		stop := make(chan struct{})
		var swg sync.WaitGroup
		for s := 0; s < cfg.S; s++ {
			swg.Add(1)
			go func() {
				defer swg.Done()
				for {
					select {
					case <-stop:
						return
					default:
					}
					if _, err := reg.Gather(); err != nil {
						t.Errorf("HARNESS-ERROR: gather: %v", err)
						return
					}
					gathers.Add(1)
				}
			}()
		}
		for g := 0; g < cfg.G; g++ {
			wg.Add(1)
			go func(g int) {
				defer wg.Done()
				rng := rand.New(rand.NewSource(cfg.Seed*1000003 + int64(ph)*1009 + int64(g)))
				lg := func(ev map[string]any) { logs[g] = append(logs[g], ev) }
				last := ph == cfg.Phases-1
				for i := 0; i < cfg.Ops || (last && len(open[g]) > 0); i++ {
					n := int64(rng.Intn(7) + 1)
					mine := open[g]
					r := rng.Intn(10)
					if last {
						r = 9 // drain: the last phase only closes
						if len(mine) == 0 {
							break
						}
					}
					switch {
					case r < 2 || (len(mine) == 0 && !last): // new TCP connection
						ip := rng.Intn(ni) + 1
						c := &vmConn{id: int(nextID.Add(1)), ip: ip}
						f := rng.Intn(3) + 1
						c.tcp = m.AddOpenTCPConnection(&vfTCPConn{local: vfListeners[g%2], remote: vfAddrF(ip, f, false)})
						open[g] = append(open[g], c)
						lg(map[string]any{"ev": "Open", "c": c.id, "ip": ip, "f": f})
					case r < 4: // new UDP association
						ip, k := rng.Intn(ni)+1, rng.Intn(cfg.NK)+1
						c := &vmConn{id: int(nextID.Add(1)), ip: ip}
						m.AddCipherSearch("udp", true, time.Duration(n)*time.Millisecond)
						f := rng.Intn(3) + 1
						c.udp = m.AddUDPNatEntry(vfAddrF(ip, f, true), vfPlainKey(k))
						open[g] = append(open[g], c)
						lg(map[string]any{"ev": "NatAdd", "c": c.id, "ip": ip, "key": k, "f": f})
					default:
						j := rng.Intn(len(mine))
						c := mine[j]
						switch {
						case c.udp != nil && r < 7:
							if r%2 == 0 {
								c.udp.AddPacketFromClient("OK", 30+n, 20+n)
							} else {
								c.udp.AddPacketFromTarget("OK", 40+n, 50+n)
							}
							lg(map[string]any{"ev": "Packet", "c": c.id})
						case c.udp != nil:
							c.udp.RemoveNatEntry()
							open[g] = append(mine[:j:j], mine[j+1:]...)
							lg(map[string]any{"ev": "NatRemove", "c": c.id})
						case !c.authd && r < 7:
							k := rng.Intn(cfg.NK) + 1
							m.AddCipherSearch("tcp", true, time.Duration(n)*time.Millisecond)
							c.tcp.AddAuthenticated(vfPlainKey(k))
							c.authd = true
							lg(map[string]any{"ev": "Auth", "c": c.id, "key": k})
						case !c.authd && r < 8:
							m.AddCipherSearch("tcp", false, time.Duration(n)*time.Millisecond)
							c.tcp.AddProbe("ERR_CIPHER", "eof", 50+n)
							lg(map[string]any{"ev": "Probe", "c": c.id})
						default:
							c.tcp.AddClosed("OK", metrics.ProxyMetrics{ClientProxy: n, ProxyTarget: n, TargetProxy: 2 * n, ProxyClient: 2 * n}, time.Duration(n)*time.Second)
							open[g] = append(mine[:j:j], mine[j+1:]...)
							lg(map[string]any{"ev": "Close", "c": c.id})
						}
					}
				}
			}(g)
		}
		wg.Wait()
		close(stop)
		swg.Wait()
		// quiescence: serialise the phase (worker by worker), one recorded scrape, then the clock advances
		for g := 0; g < cfg.G; g++ {
			for _, ev := range logs[g] {
				emit(ev)
			}
		}
		emit(map[string]any{"ev": "CollectBegin", "s": 1})
		mfs, gerr := reg.Gather()
		if gerr != nil {
			t.Fatalf("HARNESS-ERROR: gather: %v", gerr)
		}
		keyv, locv := vfTunnel(vfFamsFromGather(mfs))
		emit(map[string]any{"ev": "CollectEnd", "s": 1, "panic": false, "keyv": keyv, "locv": locv})
		d := int(cfg.Seed+int64(ph))%3 + 1
		clock.Add(int64(d))
		emit(map[string]any{"ev": "Tick", "d": d})
	}
	emit(map[string]any{"ev": "CollectBegin", "s": 1})
	mfs, gerr := reg.Gather()
	if gerr != nil {
		t.Fatalf("HARNESS-ERROR: gather: %v", gerr)
	}
	keyv, locv := vfTunnel(vfFamsFromGather(mfs))
	emit(map[string]any{"ev": "CollectEnd", "s": 1, "panic": false, "keyv": keyv, "locv": locv})
	emit(map[string]any{"ev": "Done", "behaviours": 1, "gathers": gathers.Load(), "conns": nextID.Load(), "bursts": bursts})
}
