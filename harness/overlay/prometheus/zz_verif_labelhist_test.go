// In-package harness for spec/LocationLabelHist.tla (C20: "every client address maps to exactly one location label
// decided by its class alone ... XD on database errors, ZZ when the database has no country, else the answer").
// Added to package prometheus with `go test -overlay`; shares helpers with zz_verif_tunneltime_test.go.
//
// VERIF_LH_IN : {"behaviours":[[{"a":"Init","dbm":[..],"enabled":b},{"a":"Open","c":1,"ip":1},...]]}
// VERIF_LH_OUT: NDJSON.  After EVERY step of a TLC-generated history the private registry is gathered and, for each
// location-labelled metric family, the labels whose series grew or appeared in that step are recorded ("got"), together
// with the IPs the scripted database was asked for during the step.  The database is scripted PER CLIENT IP and its
// behaviour changes when the model says so (SetDb): error (odd clients: with partial country information), no country
// (odd: ASN only), country.  The same client IP is looked up many times in a history (several connections, the
// tunnel-time lookup of AddAuthenticated / AddUDPNatEntry, after closes and scrapes).  The harness never judges.
package prometheus

import (
	"bufio"
	"encoding/json"
	"errors"
	"fmt"
	"net"
	"os"
	"sort"
	"sync"
	"testing"
	"time"

	"github.com/Jigsaw-Code/outline-ss-server/ipinfo"
	"github.com/Jigsaw-Code/outline-ss-server/service"
	"github.com/Jigsaw-Code/outline-ss-server/service/metrics"
	"github.com/prometheus/client_golang/prometheus"
)

type vlStep struct {
	A       string   `json:"a"`
	C       int      `json:"c"`
	IP      int      `json:"ip"`
	Key     int      `json:"key"`
	M       string   `json:"m"`
	Dbm     []string `json:"dbm"`
	Enabled bool     `json:"enabled"`
}

type vlInput struct {
	Behaviours [][]vlStep `json:"behaviours"`
}

// scripted database: behaviour per client IP, changed by SetDb steps
type vlDB struct {
	mu    sync.Mutex
	mode  []string
	calls []int // client indices asked for since the last drain (0 = unknown IP)
}

func vlCountry(i int) string { return string([]byte{byte('P' + i), byte('P' + i)}) }

func (d *vlDB) GetIPInfo(ip net.IP) (ipinfo.IPInfo, error) {
	d.mu.Lock()
	defer d.mu.Unlock()
	idx := 0
	for i, s := range vfClientIPs {
		if net.ParseIP(s).Equal(ip) {
			idx = i + 1
		}
	}
	d.calls = append(d.calls, idx)
	if idx == 0 || idx > len(d.mode) {
		return ipinfo.IPInfo{CountryCode: "!!"}, nil
	}
	full := ipinfo.IPInfo{CountryCode: ipinfo.CountryCode(vlCountry(idx)), ASN: ipinfo.ASN{Number: 64600 + idx, Organization: fmt.Sprintf("Org-%d", idx)}}
	switch d.mode[idx-1] {
	case "hit":
		return full, nil
	case "nocountry":
		if idx%2 == 1 {
			return ipinfo.IPInfo{ASN: full.ASN}, nil
		}
		return ipinfo.IPInfo{}, nil
	default: // error
		if idx%2 == 1 {
			return full, errors.New("scripted database failure (partial answer)")
		}
		return ipinfo.IPInfo{}, errors.New("scripted database failure")
	}
}

var vlFamilies = map[string]string{
	"tcp_connections_opened":               "opened",
	"tcp_connections_closed":               "closed",
	"data_bytes_per_location":              "bytes",
	"udp_packets_from_client_per_location": "udp",
	"tunnel_time_seconds_per_location":     "tt",
}

// per family: location label -> (sum of values, number of series)
func vlSnapshot(reg *prometheus.Registry) (map[string]map[string][2]float64, error) {
	mfs, err := reg.Gather()
	if err != nil {
		return nil, err
	}
	out := map[string]map[string][2]float64{}
	for _, mf := range mfs {
		short, ok := vlFamilies[mf.GetName()]
		if !ok {
			continue
		}
		cur := map[string][2]float64{}
		for _, m := range mf.GetMetric() {
			loc := vfLabels(m)["location"]
			v := cur[loc]
			v[0] += m.GetCounter().GetValue()
			v[1]++
			cur[loc] = v
		}
		out[short] = cur
	}
	return out, nil
}

func TestVerifLabelHistory(t *testing.T) {
	inPath, outPath := os.Getenv("VERIF_LH_IN"), os.Getenv("VERIF_LH_OUT")
	if inPath == "" || outPath == "" {
		t.Skip("VERIF_LH_IN / VERIF_LH_OUT not set")
	}
	raw, err := os.ReadFile(inPath)
	if err != nil {
		t.Fatalf("HARNESS-ERROR: %v", err)
	}
	var in vlInput
	if err := json.Unmarshal(raw, &in); err != nil {
		t.Fatalf("HARNESS-ERROR: %v", err)
	}
	f, err := os.Create(outPath)
	if err != nil {
		t.Fatalf("HARNESS-ERROR: %v", err)
	}
	defer f.Close()
	w := bufio.NewWriterSize(f, 1<<20)
	defer w.Flush()
	emit := func(ev map[string]any) {
		b, _ := json.Marshal(ev)
		w.Write(b)
		w.WriteByte('\n')
	}
	k := &vfClock{}
	saved := now
	now = k.now
	defer func() { now = saved }()

	for bi, beh := range in.Behaviours {
		if len(beh) == 0 || beh[0].A != "Init" {
			t.Fatalf("HARNESS-ERROR: behaviour %d does not start with Init", bi)
		}
		k.mu.Lock()
		k.t = 0
		k.mu.Unlock()
		db := &vlDB{mode: append([]string(nil), beh[0].Dbm...)}
		var ip2info ipinfo.IPInfoMap
		if beh[0].Enabled {
			ip2info = db
		}
		m, err := NewServiceMetrics(ip2info)
		if err != nil {
			t.Fatalf("HARNESS-ERROR: %v", err)
		}
		reg := prometheus.NewPedanticRegistry()
		reg.MustRegister(m)
		ni := len(beh[0].Dbm)
		ccs := []string{}
		for i := 1; i <= ni; i++ {
			ccs = append(ccs, vlCountry(i))
		}
		emit(map[string]any{"ev": "Reset", "beh": bi, "enabled": beh[0].Enabled, "cls": vfClientClass[:ni], "cc": ccs, "clients": vfClientIPs[:ni]})
		tcp := map[int]service.TCPConnMetrics{}
		udp := map[int]service.UDPConnMetrics{}
		prev, err := vlSnapshot(reg)
		if err != nil {
			t.Fatalf("HARNESS-ERROR: gather: %v", err)
		}
		for si, st := range beh[1:] {
			n := int64(si%7 + 1)
			switch st.A {
			case "SetDb":
				db.mu.Lock()
				db.mode[st.IP-1] = st.M
				db.mu.Unlock()
			case "Open":
				tcp[st.C] = m.AddOpenTCPConnection(&vfTCPConn{local: vfListeners[st.C%2], remote: vfTCPAddr(st.IP)})
			case "Auth":
				tcp[st.C].AddAuthenticated(vfPlainKey(st.Key))
			case "Close":
				tcp[st.C].AddClosed("OK", metrics.ProxyMetrics{ClientProxy: 10 * n, ProxyTarget: 9 * n, TargetProxy: 20 * n, ProxyClient: 21 * n}, time.Duration(n)*time.Second)
			case "NatAdd":
				udp[st.C] = m.AddUDPNatEntry(vfUDPAddr(st.IP), vfPlainKey(st.Key))
			case "Packet":
				udp[st.C].AddPacketFromClient("OK", 30+n, 20+n)
				udp[st.C].AddPacketFromTarget("OK", 40+n, 50+n)
			case "NatRemove":
				udp[st.C].RemoveNatEntry()
			case "Tick":
				k.tick(1)
			default:
				t.Fatalf("HARNESS-ERROR: unknown step %q", st.A)
			}
			cur, err := vlSnapshot(reg)
			if err != nil {
				t.Fatalf("HARNESS-ERROR: gather: %v", err)
			}
			got := map[string][]string{}
			for _, short := range vlFamilies {
				labels := []string{}
				for loc, v := range cur[short] {
					p, had := prev[short][loc]
					if !had || v[0] > p[0] || v[1] > p[1] {
						labels = append(labels, loc)
					}
				}
				sort.Strings(labels)
				got[short] = labels
			}
			prev = cur
			db.mu.Lock()
			calls := db.calls
			db.calls = nil
			db.mu.Unlock()
			emit(map[string]any{"ev": "Step", "beh": bi, "i": si + 1, "a": st.A, "got": got, "dbcalls": calls})
		}
	}
	emit(map[string]any{"ev": "Done", "behaviours": len(in.Behaviours)})
}
