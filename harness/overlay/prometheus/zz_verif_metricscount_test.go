// In-package harness for spec/MetricsCount.tla: the per-connection reports of the REAL Prometheus collectors
// (C15 / C16 at collector level, C19 for concurrent use).  Added to package prometheus with `go test -overlay`; shares
// helpers with zz_verif_tunneltime_test.go.
//
// VERIF_MCNT_IN : {"mode":"seq"|"conc","behaviours":[[{"a":"Open","c":1},...]],"nk":3,"rep":1,"scrapers":2,"group":8}
// VERIF_MCNT_OUT: NDJSON trace of the calls made and of what Registry.Gather exported, judged by TLC (MetricsCountTrace).
//
//   seq  : every behaviour on a fresh NewServiceMetrics, step by step, a Gather at every Scrape step and at the end.
//   conc : `group` behaviours at a time run CONCURRENTLY (one goroutine each) on one fresh collector while `scrapers`
//          goroutines call Registry.Gather in a loop (datagram reports are repeated `rep` times each, so that scrapes
//          and removals overlap with reports many times); when all goroutines are done one quiescent Gather is
//          recorded.  Counter additions commute: the recorded serialisation (behaviour by behaviour) has the same
//          totals as the real interleaving, whatever it was.  Scrapes taken meanwhile are checked for monotonicity.
//
// TCP connections are reported through AddOpenTCPConnection / AddAuthenticated / AddProbe / AddClosed, UDP associations
// through AddUDPNatEntry / AddPacketFromClient / AddPacketFromTarget / RemoveNatEntry.  The harness never judges.
package prometheus

import (
	"bufio"
	"encoding/json"
	"fmt"
	"math"
	"net"
	"os"
	"sync"
	"sync/atomic"
	"testing"
	"time"

	"github.com/Jigsaw-Code/outline-ss-server/ipinfo"
	"github.com/Jigsaw-Code/outline-ss-server/service"
	"github.com/Jigsaw-Code/outline-ss-server/service/metrics"
	"github.com/prometheus/client_golang/prometheus"
	dto "github.com/prometheus/client_model/go"
)

type vcStep struct {
	A   string  `json:"a"`
	C   int     `json:"c"`
	Key int     `json:"key"`
	Loc int     `json:"loc"`
	B   int64   `json:"b"`
	St  int     `json:"st"`
	D   []int64 `json:"d"`
	N   int     `json:"n"`
	CP  int64   `json:"cp"`
	PT  int64   `json:"pt"`
	TP  int64   `json:"tp"`
	PC  int64   `json:"pc"`
}

type vcInput struct {
	Mode       string     `json:"mode"`
	Behaviours [][]vcStep `json:"behaviours"`
	NK         int        `json:"nk"`
	Rep        int        `json:"rep"`
	Scrapers   int        `json:"scrapers"`
	Group      int        `json:"group"`
}

var vcTCPStatus = []string{"OK", "ERR_CIPHER", "ERR_RELAY_CLIENT"}
var vcUDPStatus = []string{"OK", "ERR_CIPHER"}
var vcLocs = []string{"AA", "BB", "XL"} // location label of the client classes 1..3 (global v4, global v6, loopback)

// a client of location class `loc` for connection c: MANY different addresses (and, through the database below, many
// different AS numbers) per class
func vcClientIP(loc, c int) net.IP {
	switch loc {
	case 1:
		return net.IPv4(203, 0, byte(c/250%250), byte(c%250+1))
	case 2:
		return net.ParseIP(fmt.Sprintf("2001:db8:%x::77", c%60000+1))
	default:
		return net.IPv4(127, byte(c/60000%250), byte(c/250%250), byte(c%250+1))
	}
}

// location database: country by address family, AS number by address (hundreds of different non-zero numbers)
type vcDB struct{}

func (vcDB) GetIPInfo(ip net.IP) (ipinfo.IPInfo, error) {
	n := int(ip[len(ip)-1]) + 256*int(ip[len(ip)-2])
	if v4 := ip.To4(); v4 != nil {
		return ipinfo.IPInfo{CountryCode: "AA", ASN: ipinfo.ASN{Number: 64000 + n%900, Organization: "Org-A"}}, nil
	}
	n = int(ip[5]) + 256*int(ip[4])
	return ipinfo.IPInfo{CountryCode: "BB", ASN: ipinfo.ASN{Number: 4200000000 + n%900, Organization: "Org-B"}}, nil
}

var vcDirs = map[string]int{"c>p": 0, "p>t": 1, "p<t": 2, "c<p": 3}

func vcIdx(list []string, s string) int {
	for i, x := range list {
		if x == s {
			return i
		}
	}
	return -1
}

func vcKeyIdx(s string, nk int) int {
	if s == "" {
		return 0
	}
	var k int
	if _, err := fmt.Sscanf(s, "k%d", &k); err == nil && k >= 1 && k <= nk && s == vfKey(k) {
		return k
	}
	return -1
}

func vcInt(x float64) int64 { return int64(math.Round(x)) }

// what a Gather exported, in the integer form MetricsCountTrace reads
func vcObserve(mfs []*dto.MetricFamily, nk int) map[string]any {
	closed := make([][]int64, len(vcTCPStatus))
	for i := range closed {
		closed[i] = make([]int64, nk+1)
	}
	mk := func() [][]int64 {
		m := make([][]int64, nk+1)
		for i := range m {
			m[i] = make([]int64, 4)
		}
		return m
	}
	tbytes, ubytes := mk(), mk()
	nl := len(vcLocs)
	openedl, closedl := make([]int64, nl), make([]int64, nl)
	tlocb, ulocb, upktsl := make([][]int64, nl), make([][]int64, nl), make([][]int64, nl)
	for i := 0; i < nl; i++ {
		tlocb[i], ulocb[i], upktsl[i] = make([]int64, 4), make([]int64, 4), make([]int64, len(vcUDPStatus))
	}
	upkts := make([]int64, len(vcUDPStatus))
	durN := make([]int64, len(vcTCPStatus))
	var opened, probeN, probeB, natadd, natrem, other int64
	for _, mf := range mfs {
		for _, m := range mf.GetMetric() {
			l := vfLabels(m)
			switch mf.GetName() {
			case "tcp_connections_opened":
				opened += vcInt(m.GetCounter().GetValue())
				if x := vcIdx(vcLocs, l["location"]); x >= 0 {
					openedl[x] += vcInt(m.GetCounter().GetValue())
				} else {
					other += vcInt(m.GetCounter().GetValue())
				}
			case "tcp_connections_closed":
				s, k := vcIdx(vcTCPStatus, l["status"]), vcKeyIdx(l["access_key"], nk)
				x := vcIdx(vcLocs, l["location"])
				if s < 0 || k < 0 || x < 0 {
					other += vcInt(m.GetCounter().GetValue())
				} else {
					closed[s][k] += vcInt(m.GetCounter().GetValue())
					closedl[x] += vcInt(m.GetCounter().GetValue())
				}
			case "tcp_connection_duration_ms":
				if s := vcIdx(vcTCPStatus, l["status"]); s >= 0 {
					durN[s] += int64(m.GetHistogram().GetSampleCount())
				} else {
					other += int64(m.GetHistogram().GetSampleCount())
				}
			case "data_bytes":
				k := vcKeyIdx(l["access_key"], nk)
				d, okd := vcDirs[l["dir"]]
				v := vcInt(m.GetCounter().GetValue())
				switch {
				case k < 0 || !okd:
					other += v
				case l["proto"] == "tcp":
					tbytes[k][d] += v
				case l["proto"] == "udp":
					ubytes[k][d] += v
				default:
					other += v
				}
			case "data_bytes_per_location":
				d, okd := vcDirs[l["dir"]]
				x := vcIdx(vcLocs, l["location"])
				v := vcInt(m.GetCounter().GetValue())
				switch {
				case !okd || x < 0:
					other += v
				case l["proto"] == "tcp":
					tlocb[x][d] += v
				case l["proto"] == "udp":
					ulocb[x][d] += v
				default:
					other += v
				}
			case "tcp_probes":
				probeN += int64(m.GetHistogram().GetSampleCount())
				probeB += vcInt(m.GetHistogram().GetSampleSum())
			case "udp_nat_entries_added":
				natadd += vcInt(m.GetCounter().GetValue())
			case "udp_nat_entries_removed":
				natrem += vcInt(m.GetCounter().GetValue())
			case "udp_packets_from_client_per_location":
				if s, x := vcIdx(vcUDPStatus, l["status"]), vcIdx(vcLocs, l["location"]); s >= 0 && x >= 0 {
					upkts[s] += vcInt(m.GetCounter().GetValue())
					upktsl[x][s] += vcInt(m.GetCounter().GetValue())
				} else {
					other += vcInt(m.GetCounter().GetValue())
				}
			}
		}
	}
	return map[string]any{"opened": opened, "closed": closed, "durn": durN, "tbytes": tbytes, "proben": probeN,
		"probeb": probeB, "natadd": natadd, "natrem": natrem, "upkts": upkts, "ubytes": ubytes, "other": other,
		"openedl": openedl, "closedl": closedl, "tlocb": tlocb, "upktsl": upktsl, "ulocb": ulocb}
}

type vcRun struct {
	m   *serviceMetrics
	rep int
	mu  sync.Mutex
	tcp map[int]service.TCPConnMetrics
	udp map[int]service.UDPConnMetrics
}

func (r *vcRun) getTCP(c int) service.TCPConnMetrics {
	r.mu.Lock()
	defer r.mu.Unlock()
	return r.tcp[c]
}
func (r *vcRun) getUDP(c int) service.UDPConnMetrics {
	r.mu.Lock()
	defer r.mu.Unlock()
	return r.udp[c]
}

// performs one step (conn ids are offset by `off` so that behaviours running together do not collide) and returns the
// event to record; nil for Scrape.
func (r *vcRun) step(st vcStep, off int, who int) map[string]any {
	c := st.C + off
	switch st.A {
	case "Open":
		cm := r.m.AddOpenTCPConnection(&vfTCPConn{local: vfListeners[c%2], remote: &net.TCPAddr{IP: vcClientIP(st.Loc, c+who), Port: 40000 + c%20000}})
		r.mu.Lock()
		r.tcp[c] = cm
		r.mu.Unlock()
		return map[string]any{"ev": "Open", "c": c, "loc": st.Loc}
	case "Auth":
		r.getTCP(c).AddAuthenticated(vfKey(st.Key))
		return map[string]any{"ev": "Auth", "c": c, "key": st.Key}
	case "Probe":
		r.getTCP(c).AddProbe("ERR_CIPHER", []string{"eof", "timeout", "other"}[c%3], st.B)
		return map[string]any{"ev": "Probe", "c": c, "b": st.B}
	case "Close":
		r.getTCP(c).AddClosed(vcTCPStatus[st.St-1], metrics.ProxyMetrics{ClientProxy: st.D[0], ProxyTarget: st.D[1], TargetProxy: st.D[2], ProxyClient: st.D[3]},
			time.Duration(c%5+1)*time.Second)
		return map[string]any{"ev": "Close", "c": c, "st": st.St, "d": st.D}
	case "NatAdd":
		cm := r.m.AddUDPNatEntry(&net.UDPAddr{IP: vcClientIP(st.Loc, c+who), Port: 40000 + c%20000}, vfKey(st.Key))
		r.mu.Lock()
		r.udp[c] = cm
		r.mu.Unlock()
		return map[string]any{"ev": "NatAdd", "c": c, "key": st.Key, "loc": st.Loc}
	case "PktC":
		cm := r.getUDP(c)
		n := st.N * r.rep
		for i := 0; i < n; i++ {
			cm.AddPacketFromClient(vcUDPStatus[st.St-1], st.CP, st.PT)
		}
		return map[string]any{"ev": "PktC", "c": c, "st": st.St, "n": n, "cp": st.CP, "pt": st.PT}
	case "PktT":
		cm := r.getUDP(c)
		n := st.N * r.rep
		for i := 0; i < n; i++ {
			cm.AddPacketFromTarget("OK", st.TP, st.PC)
		}
		return map[string]any{"ev": "PktT", "c": c, "n": n, "tp": st.TP, "pc": st.PC}
	case "NatRemove":
		r.getUDP(c).RemoveNatEntry()
		return map[string]any{"ev": "NatRemove", "c": c}
	}
	return nil
}

func TestVerifMetricsCount(t *testing.T) {
	inPath, outPath := os.Getenv("VERIF_MCNT_IN"), os.Getenv("VERIF_MCNT_OUT")
	if inPath == "" || outPath == "" {
		t.Skip("VERIF_MCNT_IN / VERIF_MCNT_OUT not set")
	}
	raw, err := os.ReadFile(inPath)
	if err != nil {
		t.Fatalf("HARNESS-ERROR: %v", err)
	}
	var in vcInput
	if err := json.Unmarshal(raw, &in); err != nil {
		t.Fatalf("HARNESS-ERROR: %v", err)
	}
	if in.Rep <= 0 {
		in.Rep = 1
	}
	if in.Group <= 0 {
		in.Group = 8
	}
	f, err := os.Create(outPath)
	if err != nil {
		t.Fatalf("HARNESS-ERROR: %v", err)
	}
	defer f.Close()
	w := bufio.NewWriterSize(f, 1<<20)
	defer w.Flush()
	emit := func(ev map[string]any) {
		b, _ := json.Marshal(ev)
		w.Write(b)
		w.WriteByte('\n')
	}
	fresh := func(rep int) (*vcRun, *prometheus.Registry) {
		m, err := NewServiceMetrics(vcDB{})
		if err != nil {
			t.Fatalf("HARNESS-ERROR: %v", err)
		}
		reg := prometheus.NewPedanticRegistry()
		reg.MustRegister(m)
		return &vcRun{m: m, rep: rep, tcp: map[int]service.TCPConnMetrics{}, udp: map[int]service.UDPConnMetrics{}}, reg
	}
	scrape := func(reg *prometheus.Registry) map[string]any {
		mfs, err := reg.Gather()
		if err != nil {
			t.Fatalf("HARNESS-ERROR: gather: %v", err)
		}
		return vcObserve(mfs, in.NK)
	}

	if in.Mode == "seq" {
		for bi, beh := range in.Behaviours {
			r, reg := fresh(1)
			emit(map[string]any{"ev": "Reset", "beh": bi, "mode": "seq"})
			for _, st := range beh {
				switch st.A {
				case "Init":
				case "Scrape":
					emit(map[string]any{"ev": "Scrape", "obs": scrape(reg)})
				default:
					if ev := r.step(st, 0, bi); ev != nil {
						emit(ev)
					} else {
						t.Fatalf("HARNESS-ERROR: unknown step %q", st.A)
					}
				}
			}
			emit(map[string]any{"ev": "Scrape", "obs": scrape(reg)})
		}
		emit(map[string]any{"ev": "Done", "behaviours": len(in.Behaviours)})
		return
	}

	// ---- concurrent: groups of behaviours on one collector against concurrent scrapes ----
	var gathers atomic.Int64
	for g0 := 0; g0 < len(in.Behaviours); g0 += in.Group {
		grp := in.Behaviours[g0:min(g0+in.Group, len(in.Behaviours))]
		r, reg := fresh(in.Rep)
		logs := make([][]map[string]any, len(grp))
		stop := make(chan struct{})
		var swg, wg sync.WaitGroup
		var decreased atomic.Int64
		for s := 0; s < in.Scrapers; s++ {
			swg.Add(1)
			go func() {
				defer swg.Done()
				prev := map[string]float64{}
				for {
					select {
					case <-stop:
						return
					default:
					}
					mfs, err := reg.Gather()
					if err != nil {
						t.Errorf("HARNESS-ERROR: gather: %v", err)
						return
					}
					gathers.Add(1)
					for _, mf := range mfs {
						if mf.GetType() != dto.MetricType_COUNTER {
							continue
						}
						for _, m := range mf.GetMetric() {
							id := mf.GetName() + fmt.Sprint(vfLabels(m))
							v := m.GetCounter().GetValue()
							if v < prev[id] {
								decreased.Add(1)
							}
							prev[id] = v
						}
					}
				}
			}()
		}
		start := make(chan struct{})
		for i, beh := range grp {
			wg.Add(1)
			go func(i int, beh []vcStep) {
				defer wg.Done()
				<-start
				for _, st := range beh {
					if st.A == "Init" || st.A == "Scrape" {
						continue // the scrapers scrape all the time
					}
					if ev := r.step(st, i*1000, g0+i); ev != nil {
						logs[i] = append(logs[i], ev)
					}
				}
			}(i, beh)
		}
		close(start)
		wg.Wait()
		close(stop)
		swg.Wait()
		emit(map[string]any{"ev": "Reset", "beh": g0, "mode": "conc", "group": len(grp), "rep": in.Rep})
		for i := range grp {
			for _, ev := range logs[i] {
				emit(ev)
			}
		}
		if d := decreased.Load(); d > 0 {
			emit(map[string]any{"ev": "Decreased", "n": d})
		}
		emit(map[string]any{"ev": "Scrape", "obs": scrape(reg)})
	}
	emit(map[string]any{"ev": "Done", "behaviours": len(in.Behaviours), "gathers": gathers.Load()})
}
