// In-package harness for spec/LocationLabelRace.tla (C20/C17: a scrape that is concurrent with the FIRST tunnel of a
// client must see the client either not at all or under its final location label; the empty location is reserved for
// "lookup disabled").  Added to package prometheus with `go test -overlay`; shares helpers with
// zz_verif_tunneltime_test.go.
//
// VERIF_LR_IN : {"wait_ms":n,"behaviours":[[{"a":"Init","dbm":[..],"enabled":b},{"a":"Begin","ip":1},{"a":"ScrapeBegin"},..]]}
// VERIF_LR_OUT: NDJSON.  The location database is a stub whose lookup can BLOCK (armed for the tunnel-time lookup of
// AddAuthenticated only): Begin starts AddAuthenticated in a goroutine and waits until the stub is entered (or the call
// returns: loopback / link-local clients and a disabled database are never looked up); ScrapeBegin starts Gather() in
// another goroutine and gives it wait_ms (a scrape that blocks on the collector's mutex is NOT an error); Release lets
// the lookup answer; ScrapeEnd waits for the scrape and records the location labels of every series of
// tunnel_time_seconds_per_location it exported.  The harness never judges.
package prometheus

import (
	"bufio"
	"encoding/json"
	"errors"
	"fmt"
	"net"
	"os"
	"sort"
	"sync"
	"testing"
	"time"

	"github.com/Jigsaw-Code/outline-ss-server/ipinfo"
	"github.com/Jigsaw-Code/outline-ss-server/service/metrics"
	"github.com/prometheus/client_golang/prometheus"
	dto "github.com/prometheus/client_model/go"
)

type vrStep struct {
	A       string   `json:"a"`
	IP      int      `json:"ip"`
	Dbm     []string `json:"dbm"`
	Enabled bool     `json:"enabled"`
}

type vrInput struct {
	WaitMs     int        `json:"wait_ms"`
	Behaviours [][]vrStep `json:"behaviours"`
}

func vrCountry(i int) string { return string([]byte{byte('P' + i), byte('P' + i)}) }

type vrDB struct {
	mu      sync.Mutex
	mode    []string
	armed   bool
	entered chan struct{}
	release chan struct{}
}

func (d *vrDB) GetIPInfo(ip net.IP) (ipinfo.IPInfo, error) {
	d.mu.Lock()
	armed, rel := d.armed, d.release
	d.armed = false
	d.mu.Unlock()
	if armed {
		d.entered <- struct{}{}
		<-rel
	}
	idx := 0
	for i, s := range vfClientIPs {
		if net.ParseIP(s).Equal(ip) {
			idx = i + 1
		}
	}
	if idx == 0 || idx > len(d.mode) {
		return ipinfo.IPInfo{CountryCode: "!!"}, nil
	}
	full := ipinfo.IPInfo{CountryCode: ipinfo.CountryCode(vrCountry(idx)), ASN: ipinfo.ASN{Number: 64700 + idx, Organization: fmt.Sprintf("Org-%d", idx)}}
	switch d.mode[idx-1] {
	case "hit":
		return full, nil
	case "nocountry":
		return ipinfo.IPInfo{ASN: full.ASN}, nil
	default:
		return ipinfo.IPInfo{}, errors.New("scripted database failure")
	}
}

type vrScrape struct {
	locs   []string
	tuples []string
	err    string
}

func vrGather(reg *prometheus.Registry) vrScrape {
	mfs, err := reg.Gather()
	if err != nil {
		return vrScrape{err: err.Error()}
	}
	return vrFromFamilies(mfs)
}

func vrFromFamilies(mfs []*dto.MetricFamily) vrScrape {
	out := vrScrape{locs: []string{}, tuples: []string{}}
	seen := map[string]bool{}
	for _, mf := range mfs {
		if mf.GetName() != "tunnel_time_seconds_per_location" {
			continue
		}
		for _, m := range mf.GetMetric() {
			l := vfLabels(m)
			out.tuples = append(out.tuples, fmt.Sprintf("location=%q,asn=%q,asorg=%q", l["location"], l["asn"], l["asorg"]))
			if !seen[l["location"]] {
				seen[l["location"]] = true
				out.locs = append(out.locs, l["location"])
			}
		}
	}
	sort.Strings(out.locs)
	sort.Strings(out.tuples)
	return out
}

type vrPending struct {
	done    chan struct{}
	release chan struct{}
	entered bool
}

func TestVerifLabelRace(t *testing.T) {
	inPath, outPath := os.Getenv("VERIF_LR_IN"), os.Getenv("VERIF_LR_OUT")
	if inPath == "" || outPath == "" {
		t.Skip("VERIF_LR_IN / VERIF_LR_OUT not set")
	}
	raw, err := os.ReadFile(inPath)
	if err != nil {
		t.Fatalf("HARNESS-ERROR: %v", err)
	}
	var in vrInput
	if err := json.Unmarshal(raw, &in); err != nil {
		t.Fatalf("HARNESS-ERROR: %v", err)
	}
	wait := time.Duration(in.WaitMs) * time.Millisecond
	if wait <= 0 {
		wait = 200 * time.Millisecond
	}
	const patience = 15 * time.Second
	f, err := os.Create(outPath)
	if err != nil {
		t.Fatalf("HARNESS-ERROR: %v", err)
	}
	defer f.Close()
	w := bufio.NewWriterSize(f, 1<<20)
	defer w.Flush()
	emit := func(ev map[string]any) {
		b, _ := json.Marshal(ev)
		w.Write(b)
		w.WriteByte('\n')
	}
	k := &vfClock{}
	saved := now
	now = k.now
	defer func() { now = saved }()

	for bi, beh := range in.Behaviours {
		if len(beh) == 0 || beh[0].A != "Init" {
			t.Fatalf("HARNESS-ERROR: behaviour %d does not start with Init", bi)
		}
		k.mu.Lock()
		k.t = 0
		k.mu.Unlock()
		db := &vrDB{mode: append([]string(nil), beh[0].Dbm...), entered: make(chan struct{}, 1)}
		var ip2info ipinfo.IPInfoMap
		if beh[0].Enabled {
			ip2info = db
		}
		m, err := NewServiceMetrics(ip2info)
		if err != nil {
			t.Fatalf("HARNESS-ERROR: %v", err)
		}
		reg := prometheus.NewPedanticRegistry()
		reg.MustRegister(m)
		ni := len(beh[0].Dbm)
		ccs := []string{}
		for i := 1; i <= ni; i++ {
			ccs = append(ccs, vrCountry(i))
		}
		emit(map[string]any{"ev": "Reset", "beh": bi, "enabled": beh[0].Enabled, "cls": vfClientClass[:ni], "cc": ccs, "clients": vfClientIPs[:ni]})
		pend := map[int]*vrPending{}
		conns := map[int]interface {
			AddClosed(string, metrics.ProxyMetrics, time.Duration)
		}{}
		var scrapeCh chan vrScrape
		var early *vrScrape
		inflight := 0
		for si, st := range beh[1:] {
			row := map[string]any{"ev": "Step", "beh": bi, "i": si + 1, "a": st.A}
			switch st.A {
			case "Begin":
				c := m.AddOpenTCPConnection(&vfTCPConn{local: vfListeners[st.IP%2], remote: vfTCPAddr(st.IP)}) // lookup #1, not blocked
				conns[st.IP] = c
				p := &vrPending{done: make(chan struct{}), release: make(chan struct{})}
				db.mu.Lock()
				db.armed, db.release = true, p.release
				db.mu.Unlock()
				go func() {
					defer close(p.done)
					c.AddAuthenticated(vfPlainKey(1)) // startConnection: the tunnel-time lookup (blocks in the stub)
				}()
				select {
				case <-db.entered:
					p.entered = true
				case <-p.done:
					db.mu.Lock()
					db.armed = false
					db.mu.Unlock()
				case <-time.After(patience):
					t.Fatalf("HARNESS-ERROR: behaviour %d step %d: AddAuthenticated neither entered the database nor returned", bi, si+1)
				}
				pend[st.IP] = p
				row["entered"] = p.entered
			case "Release":
				p := pend[st.IP]
				if p == nil {
					t.Fatalf("HARNESS-ERROR: behaviour %d step %d: Release without Begin", bi, si+1)
				}
				if p.entered {
					close(p.release)
				}
				select {
				case <-p.done:
				case <-time.After(patience):
					t.Fatalf("HARNESS-ERROR: behaviour %d step %d: AddAuthenticated did not return after the lookup answered", bi, si+1)
				}
				delete(pend, st.IP)
			case "ScrapeBegin":
				inflight = 0
				for _, p := range pend {
					if p.entered {
						inflight++
					}
				}
				ch := make(chan vrScrape, 1)
				scrapeCh, early = ch, nil
				go func() { ch <- vrGather(reg) }()
				select {
				case r := <-ch:
					early = &r
				case <-time.After(wait):
				}
				row["lookups_in_flight"] = inflight
				row["returned_early"] = early != nil
			case "ScrapeEnd":
				var r vrScrape
				if early != nil {
					r = *early
				} else if scrapeCh != nil {
					select {
					case r = <-scrapeCh:
					case <-time.After(patience):
						t.Fatalf("HARNESS-ERROR: behaviour %d step %d: the scrape did not return", bi, si+1)
					}
				} else {
					t.Fatalf("HARNESS-ERROR: behaviour %d step %d: ScrapeEnd without ScrapeBegin", bi, si+1)
				}
				if r.err != "" {
					t.Fatalf("HARNESS-ERROR: gather: %s", r.err)
				}
				row["got"], row["tuples"], row["blocked"], row["lookups_in_flight"] = r.locs, r.tuples, early == nil, inflight
				scrapeCh, early = nil, nil
			case "Scrape":
				k.tick(1)
				r := vrGather(reg)
				if r.err != "" {
					t.Fatalf("HARNESS-ERROR: gather: %s", r.err)
				}
				row["got"], row["tuples"] = r.locs, r.tuples
			case "Close":
				conns[st.IP].AddClosed("OK", metrics.ProxyMetrics{ClientProxy: 10, ProxyTarget: 9, TargetProxy: 20, ProxyClient: 21}, time.Second)
			default:
				t.Fatalf("HARNESS-ERROR: unknown step %q", st.A)
			}
			emit(row)
		}
		for _, p := range pend { // generated schedules end quiet; be safe
			if p.entered {
				close(p.release)
			}
			<-p.done
		}
	}
	emit(map[string]any{"ev": "Done", "behaviours": len(in.Behaviours)})
}
