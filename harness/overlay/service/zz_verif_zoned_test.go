// Client addresses that differ only in the IPv6 ZONE (C04; spec/UdpNat.tla).
// Added to package service with `go test -overlay`; nothing in the repo is replaced.  A fake client-side PacketConn whose
// ReadFrom returns *net.UDPAddr values with Zone set stands in front of the REAL PacketHandler.Handle; the target side
// is a real UDP socket on loopback.  Clients: [fe80::1%eth0]:40000, [fe80::1%eth1]:40000 (same IP and port, another
// zone = another link = another client), [fe80::1%eth0]:40001, and 192.0.2.7:40000 / its IPv4-mapped form is NOT used
// (one client).  The observations are written in the trace format of harness/cmd/udpnat and judged by UdpNatTrace:
// different client addresses never share a source socket, replies reach only the owner, every valid datagram is forwarded.
//
// VERIF_ZN_OUT: NDJSON trace
package service

import (
	"bufio"
	"container/list"
	"crypto/sha256"
	"encoding/json"
	"net"
	"os"
	"sync"
	"sync/atomic"
	"testing"
	"time"

	"github.com/Jigsaw-Code/outline-sdk/transport/shadowsocks"
	"github.com/shadowsocks/go-shadowsocks2/socks"
)

type znDg struct {
	data []byte
	from *net.UDPAddr
}

type znOut struct {
	data []byte
	to   string
	t    time.Time
}

type znListener struct {
	in     chan znDg
	closed chan struct{}
	reads  atomic.Int64
	mu     sync.Mutex
	out    []znOut
}

func (l *znListener) ReadFrom(p []byte) (int, net.Addr, error) {
	l.reads.Add(1)
	select {
	case d := <-l.in:
		return copy(p, d.data), d.from, nil
	case <-l.closed:
		return 0, nil, net.ErrClosed
	}
}
func (l *znListener) WriteTo(p []byte, addr net.Addr) (int, error) {
	l.mu.Lock()
	l.out = append(l.out, znOut{append([]byte(nil), p...), addr.String(), time.Now()})
	l.mu.Unlock()
	return len(p), nil
}
func (l *znListener) Close() error { close(l.closed); return nil }
func (l *znListener) LocalAddr() net.Addr {
	return &net.UDPAddr{IP: net.ParseIP("fe80::2"), Port: 9999, Zone: "eth0"}
}
func (l *znListener) SetDeadline(t time.Time) error      { return nil }
func (l *znListener) SetReadDeadline(t time.Time) error  { return nil }
func (l *znListener) SetWriteDeadline(t time.Time) error { return nil }

type znEv struct {
	m      string
	a      int
	client string
	key    string
	st     string
	x, y   int64
	t      time.Time
	pend   int
}
type znMetrics struct {
	mu   sync.Mutex
	ev   []znEv
	n    int
	live map[string]int
}
type znConnMetrics struct {
	m      *znMetrics
	a      int
	client string
	key    string
}

func (m *znMetrics) AddUDPNatEntry(clientAddr net.Addr, accessKey string) UDPConnMetrics {
	m.mu.Lock()
	defer m.mu.Unlock()
	m.n++
	cs := clientAddr.String()
	m.ev = append(m.ev, znEv{m: "NatAdd", a: m.n, client: cs, key: accessKey, t: time.Now(), pend: m.live[cs]})
	m.live[cs]++
	return &znConnMetrics{m: m, a: m.n, client: cs, key: accessKey}
}
func (c *znConnMetrics) add(e znEv) {
	c.m.mu.Lock()
	if len(c.m.ev) < 5000 {
		e.a, e.client, e.key, e.t = c.a, c.client, c.key, time.Now()
		c.m.ev = append(c.m.ev, e)
	}
	c.m.mu.Unlock()
}
func (c *znConnMetrics) AddPacketFromClient(status string, cp, pt int64) {
	c.add(znEv{m: "PktC", st: status, x: cp, y: pt})
}
func (c *znConnMetrics) AddPacketFromTarget(status string, tp, pc int64) {
	c.add(znEv{m: "PktT", st: status, x: tp, y: pc})
}
func (c *znConnMetrics) RemoveNatEntry() {
	c.m.mu.Lock()
	c.m.live[c.client]--
	c.m.mu.Unlock()
	c.add(znEv{m: "NatRemove"})
}

func znWait(d time.Duration, f func() bool) bool {
	dl := time.Now().Add(d)
	for !f() {
		if time.Now().After(dl) {
			return false
		}
		time.Sleep(200 * time.Microsecond)
	}
	return true
}

func TestVerifZonedClients(t *testing.T) {
	outPath := os.Getenv("VERIF_ZN_OUT")
	if outPath == "" {
		t.Skip("VERIF_ZN_OUT not set")
	}
	f, err := os.Create(outPath)
	if err != nil {
		t.Fatal(err)
	}
	defer f.Close()
	w := bufio.NewWriter(f)
	defer w.Flush()
	emit := func(m map[string]any) {
		b, _ := json.Marshal(m)
		w.Write(b)
		w.WriteByte('\n')
	}
	clients := map[int]*net.UDPAddr{
		1: {IP: net.ParseIP("fe80::1"), Port: 40000, Zone: "eth0"},
		2: {IP: net.ParseIP("fe80::1"), Port: 40000, Zone: "eth1"},
		3: {IP: net.ParseIP("fe80::1"), Port: 40001, Zone: "eth0"},
	}
	cliTok := map[string]int{}
	for c, a := range clients {
		cliTok[a.String()] = c
	}
	keys := map[int]*shadowsocks.EncryptionKey{}
	secrets := map[int]string{1: "zoned-secret-1", 2: "zoned-secret-2"}
	ciphers := map[int]string{1: shadowsocks.CHACHA20IETFPOLY1305, 2: shadowsocks.AES128GCM}
	l := list.New()
	for k := 1; k <= 2; k++ {
		key, err := shadowsocks.NewEncryptionKey(ciphers[k], secrets[k])
		if err != nil {
			t.Fatal(err)
		}
		keys[k] = key
		e := MakeCipherEntry(map[int]string{1: "key-1", 2: "key-2"}[k], key, secrets[k])
		l.PushBack(&e)
	}
	keyTok := map[string]int{"key-1": 1, "key-2": 2}
	for variant := 0; variant < 2; variant++ {
		cl := NewCipherList()
		l2 := list.New()
		for e := l.Front(); e != nil; e = e.Next() {
			ce := *(e.Value.(*CipherEntry))
			l2.PushBack(&ce)
		}
		cl.Update(l2)
		// variant 0: all clients use key 1; variant 1: client 2 uses key 2
		keyOf := map[int]int{1: 1, 2: 1 + variant, 3: 1}
		met := &znMetrics{live: map[string]int{}}
		ph := NewPacketHandler(5*time.Second, cl, met, nil)
		ph.SetTargetIPValidator(func(net.IP) error { return nil })
		ln := &znListener{in: make(chan znDg), closed: make(chan struct{})}
		done := make(chan struct{})
		go func() { ph.Handle(ln); close(done) }()
		tgt, err := net.ListenUDP("udp4", &net.UDPAddr{IP: net.IPv4(127, 0, 0, 1)})
		if err != nil {
			t.Fatal(err)
		}
		taddr := tgt.LocalAddr().(*net.UDPAddr)
		start := time.Now()
		ms := func(x time.Time) int { return int(x.Sub(start) / time.Millisecond) }
		emit(map[string]any{"ev": "Reset", "scenario": "zoned-clients", "variant": variant})
		mcur, ocur := 0, 0
		nDg, nRp := 0, 0
		liveOf := map[int]int{} // client -> association believed live
		portOf := map[int]int{} // association -> source port
		keyOfA := map[int]int{} // association -> key
		saltTok := map[string]int{}
		handled := int64(0)
		flushM := func(did, sid int) (stepAssoc int) {
			met.mu.Lock()
			evs := append([]znEv(nil), met.ev[mcur:]...)
			mcur = len(met.ev)
			met.mu.Unlock()
			for _, e := range evs {
				c := cliTok[e.client]
				line := map[string]any{"ev": "M", "m": e.m, "a": e.a, "c": c, "key": keyTok[e.key], "st": e.st, "x": e.x, "y": e.y, "did": 0, "t": ms(e.t)}
				switch e.m {
				case "NatAdd":
					line["x"], line["y"], line["did"] = did, e.pend, did
					liveOf[c] = e.a
					keyOfA[e.a] = keyTok[e.key]
					stepAssoc = e.a
				case "PktC":
					line["did"] = did
					stepAssoc = e.a
				case "PktT":
					line["did"] = sid
				case "NatRemove":
					if liveOf[c] == e.a {
						delete(liveOf, c)
					}
				}
				emit(line)
			}
			return
		}
		send := func(c int) {
			nDg++
			did := nDg
			payload := []byte{byte(did), 'z', 'o', 'n', 'e', 'd', byte(c)}
			pt := append(append([]byte{}, socks.ParseAddr(taddr.String())...), payload...)
			key := keys[keyOf[c]]
			buf := make([]byte, key.SaltSize()+len(pt)+key.TagSize())
			pkt, err := shadowsocks.Pack(buf, pt, key)
			if err != nil {
				t.Fatal(err)
			}
			now := time.Now()
			emit(map[string]any{"ev": "CSend", "id": did, "c": c, "k": keyOf[c], "hdr": true, "dst": 1, "sz": len(payload), "wire": len(pkt), "la": liveOf[c], "t": ms(now)})
			select {
			case ln.in <- znDg{pkt, clients[c]}:
			case <-time.After(5 * time.Second):
				t.Fatalf("HARNESS-ERROR: Handle does not read")
			}
			handled++
			if !znWait(5*time.Second, func() bool { return ln.reads.Load() >= handled+1 }) {
				t.Fatalf("HARNESS-ERROR: datagram %d not handled within 5 s", did)
			}
			a := flushM(did, 0)
			// whatever was forwarded is already queued at the target
			for {
				buf := make([]byte, 2048)
				tgt.SetReadDeadline(time.Now().Add(30 * time.Millisecond))
				n, from, err := tgt.ReadFromUDP(buf)
				if err != nil {
					break
				}
				p := -1
				if sha256.Sum256(buf[:n]) == sha256.Sum256(payload) {
					p = did
				}
				if a != 0 {
					portOf[a] = from.Port
				}
				emit(map[string]any{"ev": "TRecv", "did": did, "a": a, "sock": from.Port, "dst": 1, "sz": n, "p": p, "ts": ms(now), "t": ms(time.Now()) + 1})
			}
			emit(map[string]any{"ev": "Clock", "t": ms(time.Now()) + 1})
		}
		reply := func(c int) {
			a, ok := liveOf[c]
			if !ok || portOf[a] == 0 {
				return
			}
			nRp++
			sid := nRp
			payload := []byte{'r', byte(sid), byte(c)}
			met.mu.Lock()
			before := 0
			for _, e := range met.ev {
				if e.m == "PktT" && e.a == a {
					before++
				}
			}
			met.mu.Unlock()
			now := time.Now()
			emit(map[string]any{"ev": "SSend", "id": sid, "src": 1, "a": a, "sz": len(payload), "rd": len(payload), "nw": 1, "fits": true, "t": ms(now)})
			tgt.WriteToUDP(payload, &net.UDPAddr{IP: net.IPv4(127, 0, 0, 1), Port: portOf[a]})
			znWait(3*time.Second, func() bool {
				met.mu.Lock()
				defer met.mu.Unlock()
				n := 0
				for _, e := range met.ev {
					if e.m == "PktT" && e.a == a {
						n++
					}
				}
				return n > before
			})
			flushM(0, sid)
			ln.mu.Lock()
			outs := append([]znOut(nil), ln.out[ocur:]...)
			ocur = len(ln.out)
			ln.mu.Unlock()
			for _, o := range outs {
				line := map[string]any{"ev": "CRecv", "sid": sid, "a": a, "c": cliTok[o.to], "key": 0, "salt": 0, "hdr": -1, "sz": 0, "p": -1, "wire": len(o.data), "t": ms(o.t), "to": o.to}
				for k, key := range keys {
					b := make([]byte, len(o.data))
					pt, err := shadowsocks.Unpack(b, o.data, key)
					if err != nil {
						continue
					}
					line["key"] = k
					s := string(o.data[:key.SaltSize()])
					if _, ok := saltTok[s]; !ok {
						saltTok[s] = len(saltTok) + 1
					}
					line["salt"] = saltTok[s]
					want := socks.ParseAddr(taddr.String())
					if len(pt) >= len(want) && string(pt[:len(want)]) == string(want) {
						line["hdr"] = 1
						line["sz"] = len(pt) - len(want)
						if string(pt[len(want):]) == string(payload) {
							line["p"] = sid
						}
					}
				}
				emit(line)
			}
			emit(map[string]any{"ev": "Clock", "t": ms(time.Now()) + 1})
		}
		send(1)
		reply(1)
		send(2) // same IP and port, another zone: another client
		reply(2)
		send(1)
		send(3)
		reply(1) // a late datagram to client 1's socket after the others have sent
		reply(3)
		send(2)
		reply(2)
		ln.Close()
		returned := false
		select {
		case <-done:
			returned = true
		case <-time.After(5 * time.Second):
		}
		if returned {
			emit(map[string]any{"ev": "Closing"})
		}
		znWait(5*time.Second, func() bool { flushM(0, 0); return len(liveOf) == 0 })
		emit(map[string]any{"ev": "Clock", "t": ms(time.Now()) + 1})
		emit(map[string]any{"ev": "EndZ", "variant": variant, "returned": returned, "unreclaimed": len(liveOf)})
		tgt.Close()
	}
}
