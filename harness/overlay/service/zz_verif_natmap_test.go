// Virtual-time conformance harness for natmap / natconn / timedCopy (C14; spec/UdpNat.tla).
// Added to package service with `go test -overlay` (toolchain go1.26, GODEBUG=asynctimerchan=0); nothing in the repo is
// replaced.  The harness plays the Handle loop (Get -> Add -> WriteTo -> AddPacketFromClient) and the network: every
// association gets a FAKE outbound PacketConn that records every SetReadDeadline / WriteTo / ReadFrom result / Close
// with the exact virtual instant.  TLC-generated behaviours (client datagram to a DNS / non-DNS destination, datagram
// from a port-53 / other sender to an association's socket, clock tick, shutdown) are replayed inside a synctest bubble;
// the recorded observations are judged by UdpNatTrace (UdpNatTraceVirt.cfg) with exact instants.
//
// VERIF_NM_IN: behaviours json; VERIF_NM_OUT: NDJSON trace; VERIF_NM_CFG: {"T":2,"DNST":4}
package service

import (
	"bufio"
	"encoding/json"
	"fmt"
	"io"
	"log/slog"
	"net"
	"os"
	"runtime"
	"sync"
	"testing"
	"testing/synctest"
	"time"

	"github.com/Jigsaw-Code/outline-sdk/transport/shadowsocks"
	"github.com/shadowsocks/go-shadowsocks2/socks"
)

type vnStep struct {
	A      string `json:"a"`
	C      int    `json:"c"`
	Dst    int    `json:"dst"`
	Src    int    `json:"src"`
	To     int    `json:"to"`
	D      int    `json:"d"`
	Cls    string `json:"cls"`
	MidCls string
	Mid    int // sender of a datagram that arrives while the harness is inside natconn.WriteTo for this client datagram (0: none)
}

// destination token to which the fake outbound conn cannot send
const vnUnsendable = 3

type vnSendError struct{}

func (vnSendError) Error() string   { return "sendto: invalid argument (fake)" }
func (vnSendError) Timeout() bool   { return false }
func (vnSendError) Temporary() bool { return false }

type vnTimeout struct{}

func (vnTimeout) Error() string   { return "i/o timeout (fake)" }
func (vnTimeout) Timeout() bool   { return true }
func (vnTimeout) Temporary() bool { return true }

type vnOp struct {
	op  string // dl wr rd cl
	t   time.Time
	dl  time.Time
	why string
	x   int
}

type vnDgram struct {
	data []byte
	from *net.UDPAddr
	tok  int
}

// fake outbound conn of one association
type vnConn struct {
	h        *vnHarness
	mu       sync.Mutex
	a        int
	q        []vnDgram
	deadline time.Time
	closed   bool
	nclose   int
	wake     chan struct{}
	ops      []vnOp
	emitted  int
	lastRd   int
	gate     func() // runs once inside the next SetReadDeadline made by onWrite
	writes   []vnWrite
}

type vnWrite struct {
	data []byte
	dst  int
	t    time.Time
}

func (c *vnConn) signal() {
	select {
	case c.wake <- struct{}{}:
	default:
	}
}

func (c *vnConn) ReadFrom(p []byte) (int, net.Addr, error) {
	for {
		c.mu.Lock()
		if c.closed {
			c.mu.Unlock()
			return 0, nil, net.ErrClosed
		}
		now := time.Now()
		if !c.deadline.IsZero() && !now.Before(c.deadline) {
			c.mu.Unlock()
			return 0, nil, vnTimeout{}
		}
		if len(c.q) > 0 {
			d := c.q[0]
			c.q = c.q[1:]
			n := copy(p, d.data)
			c.ops = append(c.ops, vnOp{op: "rd", t: now, x: d.tok})
			c.lastRd = d.tok
			c.mu.Unlock()
			return n, d.from, nil
		}
		var tc <-chan time.Time
		var tm *time.Timer
		if !c.deadline.IsZero() {
			tm = time.NewTimer(c.deadline.Sub(now))
			tc = tm.C
		}
		c.mu.Unlock()
		select {
		case <-c.wake:
		case <-tc:
		}
		if tm != nil {
			tm.Stop()
		}
	}
}

func (c *vnConn) WriteTo(p []byte, addr net.Addr) (int, error) {
	c.mu.Lock()
	defer c.mu.Unlock()
	if c.closed {
		return 0, net.ErrClosed
	}
	tok := c.h.tokOf(addr.String())
	if len(c.ops) > 20000 {
		return len(p), nil
	}
	if tok == vnUnsendable { // the fault "a send to the target fails": the association must be left as it is
		c.ops = append(c.ops, vnOp{op: "we", t: time.Now(), x: tok})
		return 0, vnSendError{}
	}
	c.ops = append(c.ops, vnOp{op: "wr", t: time.Now(), x: tok})
	c.writes = append(c.writes, vnWrite{data: append([]byte(nil), p...), dst: tok, t: time.Now()})
	return len(p), nil
}

func (c *vnConn) SetReadDeadline(t time.Time) error {
	c.mu.Lock()
	now := time.Now()
	why := "write"
	if c.h.inClose {
		why = "close"
	} else if !t.After(now) {
		why = "fast"
	}
	c.ops = append(c.ops, vnOp{op: "dl", t: now, dl: t, why: why, x: c.lastRd})
	c.deadline = t
	g := c.gate
	if why == "write" {
		c.gate = nil
	} else {
		g = nil
	}
	c.mu.Unlock()
	c.signal()
	if g != nil {
		// the caller (natconn.onWrite on the "Handle" goroutine) is parked here, just after the new deadline took effect:
		// a datagram is delivered to this socket and the association's goroutine runs until it blocks again
		g()
	}
	return nil
}

func (c *vnConn) Close() error {
	c.mu.Lock()
	c.closed = true
	c.nclose++
	c.ops = append(c.ops, vnOp{op: "cl", t: time.Now()})
	c.mu.Unlock()
	c.signal()
	return nil
}
func (c *vnConn) LocalAddr() net.Addr {
	return &net.UDPAddr{IP: net.IPv4(10, 9, 9, 9), Port: 40000 + c.a}
}
func (c *vnConn) SetDeadline(t time.Time) error      { return nil }
func (c *vnConn) SetWriteDeadline(t time.Time) error { return nil }

// the listener conn through which timedCopy answers the clients
type vnClientConn struct {
	mu  sync.Mutex
	out []vnCW
}
type vnCW struct {
	data []byte
	to   string
	t    time.Time
}

func (c *vnClientConn) ReadFrom(p []byte) (int, net.Addr, error) { select {} }
func (c *vnClientConn) WriteTo(p []byte, addr net.Addr) (int, error) {
	c.mu.Lock()
	c.out = append(c.out, vnCW{data: append([]byte(nil), p...), to: addr.String(), t: time.Now()})
	c.mu.Unlock()
	return len(p), nil
}
func (c *vnClientConn) Close() error { return nil }
func (c *vnClientConn) LocalAddr() net.Addr {
	return &net.UDPAddr{IP: net.IPv4(127, 0, 0, 1), Port: 9000}
}
func (c *vnClientConn) SetDeadline(t time.Time) error      { return nil }
func (c *vnClientConn) SetReadDeadline(t time.Time) error  { return nil }
func (c *vnClientConn) SetWriteDeadline(t time.Time) error { return nil }

type vnMEv struct {
	m      string
	a      int
	client string
	key    string
	st     string
	x, y   int64
	t      time.Time
	pend   int
}

type vnMetrics struct {
	mu   sync.Mutex
	ev   []vnMEv
	n    int
	live map[string]int
}

type vnConnMetrics struct {
	m      *vnMetrics
	a      int
	client string
	key    string
}

func (m *vnMetrics) AddUDPNatEntry(clientAddr net.Addr, accessKey string) UDPConnMetrics {
	m.mu.Lock()
	defer m.mu.Unlock()
	m.n++
	cs := clientAddr.String()
	m.ev = append(m.ev, vnMEv{m: "NatAdd", a: m.n, client: cs, key: accessKey, t: time.Now(), pend: m.live[cs]})
	m.live[cs]++
	return &vnConnMetrics{m: m, a: m.n, client: cs, key: accessKey}
}
func (c *vnConnMetrics) add(e vnMEv) {
	c.m.mu.Lock()
	if len(c.m.ev) >= 20000 { // bounded: a spinning association must not exhaust the machine
		c.m.mu.Unlock()
		return
	}
	e.a, e.client, e.key, e.t = c.a, c.client, c.key, time.Now()
	c.m.ev = append(c.m.ev, e)
	c.m.mu.Unlock()
}
func (c *vnConnMetrics) AddPacketFromClient(status string, cp, pt int64) {
	c.add(vnMEv{m: "PktC", st: status, x: cp, y: pt})
}
func (c *vnConnMetrics) AddPacketFromTarget(status string, tp, pc int64) {
	c.add(vnMEv{m: "PktT", st: status, x: tp, y: pc})
}
func (c *vnConnMetrics) RemoveNatEntry() {
	c.m.mu.Lock()
	c.m.live[c.client]--
	c.m.mu.Unlock()
	c.add(vnMEv{m: "NatRemove"})
}

type vnHarness struct {
	w        *bufio.Writer
	unit     time.Duration
	start    time.Time
	addrTok  map[string]int
	inClose  bool
	nm       *natmap
	met      *vnMetrics
	mcur     int
	ccur     int
	cc       *vnClientConn
	conns    []*vnConn
	connOf   map[int]*vnConn // client token -> conn of the association the harness last created for it
	key      *shadowsocks.EncryptionKey
	nDg, nRp int
	replies  map[int]vnReply
	saltTok  map[string]int
	cliTok   map[string]int
}

type vnReply struct {
	a       int
	src     int
	payload []byte
}

func (h *vnHarness) countPktT() int {
	h.met.mu.Lock()
	defer h.met.mu.Unlock()
	n := 0
	for _, e := range h.met.ev {
		if e.m == "PktT" {
			n++
		}
	}
	return n
}

func (h *vnHarness) tokOf(addr string) int { return h.addrTok[addr] }
func (h *vnHarness) units(t time.Time) int {
	d := t.Sub(h.start)
	return int((d + h.unit/2) / h.unit)
}
func (h *vnHarness) emit(m map[string]any) {
	b, _ := json.Marshal(m)
	h.w.Write(b)
	h.w.WriteByte('\n')
}

// sender / destination tokens of Gen_UdpNatVirt.cfg: 1 = A (not DNS), 2 = B (port 53), 7 = stranger, 8 = stranger on port 53
var vnAddrs = map[int]*net.UDPAddr{
	1: {IP: net.IPv4(192, 0, 2, 10), Port: 4000},
	2: {IP: net.IPv4(192, 0, 2, 11), Port: 53},
	3: {IP: net.IPv4(192, 0, 2, 14), Port: 4001}, // vnUnsendable
	7: {IP: net.IPv4(192, 0, 2, 12), Port: 5000},
	8: {IP: net.IPv4(192, 0, 2, 13), Port: 53},
}

func vnClientAddr(c int) *net.UDPAddr {
	switch c {
	case 1:
		return &net.UDPAddr{IP: net.IPv4(127, 0, 0, 1), Port: 1001}
	case 2:
		return &net.UDPAddr{IP: net.IPv4(127, 0, 0, 1), Port: 1002}
	default:
		return &net.UDPAddr{IP: net.IPv4(127, 0, 0, byte(c)), Port: 1001}
	}
}

// flush emits everything observed since the previous call, each observer in its own order, then the clock
func (h *vnHarness) flush(did, sid int) {
	synctest.Wait()
	h.met.mu.Lock()
	evs := append([]vnMEv(nil), h.met.ev[h.mcur:]...)
	h.mcur = len(h.met.ev)
	h.met.mu.Unlock()
	for _, e := range evs {
		line := map[string]any{"ev": "M", "m": e.m, "a": e.a, "c": h.cliTok[e.client], "key": 1, "st": e.st, "x": e.x, "y": e.y, "did": 0, "t": h.units(e.t)}
		switch e.m {
		case "NatAdd":
			line["x"], line["y"], line["did"] = did, e.pend, did
		case "PktC":
			line["did"] = did
		case "PktT":
			line["did"] = sid
		}
		h.emit(line)
	}
	for _, c := range h.conns {
		c.mu.Lock()
		ops := append([]vnOp(nil), c.ops[c.emitted:]...)
		c.emitted = len(c.ops)
		ws := c.writes
		c.writes = nil
		c.mu.Unlock()
		for _, o := range ops {
			dl := -1
			if o.op == "dl" {
				dl = h.units(o.dl)
			}
			h.emit(map[string]any{"ev": "Conn", "a": c.a, "op": o.op, "t": h.units(o.t), "dl": dl, "why": o.why, "x": o.x})
		}
		for _, w := range ws {
			h.emit(map[string]any{"ev": "TRecv", "did": did, "a": c.a, "sock": c.a, "dst": w.dst, "sz": len(w.data), "p": did, "ts": h.units(w.t), "t": h.units(w.t)})
		}
	}
	h.cc.mu.Lock()
	outs := append([]vnCW(nil), h.cc.out[h.ccur:]...)
	h.ccur = len(h.cc.out)
	h.cc.mu.Unlock()
	for _, o := range outs {
		line := map[string]any{"ev": "CRecv", "sid": sid, "a": 0, "c": h.cliTok[o.to], "key": 0, "salt": 0, "hdr": -1, "sz": 0, "p": -1, "wire": len(o.data), "t": h.units(o.t)}
		if ri, ok := h.replies[sid]; ok {
			line["a"] = ri.a
			buf := make([]byte, len(o.data))
			if pt, err := shadowsocks.Unpack(buf, o.data, h.key); err == nil {
				line["key"] = 1
				salt := string(o.data[:h.key.SaltSize()])
				if _, ok := h.saltTok[salt]; !ok {
					h.saltTok[salt] = len(h.saltTok) + 1
				} else {
					h.saltTok[salt] = h.saltTok[salt] // a repeated salt keeps its token: SaltsFresh fails
				}
				line["salt"] = h.saltTok[salt]
				want := socks.ParseAddr(vnAddrs[ri.src].String())
				if len(pt) >= len(want) && string(pt[:len(want)]) == string(want) {
					line["hdr"] = ri.src
					body := pt[len(want):]
					line["sz"] = len(body)
					if string(body) == string(ri.payload) {
						line["p"] = sid
					}
				}
			}
		}
		h.emit(line)
	}
	h.emit(map[string]any{"ev": "Clock", "t": h.units(time.Now())})
}

func (h *vnHarness) liveConn(c int) *vnConn {
	e := h.nm.Get(vnClientAddr(c).String())
	if e == nil {
		return nil
	}
	fc, _ := e.PacketConn.(*vnConn)
	return fc
}

// memory backstop (real time, outside the bubbles): abort the test binary above 3 GiB resident
func vnMemoryWatchdog() {
	go func() {
		for {
			if b, err := os.ReadFile("/proc/self/statm"); err == nil {
				var size, rss int64
				fmt.Sscanf(string(b), "%d %d", &size, &rss)
				if rss*int64(os.Getpagesize()) > 3<<30 {
					fmt.Fprintln(os.Stderr, "HARNESS-ERROR: memory watchdog: resident set above 3 GiB, aborting")
					os.Exit(3)
				}
			}
			time.Sleep(100 * time.Millisecond)
		}
	}()
}

func TestVerifNatmap(t *testing.T) {
	inPath, outPath := os.Getenv("VERIF_NM_IN"), os.Getenv("VERIF_NM_OUT")
	if inPath == "" || outPath == "" {
		t.Skip("VERIF_NM_IN / VERIF_NM_OUT not set")
	}
	vnMemoryWatchdog()
	var cfg struct{ T, DNST int }
	if err := json.Unmarshal([]byte(os.Getenv("VERIF_NM_CFG")), &cfg); err != nil || cfg.T == 0 || cfg.DNST == 0 {
		t.Fatalf("VERIF_NM_CFG: %v", err)
	}
	raw, err := os.ReadFile(inPath)
	if err != nil {
		t.Fatal(err)
	}
	var behs [][]vnStep
	if err := json.Unmarshal(raw, &behs); err != nil {
		t.Fatal(err)
	}
	f, err := os.Create(outPath)
	if err != nil {
		t.Fatal(err)
	}
	defer f.Close()
	w := bufio.NewWriterSize(f, 1<<20)
	defer w.Flush()
	unit := 17 * time.Second / time.Duration(cfg.DNST)
	if unit*time.Duration(cfg.DNST) != 17*time.Second {
		t.Fatalf("DNST must divide 17 s exactly")
	}
	key, err := shadowsocks.NewEncryptionKey(shadowsocks.CHACHA20IETFPOLY1305, "verif-secret")
	if err != nil {
		t.Fatal(err)
	}
	for bi, beh := range behs {
		synctest.Test(t, func(t *testing.T) {
			h := &vnHarness{w: w, unit: unit, start: time.Now(), addrTok: map[string]int{}, met: &vnMetrics{live: map[string]int{}},
				cc: &vnClientConn{}, connOf: map[int]*vnConn{}, key: key, replies: map[int]vnReply{}, saltTok: map[string]int{}, cliTok: map[string]int{}}
			for tok, a := range vnAddrs {
				h.addrTok[a.String()] = tok
			}
			for c := 1; c <= 4; c++ {
				h.cliTok[vnClientAddr(c).String()] = c
			}
			lg := noopLogger()
			if bi%2 == 1 { // debug logging enabled (-verbose)
				lg = slog.New(slog.NewTextHandler(io.Discard, &slog.HandlerOptions{Level: slog.LevelDebug}))
			}
			h.nm = newNATmap(time.Duration(cfg.T)*unit, h.met, lg)
			h.emit(map[string]any{"ev": "Reset", "beh": bi})
			shut := false
			// a TReplyMid right after a CDgram is delivered INSIDE that datagram's WriteTo; any other one is an ordinary reply
			var steps []vnStep
			for _, st := range beh {
				if st.A == "TReplyMid" {
					if n := len(steps); n > 0 && steps[n-1].A == "CDgram" && steps[n-1].Mid == 0 && steps[n-1].C == st.To {
						steps[n-1].Mid, steps[n-1].MidCls = st.Src, st.Cls
						continue
					}
					st.A = "TReply"
				}
				steps = append(steps, st)
			}
			inject := func(fc *vnConn, src int, cls string) int {
				h.nRp++
				sid := h.nRp
				payload := []byte(fmt.Sprintf("reply-%d", sid))
				if cls == "0" {
					payload = []byte{} // a zero-length datagram is a datagram: it must be relayed as an empty payload
				}
				fc.mu.Lock()
				nw := 0
				for _, o := range fc.ops {
					if o.op == "wr" {
						nw++
					}
				}
				fc.q = append(fc.q, vnDgram{data: payload, from: vnAddrs[src], tok: src})
				a := fc.a
				fc.mu.Unlock()
				h.replies[sid] = vnReply{a: a, src: src, payload: payload}
				h.emit(map[string]any{"ev": "SSend", "id": sid, "src": src, "a": a, "sz": len(payload), "rd": len(payload), "nw": nw, "fits": true, "t": h.units(time.Now())})
				fc.signal()
				return sid
			}
			for _, st := range steps {
				switch st.A {
				case "CDgram":
					ca := vnClientAddr(st.C)
					h.nDg++
					did := h.nDg
					payload := []byte{byte(did)}
					la := 0
					entry := h.nm.Get(ca.String())
					if entry != nil {
						la = entry.PacketConn.(*vnConn).a
					}
					h.emit(map[string]any{"ev": "CSend", "id": did, "c": st.C, "k": 1, "hdr": true, "dst": st.Dst, "sz": len(payload), "wire": 56, "la": la, "t": h.units(time.Now())})
					// udp.go:165-206: Get, (Add), WriteTo, AddPacketFromClient
					if entry == nil {
						fc := &vnConn{h: h, wake: make(chan struct{}, 1)}
						h.conns = append(h.conns, fc)
						entry = h.nm.Add(ca, h.cc, key, fc, "key-1")
						fc.mu.Lock()
						fc.a = entry.metrics.(*vnConnMetrics).a
						fc.mu.Unlock()
					}
					midSid := 0
					fc := entry.PacketConn.(*vnConn)
					if st.Mid != 0 {
						fc.mu.Lock()
						seen := false // nobody knows the source port before the association's first datagram has left
						for _, o := range fc.ops {
							if o.op == "wr" {
								seen = true
							}
						}
						fc.mu.Unlock()
						if !seen {
							st.Mid = 0
						}
					}
					if st.Mid != 0 {
						fc.mu.Lock()
						fc.gate = func() {
							// (no synctest.Wait here: the caller may hold a lock of the code under test; yield until the
							// association's goroutine has reported the datagram, or give up after a bounded number of yields)
							before := h.countPktT()
							midSid = inject(fc, st.Mid, st.MidCls)
							for i := 0; i < 20000 && h.countPktT() == before; i++ {
								runtime.Gosched()
							}
						}
						fc.mu.Unlock()
					}
					n, werr := entry.WriteTo(payload, vnAddrs[st.Dst])
					status := "OK"
					if werr != nil {
						status = "ERR_WRITE"
					}
					entry.metrics.AddPacketFromClient(status, 56, int64(n))
					if st.Mid != 0 {
						fc.mu.Lock()
						pending := fc.gate != nil
						fc.gate = nil
						closed := fc.closed
						fc.mu.Unlock()
						if pending && !closed { // onWrite did not move the deadline: the datagram simply arrives after the write
							midSid = inject(fc, st.Mid, st.MidCls)
						}
					}
					h.flush(did, midSid)
				case "TReply":
					fc := h.liveConn(st.To)
					if fc == nil {
						continue
					}
					sid := inject(fc, st.Src, st.Cls)
					h.flush(0, sid)
				case "Tick":
					time.Sleep(time.Duration(st.D) * unit)
					h.flush(0, 0)
				case "Shutdown":
					shut = true
				}
				if shut {
					break
				}
			}
			// natmap.Close (what Handle's deferred call does), then everything must be reclaimed
			h.inClose = true
			h.nm.Close()
			h.inClose = false
			h.emit(map[string]any{"ev": "Closing"})
			h.flush(0, 0)
			open, dbl := 0, 0
			for _, c := range h.conns {
				c.mu.Lock()
				if !c.closed {
					open++
				}
				if c.nclose > 1 {
					dbl++
				}
				c.mu.Unlock()
			}
			h.nm.RLock()
			ml := len(h.nm.keyConn)
			h.nm.RUnlock()
			h.emit(map[string]any{"ev": "EndV", "beh": bi, "mapLen": ml, "open": open, "doubleClose": dbl, "conns": len(h.conns), "virtualMs": int(time.Since(h.start) / time.Millisecond)})
			// leave no goroutine behind in the bubble (a tree whose natmap.Close does not expire everything would
			// otherwise turn into a harness failure instead of the verdict recorded above)
			time.Sleep(time.Duration(cfg.DNST+cfg.T+1) * unit)
			synctest.Wait()
			for _, c := range h.conns {
				c.SetReadDeadline(time.Now())
			}
			synctest.Wait()
		})
	}
}
