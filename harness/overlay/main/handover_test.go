//go:build verif

// Hand-over harness (C11): clients placed before / inside / after the window of a reload (gate between start-new and
// stop-old), free-running hammer clients, and long-lived relays that must survive reloads.  Same file conventions as
// reload_test.go (package main via -overlay).
package main

import (
	"github.com/prometheus/client_golang/prometheus"
	"bytes"
	"encoding/json"
	"errors"
	"fmt"
	"io"
	"net"
	"os"
	"sync"
	"sync/atomic"
	"syscall"
	"testing"
	"time"

	"github.com/Jigsaw-Code/outline-sdk/transport/shadowsocks"
	"github.com/shadowsocks/go-shadowsocks2/socks"
)

type hoState struct {
	h       *vHarness
	m       *vMetrics
	started atomic.Int64 // loads started (LoadStart emitted)
	ended   atomic.Int64 // loads finished
}

// clientTCP performs one handshake on addr index a with key class cs and reports what happened.
func (s *hoState) clientTCP(a, cs int, tag string) {
	s0, e0 := s.started.Load(), s.ended.Load()
	e0b := e0
	if s0 < e0b { // cannot happen, defensive
		e0b = s0
	}
	k := vKeys[vClassKey[cs]]
	c, err := vDial(s.h.u.dialAddr(a))
	res, id, status := "", 0, ""
	opened, closed := 0, 0
	if err != nil {
		if errors.Is(err, syscall.ECONNREFUSED) {
			res = "refused"
		} else if errors.Is(err, syscall.ECONNRESET) {
			res = "refused" // accepted by the kernel, then reset because the listening socket was closed
			status = "reset"
		} else {
			res = "error"
			status = err.Error()
		}
	} else {
		me := c.LocalAddr().String()
		c.Write(vClientHello(k, "127.0.0.1:9", nil))
		c.(*net.TCPConn).CloseWrite()
		var rec *vTCPRec
		ok := s.m.waitFor(5*time.Second, func() bool { rec = s.m.tcp[me]; return rec != nil && rec.closed })
		// the connection must also be closed towards us
		c.SetReadDeadline(time.Now().Add(3 * time.Second))
		io.Copy(io.Discard, c)
		c.Close()
		if !ok {
			res = "unhandled"
		} else {
			time.Sleep(time.Millisecond) // a second report for the same connection would arrive about now
			s.m.mu.Lock()
			id, status, opened, closed = vIDNum[rec.authed], rec.status, rec.opened, rec.nclosed
			s.m.mu.Unlock()
			if id != 0 {
				res = "auth"
			} else {
				res = "noauth"
			}
		}
	}
	s1 := s.started.Load()
	s.h.emit(map[string]any{"ev": "Client", "proto": "tcp", "tag": tag, "a": a, "cs": cs, "res": res, "id": id, "status": status,
		"opened": opened, "closed": closed, "e0": e0, "s1": s1})
}

func (s *hoState) clientUDP(a, cs int, tag string) {
	e0 := s.ended.Load()
	k := vKeys[vClassKey[cs]]
	key, _ := shadowsocks.NewEncryptionKey(k.cipher, k.secret)
	c, err := vDialUDP(s.h.u.dialAddr(a))
	if err != nil {
		return
	}
	defer c.Close()
	me := c.LocalAddr().String()
	plain := append([]byte(socks.ParseAddr(s.h.sinkUDP.LocalAddr().String())), 'x')
	buf := make([]byte, len(plain)+key.SaltSize()+key.TagSize()+16)
	pkt, _ := shadowsocks.Pack(buf, plain, key)
	s.m.mu.Lock()
	before := s.m.udpSearch
	s.m.mu.Unlock()
	c.Write(pkt)
	res, id := "", 0
	// nobody holds the address: the kernel answers with ICMP port unreachable, which a connected UDP socket reports
	// as ECONNREFUSED on its next operation (the datagram analogue of "connection refused")
	c.SetReadDeadline(time.Now().Add(25 * time.Millisecond))
	_, rerr := c.Read(make([]byte, 16))
	if errors.Is(rerr, syscall.ECONNREFUSED) {
		res = "refused"
	} else if !s.m.waitFor(2*time.Second, func() bool { return s.m.udpSearch > before }) {
		res = "unprocessed"
	} else {
		s.m.mu.Lock()
		found := s.m.udpFound[before]
		n := s.m.udpSearch - before
		s.m.mu.Unlock()
		if found {
			s.m.waitFor(2*time.Second, func() bool { _, ok := s.m.nat[me]; return ok })
			s.m.mu.Lock()
			id = vIDNum[s.m.nat[me]]
			s.m.mu.Unlock()
			res = "auth"
		} else {
			res = "noauth"
		}
		_ = n
	}
	s1 := s.started.Load()
	s.h.emit(map[string]any{"ev": "Client", "proto": "udp", "tag": tag, "a": a, "cs": cs, "res": res, "id": id, "status": "",
		"opened": 1, "closed": 1, "e0": e0, "s1": s1})
}

// straddle: a connection made inside the hand-over window whose handshake bytes arrive only after the reload has
// completed.  Whichever generation accepted it must still authenticate a key that both configurations have.
type hoStraddle struct {
	a, cs int
	conn  net.Conn
	e0    int64
}

func (s *hoState) openStraddle(a, cs int) *hoStraddle {
	e0 := s.ended.Load()
	c, err := vDial(s.h.u.dialAddr(a))
	if err != nil {
		return nil // not listening (or refused): the window clients report that
	}
	return &hoStraddle{a: a, cs: cs, conn: c, e0: e0}
}

func (s *hoState) finishStraddle(st *hoStraddle) {
	if st == nil {
		return
	}
	k := vKeys[vClassKey[st.cs]]
	c := st.conn
	me := c.LocalAddr().String()
	c.Write(vClientHello(k, "127.0.0.1:9", nil))
	c.(*net.TCPConn).CloseWrite()
	var rec *vTCPRec
	ok := s.m.waitFor(5*time.Second, func() bool { rec = s.m.tcp[me]; return rec != nil && rec.closed })
	c.SetReadDeadline(time.Now().Add(3 * time.Second))
	io.Copy(io.Discard, c)
	c.Close()
	res, id, status, opened, closed := "unhandled", 0, "", 0, 0
	if ok {
		time.Sleep(time.Millisecond)
		s.m.mu.Lock()
		id, status, opened, closed = vIDNum[rec.authed], rec.status, rec.opened, rec.nclosed
		s.m.mu.Unlock()
		res = "noauth"
		if id != 0 {
			res = "auth"
		}
	}
	s.h.emit(map[string]any{"ev": "Client", "proto": "tcp", "tag": "straddle", "a": st.a, "cs": st.cs, "res": res, "id": id, "status": status,
		"opened": opened, "closed": closed, "e0": st.e0, "s1": s.started.Load()})
}

// ---- long-lived relays ---------------------------------------------------------------------------------------
type hoSink struct {
	ln      net.Listener
	mu      sync.Mutex
	release map[string]chan struct{} // by token
}

func newHoSink() (*hoSink, error) {
	ln, err := net.Listen("tcp", "192.0.2.2:0")
	if err != nil {
		return nil, err
	}
	sk := &hoSink{ln: ln, release: map[string]chan struct{}{}}
	go func() {
		for {
			c, err := ln.Accept()
			if err != nil {
				return
			}
			go sk.serve(c.(*net.TCPConn))
		}
	}()
	return sk, nil
}

// echo everything; the first 8 bytes are a token; on client EOF wait for the token's release, then send TAIL and close.
func (sk *hoSink) serve(c *net.TCPConn) {
	defer c.Close()
	tok := make([]byte, 8)
	if _, err := io.ReadFull(c, tok); err != nil {
		return
	}
	c.Write(tok)
	io.Copy(c, c)
	sk.mu.Lock()
	ch := sk.release[string(tok)]
	sk.mu.Unlock()
	if ch != nil {
		select {
		case <-ch:
		case <-time.After(20 * time.Second):
		}
	}
	c.Write([]byte("TAIL"))
	c.CloseWrite()
}

type hoRelay struct {
	kind  string
	a, cs int
	tok   string
	conn  *net.TCPConn
	r     io.Reader
	w     io.Writer
	me    string
	wg    sync.WaitGroup
	stop  chan struct{}
	werr  error
	total int64
	born  int64
	// echo reader of the mid-transfer relay
	rerr    error
	rdone   chan struct{}
	matched int64
	rest    []byte
}

func (s *hoState) openRelay(sk *hoSink, kind string, a, cs int, n int) *hoRelay {
	k := vKeys[vClassKey[cs]]
	key, _ := shadowsocks.NewEncryptionKey(k.cipher, k.secret)
	c, err := vDial(s.h.u.dialAddr(a))
	if err != nil {
		s.h.emit(map[string]any{"ev": "Relay", "kind": kind, "a": a, "cs": cs, "ok": false, "setup": true, "what": "dial: " + err.Error(), "born": s.ended.Load(), "s1": s.started.Load()})
		return nil
	}
	tok := fmt.Sprintf("T%07d", n)
	r := &hoRelay{kind: kind, a: a, cs: cs, tok: tok, conn: c.(*net.TCPConn), me: c.LocalAddr().String(), stop: make(chan struct{}), born: s.ended.Load()}
	sk.mu.Lock()
	sk.release[tok] = make(chan struct{})
	sk.mu.Unlock()
	r.w = shadowsocks.NewWriter(c, key)
	r.r = shadowsocks.NewReader(c, key)
	// address + token in the first chunk
	r.w.Write(append([]byte(socks.ParseAddr(sk.ln.Addr().String())), []byte(tok)...))
	got := make([]byte, 8)
	c.SetReadDeadline(time.Now().Add(5 * time.Second))
	if _, err := io.ReadFull(r.r, got); err != nil || string(got) != tok {
		s.h.emit(map[string]any{"ev": "Relay", "kind": kind, "a": a, "cs": cs, "ok": false, "setup": true, "what": fmt.Sprintf("setup echo: %v %q", err, got), "born": r.born, "s1": s.started.Load()})
		c.Close()
		return nil
	}
	c.SetReadDeadline(time.Time{})
	switch kind {
	case "mid":
		// keep transferring while the reload happens: a writer sends a known pattern, a reader consumes the echo
		// all the time (otherwise the socket buffers fill up and everybody blocks)
		r.wg.Add(1)
		go func() {
			defer r.wg.Done()
			chunk := bytes.Repeat([]byte("0123456789abcdef"), 256)
			for {
				select {
				case <-r.stop:
					return
				default:
				}
				if _, err := r.w.Write(chunk); err != nil {
					r.werr = err
					return
				}
				atomic.AddInt64(&r.total, int64(len(chunk)))
				time.Sleep(200 * time.Microsecond)
			}
		}()
		r.rdone = make(chan struct{})
		go func() {
			defer close(r.rdone)
			pat := []byte("0123456789abcdef")
			buf := make([]byte, 32<<10)
			for {
				n, err := r.r.Read(buf)
				for _, b := range buf[:n] {
					if len(r.rest) == 0 && b == pat[r.matched%16] {
						r.matched++
					} else if len(r.rest) < 64 {
						r.rest = append(r.rest, b)
					}
				}
				if err != nil {
					if err != io.EOF {
						r.rerr = err
					}
					return
				}
			}
		}()
	case "half":
		r.w.Write([]byte("x"))
		r.conn.CloseWrite()
	}
	return r
}

// finishRelay completes the relay after the reload(s) and reports whether every byte arrived and the connection
// ended normally with status OK.
func (s *hoState) finishRelay(sk *hoSink, r *hoRelay) {
	if r == nil {
		return
	}
	ok, what := true, ""
	fail := func(f string, a ...any) {
		if ok {
			ok = false
			what = fmt.Sprintf(f, a...)
		}
	}
	r.conn.SetReadDeadline(time.Now().Add(10 * time.Second))
	expectTail := func() {
		sk.mu.Lock()
		close(sk.release[r.tok])
		sk.mu.Unlock()
		rest, err := io.ReadAll(r.r)
		if err != nil {
			fail("reading tail: %v", err)
		} else if !bytes.HasSuffix(rest, []byte("TAIL")) {
			fail("tail missing: %q", rest[max(0, len(rest)-16):])
		}
	}
	switch r.kind {
	case "idle":
		r.w.Write([]byte("bye-after-reload"))
		got := make([]byte, 16)
		if _, err := io.ReadFull(r.r, got); err != nil || string(got) != "bye-after-reload" {
			fail("echo after reload: %v %q", err, got)
		}
		r.conn.CloseWrite()
		expectTail()
	case "mid":
		close(r.stop)
		r.wg.Wait()
		if r.werr != nil {
			fail("write during reload: %v", r.werr)
		}
		total := atomic.LoadInt64(&r.total)
		r.conn.CloseWrite()
		sk.mu.Lock()
		close(sk.release[r.tok])
		sk.mu.Unlock()
		select {
		case <-r.rdone:
		case <-time.After(15 * time.Second):
			fail("echo of %d bytes did not complete within 15s (got %d)", total, r.matched)
		}
		if ok {
			if r.rerr != nil {
				fail("reading the echo: %v", r.rerr)
			} else if r.matched != total || string(r.rest) != "TAIL" {
				fail("echo differs: sent %d pattern bytes, got %d then %q", total, r.matched, r.rest)
			}
		}
	case "half":
		got := make([]byte, 1)
		if _, err := io.ReadFull(r.r, got); err != nil || got[0] != 'x' {
			fail("echo of the byte sent before the half-close: %v", err)
		}
		expectTail()
	}
	r.conn.Close()
	var rec *vTCPRec
	if !s.m.waitFor(5*time.Second, func() bool { rec = s.m.tcp[r.me]; return rec != nil && rec.closed }) {
		fail("no AddClosed for the relay")
	} else {
		s.m.mu.Lock()
		st := rec.status
		s.m.mu.Unlock()
		if st != "OK" {
			fail("status %s", st)
		}
	}
	s.h.emit(map[string]any{"ev": "Relay", "kind": r.kind, "a": r.a, "cs": r.cs, "ok": ok, "setup": false, "what": what, "born": r.born, "s1": s.started.Load()})
}

func max(a, b int) int {
	if a > b {
		return a
	}
	return b
}

// listeners (tcp) and key classes of a configuration, computed by the harness only to decide WHERE to put relays and
// hammers; the verdict is TLC's.
func hoTCPKeys(c vCfg) map[int][]int {
	out := map[int][]int{}
	for _, s := range c.Svcs {
		for _, l := range s.Ls {
			if l[0].(string) == "tcp" {
				a := int(l[1].(float64))
				for _, k := range s.Ks {
					out[a] = append(out[a], k)
				}
			}
		}
	}
	for _, lk := range c.Legacy {
		out[lk[0]] = append(out[lk[0]], lk[1])
	}
	return out
}

var vKeyClass = map[int]int{1: 1, 2: 2, 3: 3, 4: 1, 6: 4, 7: 5, 8: 5}

// hoClasses: key classes per address for one protocol (again only to decide in which ORDER the clients go)
func hoClasses(c *vCfg, proto string) map[int]map[int]bool {
	out := map[int]map[int]bool{}
	if c == nil {
		return out
	}
	add := func(a, k int) {
		if out[a] == nil {
			out[a] = map[int]bool{}
		}
		if cs, ok := vKeyClass[k]; ok {
			out[a][cs] = true
		}
	}
	for _, s := range c.Svcs {
		for _, l := range s.Ls {
			if l[0].(string) == proto {
				for _, k := range s.Ks {
					add(int(l[1].(float64)), k)
				}
			}
		}
	}
	for _, lk := range c.Legacy {
		add(lk[0], lk[1])
	}
	return out
}

// hoOrder: the classes 1..n, those that the old and the new configuration serve differently on address a first.  The first
// connection/datagram after a stop is the one a stale reader of the stopped generation would take.
func hoOrder(old, new *vCfg, proto string, a, n int) []int {
	o, w := hoClasses(old, proto)[a], hoClasses(new, proto)[a]
	var first, rest []int
	for cs := 1; cs <= n; cs++ {
		if o[cs] != w[cs] {
			first = append(first, cs)
		} else {
			rest = append(rest, cs)
		}
	}
	return append(first, rest...)
}

func (h *vHarness) runHandover(sc vScenario, sk *hoSink) {
	m := newVMetrics()
	s := &hoState{h: h, m: m}
	h.emit(map[string]any{"ev": "Scenario", "id": sc.ID, "replay": sc.Replay})
	vSetLogging(sc.ID / 2) // scenarios alternate gated/hammer by id: both kinds get both logging levels
	server := h.newServer(m, sc.Replay)
	if server == nil {
		return
	}
	nrelay := sc.ID * 1000
	var cur *vCfg
	// hammer: free-running clients on every tcp address x class, judged by TLC with the configurations live during each op
	stopHammer := make(chan struct{})
	var hw sync.WaitGroup
	if sc.Mode == "hammer" {
		// a scraper: the server-level collector is read the whole time, as the metrics endpoint does
		hw.Add(1)
		go func(sm *serverMetrics) {
			defer hw.Done()
			for {
				select {
				case <-stopHammer:
					return
				default:
				}
				ch := make(chan prometheus.Metric, 16)
				sm.Collect(ch)
				close(ch)
				for range ch {
				}
				time.Sleep(200 * time.Microsecond)
			}
		}(h.srvMetrics)
		for g := 0; g < 5; g++ {
			hw.Add(1)
			go func(g int) {
				defer hw.Done()
				i := g
				for {
					select {
					case <-stopHammer:
						return
					default:
					}
					a := 1 + i%len(h.u.ports)
					cs := 1 + (i/len(h.u.ports))%len(vClassKey)
					if g == 4 {
						s.clientUDP(a, cs, "hammer")
					} else {
						s.clientTCP(a, cs, "hammer")
					}
					i += 5
					time.Sleep(300 * time.Microsecond)
				}
			}(g)
		}
	}
	stuck := false
	var carried []*hoRelay // relays kept across more than one reload
	var straddles []*hoStraddle
	steps := sc.Steps
	vFill = 0
	if sc.Mode == "hammer" {
		vFill = 1500
		defer func() { vFill = 0 }()
		// free-running clients see more reloads: the sequence of configurations is cycled
		for c := 0; c < 4; c++ {
			steps = append(steps, sc.Steps...)
		}
	}
	for i, st := range steps {
		if st.A != "Load" {
			continue
		}
		f := h.writeConfig(st.Cfg, i)
		// relays on the configuration that is live now
		var relays []*hoRelay
		if cur != nil && sk != nil {
			n := 0
			for a, ks := range hoTCPKeys(*cur) {
				for j, kind := range []string{"idle", "mid", "half"} {
					if cs, ok := vKeyClass[ks[(j+n)%len(ks)]]; ok {
						nrelay++
						relays = append(relays, s.openRelay(sk, kind, a, cs, nrelay))
					}
				}
				n++
			}
		}
		gateHit := make(chan string)
		gateGo := make(chan struct{})
		endedEarly := false
		if sc.Mode == "gated" || sc.Mode == "" {
			verifReloadGate = func(stage string) { gateHit <- stage; <-gateGo }
		} else {
			verifReloadGate = nil
		}
		h.emit(map[string]any{"ev": "LoadStart", "n": s.started.Load() + 1, "cfg": vCfgJSON(st.Cfg)})
		s.started.Add(1)
		done := make(chan error, 1)
		if sc.Mode == "sighup2" {
			// the reload is requested the way an operator does: the server's own file is rewritten and the process gets
			// SIGHUP - twice in a row.  Reloads that reach the hand-over window wait there together for a moment; every
			// reload that started a new generation must also stop the old one and finish.
			os.WriteFile(h.serverCfg, []byte(h.u.yaml(st.Cfg)), 0o600)
			var gmu sync.Mutex
			nStarted, nStopped := 0, 0
			release := make(chan struct{})
			verifReloadGate = func(stage string) {
				if stage == "started" {
					gmu.Lock()
					nStarted++
					gmu.Unlock()
					<-release
				} else if stage == "stopped" {
					gmu.Lock()
					nStopped++
					gmu.Unlock()
				}
			}
			counts := func() (int, int) {
				gmu.Lock()
				defer gmu.Unlock()
				return nStarted, nStopped
			}
			// the second SIGHUP comes right after the first, or (every second reload) while the first reload is known to be
			// running: it is sent once that reload sits in the hand-over window
			early := s.started.Load()%2 == 0
			syscall.Kill(os.Getpid(), syscall.SIGHUP)
			if early {
				time.Sleep(time.Duration(s.started.Load()%3) * 500 * time.Microsecond)
				syscall.Kill(os.Getpid(), syscall.SIGHUP)
			}
			t0 := time.Now()
			for a, _ := counts(); a < 1 && time.Since(t0) < 10*time.Second; a, _ = counts() {
				time.Sleep(time.Millisecond)
			}
			if !early {
				syscall.Kill(os.Getpid(), syscall.SIGHUP)
			}
			time.Sleep(250 * time.Millisecond) // a second reload running at the same time arrives in the window too
			close(release)
			var err error
			stable := time.Now()
			la, lb := -1, -1
			for {
				a, b := counts()
				if a != la || b != lb {
					la, lb, stable = a, b, time.Now()
				}
				if a >= 1 && a == b && time.Since(stable) > 500*time.Millisecond {
					break
				}
				if time.Since(t0) > 12*time.Second {
					err = fmt.Errorf("%d reload(s) started a new generation, only %d stopped the old one and finished", a, b)
					break
				}
				time.Sleep(2 * time.Millisecond)
			}
			h.emit(map[string]any{"ev": "Window", "stage": "sighup2", "started": la, "stopped": lb})
			done <- err
			if err != nil {
				stuck = true
			}
		} else {
			go func() { done <- server.loadConfig(f) }()
		}
		if sc.Mode == "gated" || sc.Mode == "" {
			for stage := 0; stage < 2; stage++ {
				select {
				case name := <-gateHit:
					h.emit(map[string]any{"ev": "Window", "stage": name})
					if name == "stopped" && !endedEarly {
						// Stop(old) has returned: from here on only the new generation may handle anything
						endedEarly = true
						s.ended.Add(1)
					}
					if name == "started" {
						for a := 1; a <= len(h.u.ports); a++ {
							for cs := 1; cs <= len(vClassKey); cs++ {
								straddles = append(straddles, s.openStraddle(a, cs))
							}
						}
					}
					for a := 1; a <= len(h.u.ports); a++ {
						next := st.Cfg
						tcpOrd := hoOrder(cur, &next, "tcp", a, len(vClassKey))
						udpOrd := hoOrder(cur, &next, "udp", a, len(vClassKey))
						for j := range tcpOrd {
							s.clientTCP(a, tcpOrd[j], "window-"+name)
							s.clientUDP(a, udpOrd[j], "window-"+name)
						}
						// two generations reading from one socket tend to take datagrams in turn: vary the parity, so that
						// whichever of them has a read pending when the old one is stopped is not always the same
						if name == "started" && (int(s.started.Load())+a)%2 == 1 {
							s.clientUDP(a, udpOrd[len(udpOrd)-1], "window-"+name)
						}
					}
					gateGo <- struct{}{}
				case err := <-done:
					done <- err
					stage = 2
				}
			}
		}
		err := <-done
		verifReloadGate = nil
		for _, st := range straddles {
			s.finishStraddle(st)
		}
		straddles = nil
		if !endedEarly {
			s.ended.Add(1)
		}
		h.emit(map[string]any{"ev": "LoadEnd", "n": s.ended.Load(), "ok": err == nil, "err": fmt.Sprint(err)})
		if err == nil {
			c := st.Cfg
			cur = &c
		}
		// idle phase after the reload: the full matrix
		if sc.Mode != "hammer" {
			for a := 1; a <= len(h.u.ports); a++ {
				for cs := 1; cs <= len(vClassKey); cs++ {
					s.clientTCP(a, cs, "after")
					s.clientUDP(a, cs, "after")
				}
			}
		} else {
			time.Sleep(15 * time.Millisecond)
		}
		// relays opened before this reload: every second one is carried over one more reload
		for _, r := range carried {
			s.finishRelay(sk, r)
		}
		carried = nil
		for j, r := range relays {
			if j%2 == 1 && i+1 < len(steps) {
				carried = append(carried, r)
			} else {
				s.finishRelay(sk, r)
			}
		}
	}
	for _, r := range carried {
		s.finishRelay(sk, r)
	}
	close(stopHammer)
	hw.Wait()
	if stuck {
		return // a reload of this server never finished: its Stop would not return either
	}
	server.Stop()
}

func TestVerifHandover(t *testing.T) {
	in, out := os.Getenv("VERIF_IN"), os.Getenv("VERIF_OUT")
	if in == "" || out == "" {
		t.Skip("VERIF_IN / VERIF_OUT not set")
	}
	var inp vInput
	b, err := os.ReadFile(in)
	if err != nil {
		t.Fatal(err)
	}
	if err := json.Unmarshal(b, &inp); err != nil {
		t.Fatal(err)
	}
	f, err := os.Create(out)
	if err != nil {
		t.Fatal(err)
	}
	defer f.Close()
	h := &vHarness{t: t, u: vUniverse{inp.Ports}, out: json.NewEncoder(f), dir: t.TempDir()}
	h.sinkUDP, err = net.ListenPacket("udp", "192.0.2.2:0")
	if err != nil {
		h.sinkUDP, _ = net.ListenPacket("udp", "127.0.0.1:0")
	}
	defer h.sinkUDP.Close()
	sk, err := newHoSink()
	if err != nil {
		h.emit(map[string]any{"ev": "NoSink", "what": err.Error()})
		sk = nil
	}
	for _, sc := range inp.Scenarios {
		if len(sc.Ports) > 0 {
			h.u = vUniverse{sc.Ports}
		}
		h.runHandover(sc, sk)
	}
	h.emit(map[string]any{"ev": "Done"})
}
