// In-package conformance harness for cmd/outline-ss-server (spec/Reload.tla; properties C09, C10, C11, C07 system level).
// Added to package main with `go test -overlay`; nothing in the repository is replaced.
//
// Input  ($VERIF_IN):  {"ports":[p1..p5], "scenarios":[{"id":n, "replay":N, "steps":[...]}]}
// Output ($VERIF_OUT): NDJSON trace of what the real server did; TLC (ReloadTrace) judges it.
package main

import (
	"os/signal"
	"log/slog"
	"bytes"
	"encoding/json"
	"errors"
	"fmt"
	"io"
	"net"
	"os"
	"path/filepath"
	"runtime"
	"strings"
	"sync"
	"syscall"
	"testing"
	"time"

	"github.com/Jigsaw-Code/outline-sdk/transport/shadowsocks"
	"github.com/Jigsaw-Code/outline-ss-server/service"
	"github.com/Jigsaw-Code/outline-ss-server/service/metrics"
	"github.com/shadowsocks/go-shadowsocks2/socks"
)

// ---- universe --------------------------------------------------------------------------------------------
type vKey struct{ id, cipher, secret string }

var vKeys = map[int]vKey{
	1: {"id1", "chacha20-ietf-poly1305", "secret-one"},
	2: {"id2", "aes-128-gcm", "secret-two"},
	3: {"id3", "aes-256-gcm", "secret-three"},
	4: {"id4", "chacha20-ietf-poly1305", "secret-one"}, // same cipher+secret as key 1
	5: {"id5", "bogus-cipher-9000", "secret-five"},     // unusable cipher
	6: {"id6", "aes-192-gcm", "secret-four"},
	7: {"id7", "aes-256-gcm", "secret-one"}, // the secret of key 1 under another cipher: a different key
	8: {"id1", "aes-256-gcm", "secret-one"}, // key 1 (same id, same secret) under another cipher: what a reload that changes a key's cipher loads
}

// cipher+secret classes -> representative key
var vClassKey = map[int]int{1: 1, 2: 2, 3: 3, 4: 6, 5: 7}
var vIDNum = map[string]int{"id1": 1, "id2": 2, "id3": 3, "id4": 4, "id5": 5, "id6": 6, "id7": 7}

type vUniverse struct{ ports []int }

func (u vUniverse) cfgAddr(a int) string { // address as written in the configuration
	switch a {
	case 11: // host is not an IP
		return fmt.Sprintf("localhost:%d", u.ports[0])
	case 12: // no port
		return "127.0.0.1"
	case 13: // empty host
		return fmt.Sprintf(":%d", u.ports[1])
	case 14: // the wildcard address of legacy port 4, spelled as an IPv4 address
		return fmt.Sprintf("0.0.0.0:%d", u.ports[3])
	case 15: // ... and as an IPv6 address
		return fmt.Sprintf("[::]:%d", u.ports[3])
	}
	return fmt.Sprintf("127.0.0.1:%d", u.ports[a-1])
}
func (u vUniverse) dialAddr(a int) string { return fmt.Sprintf("127.0.0.1:%d", u.ports[a-1]) }

type vSvc struct {
	Ks []int           `json:"ks"`
	Ls [][]interface{} `json:"ls"`
}
type vCfg struct {
	Kind   string  `json:"kind"`
	Legacy [][]int `json:"legacy"`
	Svcs   []vSvc  `json:"svcs"`
}
type vStep struct {
	A       string          `json:"a"`
	Cfg     vCfg            `json:"cfg"`
	Frn     [][]interface{} `json:"frn"`
	Ok      bool            `json:"ok"`
	Gate    string          `json:"gate"` // C11: "", "window"
	Clients []vClient       `json:"clients"`
}
type vClient struct {
	Phase string `json:"phase"` // before | window | after
	Addr  int    `json:"addr"`
	Key   int    `json:"key"`
	Kind  string `json:"kind"` // handshake | relay-idle | relay-mid | relay-half
}
type vScenario struct {
	Ports  []int   `json:"ports"`
	ID     int     `json:"id"`
	Replay int     `json:"replay"`
	Mode   string  `json:"mode"`
	Steps  []vStep `json:"steps"`
}
type vInput struct {
	Ports     []int       `json:"ports"`
	Scenarios []vScenario `json:"scenarios"`
}

// vFill: number of filler keys appended to every service (hammer scenarios of the hand-over harness)
var vFill = 0

func (u vUniverse) yaml(c vCfg) string {
	var b strings.Builder
	if len(c.Legacy) > 0 {
		b.WriteString("keys:\n")
		for _, lk := range c.Legacy {
			k := vKeys[lk[1]]
			fmt.Fprintf(&b, "  - id: %s\n    port: %d\n    cipher: %s\n    secret: %s\n", k.id, u.ports[lk[0]-1], k.cipher, k.secret)
		}
	}
	if len(c.Svcs) > 0 {
		b.WriteString("services:\n")
		for _, s := range c.Svcs {
			b.WriteString("  - listeners:\n")
			for _, l := range s.Ls {
				fmt.Fprintf(&b, "      - type: %s\n        address: \"%s\"\n", l[0].(string), u.cfgAddr(int(l[1].(float64))))
			}
			b.WriteString("    keys:\n")
			for _, ki := range s.Ks {
				k := vKeys[ki]
				fmt.Fprintf(&b, "      - id: %s\n        cipher: %s\n        secret: %s\n", k.id, k.cipher, k.secret)
			}
			// filler keys nobody uses: they only make building the key list of a service take noticeable time
			for i := 0; i < vFill; i++ {
				fmt.Fprintf(&b, "      - id: filler-%d\n        cipher: chacha20-ietf-poly1305\n        secret: filler-secret-%d\n", i, i)
			}
		}
	}
	return b.String()
}

// ---- recording metrics -------------------------------------------------------------------------------------
type vTCPRec struct {
	m       *vMetrics
	remote  string
	local   string
	authed  string
	status  string
	closed  bool
	opened  int
	nclosed int
}

func (r *vTCPRec) AddAuthenticated(accessKey string) {
	r.m.mu.Lock()
	r.authed = accessKey
	r.m.mu.Unlock()
}
func (r *vTCPRec) AddClosed(status string, data metrics.ProxyMetrics, duration time.Duration) {
	r.m.mu.Lock()
	r.status = status
	r.closed = true
	r.nclosed++
	r.m.cond.Broadcast()
	r.m.mu.Unlock()
}
func (r *vTCPRec) AddProbe(status, drainResult string, clientProxyBytes int64) {}

type vUDPRec struct {
	m      *vMetrics
	client string
}

func (vUDPRec) AddPacketFromClient(status string, clientProxyBytes, proxyTargetBytes int64) {}
func (vUDPRec) AddPacketFromTarget(status string, targetProxyBytes, proxyClientBytes int64) {}
func (r vUDPRec) RemoveNatEntry() {
	r.m.mu.Lock()
	r.m.natGone[r.client] = time.Now()
	r.m.cond.Broadcast()
	r.m.mu.Unlock()
}

type vMetrics struct {
	mu        sync.Mutex
	cond      *sync.Cond
	tcp       map[string]*vTCPRec // by client address (remote of the server side)
	nat       map[string]string   // client address -> key id
	natGone   map[string]time.Time // client address -> when the association was reported removed
	udpSearch int
	udpFound  []bool
}

func newVMetrics() *vMetrics {
	m := &vMetrics{tcp: map[string]*vTCPRec{}, nat: map[string]string{}, natGone: map[string]time.Time{}}
	m.cond = sync.NewCond(&m.mu)
	return m
}
func (m *vMetrics) AddOpenTCPConnection(conn net.Conn) service.TCPConnMetrics {
	m.mu.Lock()
	defer m.mu.Unlock()
	key := conn.RemoteAddr().String()
	r := m.tcp[key]
	if r == nil {
		r = &vTCPRec{m: m, remote: key, local: conn.LocalAddr().String()}
		m.tcp[key] = r
	}
	r.opened++
	return r
}
func (m *vMetrics) AddUDPNatEntry(clientAddr net.Addr, accessKey string) service.UDPConnMetrics {
	m.mu.Lock()
	m.nat[clientAddr.String()] = accessKey
	m.cond.Broadcast()
	m.mu.Unlock()
	return vUDPRec{m: m, client: clientAddr.String()}
}
func (m *vMetrics) AddCipherSearch(proto string, accessKeyFound bool, timeToCipher time.Duration) {
	if proto == "udp" {
		m.mu.Lock()
		m.udpSearch++
		m.udpFound = append(m.udpFound, accessKeyFound)
		m.cond.Broadcast()
		m.mu.Unlock()
	}
}

// waitFor waits until pred (evaluated under the lock) holds or the timeout expires.
func (m *vMetrics) waitFor(d time.Duration, pred func() bool) bool {
	deadline := time.Now().Add(d)
	m.mu.Lock()
	defer m.mu.Unlock()
	for !pred() {
		if time.Now().After(deadline) {
			return false
		}
		m.mu.Unlock()
		time.Sleep(time.Millisecond)
		m.mu.Lock()
	}
	return true
}

// ---- the harness ---------------------------------------------------------------------------------------------
type vHarness struct {
	t       *testing.T
	u       vUniverse
	out     *json.Encoder
	outMu   sync.Mutex
	dir     string
	sinkTCP net.Listener
	sinkUDP net.PacketConn
	srvMetrics *serverMetrics // the server-level collector (keys / ports gauges) of the current scenario
	serverCfg string   // configuration file name given to RunOutlineServer
	nserver   int
	lastNat vNatProbe // the latest UDP probe (client address, instant it was sent)
	natLife bool      // mode "natlife": follow every authenticated UDP probe until its association is removed
}

func (h *vHarness) emit(ev map[string]any) {
	h.outMu.Lock()
	h.out.Encode(ev)
	h.outMu.Unlock()
}

func vClientHello(k vKey, target string, payload []byte) []byte {
	key, err := shadowsocks.NewEncryptionKey(k.cipher, k.secret)
	if err != nil {
		panic(err)
	}
	var buf bytes.Buffer
	w := shadowsocks.NewWriter(&buf, key)
	w.Write(append([]byte(socks.ParseAddr(target)), payload...))
	return buf.Bytes()
}

// vDial connects from a local port this process has never used before, so that the client address identifies
// the connection in the metrics records even if the kernel would recycle ephemeral ports.
var vNextPort = 33000 + (os.Getpid()*131)%20000
var vPortMu sync.Mutex

// vFreshPort: the next local port number nobody in this process has used yet (several client goroutines draw from it)
func vFreshPort() int {
	vPortMu.Lock()
	defer vPortMu.Unlock()
	vNextPort++
	if vNextPort > 60000 {
		vNextPort = 33000
	}
	return vNextPort
}

// vJumpPorts moves the port counter to another region
func vJumpPorts() {
	vPortMu.Lock()
	vNextPort = 33000 + (vNextPort-33000+3571)%27000
	vPortMu.Unlock()
}

// vReuseAddr: a local port that another process left in TIME_WAIT may be bound (this process still never uses a port twice)
func vReuseAddr(network, address string, c syscall.RawConn) error {
	var serr error
	c.Control(func(fd uintptr) { serr = syscall.SetsockoptInt(int(fd), syscall.SOL_SOCKET, syscall.SO_REUSEADDR, 1) })
	return serr
}

func vDial(addr string) (net.Conn, error) {
	var err error
	for i := 0; i < 200; i++ {
		if i%25 == 24 {
			vJumpPorts() // a whole run of ports is taken (another process works in this region): move on
		}
		d := net.Dialer{Timeout: 4 * time.Second, LocalAddr: &net.TCPAddr{IP: net.ParseIP("127.0.0.1"), Port: vFreshPort()}, Control: vReuseAddr}
		var c net.Conn
		c, err = d.Dial("tcp", addr)
		if err == nil || errors.Is(err, syscall.ECONNREFUSED) {
			return c, err
		}
		var ne net.Error
		if errors.As(err, &ne) && ne.Timeout() && i < 3 {
			continue // an overloaded machine: try again from another port
		}
		if !errors.Is(err, syscall.EADDRINUSE) && !errors.Is(err, syscall.EADDRNOTAVAIL) && !strings.Contains(err.Error(), "bind:") {
			return nil, err
		}
	}
	return nil, err
}

// vDialUDP: a connected UDP socket on a local port this process has never used before.  The server keys its
// associations by client address: a recycled ephemeral port would hit the association (and key) of an earlier probe.
func vDialUDP(addr string) (*net.UDPConn, error) {
	ra, err := net.ResolveUDPAddr("udp", addr)
	if err != nil {
		return nil, err
	}
	for i := 0; i < 200; i++ {
		c, e := net.DialUDP("udp", &net.UDPAddr{IP: net.ParseIP("127.0.0.1"), Port: vFreshPort()}, ra)
		if e == nil {
			return c, nil
		}
		err = e
	}
	return nil, err
}

// probeTCP: returns listening, authenticated id number (0 = not authenticated), status
func (h *vHarness) probeTCP(m *vMetrics, addr string, hello []byte) (bool, int, string, error) {
	c, err := vDial(addr)
	if err != nil {
		if errors.Is(err, syscall.ECONNREFUSED) {
			return false, 0, "", nil
		}
		return false, 0, "", err
	}
	defer c.Close()
	me := c.LocalAddr().String()
	c.Write(hello)
	c.(*net.TCPConn).CloseWrite()
	var rec *vTCPRec
	ok := m.waitFor(3*time.Second, func() bool { rec = m.tcp[me]; return rec != nil && rec.closed })
	if !ok {
		return true, 0, "", fmt.Errorf("no AddClosed for probe connection %s within 3s", me)
	}
	m.mu.Lock()
	defer m.mu.Unlock()
	return true, vIDNum[rec.authed], rec.status, nil
}

// vNatProbe: an authenticated UDP probe whose association the "natlife" mode follows until it is reported removed
type vNatProbe struct {
	client string
	sent   time.Time
}

func (h *vHarness) probeUDP(m *vMetrics, addr string, k vKey) (int, error) {
	key, _ := shadowsocks.NewEncryptionKey(k.cipher, k.secret)
	c, err := vDialUDP(addr)
	if err != nil {
		return 0, err
	}
	defer c.Close()
	me := c.LocalAddr().String()
	plain := append([]byte(socks.ParseAddr(h.sinkUDP.LocalAddr().String())), 'x')
	buf := make([]byte, len(plain)+key.SaltSize()+key.TagSize()+16)
	pkt, err := shadowsocks.Pack(buf, plain, key)
	if err != nil {
		return 0, err
	}
	m.mu.Lock()
	before := m.udpSearch
	m.mu.Unlock()
	sent := time.Now()
	c.Write(pkt)
	ok := m.waitFor(3*time.Second, func() bool { return m.udpSearch > before })
	if !ok {
		return 0, fmt.Errorf("datagram to %s was not processed within 3s", addr)
	}
	h.lastNat = vNatProbe{client: me, sent: sent}
	m.mu.Lock()
	found := m.udpFound[before]
	m.mu.Unlock()
	if !found {
		return 0, nil
	}
	// the key was found: the association is reported right after the cipher search (the destination is public)
	if !m.waitFor(3*time.Second, func() bool { _, ok := m.nat[me]; return ok }) {
		return 0, fmt.Errorf("datagram to %s authenticated but no association was reported within 3s", addr)
	}
	m.mu.Lock()
	defer m.mu.Unlock()
	return vIDNum[m.nat[me]], nil
}

func vHeld(proto, addr string) bool {
	if proto == "tcp" {
		l, err := net.Listen("tcp", addr)
		if err != nil {
			return true
		}
		l.Close()
		return false
	}
	l, err := net.ListenPacket("udp", addr)
	if err != nil {
		return true
	}
	l.Close()
	return false
}

func vRunners() int {
	buf := make([]byte, 1<<20)
	n := runtime.Stack(buf, true)
	return strings.Count(string(buf[:n]), ".(*OutlineServer).runConfig.func1()\n")
}

// probe measures the full (listener, key class) matrix of the universe.
func (h *vHarness) probe(m *vMetrics, tag string) {
	serving := [][]interface{}{}
	listening := [][]interface{}{}
	unhandled := [][]interface{}{}
	problems := []string{}
	var nats []vNatFollow
	for a := 1; a <= len(h.u.ports); a++ {
		addr := h.u.dialAddr(a)
		// TCP
		tcpListening := false
		for cs := 1; cs <= len(vClassKey); cs++ {
			k := vKeys[vClassKey[cs]]
			ln, id, _, err := h.probeTCP(m, addr, vClientHello(k, "127.0.0.1:9", nil))
			if err != nil && ln && strings.Contains(err.Error(), "no AddClosed") {
				// the kernel accepted the connection but the server never handled it: an observation, not a harness problem
				unhandled = append(unhandled, []interface{}{"tcp", a})
				tcpListening = true
				break
			}
			if err != nil {
				problems = append(problems, err.Error())
			}
			if !ln {
				break
			}
			tcpListening = true
			if id != 0 {
				serving = append(serving, []interface{}{"tcp", a, cs, id})
			}
		}
		if tcpListening {
			listening = append(listening, []interface{}{"tcp", a})
		}
		// UDP: listening = the address cannot be bound by us
		if vHeld("udp", addr) {
			listening = append(listening, []interface{}{"udp", a})
			for cs := 1; cs <= len(vClassKey); cs++ {
				id, err := h.probeUDP(m, addr, vKeys[vClassKey[cs]])
				if err != nil && strings.Contains(err.Error(), "was not processed") {
					// somebody holds the address but nobody reads from it: an observation about the server
					unhandled = append(unhandled, []interface{}{"udp", a})
					break
				}
				if err != nil {
					problems = append(problems, err.Error())
					continue
				}
				if id != 0 {
					serving = append(serving, []interface{}{"udp", a, cs, id})
					nats = append(nats, vNatFollow{a: a, cs: cs, p: h.lastNat})
				}
			}
		}
	}
	// C14 through the server's wiring: every association lives at least the configured timeout after the client's only
	// datagram and is reported removed within bounded time after that (whatever the format of the configuration)
	natlife := [][]interface{}{}
	if h.natLife {
		for _, n := range nats {
			var gone time.Time
			ok := m.waitFor(time.Until(n.p.sent.Add(vNatTimeout+vNatSlack+500*time.Millisecond)), func() bool {
				g, ok := m.natGone[n.p.client]
				gone = g
				return ok
			})
			ms := 999999
			if ok {
				ms = int(gone.Sub(n.p.sent) / time.Millisecond)
			}
			natlife = append(natlife, []interface{}{n.a, n.cs, ms})
		}
	}
	// let the goroutine of a stopped generation leave runConfig
	runners := vRunners()
	for i := 0; i < 50 && runners > 1; i++ {
		time.Sleep(2 * time.Millisecond)
		runners = vRunners()
	}
	h.emit(map[string]any{"ev": "Probe", "tag": tag, "serving": serving, "listening": listening, "runners": runners, "problems": problems, "unhandled": unhandled,
		"natlife": natlife, "natms": int(vNatTimeout / time.Millisecond), "natslack": int(vNatSlack / time.Millisecond)})
}

type vNatFollow struct {
	a, cs int
	p     vNatProbe
}

// the -udptimeout the server is started with, and how long after it an association may still be reported
const vNatTimeout = 150 * time.Millisecond
const vNatSlack = 3 * time.Second

// vCfgJSON: the configuration as the trace specification reads it (no JSON null for empty sequences)
func vCfgJSON(c vCfg) map[string]any {
	legacy := [][]int{}
	legacy = append(legacy, c.Legacy...)
	svcs := []map[string]any{}
	for _, s := range c.Svcs {
		ks := []int{}
		ks = append(ks, s.Ks...)
		ls := [][]interface{}{}
		ls = append(ls, s.Ls...)
		svcs = append(svcs, map[string]any{"ks": ks, "ls": ls})
	}
	return map[string]any{"kind": c.Kind, "legacy": legacy, "svcs": svcs}
}

func vFrn(f [][]interface{}) [][]interface{} {
	out := [][]interface{}{}
	return append(out, f...)
}

func (h *vHarness) writeConfig(c vCfg, n int) string {
	f := filepath.Join(h.dir, fmt.Sprintf("cfg-%d.yml", n))
	switch c.Kind {
	case "unreadable":
		return filepath.Join(h.dir, "does-not-exist", "cfg.yml")
	case "malformed":
		os.WriteFile(f, []byte("services: [ {listeners: \n  - !!binary |\n :::: not yaml\n\t- x"), 0o600)
	default:
		os.WriteFile(f, []byte(h.u.yaml(c)), 0o600)
	}
	return f
}

func (h *vHarness) holdForeign(frn [][]interface{}) []io.Closer {
	var cs []io.Closer
	for _, l := range frn {
		proto := l[0].(string)
		a := int(l[1].(float64))
		// a legacy port listens on all interfaces: hold the wildcard address
		addr := h.u.cfgAddr(a)
		if proto == "tcp" {
			if ln, err := net.Listen("tcp", addr); err == nil {
				cs = append(cs, ln)
			} else {
				h.emit(map[string]any{"ev": "ForeignFailed", "l": []interface{}{proto, a}, "what": err.Error()})
			}
		} else {
			if pc, err := net.ListenPacket("udp", addr); err == nil {
				cs = append(cs, pc)
			} else {
				h.emit(map[string]any{"ev": "ForeignFailed", "l": []interface{}{proto, a}, "what": err.Error()})
			}
		}
	}
	return cs
}

// newServer builds the server the way main() does: RunOutlineServer with a first configuration that has no services
// (the harness does not depend on the fields of OutlineServer).  That first load is part of the trace.
// vSetLogging: every second scenario runs with debug logging (what -verbose does): debug statements format errors and
// values that the default level never touches.  The output is discarded.
func vSetLogging(scenario int) {
	lvl := slog.LevelInfo
	if scenario%2 == 0 {
		lvl = slog.LevelDebug
	}
	slog.SetDefault(slog.New(slog.NewTextHandler(io.Discard, &slog.HandlerOptions{Level: lvl})))
}

func (h *vHarness) newServer(m *vMetrics, replay int) *OutlineServer {
	empty := vCfg{Kind: "ok"}
	h.nserver++
	f := filepath.Join(h.dir, fmt.Sprintf("server-%d.yml", h.nserver))
	h.serverCfg = f // the file the server's own SIGHUP handler reloads
	os.WriteFile(f, []byte("services: []\n"), 0o600)
	// every RunOutlineServer subscribes its server to SIGHUP for the life of the process: only the server of the current
	// scenario may react to the signals the harness sends
	signal.Reset(syscall.SIGHUP)
	h.srvMetrics = newPrometheusServerMetrics()
	server, err := RunOutlineServer(f, vNatTimeout, h.srvMetrics, m, replay)
	h.emit(map[string]any{"ev": "Load", "cfg": vCfgJSON(empty), "frn": vFrn(nil), "ok": err == nil, "err": fmt.Sprint(err)})
	if err != nil {
		return nil
	}
	return server
}

func (h *vHarness) runScenario(sc vScenario) {
	m := newVMetrics()
	h.emit(map[string]any{"ev": "Scenario", "id": sc.ID, "replay": sc.Replay})
	vSetLogging(sc.ID)
	server := h.newServer(m, sc.Replay)
	if server == nil {
		return
	}
	h.natLife = sc.Mode == "natlife"
	for i, st := range sc.Steps {
		switch st.A {
		case "Load":
			f := h.writeConfig(st.Cfg, i)
			held := h.holdForeign(st.Frn)
			err := server.loadConfig(f)
			for _, c := range held {
				c.Close()
			}
			h.emit(map[string]any{"ev": "Load", "cfg": vCfgJSON(st.Cfg), "frn": vFrn(st.Frn), "ok": err == nil, "err": fmt.Sprint(err)})
			if sc.Mode != "noprobe" { // probes are authenticated handshakes themselves: they would fill the replay history
				h.probe(m, "after-load")
			}
		case "Stopped":
			// part of the preceding successful Load in ungated mode
		case "Replay":
			h.replayStep(m, st)
		}
	}
	server.Stop()
	time.Sleep(10 * time.Millisecond)
	h.emit(map[string]any{"ev": "Load", "cfg": vCfgJSON(vCfg{Kind: "stop"}), "frn": [][]interface{}{}, "ok": true, "err": ""})
	if sc.Mode != "noprobe" {
		h.probe(m, "after-stop")
	}
}

// replayStep (C07 system level): present a handshake (fresh or a byte-identical copy of an earlier one) on a listener
var vRecorded = map[string][]byte{}

func (h *vHarness) replayStep(m *vMetrics, st vStep) {
	for _, c := range st.Clients {
		name := c.Kind // handshake name: same name = byte-identical copy
		k := vKeys[c.Key]
		hello, ok := vRecorded[name]
		if !ok {
			hello = vClientHello(k, "127.0.0.1:9", nil)
			vRecorded[name] = hello
		}
		ln, id, status, err := h.probeTCP(m, h.u.dialAddr(c.Addr), hello)
		h.emit(map[string]any{"ev": "Handshake", "name": name, "addr": c.Addr, "key": c.Key, "listening": ln, "id": id, "status": status, "err": fmt.Sprint(err)})
	}
}

func TestVerifReload(t *testing.T) {
	in, out := os.Getenv("VERIF_IN"), os.Getenv("VERIF_OUT")
	if in == "" || out == "" {
		t.Skip("VERIF_IN / VERIF_OUT not set")
	}
	var inp vInput
	b, err := os.ReadFile(in)
	if err != nil {
		t.Fatal(err)
	}
	if err := json.Unmarshal(b, &inp); err != nil {
		t.Fatal(err)
	}
	f, err := os.Create(out)
	if err != nil {
		t.Fatal(err)
	}
	defer f.Close()
	h := &vHarness{t: t, u: vUniverse{inp.Ports}, out: json.NewEncoder(f), dir: t.TempDir()}
	h.sinkUDP, err = net.ListenPacket("udp", "192.0.2.2:0")
	if err != nil {
		h.sinkUDP, _ = net.ListenPacket("udp", "127.0.0.1:0")
	}
	defer h.sinkUDP.Close()
	for _, sc := range inp.Scenarios {
		vRecorded = map[string][]byte{}
		if len(sc.Ports) > 0 {
			// every scenario has its own ports: whatever a broken server leaves behind cannot disturb the next one
			h.u = vUniverse{sc.Ports}
		}
		h.runScenario(sc)
	}
	h.emit(map[string]any{"ev": "Done"})
}
