// Package hx: small helpers shared by the conformance drivers (trace I/O, seeded randomness).
package hx

import (
	"bufio"
	"encoding/json"
	"fmt"
	"os"
	"sync"
)

// Trace is an NDJSON event sink. Emit is safe for concurrent use; events are written in call order.
type Trace struct {
	mu sync.Mutex
	w  *bufio.Writer
	f  *os.File
	N  int
}

func NewTrace(path string) *Trace {
	f, err := os.Create(path)
	if err != nil {
		Fatal("create trace: %v", err)
	}
	return &Trace{w: bufio.NewWriterSize(f, 1<<20), f: f}
}

func (t *Trace) Emit(ev map[string]any) {
	b, err := json.Marshal(ev)
	if err != nil {
		Fatal("marshal: %v", err)
	}
	t.mu.Lock()
	t.w.Write(b)
	t.w.WriteByte('\n')
	t.N++
	t.mu.Unlock()
}

func (t *Trace) Close() {
	t.mu.Lock()
	defer t.mu.Unlock()
	t.w.Flush()
	t.f.Close()
}

// Fatal reports a harness failure (never a property verdict): exit status 3.
func Fatal(format string, a ...any) {
	fmt.Fprintf(os.Stderr, "HARNESS-ERROR: "+format+"\n", a...)
	os.Exit(3)
}

func ReadJSON(path string, v any) {
	b, err := os.ReadFile(path)
	if err != nil {
		Fatal("read %s: %v", path, err)
	}
	if err := json.Unmarshal(b, v); err != nil {
		Fatal("parse %s: %v", path, err)
	}
}

func WriteJSON(path string, v any) {
	b, err := json.MarshalIndent(v, "", " ")
	if err != nil {
		Fatal("marshal: %v", err)
	}
	if err := os.WriteFile(path, b, 0o644); err != nil {
		Fatal("write %s: %v", path, err)
	}
}

// ReservePort makes a cross-process reservation of a port number (several checks may run on this machine at the
// same time): a lock file /tmp/verif-portlocks/<port> holding the owner's pid.  Stale reservations are taken over.
func ReservePort(p int) bool {
	dir := "/tmp/verif-portlocks"
	os.MkdirAll(dir, 0o755)
	f := fmt.Sprintf("%s/%d", dir, p)
	for attempt := 0; attempt < 2; attempt++ {
		fd, err := os.OpenFile(f, os.O_CREATE|os.O_EXCL|os.O_WRONLY, 0o644)
		if err == nil {
			fmt.Fprintf(fd, "%d", os.Getpid())
			fd.Close()
			reservedMu.Lock()
			reserved = append(reserved, f)
			reservedMu.Unlock()
			return true
		}
		b, _ := os.ReadFile(f)
		var pid int
		fmt.Sscanf(string(b), "%d", &pid)
		if pid > 0 {
			if proc, err := os.FindProcess(pid); err == nil && proc.Signal(syscallZero) == nil {
				return false // owner alive
			}
		}
		os.Remove(f)
	}
	return false
}

// ReleasePorts removes this process's reservations.
func ReleasePorts() {
	reservedMu.Lock()
	defer reservedMu.Unlock()
	for _, f := range reserved {
		os.Remove(f)
	}
	reserved = nil
}

var (
	reservedMu sync.Mutex
	reserved   []string
)
