// Package hx: small helpers shared by the conformance drivers (trace I/O, seeded randomness).
package hx

import (
	"bufio"
	"encoding/json"
	"fmt"
	"os"
	"sync"
)

// Trace is an NDJSON event sink. Emit is safe for concurrent use; events are written in call order.
type Trace struct {
	mu sync.Mutex
	w  *bufio.Writer
	f  *os.File
	N  int
}

func NewTrace(path string) *Trace {
	f, err := os.Create(path)
	if err != nil {
		Fatal("create trace: %v", err)
	}
	return &Trace{w: bufio.NewWriterSize(f, 1<<20), f: f}
}

func (t *Trace) Emit(ev map[string]any) {
	b, err := json.Marshal(ev)
	if err != nil {
		Fatal("marshal: %v", err)
	}
	t.mu.Lock()
	t.w.Write(b)
	t.w.WriteByte('\n')
	t.N++
	t.mu.Unlock()
}

func (t *Trace) Close() {
	t.mu.Lock()
	defer t.mu.Unlock()
	t.w.Flush()
	t.f.Close()
}

// Fatal reports a harness failure (never a property verdict): exit status 3.
func Fatal(format string, a ...any) {
	fmt.Fprintf(os.Stderr, "HARNESS-ERROR: "+format+"\n", a...)
	os.Exit(3)
}

func ReadJSON(path string, v any) {
	b, err := os.ReadFile(path)
	if err != nil {
		Fatal("read %s: %v", path, err)
	}
	if err := json.Unmarshal(b, v); err != nil {
		Fatal("parse %s: %v", path, err)
	}
}

func WriteJSON(path string, v any) {
	b, err := json.MarshalIndent(v, "", " ")
	if err != nil {
		Fatal("marshal: %v", err)
	}
	if err := os.WriteFile(path, b, 0o644); err != nil {
		Fatal("write %s: %v", path, err)
	}
}
