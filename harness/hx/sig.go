package hx

import "syscall"

var syscallZero = syscall.Signal(0)
