"""C05 - the proxy never sends traffic to non-public destinations (module AddrPolicy).

1. TLC exhaustive: AddrPolicy.tla - RequirePublicIP transcribed from net/private_net.go + the places where it is applied
   (tcp.go Control hook per resolved address, udp.go validatePacket in both branches) => NoPrivateContact, TableAgrees,
   status classes, for every block boundary / mapped form / destination encoding / short UDP association.
   Two NEGATIVE configurations (mechanism without 100.64/10; known-association branch not validating) must be refuted
   by TLC, otherwise the specification has lost its teeth (inconclusive).
2. spec -> code: TLC exports the block table, the decision list and all scenarios of the sandbox-executable scenario
   machine; harness/cmd/addrpolicy gives every listed address to the real onet.RequirePublicIP (4- and 16-byte form)
   and plays every scenario against the real stream / packet handlers with their DEFAULT dialer / validator (Shadowsocks
   client on loopback, sink sockets on 127.0.0.1, ::1, fd00::2, fe80::..%eth0, 192.0.2.2, fake DNS).  Every scenario
   runs twice: with the handlers' default logger and with a DEBUG-level logger (SetLogger; the binary's -verbose) - the
   logging level is an environment parameter of the specification that no decision may depend on.
3. code -> spec: the recorded decisions, sink contacts, metrics statuses are validated line by line by TLC
   (AddrPolicyTrace): property layer = verdict, mechanism layer = drift.
3b. concurrent stage (AddrPolicyConc.tla): two Handle loops on ONE packet handler as two processes that share nothing per
   datagram => ConcNoPrivateContact / ConcOwnDestination (exhaustive; the NEGATIVE configuration with the decoded target
   in one shared cell must be refuted); TLC generates the two loops' destination lists (-simulate), the driver runs one
   real NewPacketHandler (DEFAULT validator) behind two listeners / two Handle goroutines / two clients for ~2 s, and
   what the sinks received goes back to TLC as Conc / CSent events (kind "private-contact").
4. sweep: IPv4 per /24 (quick) or all 2^32 addresses (thorough), both byte forms, and IPv6 by prefix class x boundaries x
   seeded random fill, against the table TLC exported; candidates are confirmed by TLC before they become a verdict.
"""
import json, os, re
import vlib

ASSUME = [
    "the tables of special-purpose blocks in spec/AddrPolicy.tla (IANA IPv4/IPv6 special-purpose registries, multicast, "
    "240/4, 2000::/3 as the only allocated global unicast space) define MustReject / MustAccept; everything else in a "
    "special block is don't-care",
    "192.0.2.2 (eth0, TEST-NET-1: don't-care in the table) stands in for a reachable public destination in behavioural "
    "scenarios; truly public 8.8.8.8 / 2001:4860:4860::8888 are only checked for 'not rejected by status'",
    "contacts are observable only at the sink addresses; for forbidden destinations without a sink (10.0.0.1, "
    "100.64.0.1, ...) the ERR_ADDRESS_* status reported to the metrics is the observation",
    "UDP: a datagram is attributed to its position through the ShadowsocksConnMetrics.AddCipherSearch callback of the "
    "single-threaded handler loop; sinks are drained 300 ms after the last scenario",
    "concurrent stage: the two Handle goroutines interleave as the Go scheduler lets them (~2.5 s, tens of thousands of "
    "datagrams); only arrivals at the sinks are observations, the first 40 per (client, sink) are given to TLC",
    "TLC 1.8.0, the Json community module, the Go toolchain, the kernel's local delivery of TCP/UDP",
]

KIND_TEXT = {
    "private-contact": "a sink on a non-public address received traffic from the proxy",
    "private-not-rejected": "a destination whose every address is non-public was not refused with an ERR_ADDRESS_* status",
    "public-rejected": "a public destination was refused by the address policy",
    "table-not-rejected": "RequirePublicIP accepted an address the property forbids",
    "table-public-rejected": "RequirePublicIP rejected an ordinary public address",
}


def _unq(s):
    return json.loads(vlib._unescape(s))


def parse_print(r, tag):
    pat = re.compile(r'^<<"%s", "(.*)">>$' % tag)
    for ln in r.prints:
        m = pat.match(ln.strip())
        if m:
            return _unq(m.group(1))
    return None


def unmap(a):
    if len(a) == 8 and a[:5] == [0, 0, 0, 0, 0] and a[5] == 0xffff:
        return [a[6] >> 8, a[6] & 255, a[7] >> 8, a[7] & 255]
    return a


def block_of(table, a):
    """name of the block of the exported table the address falls in (reject blocks first) - for signatures only"""
    a = unmap(a)
    if len(a) not in (4, 8):
        return "nil"
    w = 8 if len(a) == 4 else 16
    blocks = table["v4"] if len(a) == 4 else table["v6"]
    val = 0
    for x in a:
        val = (val << w) | x
    bits = w * len(a)
    hit = None
    for b in blocks:
        base = 0
        for x in b["b"]:
            base = (base << w) | x
        if (val >> (bits - b["p"])) == (base >> (bits - b["p"])) if b["p"] else True:
            if b["c"] == "reject":
                return b["n"]
            hit = hit or b["n"]
    return hit or "public"


def fmt_addr(a):
    a = list(a)
    if len(a) == 4:
        return ".".join(map(str, a))
    if len(a) == 8:
        if a[:5] == [0] * 5 and a[5] == 0xffff:
            return "::ffff:" + fmt_addr(unmap(a))
        return ":".join("%x" % h for h in a)
    return "<nil>"


def fmt_dest(d):
    k = d.get("k")
    if k == "ip":
        return "atyp %d %s" % (d["t"], fmt_addr(d["a"]))
    if k == "lit":
        return 'atyp 3 name "%s%s"' % (fmt_addr(d["a"]), "%zone" if d.get("z") else "")
    if k == "empty":
        return "atyp 3 empty name"
    return 'atyp 3 hostname "%s"' % d.get("h")


def dedupe(behs):
    seen, out = set(), []
    for b in behs:
        b = [{k: v for k, v in s.items()} for s in b]
        k = json.dumps(b, sort_keys=True)
        if k not in seen:
            seen.add(k)
            out.append((k, b))
    out.sort(key=lambda kv: kv[0])
    return [b for _, b in out]


def scenario_around(rows, line):
    """(behaviour, trace slice) of the scenario that contains 1-based trace line `line`"""
    i = line - 1
    if rows[i]["ev"] in ("Dec", "Orphan", "Conc", "CSent"):
        return None, [rows[i]]
    start = i
    while start > 0 and rows[start]["ev"] not in ("Tcp", "Udp"):
        start -= 1
    end = i + 1
    while end < len(rows) and rows[end]["ev"] not in ("Tcp", "Udp", "Dec", "Orphan", "Conc", "CSent"):
        end += 1
    sl = rows[start:end]
    beh = []
    log = sl[0].get("log", "info")
    for r in sl:
        if r["ev"] == "Tcp":
            beh.append({"a": "Tcp", "log": log, "d": r["d"], "ans": r["ans"]})
        elif r["ev"] == "Pkt":
            beh.append({"a": "Pkt", "log": log, "pos": r["pos"], "d": r["d"], "ans": r["ans"]})
    return beh, sl


def validate(ctx, table, trace_path, desc, timeout=1800):
    """AddrPolicyTrace over the recorded trace; property-layer failures become violations, mechanism-layer ones drift."""
    rows = vlib.read_ndjson(trace_path)
    ok, r = vlib.validate_traces(ctx, "AddrPolicyTrace", "AddrPolicyTrace.cfg", trace_path, timeout=timeout)
    res = parse_print(r, "RESULT")
    if res is None or not ok or res["lines"] != len(rows):
        raise vlib.Inconclusive("trace validation did not consume the whole trace (%s): %s %s" % (
            desc, r.violated or "", "\n".join(r.out.splitlines()[-15:])))
    ctx.cov["traces_validated_against_impl"] += res["nscn"]
    ctx.cov.setdefault("trace_events", 0)
    ctx.cov["trace_events"] += res["lines"]
    for line in res["drifts"][:5]:
        _, sl = scenario_around(rows, line)
        ctx.notes.append("drift (%s, trace line %d): observation is not an outcome of the mechanism layer: %s" % (
            desc, line, json.dumps(sl)[:600]))
    if res["drifts"]:
        ctx.cov["drift"] += len(res["drifts"])
    groups = {}
    for line, kind in res["viols"]:
        row = rows[line - 1]
        beh, sl = scenario_around(rows, line)
        if row["ev"] == "Dec":
            where = "RequirePublicIP:%s:form%d" % (block_of(table, row["a"]), row["form"])
            what = "%s: RequirePublicIP(%s, %d-byte form) returned %s" % (
                KIND_TEXT[kind], fmt_addr(row["a"]), row["form"], row["status"])
            rep = {"kind": "table", "addrs": [{"a": row["a"], "cls": "?"}], "trace": sl}
        elif row["ev"] == "CSent":
            d = row["d"]
            where = "udp+concurrent-loops:%s/t%s:%s->%s" % (d.get("k"), d.get("t"), block_of(table, d.get("a")),
                                                           block_of(table, row["a"]))
            what = ("%s: two Handle loops on ONE packet handler (one per listener, default validator): datagram %d of "
                    "client %d, intended for %s (%s), arrived at the sink on %s (%s)" % (
                        KIND_TEXT[kind], row["seq"], row["loop"], fmt_dest(d), block_of(table, d.get("a")),
                        fmt_addr(row["a"]), block_of(table, row["a"])))
            rep = {"kind": "conc", "trace": [row]}
        elif row["ev"] == "Orphan":
            where = "unattributed:%s" % block_of(table, row["a"])
            what = "%s: sink %s saw traffic that carries no scenario token" % (KIND_TEXT[kind], fmt_addr(row["a"]))
            rep = {"kind": "orphan", "trace": sl}
        else:
            first = sl[0]
            proto = "tcp" if first["ev"] == "Tcp" else "udp"
            if proto == "tcp":
                d = first["d"]
                pos_cls = ""
            else:
                pk = [x for x in sl if x["ev"] == "Pkt" and x["pos"] == row.get("pos")]
                d = pk[0]["d"] if pk else {}
                pos_cls = "pos1:" if row.get("pos") == 1 else "pos>1:"
            tgt = row["a"] if "a" in row and row["ev"] in ("Contact", "Sent") else (
                d.get("a") if d.get("k") in ("ip", "lit") else [])
            dbg = first.get("log") == "debug"
            where = "%s%s:%s%s/t%s:%s" % (proto, "+debuglog" if dbg else "", pos_cls, d.get("k"), d.get("t"),
                                          block_of(table, tgt) if tgt else d.get("h") or "empty")
            what = "%s: %s request%s for %s%s -> %s" % (
                KIND_TEXT[kind], proto.upper(), " (handler logger at DEBUG level)" if dbg else "",
                fmt_dest(d) if d else "?",
                (" (datagram %d of the association)" % row["pos"]) if proto == "udp" else "",
                json.dumps({k: v for k, v in row.items() if k not in ("id",)}))
            rep = {"kind": "scenario", "behaviour": beh, "trace": sl}
        g = groups.setdefault((kind, where), {"what": what, "rep": rep, "n": 0})
        g["n"] += 1
    # one VIOLATION per signature class (kind x call site / encoding / block), with the first instance as replay
    for (kind, where), g in groups.items():
        more = " (+%d more of this class)" % (g["n"] - 1) if g["n"] > 1 else ""
        ctx.violation({"module": "AddrPolicy", "kind": kind, "where": where}, "%s%s [%s]" % (g["what"], more, desc),
                      g["rep"])
    return res


def run_driver(ctx, drv, args, what, timeout=900):
    rc, out, err = vlib.run([drv] + args, env=vlib.goenv(), timeout=timeout)
    if rc != 0:
        raise vlib.Inconclusive("addrpolicy %s failed (rc=%d): %s" % (what, rc, (err or out)[-2000:]))


def conc_stage(ctx, drv, table, tf, design=True):
    """two Handle loops on one packet handler: AddrPolicyConc (design + negative control), generated destination lists,
    the real handler behind two listeners, verdict by AddrPolicyTrace (Conc / CSent)"""
    if design:
        r = vlib.tlc(ctx, "AddrPolicyConc", "MC_AddrPolicyConc.cfg", workers=4, timeout=600, deadlock=False)
        ctx.add_tlc(r, "exhaustive: concurrent Handle loops share nothing per datagram (MC_AddrPolicyConc.cfg)")
        if not r.ok:
            raise vlib.Inconclusive("model finding in AddrPolicyConc.tla: %s" % r.violated)
        r = vlib.tlc(ctx, "AddrPolicyConc", "MC_AddrPolicyConcNeg.cfg", workers=4, timeout=600, deadlock=False)
        if r.ok or r.violated != "ConcNoPrivateContact":
            raise vlib.Inconclusive("negative configuration MC_AddrPolicyConcNeg.cfg was not refuted by TLC (%s)" % r.violated)
        ctx.cov["tlc_runs"].append({"module": "AddrPolicyConc", "cfg": "MC_AddrPolicyConcNeg.cfg", "mode": "bfs",
                                    "label": "negative: must be refuted", "refuted_by": r.violated,
                                    "wall_s": round(r.wall, 1)})
    g = vlib.tlc(ctx, "AddrPolicyConc", "Gen_AddrPolicyConc.cfg", workers=1, timeout=600, simulate=4, depth=100,
                 deadlock=False)
    pat = re.compile(r'^<<"CBEH", "(.*)">>$')
    steps = []
    for ln in g.prints:
        m = pat.match(ln.strip())
        if m:
            steps += _unq(m.group(1))
    per = {1: [s for s in steps if s["loop"] == 1], 2: [s for s in steps if s["loop"] == 2]}
    if not g.ok or len(per[1]) < 24 or len(per[2]) < 24 \
            or not any(s["cls"] != "reject" for s in per[1]) or not any(s["cls"] == "reject" for s in per[2]):
        raise vlib.Inconclusive("AddrPolicyConc generated no usable concurrent scenario (%d/%d datagrams): %s" % (
            len(per[1]), len(per[2]), g.violated))
    cf, out, inf = (os.path.join(ctx.scratch, n) for n in ("conc.json", "conc.ndjson", "conc_info.json"))
    json.dump(steps, open(cf, "w"))
    run_driver(ctx, drv, ["conc", "-in", cf, "-table", tf, "-out", out, "-info", inf, "-dur", "2500ms"], "conc", timeout=300)
    info = json.load(open(inf))
    if "[192 0 2 2]" not in info["sinks_bound"] or "[127 0 0 1]" not in info["sinks_bound"]:
        ctx.cov["skipped"].append("concurrent stage: no sink on 192.0.2.2 / 127.0.0.1")
        return None
    own = info["arrived"].get("1@[192 0 2 2]", 0)
    if min(info["sent"]) < 1000 or own < 500 or sum(v for k, v in info["statuses"].items() if k.startswith("ERR_ADDRESS")) < 500:
        raise vlib.Inconclusive("concurrent stage established nothing: sent %r, client 1's datagrams at the public sink %d, "
                                "statuses %r" % (info["sent"], own, info["statuses"]))
    validate(ctx, table, out, "two concurrent Handle loops on one packet handler, %d + %d datagrams" % tuple(info["sent"]))
    ctx.cov["evaluations"] += sum(info["sent"])
    ctx.cov["distinct_nontrivial"] += 1
    rows = vlib.read_ndjson(out)
    ctx.sample({"concurrent_loops": {"sent": info["sent"], "arrived": info["arrived"], "statuses": info["statuses"],
                                     "first": rows[1:3]}})
    return info


def run(ctx):
    quick = ctx.quick
    # ---- 1. design verdict -------------------------------------------------------------------------------------
    cfgs = ["MC_AddrPolicy.cfg", "MC_AddrPolicyWide.cfg"] if quick else ["MC_AddrPolicyThorough.cfg"]
    for cfg in cfgs:
        r = vlib.tlc(ctx, "AddrPolicy", cfg, workers="auto", timeout=3000, deadlock=False)
        ctx.add_tlc(r, "exhaustive mechanism=>property (%s)" % cfg)
        if not r.ok:
            raise vlib.Inconclusive("model finding in AddrPolicy.tla (%s): %s" % (cfg, r.violated))
    for cfg, expect in (("MC_AddrPolicyNegCgnat.cfg", ("TableAgrees", "NoPrivateContact")),
                        ("MC_AddrPolicyNegUdp.cfg", ("NoPrivateContact",))):
        r = vlib.tlc(ctx, "AddrPolicy", cfg, workers=4, timeout=600, deadlock=False)
        if r.ok or r.violated not in expect:
            raise vlib.Inconclusive("negative configuration %s was not refuted by TLC (%s): the specification is vacuous"
                                    % (cfg, r.violated))
        ctx.cov["tlc_runs"].append({"module": "AddrPolicy", "cfg": cfg, "mode": "bfs", "label": "negative: must be refuted",
                                    "refuted_by": r.violated, "wall_s": round(r.wall, 1)})

    # ---- 2. exports + behaviours -------------------------------------------------------------------------------
    g = vlib.tlc(ctx, "AddrPolicyGen", "Gen_AddrPolicy.cfg" if quick else "Gen_AddrPolicyThorough.cfg", workers=4,
                 timeout=3000, deadlock=False)
    table, addrs = parse_print(g, "TABLE"), parse_print(g, "ADDRS")
    if not g.ok or not table or not addrs:
        raise vlib.Inconclusive("AddrPolicyGen did not export the table / address list: %s" % g.violated)
    behs = dedupe(g.behaviours)
    ntcp = sum(1 for b in behs if b[0]["a"] == "Tcp")
    if ntcp < 30 or len(behs) - ntcp < 100:
        raise vlib.Inconclusive("behaviour generation produced only %d TCP / %d UDP scenarios" % (ntcp, len(behs) - ntcp))
    by_log = {}
    for b in behs:
        k = "%s/%s" % ("tcp" if b[0]["a"] == "Tcp" else "udp", b[0].get("log"))
        by_log[k] = by_log.get(k, 0) + 1
    if set(by_log) != {"tcp/info", "tcp/debug", "udp/info", "udp/debug"} or by_log["tcp/info"] != by_log["tcp/debug"] \
            or by_log["udp/info"] != by_log["udp/debug"]:
        raise vlib.Inconclusive("scenarios are not generated at both logging levels: %r" % by_log)
    tf, af, bf = (os.path.join(ctx.scratch, n) for n in ("table.json", "addrs.json", "behs.json"))
    json.dump(table, open(tf, "w"))
    json.dump(addrs, open(af, "w"))
    json.dump(behs, open(bf, "w"))

    drv = vlib.go_build(ctx, "./cmd/addrpolicy", "addrpolicy")
    # (i) decision table
    dec = os.path.join(ctx.scratch, "dec.ndjson")
    run_driver(ctx, drv, ["table", "-in", af, "-out", dec], "table")
    # (iii) behavioural
    beh = os.path.join(ctx.scratch, "beh.ndjson")
    info_f = os.path.join(ctx.scratch, "info.json")
    run_driver(ctx, drv, ["behave", "-in", bf, "-table", tf, "-out", beh, "-info", info_f, "-seed", str(ctx.seed)],
               "behave", timeout=1800)
    info = json.load(open(info_f))
    for s in info.get("skipped") or []:
        ctx.cov["skipped"].append(s)
    if "[192 0 2 2]" not in info["sinks_bound"]:
        ctx.cov["skipped"].append("eth0/192.0.2.2 absent: the reachable-public case degrades to 'not rejected by status'")
    if info["tcp_scenarios"] + info["udp_associations"] != len(behs):
        raise vlib.Inconclusive("the driver executed %d of %d scenarios" % (
            info["tcp_scenarios"] + info["udp_associations"], len(behs)))
    # ---- 3. code -> spec ---------------------------------------------------------------------------------------
    allf = os.path.join(ctx.scratch, "all.ndjson")
    with open(allf, "w") as f:
        f.write(open(dec).read())
        f.write(open(beh).read())
    res = validate(ctx, table, allf, "decision table + scenarios on the real handlers")
    ndec = len(vlib.read_ndjson(dec))
    ctx.cov["evaluations"] += ndec + len(behs)
    ctx.cov["distinct_nontrivial"] += sum(1 for a in addrs if a["cls"] != "dontcare") + \
        sum(1 for b in behs if any("reject" in s.get("cls", []) for s in b))
    rows = vlib.read_ndjson(beh)
    ctx.sample({"decision": vlib.read_ndjson(dec)[:3]})
    for want in ("hmix", "empty"):
        for i, rw in enumerate(rows):
            if rw["ev"] == "Tcp" and (rw["d"]["h"] == want or rw["d"]["k"] == want):
                ctx.sample({"tcp_scenario": scenario_around(rows, i + 1)[1]})
                break
    for i, rw in enumerate(rows):
        if rw["ev"] == "Rep" and rw["pos"] == 3 and rw["reported"] and rw["status"].startswith("ERR_ADDRESS"):
            ctx.sample({"udp_association": scenario_around(rows, i + 1)[1]})
            break

    # ---- 3b. concurrent Handle loops on one packet handler ---------------------------------------------------------
    conc = conc_stage(ctx, drv, table, tf)

    # ---- 4. sweep ------------------------------------------------------------------------------------------------
    sw = os.path.join(ctx.scratch, "sweep.json")
    run_driver(ctx, drv, ["sweep", "-table", tf, "-mode", "quick" if quick else "full", "-seed", str(ctx.seed), "-out", sw],
               "sweep", timeout=3000)
    s = json.load(open(sw))
    if not quick and not s["v4_exhaustive"]:
        raise vlib.Inconclusive("the IPv4 sweep did not cover 2^32 addresses: %r" % s["v4_evaluations"])
    mism = (s.get("mismatch_sample") or [])[:40]
    if s["v4_mismatches"] + s["v6_mismatches"] and not mism:
        raise vlib.Inconclusive("sweep reports mismatches without samples")
    if mism:   # candidates only: TLC decides
        mf = os.path.join(ctx.scratch, "mism.ndjson")
        vlib.write_ndjson(mf, [{"ev": "Dec", "a": m["a"], "form": m["form"], "rej": m["rej"], "status": m["status"]}
                               for m in mism])
        before = ctx.violations + len(ctx.known_matched)
        validate(ctx, table, mf, "sweep candidates (%d IPv4 + %d IPv6 mismatches in total)" % (
            s["v4_mismatches"], s["v6_mismatches"]))
        if ctx.violations + len(ctx.known_matched) == before:
            raise vlib.Inconclusive("the Go sweep and TLC disagree on the exported table: %s" % json.dumps(mism[:3]))
    ctx.cov["evaluations"] += s["v4_evaluations"] + s["v6_evaluations"]
    sweep_ev = {k: s[k] for k in s if k != "mismatch_sample"}
    sweep_ev["exhaustive"] = bool(s["v4_exhaustive"])
    sweep_ev["set"] = "all 2^32 IPv4 addresses x {4-byte, 16-byte form}" if s["v4_exhaustive"] else \
        "every IPv4 /24 x {first, last, random host} x {4-byte, 16-byte form}"

    vlib.write_evidence(ctx, "model_checking",
                        "TLC enumerates the decision query for every block boundary (first, last, +-1, second, "
                        "last-but-one, middle; mapped and embedded forms), every destination encoding over those addresses, "
                        "every resolver answer set and every UDP association of <= 3 datagrams; evaluations = decisions of the "
                        "real RequirePublicIP + scenarios executed on the real handlers + sweep evaluations; non-trivial = "
                        "addresses with a definite class + scenarios with at least one forbidden candidate address",
                        ASSUME,
                        extra={"sweep": sweep_ev, "scenarios": {"tcp": ntcp, "udp_associations": len(behs) - ntcp,
                                                                "udp_datagrams": info["udp_datagrams"],
                                                                "by_protocol_and_log_level": by_log,
                                                                "dns_queries": info["dns_queries"],
                                                                "sinks": info["sinks_bound"]},
                               "concurrent_loops": conc and {k: conc[k] for k in ("sent", "arrived", "statuses")},
                               "decision_addresses": len(addrs)})


def replay(ctx, path):
    d = json.load(open(path))
    rep = d["replay"]
    g = vlib.tlc(ctx, "AddrPolicyGen", "Gen_AddrPolicy.cfg", workers=4, timeout=3000, deadlock=False)
    table = parse_print(g, "TABLE")
    if not table:
        raise vlib.Inconclusive("no table export")
    tf = os.path.join(ctx.scratch, "table.json")
    json.dump(table, open(tf, "w"))
    drv = vlib.go_build(ctx, "./cmd/addrpolicy", "addrpolicy")
    out = os.path.join(ctx.scratch, "replay.ndjson")
    if rep["kind"] == "table":
        af = os.path.join(ctx.scratch, "addrs.json")
        json.dump(rep["addrs"], open(af, "w"))
        run_driver(ctx, drv, ["table", "-in", af, "-out", out], "table")
    elif rep["kind"] == "scenario":
        bf = os.path.join(ctx.scratch, "behs.json")
        json.dump([rep["behaviour"]], open(bf, "w"))
        run_driver(ctx, drv, ["behave", "-in", bf, "-table", tf, "-out", out, "-seed", str(d.get("seed", 1))], "behave")
    elif rep["kind"] == "conc":
        if conc_stage(ctx, drv, table, tf, design=False) is None:
            raise vlib.Inconclusive("the concurrent stage cannot run here (sinks missing)")
        return
    else:
        raise vlib.Inconclusive("an unattributed sink contact cannot be replayed in isolation; re-run the tier with the seed")
    validate(ctx, table, out, "replay of " + os.path.basename(path))
