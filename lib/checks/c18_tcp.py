"""C18, TCP part - no network input can crash the server or leak its resources.  `run_part(ctx)` is called by the C18
check (composed by the main session from the tcp / udp / listener parts); it writes no evidence.

1. TLC exhaustive: 2 concurrent connections x every failure class x listener closed at any moment: no goroutine/socket
   left at rest, StreamServe returns only after all handlers, a step of one connection never touches another
   (MC_TcpConn_C18Quick.cfg without corrupt chunks in the quick tier, MC_TcpConn_C18.cfg in the thorough tier); every handler path terminates (MC_TcpConn_C18Live1.cfg, and the 2-connection MC_TcpConn_C18Live.cfg
   in the thorough tier).
2. spec -> code in a CHILD PROCESS (harness/cmd/tcpconn replay -leak): TLC behaviours with 2 connections and listener
   shutdown at any point; TLC behaviours whose abstract tokens are instantiated with the crafted authenticated plaintext
   classes (address type 0/2/5/255, domain length 0/1/255, header cut at each field boundary, chunk length 0 / 0x3FFF /
   >0x3FFF, target refuses / resets / closes at once / reads slowly), raw garbage.  A slog handler captures "Panic in TCP handler" records;
   an unrecovered panic kills the child.  After each family: goroutines with frames in the repository's packages and
   /proc/self/fd back to the baseline; StreamServe returned only after its handlers.
3. code -> spec: every connection record is judged by TLC (all predicates: a failing connection must not disturb the other).
"""
import copy, json, os, random
import vlib
from checks import tc_common as tc


def _sig(kind, where="service/tcp.go"):
    return {"module": "TcpConn", "kind": kind, "where": where}


def family(ctx, behs, label, timeout_ms, unit_ms=200, par=8, extra=(), injected=False):
    """One scenario family in a child process with leak accounting; all findings are reported here."""
    vlib.log("c18_tcp family %s: %d behaviours" % (label, len(behs)))
    try:
        cases, brows, _, cmd = tc.replay(ctx, behs, label=label, timeout_ms=timeout_ms, unit_ms=unit_ms, par=par,
                                         extra=["-leak"] + list(extra))
    except vlib.Inconclusive as e:
        msg = str(e)
        if "panic:" in msg or "fatal error:" in msg or "goroutine " in msg and "[running]" in msg:
            ctx.violation(_sig("process-crash"), "the process serving TCP connections died during family %s: %s" % (label, msg[-1800:]),
                          {"module": "TcpConn", "label": label, "behaviours": behs[:50], "timeout_ms": timeout_ms})
            return [], []
        raise
    leak = json.load(open(cmd[cmd.index("-out") + 1] + ".leak.json"))
    ctx.cov["evaluations"] += len(behs)
    ninj = sum(b.get("injectedPanics", 0) for b in brows)
    if injected:
        # fault injection: the panics raised by the harness' own dialer are expected to be recovered and logged; what is checked
        # is containment (the process is alive - we got here -, the other connection is judged below, StreamServe went on)
        ctx.cov.setdefault("c18_tcp", {})["injected_faults"] = {"injected": ninj, "recovered_and_logged": len(leak["panics"])}
        if ninj == 0:
            raise vlib.Inconclusive("containment family: no fault was injected")
    if len(leak["panics"]) > ninj:
        ctx.violation(_sig("recovered-panic"), "family %s: %d recovered panic(s) in TCP handlers: %s" % (label, len(leak["panics"]), leak["panics"][:3]),
                      {"module": "TcpConn", "label": label, "panics": leak["panics"], "behaviours": behs[:50]})
    if leak["goroutines"]:
        ctx.violation(_sig("goroutine-leak"), "family %s: %d goroutine(s) of the repository's packages still alive 3 s after every "
                      "connection ended and the listeners were closed: %s" % (label, len(leak["goroutines"]), leak["goroutines"][0][:600]),
                      {"module": "TcpConn", "label": label, "goroutines": leak["goroutines"][:10]})
    if leak["fdAfter"] > leak["fdBefore"]:
        ctx.violation(_sig("descriptor-leak"), "family %s: %d open descriptors after, %d before" % (label, leak["fdAfter"], leak["fdBefore"]),
                      {"module": "TcpConn", "label": label, "leak": leak})
    early = [b for b in brows if b["handlersAtServeReturn"] > 0]
    if early:
        ctx.violation(_sig("serve-returned-before-handlers", "service/tcp.go StreamServe"),
                      "family %s: StreamServe returned while %d handler(s) were still running (behaviour %d: %s)" % (
                          label, early[0]["handlersAtServeReturn"], early[0]["beh"], tc.env_script(behs[early[0]["beh"]])),
                      {"module": "TcpConn", "label": label, "behaviour": behs[early[0]["beh"]], "timeout_ms": timeout_ms})
    notret = [b for b in brows if not b["serveReturned"]]
    if notret:
        ctx.violation(_sig("serve-never-returned", "service/tcp.go StreamServe"),
                      "family %s: StreamServe had not returned 4 s after the listener was closed and every connection ended (behaviour %d: %s)" % (
                          label, notret[0]["beh"], tc.env_script(behs[notret[0]["beh"]])),
                      {"module": "TcpConn", "label": label, "behaviour": behs[notret[0]["beh"]], "timeout_ms": timeout_ms})
    # per-connection judgement (includes C18_HandlerReturned); failures of other properties' predicates in a two-connection
    # run mean that one connection disturbed the other
    if injected:
        cases = [c for c in cases if c["c"] != 1]     # connection 1 is the one whose handler the injected fault kills
    bad = tc.judge(ctx, cases, tc.REAL_SLACK, label=label)
    seen = set()
    for i in sorted(bad):
        preds, snapi = bad[i]
        case = cases[i]
        for p in sorted(preds):
            two = len(behs[case["beh"]]["sc"]) > 1
            if not (p.startswith("C18_") or two):
                ctx.notes.append("%s: %s fails on %s (reported by its own check)" % (label, p, tc.input_class(case)))
                continue
            kind = p if p.startswith("C18_") else "isolation:" + p
            if kind in seen:
                continue
            seen.add(kind)
            ctx.violation(_sig(kind, "hs=%s tk=%s" % (case["hs"], case["tk"])),
                          "%s: %s [%s; family %s] script: %s; observed: %s" % (p, tc.DESCR.get(p, ""), tc.input_class(case), label,
                                                                                 tc.env_script(behs[case["beh"]]), json.dumps(tc.brief(case))),
                          {"module": "TcpConn", "behaviour": behs[case["beh"]], "base_idx": case["beh"], "timeout_ms": timeout_ms,
                           "unit_ms": unit_ms, "slack": tc.REAL_SLACK, "predicate": p, "case": case})
    return cases, brows


def with_craft(behs, crafts, rng, want, quick=True):
    out = []
    for cr in crafts:
        cand = [b for b in behs if want(cr, tc.features(b), [tc.KIND.get(e["v"] // 10) for e in b["tr"] if e["a"] == "CSend"],
                                        [e["a"] for e in b["tr"] if e["a"] in tc.ENV])]
        rng.shuffle(cand)
        for b in cand[:2 if quick else 4]:
            b = copy.deepcopy(b)
            b["ov"] = {"craft": cr}
            out.append(b)
    return out


def run_part(ctx):
    q = ctx.quick
    r = vlib.tlc(ctx, "TcpConn", "MC_TcpConn_C18Quick.cfg" if q else "MC_TcpConn_C18.cfg", workers="auto", timeout=2400)
    ctx.add_tlc(r, "TcpConn: 2 connections x failure classes x listener shutdown: no leak, StreamServe waits, isolation")
    if not r.ok:
        raise vlib.Inconclusive("model finding in TcpConn.tla / MC_TcpConn_C18*.cfg: %s" % r.violated)
    r1 = vlib.tlc(ctx, "TcpConn", "MC_TcpConn_C18One.cfg", workers="auto", timeout=2400)
    ctx.add_tlc(r1, "TcpConn: one connection, listener closed at any moment (dial with cancelled context): all property families")
    if not r1.ok:
        raise vlib.Inconclusive("model finding in TcpConn.tla / MC_TcpConn_C18One.cfg: %s" % r1.violated)
    r = vlib.tlc(ctx, "TcpConn", "MC_TcpConn_C18Live1.cfg" if q else "MC_TcpConn_C18Live.cfg", workers="auto", timeout=3000)
    ctx.add_tlc(r, "TcpConn liveness: every handler path terminates, StreamServe returns")
    if not r.ok:
        raise vlib.Inconclusive("liveness model finding in TcpConn.tla (C18): %s" % r.violated)

    rng = random.Random(ctx.seed)
    # (a) two connections, listener closed at any point, every failure class
    b2 = tc.gen(ctx, "Gen_TcpConn_C18.cfg", 1500 if q else 12000, seed=ctx.seed, depth=220)
    pick = tc.select(b2, 60 if q else 800, lambda f: (f["hs"], f["tk"], f["bad"], f["rst"], f["lclose"]), rng)
    if len(pick) < (50 if q else 300):
        raise vlib.Inconclusive("only %d two-connection behaviours" % len(pick))
    family(ctx, pick, "c18-two-connections-shutdown", 600, unit_ms=300, par=8)
    ctx.cov["distinct_nontrivial"] += len(pick)

    # (b) crafted authenticated plaintext / target behaviours: TLC behaviours instantiated per input class
    b1 = tc.gen(ctx, "Gen_TcpConn_C15NoClock.cfg", 2500 if q else 10000, seed=ctx.seed + 3) + \
        tc.gen(ctx, "Gen_TcpConn_C15Relay.cfg", 1500 if q else 6000, seed=ctx.seed + 13)
    b1 = [b for b in b1 if b["sc"][0]["hs"] == "valid"]

    def want(cr, f, toks, env):
        if cr.startswith("atyp-"):
            return "badaddr" in toks
        if cr.startswith("trunc-"):
            return toks and toks[-1] == "addrpart" and "CFin" in env
        if cr.startswith("domlen-"):
            return f["dial"] and f["tk"][0] == "ok" and ("addr" in toks or "addrplus" in toks) and f["trecv"] + f["crecv"] > 0 and not f["bad"]
        return f["dial"] and f["tk"][0] == "ok" and "data" in toks and not f["bad"]     # zero / overlen / full
    crafts = ["atyp-0", "atyp-2", "atyp-5", "atyp-255", "domlen-0", "domlen-1", "domlen-255",
              "trunc-1", "trunc-2", "trunc-3", "trunc-5", "trunc-6", "zero", "overlen", "full", "slow"]
    cb = with_craft(b1, crafts, rng, want, q)
    classes = sorted({b["ov"]["craft"] for b in cb})
    if len(classes) < len(crafts):
        raise vlib.Inconclusive("crafted classes without a matching TLC behaviour: %s" % sorted(set(crafts) - set(classes)))
    tgt = tc.select([b for b in b1 if tc.features(b)["tk"][0] == "refuse" or tc.features(b)["rst"] or
                     (tc.features(b)["dial"] and not tc.features(b)["trecv"])], 20 if q else 200,
                    lambda f: (f["tk"], f["rst"], f["bad"]), rng)
    family(ctx, cb + tgt, "c18-crafted-plaintext-and-targets", 5000, par=8)
    ctx.cov["distinct_nontrivial"] += len(cb) + len(tgt)
    ctx.cov.setdefault("c18_tcp", {})["crafted_classes"] = classes

    # (b2) containment: a fault in the handling of ONE connection (the StreamDialer panics when connection 1 is dialled) must
    #      stay there: the process lives, StreamServe goes on accepting, connection 2 (which arrives afterwards) is proxied
    cb2 = tc.gen(ctx, "Gen_TcpConn_C18Contain.cfg", 1500 if q else 6000, seed=ctx.seed + 6, depth=220)
    cb2 = [b for b in cb2 if any(e["a"] == "Dial" and e["c"] == 1 for e in b["tr"])
           and any(e["a"] == "Dial" and e["c"] == 2 and e["v"] == 1 for e in b["tr"])
           and any(e["a"] in ("TRecv", "CRecv") and e["c"] == 2 for e in b["tr"])]
    cpick = []
    for b in tc.select(cb2, 12 if q else 100, lambda f: (f["trecv"], f["crecv"]), rng):
        b = copy.deepcopy(b)
        b["ov"] = {"craft": "dialpanic"}
        cpick.append(b)
    if len(cpick) < 5:
        raise vlib.Inconclusive("only %d containment behaviours" % len(cpick))
    ccases, cbrows = family(ctx, cpick, "c18-containment-injected-fault", 5000, par=4, injected=True)
    served = [c for c in ccases if c["c"] == 2 and c["mlog"] and c["mlog"][-1]["s"] == "OK"]
    if cbrows and len(served) < len(cpick):
        other = [c for c in ccases if c["c"] == 2 and not (c["mlog"] and c["mlog"][-1]["s"] == "OK")]
        ctx.violation(_sig("fault-not-contained"), "after a panic in the handler of connection 1 (injected in the StreamDialer), connection 2 "
                      "was not proxied to completion in %d of %d runs, e.g. %s" % (len(cpick) - len(served), len(cpick),
                                                                                     json.dumps(tc.brief(other[0])) if other else "no record"),
                      {"module": "TcpConn", "behaviours": cpick[:20], "timeout_ms": 5000})
    ctx.cov["distinct_nontrivial"] += len(cpick)

    # (b3) connections accepted in the instant before accept reports net.ErrClosed: StreamServe returns only after their
    #      handlers (model: Accept(c) for all c, CloseListener, ServeBreak with every handler still at "start")
    of = os.path.join(ctx.sub("burst"), "burst.ndjson")
    rc, out, err = vlib.run([tc.driver(ctx), "burst", "-rounds", str(30 if q else 200), "-n", "3", "-seed", str(ctx.seed), "-out", of],
                            env=vlib.goenv(), timeout=900)
    if rc != 0:
        if "panic:" in err or "fatal error:" in err:
            ctx.violation(_sig("process-crash"), "the process died in the accept-burst scenario: %s" % err[-1500:], {"module": "TcpConn"})
        else:
            raise vlib.Inconclusive("tcpconn burst failed rc=%d: %s" % (rc, err[-1500:]))
    else:
        rows = [r for r in vlib.read_ndjson(of) if r.get("ev") == "Burst"]
        early = [r for r in rows if r["serveReturned"] and r["finishedAtReturn"] < r["accepted"]]
        never = [r for r in rows if not r["serveReturned"]]
        noeof = [r for r in rows if r["clientsSawEOF"] < r["n"]]
        ctx.cov["evaluations"] += len(rows)
        ctx.cov["distinct_nontrivial"] += 1
        ctx.cov.setdefault("c18_tcp", {})["accept_burst"] = {"rounds": len(rows), "returned_before_handlers": len(early),
                                                            "never_returned": len(never), "client_without_eof": len(noeof)}
        if early:
            ctx.violation(_sig("serve-returned-before-handlers", "service/tcp.go StreamServe"),
                          "StreamServe returned while handlers of connections it had accepted just before the listener closed had not "
                          "returned (%d of %d rounds), e.g. %s" % (len(early), len(rows), json.dumps(early[0])),
                          {"module": "TcpConn", "burst": early[:5]})
        if never:
            ctx.violation(_sig("serve-never-returned", "service/tcp.go StreamServe"),
                          "StreamServe did not return within 5 s after the listener closed: %s" % json.dumps(never[0]), {"module": "TcpConn", "burst": never[:5]})
        if noeof and not early:
            ctx.violation(_sig("accepted-connection-not-closed", "service/tcp.go StreamServe"),
                          "a connection accepted just before the listener closed never saw the end of stream: %s" % json.dumps(noeof[0]),
                          {"module": "TcpConn", "burst": noeof[:5]})

    # (b4) accept errors that are neither net.ErrClosed nor timeouts (EMFILE) between connections: the listener is still open,
    #      StreamServe goes on accepting and serves every connection that follows
    of2 = os.path.join(ctx.sub("burst"), "accepterr.ndjson")
    rc, out, err = vlib.run([tc.driver(ctx), "accepterr", "-rounds", str(3 if q else 20), "-n", "3", "-seed", str(ctx.seed), "-out", of2],
                            env=vlib.goenv(), timeout=900)
    if rc != 0:
        raise vlib.Inconclusive("tcpconn accepterr failed rc=%d: %s" % (rc, err[-1500:]))
    arows = [r for r in vlib.read_ndjson(of2) if r.get("ev") == "AcceptErr"]
    abad = [r for r in arows if r["serveEndedWithListenerOpen"] or r["served"] < r["n"] or r["clientsSawEOF"] < r["n"]]
    ctx.cov["evaluations"] += len(arows)
    ctx.cov.setdefault("c18_tcp", {})["accept_errors"] = {"rounds": len(arows), "injected": sum(r["injected"] for r in arows),
                                                         "rounds_with_unserved_connections": len(abad)}
    if abad:
        ctx.violation(_sig("accept-error-stops-the-listener", "service/tcp.go StreamServe"),
                      "after an accept error that is neither net.ErrClosed nor a timeout (EMFILE, injected by the accept function) "
                      "StreamServe stopped serving although the listener was open: %s" % json.dumps(abad[0]),
                      {"module": "TcpConn", "accepterr": abad[:5]})

    # (c) raw garbage and replays with a short timeout (probe classes), many at once
    g = tc.gen(ctx, "Gen_TcpConn_C06NoFin.cfg", 600 if q else 4000, seed=ctx.seed + 4)
    gp = tc.select(g, 30 if q else 400, lambda f: (f["hs"], min(f["ntok"], 4)), rng)
    family(ctx, gp, "c18-raw-garbage", 600, unit_ms=300, par=16)
    ctx.cov["distinct_nontrivial"] += len(gp)
    tc.finish(ctx)


def replay_part(ctx, d):
    """Re-run what a stored C18 (TCP part) violation recorded: one behaviour or a family, in a child process with leak
    accounting."""
    r = d["replay"]
    behs = [r["behaviour"]] if "behaviour" in r else r.get("behaviours", [])
    if not behs:
        print("replay: nothing to re-run in this record")
        return
    family(ctx, behs, "c18-replay", r.get("timeout_ms", 5000), par=1 if len(behs) == 1 else 8,
           extra=["-base-idx", str(r.get("base_idx", 0))] if len(behs) == 1 else [])
