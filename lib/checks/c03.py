"""C03 - every forwarded UDP datagram is authenticated, attributed and intact.

1. TLC exhaustive: UdpNat.tla (Handle loop, trial decryption over a key-list snapshot, known-association path, timedCopy)
   => FwdAuthentic, FwdOnce, ReplyAuthentic, ReplyOnce, SaltsFresh, CreateOnlyValid (+ completeness on step-synchronous
   schedules).
2. spec -> code: TLC-simulated behaviours (valid / wrong-key / truncated / garbage / malformed-header / forbidden-destination
   datagrams on new and known associations, all payload size classes, replies from the addressed target, another port,
   strangers, IPv4 and IPv6) executed through service.NewPacketHandler(...).Handle on real sockets with mixed-cipher key lists.
3. code -> spec: what targets, clients (decrypting with the SDK under every key) and the metrics sink observed is judged by
   UdpNatTrace with C03's predicates.
"""
import vlib
from checks import udp_common as U

ASSUME = [
    "the driver is step-synchronous: datagrams a target/client receives during a step are attributed to that step's datagram; "
    "payload identity is by SHA-256 and length",
    "loopback/local UDP delivery is synchronous and lossless for single datagrams (4 MiB receive buffers)",
    "the SDK's shadowsocks.Pack/Unpack is the peer implementation (trusted)",
    "targetIPValidator of the scenarios: loopback allowed in addition to RequirePublicIP; fd00::2 (ULA) is the forbidden destination",
    "TLC 1.8.0 and the hand transcription of udp.go into UdpNat.tla",
]


def nontrivial(b):
    fw = any(s["a"] == "CDgram" and s["k"] != 0 and s["hdr"] and s["dst"] != 3 for s in b)
    bad = any(s["a"] == "CDgram" and (s["k"] == 0 or not s["hdr"] or s["dst"] == 3) for s in b)
    rp = any(s["a"] == "TReply" for s in b)
    return fw and (bad or rp)


def run(ctx):
    q = ctx.quick
    U.exhaustive(ctx, ["MC_UdpNatC03.cfg", "MC_UdpNatSync.cfg"] if q else ["MC_UdpNatC03T.cfg", "MC_UdpNatSync.cfg", "MC_UdpNatLong.cfg"], "C03")
    behs = U.gen(ctx, "Gen_UdpNatReal.cfg", 110 if q else 700)
    trace, sums = U.run_real(ctx, behs, "c03")
    U.validate(ctx, trace, "UdpNatTraceReal.cfg", U.PROPS["C03"], "real sockets, TLC behaviours", behs)
    U.summary_violations(ctx, sums, behs, "real sockets, TLC behaviours", {"salt"})
    ctx.cov["evaluations"] += len(behs)
    ctx.cov["distinct_nontrivial"] += U.count(behs, nontrivial)
    ctx.cov["key_layouts"] = sorted({s["layout"] for s in sums})[:8]
    ctx.sample({"behaviour": behs[0]})
    ctx.sample({"trace_head": vlib.read_ndjson(trace)[:10]})
    vlib.write_evidence(ctx, "model_checking",
                        "TLC explores all interleavings of the Handle loop, the association goroutines, clients, senders and "
                        "shutdown for the small constants; simulated behaviours (distinct as step sequences) are executed on the "
                        "real packet handler; non-trivial = contains a forwarded datagram and a rejected one or a reply",
                        ASSUME)


def replay(ctx, path):
    U.replay_file(ctx, path, U.PROPS["C03"])
