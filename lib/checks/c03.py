"""C03 - every forwarded UDP datagram is authenticated, attributed and intact.

1. TLC exhaustive: UdpNat.tla (Handle loop, trial decryption over a key-list snapshot, known-association path, timedCopy)
   => FwdAuthentic, FwdOnce, ReplyAuthentic, ReplyOnce, SaltsFresh, CreateOnlyValid (+ completeness on step-synchronous
   schedules).
2. spec -> code: TLC-simulated behaviours (valid / wrong-key / truncated / garbage / malformed-header / forbidden-destination
   datagrams on new and known associations, all payload size classes, replies from the addressed target, another port,
   strangers, IPv4 and IPv6) executed through service.NewPacketHandler(...).Handle on real sockets with mixed-cipher key lists.
   A fourth family (Gen_UdpNatRealSwitch.cfg) keeps ONE association per client alive and switches its target between
   destinations whose address headers are equally long (other port of the same IP, other IP, IPv6, same host name with another
   port, another host name of equal length): A,A,B / A,B,A / A,B,B,A ...; FwdToNamed: the target named in THIS datagram's header
   receives it, no other target does.
3. code -> spec: what targets, clients (decrypting with the SDK under every key) and the metrics sink observed is judged by
   UdpNatTrace with C03's predicates.
"""
import vlib
from checks import udp_common as U

ASSUME = [
    "the driver is step-synchronous: datagrams a target/client receives during a step are attributed to that step's datagram; "
    "payload identity is by SHA-256 and length",
    "loopback/local UDP delivery is synchronous and lossless for single datagrams (4 MiB receive buffers)",
    "the SDK's shadowsocks.Pack/Unpack is the peer implementation (trusted)",
    "two families: (main) validator = loopback allowed in addition to RequirePublicIP, fd00::2 (ULA) forbidden; (def) the handler's DEFAULT validator with destinations also given as host names (localhost via /etc/hosts, *.verif.test via an in-process DNS behind net.DefaultResolver)",
    "every other behaviour drives Handle with the conn of service.NewListenerManager().ListenPacket (production path), the others with net.ListenUDP",
    "TLC 1.8.0 and the hand transcription of udp.go into UdpNat.tla",
]


def nontrivial(b):
    fw = any(s["a"] == "CDgram" and s["k"] != 0 and s["hdr"] and s["dst"] != 3 for s in b)
    bad = any(s["a"] == "CDgram" and (s["k"] == 0 or not s["hdr"] or s["dst"] == 3) for s in b)
    rp = any(s["a"] == "TReply" for s in b)
    return fw and (bad or rp)


def run(ctx):
    q = ctx.quick
    U.exhaustive(ctx, ["MC_UdpNatC03.cfg", "MC_UdpNatSync.cfg"] if q else ["MC_UdpNatC03T.cfg", "MC_UdpNatSync.cfg", "MC_UdpNatLong.cfg"], "C03")
    fams = U.real_families(ctx, "c03", 70 if q else 450, 45 if q else 300, U.PROPS["C03"], want={"salt"}, n_focus=0 if q else 40,
                           n_switch=30 if q else 150)
    for fam, behs, trace, sums in fams:
        ctx.cov["evaluations"] += len(behs)
        ctx.cov["distinct_nontrivial"] += U.count(behs, nontrivial)
        ctx.cov.setdefault("behaviours_via_listener_manager", 0)
        ctx.cov["behaviours_via_listener_manager"] += sum(1 for x in sums if x.get("via_manager"))
        ctx.cov.setdefault("key_layouts", [])
        ctx.cov["key_layouts"] = sorted(set(ctx.cov["key_layouts"]) | {x["layout"] for x in sums})[:8]
        ctx.sample({"family": fam, "behaviour": behs[0]})
        if fam == "def":
            rows = vlib.read_ndjson(trace)
            ctx.cov["hostname_datagrams"] = sum(1 for r in rows if r.get("ev") == "CSend" and r["dst"] in (11, 12, 13))
            ctx.sample({"trace_head_default_validator": rows[:10]})
    # one handler, two listeners: concurrent Handle loops must not change what is forwarded for somebody else's datagram
    U.two_listeners(ctx, ["FwdAuthentic", "FwdOnce", "FwdComplete", "CreateOnlyValid", "CreateOnce"], 120 if q else 300)
    vlib.write_evidence(ctx, "model_checking",
                        "TLC explores all interleavings of the Handle loop, the association goroutines, clients, senders and "
                        "shutdown for the small constants; simulated behaviours (distinct as step sequences) are executed on the "
                        "real packet handler; non-trivial = contains a forwarded datagram and a rejected one or a reply",
                        ASSUME)


def replay(ctx, path):
    U.replay_file(ctx, path, U.PROPS["C03"])
