"""C14 - UDP associations live as long as promised and are always reclaimed.

1. TLC exhaustive: UdpNat.tla with the logical clock (natconn.onWrite / onRead, fast-close latch, expiry, natmap.Close)
   => DeadlineMonotone, WriteExtends, NoEarlyRemoval, NoEarlyClose, RemoveOnce, CloseOnce, FastCloseRule, Usable,
   ReclaimedInTime, ShutdownReclaimed, AllReclaimed; liveness (expiry happens, shutdown ~> everything reclaimed) under
   fairness, no state constraint.
2. virtual time (in-package, synctest, go1.26): TLC behaviours replayed on the real natmap/natconn/timedCopy with fake
   outbound conns that record every SetReadDeadline / WriteTo / ReadFrom / Close at EXACT instants; judged by UdpNatTrace
   (clock unit = 17 s / DNST, equalities).
3. real sockets: TLC behaviours with idle periods through PacketHandler.Handle with natTimeout = 300 ms: source port stable
   before expiry and new after, no early removal, removal within the bound, RemoveNatEntry once, Handle returns after the
   listener closes, all associations reclaimed, fd and goroutine counts back at the baseline.
4. thorough: one real-time run of the 17 s DNS rule on real sockets.
"""
import json, os
import vlib
from checks import udp_common as U

ASSUME = [
    "virtual time: testing/synctest of go1.26.8 with GODEBUG=asynctimerchan=0; the harness plays the Handle loop "
    "(Get, Add, WriteTo, AddPacketFromClient) exactly as udp.go:165-220 does",
    "a deadline call with dl <= now outside natmap.Close is the fast close; inside natmap.Close it is the shutdown",
    "real time: lower bounds are exact (a removal is compared with the instant the client SENT its last datagram); upper bounds "
    "use 500 ms slack and the driver waits up to 5 s before it declares an association unreclaimed",
    "a datagram forwarded within 150 ms of the association's deadline carries no obligation (it may race with the teardown)",
    "TLC 1.8.0 and the hand transcription of udp.go into UdpNat.tla",
]

VIRT_PROPS = U.PROPS["C14"] + ["MetricsLanguage", "PktTSound", "PktTPerReply", "PktTSize", "ReplyComplete", "ReplyAuthentic", "OwnerOnly", "OnePerClient", "SrcStable"]


def virt(ctx, behs, name="virt"):
    d = ctx.sub(name)
    bf, tf = os.path.join(d, "behs.json"), os.path.join(d, "trace-raw.ndjson")
    json.dump(behs, open(bf, "w"))
    rc, out = vlib.go_overlay_test(
        ctx, "service", {"zz_verif_natmap_test.go": os.path.join(vlib.HARNESS, "overlay", "service", "zz_verif_natmap_test.go")},
        "TestVerifNatmap", toolchain="1.26",
        env_extra={"GODEBUG": "asynctimerchan=0", "GOMEMLIMIT": "2GiB", "VERIF_NM_IN": bf, "VERIF_NM_OUT": tf, "VERIF_NM_CFG": json.dumps({"T": 2, "DNST": 4})},
        timeout=600)
    if vlib.compile_failed(out):
        ctx.cov["skipped"].append("virtual-time natmap harness does not compile against this tree: " + out[-600:])
        return None
    if rc != 0 or not os.path.exists(tf):
        raise vlib.Inconclusive("virtual-time natmap harness failed (rc=%s): %s" % (rc, out[-3000:]))
    rows = vlib.read_ndjson(tf)
    ends = [r for r in rows if r.get("ev") == "EndV"]
    if len(ends) != len(behs):
        raise vlib.Inconclusive("virtual-time natmap harness: %d of %d behaviours completed: %s" % (len(ends), len(behs), out[-2000:]))
    clean = os.path.join(d, "trace.ndjson")
    vlib.write_ndjson(clean, [r for r in rows if r.get("ev") != "EndV"])
    U.validate(ctx, clean, "UdpNatTraceVirt.cfg", VIRT_PROPS, "virtual time, fake outbound conns", behs)
    for e in ends:
        if e["mapLen"] or e["open"] or e["doubleClose"]:
            ctx.violation({"module": "UdpNat", "kind": "not-reclaimed-after-close"},
                          "after natmap.Close and quiescence: %d map entr(ies) left, %d outbound conn(s) not closed, %d closed twice "
                          "(virtual time, behaviour %d)" % (e["mapLen"], e["open"], e["doubleClose"], e["beh"] + 1),
                          {"behaviour": behs[e["beh"]], "end": e})
            break
    ctx.cov["virtual_seconds_simulated"] = sum(e["virtualMs"] for e in ends) // 1000
    ctx.cov["deadline_calls_checked"] = sum(1 for r in rows if r.get("ev") == "Conn" and r["op"] == "dl")
    ctx.cov["datagrams_delivered_inside_WriteTo"] = sum(1 for b in behs for i, st in enumerate(b) if st["a"] == "TReplyMid")
    ctx.cov["failed_sends_virtual"] = sum(1 for r in rows if r.get("ev") == "Conn" and r["op"] == "we")
    ctx.cov["fast_closes_observed"] = sum(1 for r in rows if r.get("ev") == "Conn" and r.get("why") == "fast")
    return rows


def nontrivial_virt(b):
    return any(s["a"] == "Tick" for s in b) and any(s["a"] == "CDgram" for s in b)


def nontrivial_real(b):
    seen = False
    for s in b:
        if s["a"] == "CDgram" and s["k"] != 0 and s["hdr"] and s["dst"] != 3:
            seen = True
        if seen and (s["a"] in ("Tick", "Shutdown") or (s["a"] == "TReply" and s["src"] in (2, 8))):
            return True
    return False


def run(ctx):
    q = ctx.quick
    U.exhaustive(ctx, ["MC_UdpNatC14.cfg"] if q else ["MC_UdpNatC14T.cfg", "MC_UdpNatC14b.cfg", "MC_UdpNatLong.cfg"], "C14 safety", timeout=3000)
    if not os.environ.get("VERIF_UDP_SKIP_MC"):
        r = vlib.tlc(ctx, "MC_UdpNat", "MC_UdpNatLive.cfg" if q else "MC_UdpNatLiveT.cfg", workers="auto", timeout=3000, deadlock=False)
        ctx.add_tlc(r, "C14 liveness under fairness")
        if not r.ok:
            raise vlib.Inconclusive("model finding in UdpNat.tla (liveness): %s" % r.violated)
    # negative control: onWrite with its two steps swapped - TLC must find the deadline moving earlier (FastCloseRule)
    if not os.environ.get("VERIF_UDP_SKIP_MC"):
        rb_ = vlib.tlc(ctx, "MC_UdpNat", "MC_UdpNatC14Bug.cfg", workers=4, timeout=600, deadlock=False)
        ctx.cov["model_of_swapped_onWrite"] = {"violated": rb_.violated, "trace_len": len(rb_.trace)}
        if rb_.violated != "FastCloseRule":
            raise vlib.Inconclusive("MC_UdpNatC14Bug.cfg: expected TLC to find FastCloseRule violated, got %r" % rb_.violated)
    # 2. virtual time
    vb = U.gen(ctx, "Gen_UdpNatVirt.cfg", 120 if q else 2000, seed=ctx.seed + 31)
    # + focused: a later DNS query during which a port-53 datagram arrives INSIDE natconn.WriteTo (gate in the fake conn's
    #   SetReadDeadline), sends that fail
    vb += U.gen(ctx, "Gen_UdpNatVirtMid.cfg", 40 if q else 300, seed=ctx.seed + 77)
    rows = virt(ctx, vb)
    if rows is not None:
        ctx.cov["evaluations"] += len(vb)
        ctx.cov["distinct_nontrivial"] += U.count(vb, nontrivial_virt)
        ctx.sample({"virtual_time_behaviour": vb[0]})
        ctx.sample({"virtual_time_trace_head": rows[:12]})
    # 3. real sockets, natTimeout 300 ms
    fams = U.real_families(ctx, "c14real", 36 if q else 350, 20 if q else 150, U.PROPS["C14"] + ["SrcStable", "SrcPrivate", "OnePerClient"],
                           seed_off=977, want={"returned", "leak"})
    rb = []
    ctx.cov["real_expiries_observed"] = 0
    for fam, behs, trace, sums in fams:
        rb += behs
        ctx.cov["evaluations"] += len(behs)
        ctx.cov["distinct_nontrivial"] += U.count(behs, nontrivial_real)
        ctx.cov["handle_return_ms_max"] = max([ctx.cov.get("handle_return_ms_max", 0)] + [x["return_ms"] for x in sums])
        ctx.cov["reclaim_after_close_ms_max"] = max([ctx.cov.get("reclaim_after_close_ms_max", 0)] + [x["reclaim_ms"] for x in sums])
        ctx.cov["real_expiries_observed"] += sum(1 for x in vlib.read_ndjson(trace) if x.get("ev") == "M" and x["m"] == "NatRemove")
        ctx.cov.setdefault("behaviours_closing_the_listener_with_live_associations", 0)
        ctx.cov["behaviours_closing_the_listener_with_live_associations"] += sum(1 for x in sums if x.get("live_at_close", 0) > 0)
    # a client datagram in the window between the deadline firing and natmap.del
    U.window(ctx, U.PROPS["C14"] + ["MetricsLanguage", "PktTPerReply", "OnePerClient", "SrcPrivate"])
    # the wiring part measures through a real server under whatever load the machine has: a run that could not measure is
    # repeated once on fresh ports; if it still cannot, the part is recorded as skipped (the other parts decide)
    for attempt in (1, 2):
        try:
            server_wiring(ctx, attempt)
            break
        except vlib.Inconclusive as e:
            if attempt == 2:
                ctx.cov["skipped"].append("server wiring of -udptimeout: could not measure twice: " + str(e)[:300])
    if rows is None and not rb:
        raise vlib.Inconclusive("no driver covered C14")
    if not q:
        dns17(ctx)
    vlib.write_evidence(ctx, "model_checking",
                        "TLC explores all interleavings for the small constants (safety) and checks the two leads-to properties under "
                        "weak fairness; virtual-time behaviours are judged with exact instants, real-socket behaviours with one-sided "
                        "bounds; non-trivial = an association exists and time passes / a port-53 reply arrives / the listener closes",
                        ASSUME)


def server_wiring(ctx, attempt=1):
    """5. the promise as the server wires it: configurations of both formats (catalogue of Reload.tla) are loaded into a real
    OutlineServer started with -udptimeout = 150 ms; every association opened by an authenticated probe datagram is followed
    until the server reports it removed; ReloadTrace judges the life time (Reload!NatLifeOK)."""
    from checks import rl_common
    cat = rl_common.gen_scenarios(ctx, "Gen_Reload.cfg", 60, ctx.seed + 5)
    seen, legacy, svc = set(), [], []
    for b in cat:
        for st in b:
            if st["a"] == "Load" and st["ok"]:
                c = st["cfg"]
                k = json.dumps(c, sort_keys=True)
                if k in seen:
                    continue
                seen.add(k)
                has_udp_svc = any(l[0] == "udp" for s in c["svcs"] for l in s["ls"])
                if c["legacy"]:
                    legacy.append(c)
                elif has_udp_svc:
                    svc.append(c)
    n = 4 if ctx.quick else 30
    chosen = legacy[:n] + svc[:n]
    if not legacy or not svc:
        raise vlib.Inconclusive("the catalogue produced no legacy-format or no services-format configuration with UDP listeners")
    sc = [{"id": i + 1, "replay": 0, "mode": "natlife", "steps": [{"a": "Load", "cfg": c, "frn": [], "ok": True}]} for i, c in enumerate(chosen)]
    tf = rl_common.run_harness(ctx, sc, "c14-wiring%d" % attempt, timeout=1500)
    res = rl_common.judge(ctx, tf, "server wiring of -udptimeout, both configuration formats", "C14",
                          {"nat-lifetime": "an association of a running service lived shorter than the configured -udptimeout or was not "
                                           "reported removed within 3 s after it"}, only={"nat-lifetime"})
    followed = sum(len(r.get("natlife", [])) for r in vlib.read_ndjson(tf) if r.get("ev") == "Probe")
    if followed == 0:
        raise vlib.Inconclusive("server wiring: no association was followed")
    lives = [x[2] for r in vlib.read_ndjson(tf) if r.get("ev") == "Probe" for x in r.get("natlife", [])]
    ctx.cov["server_wiring_lifetime_ms_min_max"] = [min(lives), max(lives)]
    ctx.cov["server_wiring_associations_followed"] = followed
    ctx.cov["server_wiring_configurations"] = {"legacy_format": len(legacy[:n]), "services_format": len(svc[:n])}
    ctx.cov["evaluations"] += len(chosen)
    ctx.cov["distinct_nontrivial"] += len(chosen)


def dns17(ctx):
    drv = U.driver(ctx)
    d = ctx.sub("dns17")
    tf, sf = os.path.join(d, "trace.ndjson"), os.path.join(d, "sum.json")
    rc, out, err = U.run_capped([drv, "dns17", "-out", tf, "-summary", sf, "-seed", str(ctx.seed)], timeout=120)
    if rc != 0:
        raise vlib.Inconclusive("dns17 driver failed: %s" % err[-2000:])
    U.validate(ctx, tf, "UdpNatTraceReal.cfg", U.PROPS["C14"], "real sockets, real-time 17 s DNS rule")
    s = json.load(open(sf))
    ctx.cov["dns17"] = s
    ctx.cov["evaluations"] += 1
    ctx.cov["distinct_nontrivial"] += 1


def replay(ctx, path):
    d = json.load(open(path))
    if "events" in d["replay"]:      # server wiring
        from checks import rl_common
        ev = d["replay"]["events"]
        steps = [{"a": "Load", "cfg": e["cfg"], "frn": e["frn"], "ok": e["ok"]} for e in ev if e.get("ev") == "Load" and e["cfg"].get("kind") != "stop"]
        tf = rl_common.run_harness(ctx, [{"id": 1, "replay": 0, "mode": "natlife", "steps": steps}], "replay")
        rl_common.judge(ctx, tf, "replay of " + os.path.basename(path), "C14", {"nat-lifetime": "association life time differs from -udptimeout"}, only={"nat-lifetime"})
        return
    if d["replay"].get("cfg") == "UdpNatTraceVirt.cfg" and d["replay"].get("behaviour"):
        virt(ctx, [d["replay"]["behaviour"]], "replay")
        return
    U.replay_file(ctx, path, U.PROPS["C14"])
