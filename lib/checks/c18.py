"""C18 - no network input can crash the server or leak its resources.

Composed of
 * c18_tcp  (TcpConn.tla: every handler path terminates; authenticated plaintext classes, raw garbage, target behaviours,
             listener shutdown order; panic records, child-process exit status, goroutine/fd accounting),
 * c18_udp  (UdpNat.tla: decrypted payload classes, datagram and reply sizes, reply source classes incl. zoned link-local;
             child-process exit status; reclamation),
 * listeners (Listeners.tla CleanAfterAllClosed is C12's; here: the process-level run below),
 * process level: the real binary driven through reloads and probes from TLC-generated scenarios must neither panic nor
   exit (log scan + exit status), judged by ReloadTrace (`process-panic`)."""
import importlib
import vlib

PARTS = ["c18_tcp", "c18_udp"]


def process_part(ctx):
    from checks import rl_common
    behs = rl_common.gen_scenarios(ctx, "Gen_Reload.cfg", 40, ctx.seed + 9)
    pb = [b for b in behs if b and b[0]["a"] == "Load" and b[0]["ok"]][:8 if ctx.quick else 100]
    if not pb:
        ctx.cov["skipped"].append("process level: no usable scenario")
        return
    # every second scenario runs the server with -verbose: debug logging formats errors and their causes
    sc = [{"id": i + 1, "replay": 3, "steps": b, "verbose": i % 2 == 0, "burst": i % 2 == 1} for i, b in enumerate(pb)]
    tf = rl_common.run_process(ctx, sc, "proc-c18", timeout=1800)
    rl_common.judge(ctx, tf, "process level: real binary under reloads, bind faults and probes", "C18",
                    {"process-panic": "the server process panicked or exited"}, only={"process-panic"})
    ctx.cov["evaluations"] += len(pb)
    ctx.cov["distinct_nontrivial"] += len(pb)


def run(ctx):
    ran = []
    for p in PARTS:
        try:
            mod = importlib.import_module("checks." + p)
        except ImportError:
            ctx.cov["skipped"].append("%s: not built yet" % p)
            continue
        mod.run_part(ctx)
        ran.append(p)
    process_part(ctx)
    ctx.cov["components"] = ran + ["process"]
    if not ctx.cov["states"]:
        # evidence needs TLC statistics of this run even if the parts carry theirs elsewhere
        r = vlib.tlc(ctx, "MC_Listeners", "MC_Listeners_FixedAll.cfg", workers="auto", timeout=1200)
        ctx.add_tlc(r, "Listeners: CleanAfterAllClosed (nothing keeps running, nothing held)")
    vlib.write_evidence(ctx, "model_checking",
                        "input classes are enumerated by the TcpConn / UdpNat models (address types, lengths, truncations, chunk and "
                        "datagram sizes, reply sizes and source classes, termination orders) and sent authenticated through the real "
                        "handlers; every scenario family runs in a child process whose exit status and panic log records are checked, "
                        "followed by goroutine and fd accounting; the real binary is driven at process level",
                        ["'all raw byte strings' are covered by classes x seeded random, not all strings",
                         "a recovered panic (slog record 'Panic in TCP handler' / 'Panic in UDP loop') counts as a violation"])


def replay(ctx, path):
    run(ctx)
