"""TcpConn binding shared by C02, C06, C15 and the TCP part of C18.

spec -> code : TLC (-simulate or exhaustive BFS) on spec/TcpConnGen.tla emits behaviours; harness/cmd/tcpconn performs their
               environment actions on real sockets against the real handler, in the behaviour's order.
code -> spec : the driver records, per connection, the script as performed and what every observer saw; TLC evaluates the
               property layer of spec/TcpConn.tla on those records (spec/TcpConnTrace.tla).  The driver never judges.
"""
import json, os, re, collections, time
import vlib

ENV = {"Connect", "CSend", "CFin", "CRst", "CPause", "CResume", "TSend", "TFin", "TRst", "TClose", "TPause", "TResume", "Tick",
       "CloseListener"}
OBS = {"Open", "MAuth", "MProbe", "MClosed", "Dial", "TRecv", "TSawFin", "CRecv", "CSawFin", "CClose", "ServeReturn"}
KIND = {1: "pre", 2: "addr", 3: "addrplus", 4: "addrpart", 5: "addrrest", 6: "badaddr", 7: "data", 8: "bad", 9: "junk"}

# real sockets: clock granularity 2 ms (one-sided, physically sound), a close may be OBSERVED up to 1.5 s late on a loaded
# machine, bytes sent less than 250 ms before a deadline may or may not be read before it (timed families: 600 ms handshake
# timeout, model tick = 300 ms, so scripted sends are at least one tick away from the deadline)
REAL_SLACK = dict(SlackEarly=2, SlackLate=1500, SlackSched=250)
TIMED = dict(timeout_ms=600, unit_ms=300)
EXACT_SLACK = dict(SlackEarly=0, SlackLate=0, SlackSched=0)


def projection(beh):
    return tuple((e["a"], e["c"], e["v"]) for e in beh["tr"] if e["a"] in ENV or e["a"] in OBS)


def env_script(beh):
    out = []
    for e in beh["tr"]:
        if e["a"] in ENV:
            if e["a"] == "CSend":
                out.append("CSend%d(%s%s)" % (e["c"], KIND.get(e["v"] // 10, "?"), e["v"] % 10 or ""))
            else:
                out.append("%s%s%s" % (e["a"], e["c"] or "", "(%d)" % e["v"] if e["v"] else ""))
    return " ".join(out)


def features(beh):
    names = collections.Counter(e["a"] for e in beh["tr"])
    toks = [KIND.get(e["v"] // 10) for e in beh["tr"] if e["a"] == "CSend"]
    return dict(dial=names["Dial"] > 0, trecv=names["TRecv"], crecv=names["CRecv"], tfin=names["TSawFin"], cfin=names["CSawFin"],
                probe=names["MProbe"] > 0, bad="bad" in toks or "badaddr" in toks, junk="junk" in toks, ticks=names["Tick"],
                hs=tuple(s["hs"] for s in beh["sc"]), tk=tuple(s["tk"] for s in beh["sc"]), ntok=len(toks),
                rst=names["TRst"] > 0, lclose=names["CloseListener"] > 0, tclose=names["TClose"] > 0, crst=names["CRst"] > 0, tpause=names["TResume"] > 0, cpause=names["CResume"] > 0,
                after_close=sum(1 for i, e in enumerate(beh["tr"]) if e["a"] == "CSend" and e["v"] // 10 == 7 and
                                any(x["a"] == "TClose" for x in beh["tr"][:i])))


def gen(ctx, cfg, num, *, seed=None, depth=160, timeout=600):
    """TLC -simulate on TcpConnGen; returns behaviours that are pairwise distinct as sequences of environment actions
    and observations."""
    r = vlib.tlc(ctx, "TcpConnGen", cfg, simulate=num, depth=depth, seed=seed, deadlock=False, timeout=timeout)
    if not r.ok:
        raise vlib.Inconclusive("behaviour generation failed on %s: %s" % (cfg, r.out[-1500:]))
    seen, out = set(), []
    for b in r.behaviours:
        k = projection(b)
        if k not in seen:
            seen.add(k)
            out.append(b)
    return out


def select(behs, n, key, rng):
    """A subset of n behaviours balanced over the classes given by key(features)."""
    groups = collections.defaultdict(list)
    for b in behs:
        groups[key(features(b))].append(b)
    for g in groups.values():
        rng.shuffle(g)
    out = []
    ks = sorted(groups, key=repr)
    while len(out) < n and any(groups[k] for k in ks):
        for k in ks:
            if groups[k] and len(out) < n:
                out.append(groups[k].pop())
    return out


def merge_behaviours(behs, drop_ticks=True):
    """Many single-connection behaviours as ONE behaviour over connections 1..n (their events interleaved round-robin; each
    connection's own order is kept; the clock events are dropped).  Connections are independent in TcpConn.tla
    (C18_Isolation), so the merge is a behaviour of the n-connection model."""
    seqs = []
    for i, b in enumerate(behs):
        seqs.append([dict(e, c=i + 1) if e["c"] else None for e in b["tr"]])
    out, idx = [], [0] * len(seqs)
    live = True
    while live:
        live = False
        for i, s in enumerate(seqs):
            while idx[i] < len(s):
                e = s[idx[i]]
                idx[i] += 1
                if e is None:
                    continue
                out.append(e)
                live = True
                if e["a"] in ENV:
                    break
    return {"sc": [b["sc"][0] for b in behs], "tr": out}


def witness(ctx):
    """Model finding -> behaviour: exhaustive BFS of the model of the code AS WRITTEN (DrainMode = "inner") up to the
    shortest state in which a client holding an invalid authenticated stream open sees the proxy's FIN."""
    r = vlib.tlc(ctx, "TcpConnGen", "Gen_TcpConn_C06Witness.cfg", workers=1, deadlock=False, timeout=600)
    if r.violated != "WitnessDump" or not r.behaviours:
        raise vlib.Inconclusive("no witness behaviour from Gen_TcpConn_C06Witness.cfg: %s" % r.out[-1500:])
    return r.behaviours[0], r


def driver(ctx):
    p = getattr(ctx, "_tcpconn_drv", None)
    if p is None:
        p = vlib.go_build(ctx, "./cmd/tcpconn", "tcpconn")
        ctx._tcpconn_drv = p
    return p


_run_no = [0]


def replay(ctx, behs, *, label, timeout_ms, unit_ms=200, par=8, seed=None, extra=(), base_idx=0, prom=False):
    """Execute behaviours on the real code; returns (case rows, behaviour rows, prom totals or None)."""
    _run_no[0] += 1
    d = ctx.sub("run%d-%s" % (_run_no[0], re.sub(r"\W", "", label)))
    bf = os.path.join(d, "behs.json")
    json.dump(behs, open(bf, "w"))
    of = os.path.join(d, "cases.ndjson")
    cmd = [driver(ctx), "replay", "-in", bf, "-out", of, "-seed", str(ctx.seed if seed is None else seed),
           "-timeout-ms", str(timeout_ms), "-unit-ms", str(unit_ms), "-par", str(par), "-base-idx", str(base_idx)]
    if prom:
        cmd.append("-prom")
    cmd += list(extra)
    rc, out, err = vlib.run(cmd, env=vlib.goenv(), timeout=1200)
    if rc != 0:
        raise vlib.Inconclusive("tcpconn replay (%s) failed rc=%d: %s" % (label, rc, (err or out)[-2000:]))
    rows = vlib.read_ndjson(of)
    cases = [r for r in rows if r.get("ev") == "Case"]
    brows = [r for r in rows if r.get("ev") == "Beh"]
    pr = None
    if prom:
        pr = json.load(open(of + ".prom.json"))
    return cases, brows, pr, cmd


def normalize(case):
    """The record as TcpConnTrace reads it: status classes instead of spellings, no free text."""
    r = {k: v for k, v in case.items() if k not in ("env", "stalls", "dialAddrs", "variant", "cipher", "keyid")}
    r["mlog"] = [{"m": m["m"], "s": ("ERR_ADDRESS" if m["s"].startswith("ERR_ADDRESS") else m["s"]), "n": m["n"]} for m in case["mlog"]]
    r["csent"] = [{"k": t["k"], "v": t["v"]} for t in case["csent"]]
    if case.get("reset") or case["acceptAt"] < 0:
        # never accepted (the listener was closed first): what the client sees is the kernel's doing, not the server's
        r["closeAt"], r["clog"] = -1, []
        for sn in r["snaps"]:
            sn["closeAt"], sn["cl"] = -1, 0
    return r


_RES = re.compile(r'^<<"RESULT", (\d+), (\d+)>>')
_CASE = re.compile(r'^<<"CASE", (\d+), \{(.*)\}, (\d+)>>')


def judge(ctx, cases, slack, *, label=""):
    """TLC evaluates the property layer on every record.  Returns {index in cases: (set of failing predicates, snap)}."""
    if not cases:
        return {}
    tf = os.path.join(ctx.sub("judge"), "trace-%d.ndjson" % len(os.listdir(ctx.sub("judge"))))
    vlib.write_ndjson(tf, [normalize(c) for c in cases])
    cfg = open(os.path.join(vlib.SPEC, "TcpConnTrace.cfg")).read()
    for k, v in slack.items():
        cfg = re.sub(r"%s = \d+" % k, "%s = %d" % (k, v), cfg)
    ok, r = vlib.validate_traces(ctx, "TcpConnTrace", "TcpConnTraceRun.cfg", tf, timeout=900,
                                 extra_files={"TcpConnTraceRun.cfg": cfg})
    res, bad = None, {}
    m = re.search(r'<<"RESULT", (\d+), (\d+)>>', r.out)
    if m:
        res = (int(m.group(1)), int(m.group(2)))
    for m in re.finditer(r'<<\s*"CASE",\s*(\d+),\s*\{(.*?)\},\s*(\d+)\s*>>', r.out, re.S):    # long sets are printed over several lines
        bad[int(m.group(1)) - 1] = (set(re.findall(r'"([^"]+)"', m.group(2))), int(m.group(3)))
    if not ok or res is None or res[0] != len(cases) or res[1] != len(bad):
        raise vlib.Inconclusive("TcpConnTrace did not judge all %d records (%s): %s %s" % (
            len(cases), label, r.violated, "\n".join(r.out.splitlines()[-12:])))
    ctx.cov["traces_validated_against_impl"] += len(cases)
    return bad


def input_class(case):
    toks = [t["k"] for t in case["csent"]]
    return "hs=%s tk=%s toks=%s cfin=%s" % (case["hs"], case["tk"], "+".join(toks) or "none", case["cfin"])


def signature(pred, case):
    if pred == "C06_DrainHolds":
        toks = [t["k"] for t in case["csent"]]
        if "bad" in toks:
            return {"module": "TcpConn", "kind": "no-drain-after-relay-cipher-error",
                    "where": "service/tcp.go proxyConnection drain uses the decrypting reader"}
        return {"module": "TcpConn", "kind": "no-drain-after-address-error", "where": "service/tcp.go handleConnection"}
    return {"module": "TcpConn", "kind": pred, "where": "hs=%s tk=%s" % (case["hs"], case["tk"])}


DESCR = {
    "C02_TargetPrefix": "the target received bytes that are not a prefix of what the client sent (loss, duplication, reordering or corruption)",
    "C02_ClientPrefix": "the client decrypted bytes that are not a prefix of what the target sent",
    "C02_FinToTargetAfterAll": "the target saw end-of-stream before all client data, or without a client half-close",
    "C02_FinToClientAfterAll": "the client saw end-of-stream before all target data, or without a target half-close",
    "C02_CompleteAtClose": "a clean connection was reported closed without both streams completely delivered and half-closed (or not with status OK)",
    "C02_Propagates": "on a clean connection a delivery or half-close that does not depend on the peer's next action did not happen within the wait bound (one direction waits for the other)",
    "C06_Silent": "bytes were written to a client that did not authenticate",
    "C06_NoEarlyClose": "an unauthenticated connection was closed before the client closed and before the handshake timeout",
    "C06_CloseNotEarly": "an unauthenticated connection was closed earlier than min(client close, accept + timeout)",
    "C06_CloseNotLate": "an unauthenticated connection was not closed within the bound after min(client close, accept + timeout)",
    "C06_NormalClose": "an unauthenticated, quiescent client saw something other than one normal close (FIN)",
    "C06_DrainHolds": "an authenticated stream that turned invalid was not drained: the proxy half-closed/closed while the client kept the connection open",
    "C15_ReportedOnce": "an accepted connection whose handler returned was not reported opened once and closed once",
    "C15_Language": "metrics calls of a connection are not of the form Open . Authenticated? . Probe? . Closed",
    "C15_AuthOnlyIfAuthenticated": "AddAuthenticated was reported for a connection that cannot have authenticated",
    "C15_ProbeIffFailed": "AddProbe was not reported exactly when authentication failed",
    "C15_ProbeBytes": "AddProbe does not carry the number of bytes received",
    "C15_Status": "AddClosed status does not name the real outcome class",
    "C15_OkIffComplete": "a completely successful connection was not reported OK",
    "C15_OkMeansComplete": "a connection was reported OK although it did not end in complete success (a peer did not end its stream in an orderly way, or not everything that was sent was relayed)",
    "C15_Counters": "AddClosed byte counters differ from the bytes counted on the wire",
}


def brief(case):
    return {"hs": case["hs"], "tk": case["tk"], "cipher": case["cipher"], "nkeys": case["nkeys"], "keypos": case["keypos"],
            "csent": ["%s%s:%d%s" % (t["k"], t["v"] or "", t["n"], ("/" + t["note"]) if t.get("note") else "") for t in case["csent"]],
            "tsent": case["tsent"], "cfin": case["cfin"], "tfin": case["tfin"], "trst": case["trst"], "tclosed": case.get("tcl"), "crst": case.get("crst"),
            "tlog": case["tlog"], "clog": case["clog"], "mlog": [[m["m"], m["s"], m["n"]] for m in case["mlog"]], "dials": case["dials"],
            "wire": [case["wcs"], case["wtr"], case["wts"], case["wcr"]], "client_payload": case.get("wcpl"),
            "t": {"accept": case["acceptAt"], "preDone": case["preDoneAt"], "lastSend": case["lastSendAt"], "cfin": case["cfinAt"],
                  "clientEOF": case["closeAt"], "timeout": case["timeoutMs"]},
            "variant": case.get("variant"), "stalls": case["stalls"], "hung": case["hung"]}


def run_family(ctx, prefix, behs, *, label, timeout_ms, unit_ms=200, slack=REAL_SLACK, par=8, prom=False, extra=(), confirm=True):
    """Replay `behs`, let TLC judge every connection record, report failing predicates that start with `prefix` as
    violations (after one confirmation re-run of the single behaviour).  Returns (cases, brows, prom totals)."""
    vlib.log("tcpconn family %s: %d behaviours (t=%.0fs)" % (label, len(behs), time.time() - ctx.t0))
    cases, brows, pr, cmd = replay(ctx, behs, label=label, timeout_ms=timeout_ms, unit_ms=unit_ms, par=par, prom=prom, extra=extra)
    hung = [c for c in cases if c["hung"]]
    bad = judge(ctx, cases, slack, label=label)
    ctx.cov["evaluations"] += len(behs)
    other = collections.Counter()
    done_kinds = getattr(ctx, '_tc_done_kinds', None)
    if done_kinds is None:
        done_kinds = ctx._tc_done_kinds = set()     # one violation per signature per check run
    unconfirmed = []
    v0 = ctx.violations + len(ctx.known_matched)
    # failing records grouped by signature; for each signature up to 4 different records are tried until one is confirmed
    groups = collections.OrderedDict()
    for i in sorted(bad):
        preds, snapi = bad[i]
        mine = sorted(p for p in preds if p.startswith(prefix))
        for p in preds:
            if not p.startswith(prefix):
                other[p] += 1
        for p in mine[:1]:
            groups.setdefault(json.dumps(signature(p, cases[i]), sort_keys=True), []).append((i, p, snapi))
    for k, members in groups.items():
        if k in done_kinds:
            continue
        confirmed = None
        for (i, pred, snapi) in members[:4]:
            case = cases[i]
            beh = behs[case["beh"]]
            if not confirm:
                confirmed = (case, beh, pred, snapi)
                break
            # the batch ran several behaviours at once: re-run this behaviour alone (a schedule-dependent failure may need
            # more than one attempt)
            for attempt in range(2):
                c2, _, _, cmd2 = replay(ctx, [beh], label=label + "-confirm", timeout_ms=timeout_ms, unit_ms=unit_ms, par=1,
                                        base_idx=case["beh"], extra=extra)
                bad2 = judge(ctx, c2, slack, label=label + "-confirm")
                again = [j for j in bad2 if pred in bad2[j][0]]
                if again:
                    confirmed = (c2[again[0]], beh, pred, bad2[again[0]][1])
                    break
            if confirmed:
                break
        if not confirmed:
            i, pred, snapi = members[0]
            unconfirmed.append("%s failed on %d record(s) in the batch run (e.g. %s) but not when %d of those behaviours were re-run alone: %s" % (
                pred, len(members), input_class(cases[i]), min(4, len(members)), json.dumps(brief(cases[i]))))
            continue
        done_kinds.add(k)      # one violation per signature per check run (a signature that could not be confirmed may come again)
        case, beh, pred, snapi = confirmed
        where = "at the end of the run" if snapi == 0 else "before environment step %s of the script" % case["snaps"][snapi - 1]["a"]
        ctx.violation(json.loads(k), "%s: %s [%s; %s] script: %s; observed: %s" % (
            pred, DESCR.get(pred, ""), input_class(case), where, env_script(beh), json.dumps(brief(case))),
            {"module": "TcpConn", "behaviour": beh, "base_idx": case["beh"], "driver_args": cmd[2:], "timeout_ms": timeout_ms,
             "unit_ms": unit_ms, "slack": slack, "predicate": pred, "case": case})
    if unconfirmed:
        ctx.notes.append("%s: not reproduced alone: %s" % (label, unconfirmed))
        if not hasattr(ctx, "_tc_unconfirmed"):
            ctx._tc_unconfirmed = []
        ctx._tc_unconfirmed += unconfirmed
    if other:
        ctx.notes.append("%s: predicates of other properties failing in this family (reported by their own checks): %s" % (label, dict(other)))
    if hung:
        ctx.notes.append("%s: %d connection(s) whose handler had not returned %d ms after the script ended: %s" % (
            label, len(hung), 4000, json.dumps(brief(hung[0]))))
    return cases, brows, pr, hung


def finish(ctx):
    """A failure seen in a batch run that could not be reproduced alone, and nothing else found: inconclusive."""
    un = getattr(ctx, "_tc_unconfirmed", [])
    if un and not ctx.violations and not ctx.known_matched:
        raise vlib.Inconclusive(un[0])


def replay_violation(ctx, path, prefix):
    d = json.load(open(path))["replay"]
    beh = d["behaviour"]
    cases, _, _, _ = replay(ctx, [beh], label="replay", timeout_ms=d["timeout_ms"], unit_ms=d["unit_ms"], par=1, base_idx=d["base_idx"],
                            seed=json.load(open(path))["seed"])
    bad = judge(ctx, cases, d["slack"], label="replay")
    for i, (preds, snapi) in sorted(bad.items()):
        for p in sorted(preds):
            if p.startswith(prefix):
                ctx.violation(signature(p, cases[i]), "%s: %s [%s] observed: %s" % (p, DESCR.get(p, ""), input_class(cases[i]),
                              json.dumps(brief(cases[i]))), d)
                return
    print("replay: the behaviour no longer violates %s* (%d record(s) judged)" % (prefix, len(cases)))


def self_test(ctx, cases, slack):
    """Anti-vacuity: corrupt one recorded field of accepted records -> TLC must reject each of them."""
    import copy
    muts = []
    for c in cases:
        if c["hung"] or not c["mlog"]:
            continue
        closed = [m for m in c["mlog"] if m["m"] == "Closed"]
        if closed and closed[0]["s"] == "OK" and len([x for x in c["tlog"] if x > 0]) >= 1 and len(muts) < 5:
            a = copy.deepcopy(c); a["tlog"] = [x for x in a["tlog"] if x != 1]; muts.append(("drop first target piece", a))
            b = copy.deepcopy(c); [mm for mm in b["mlog"] if mm["m"] == "Closed"][0]["n"][0] += 1; muts.append(("ClientProxy+1", b))
            d = copy.deepcopy(c); d["mlog"].append(d["mlog"][-1]); muts.append(("AddClosed twice", d))
            e = copy.deepcopy(c); e["tlog"] = [0] + [x for x in e["tlog"] if x != 0]; muts.append(("FIN before data", e))
        if closed and closed[0]["s"] == "ERR_CIPHER" and len(muts) < 12:
            a = copy.deepcopy(c); a["wcr"] = 1; muts.append(("a byte written to a prober", a))
            if c["closeAt"] > 5 and not c["cfin"]:
                b = copy.deepcopy(c); b["closeAt"] = c["closeAt"] // 2; muts.append(("close at half the timeout", b))
            d = copy.deepcopy(c); d["mlog"] = [mm for mm in d["mlog"] if mm["m"] != "Probe"]; muts.append(("no AddProbe", d))
        if len(muts) >= 12:
            break
    if not muts:
        return 0
    for _, m in muts:
        m["snaps"] = []      # the snapshots index the unmodified logs
    bad = judge(ctx, [m[1] for m in muts], slack, label="self-test")
    ctx.cov["traces_validated_against_impl"] -= len(muts)   # hand-made records do not count as traces of the implementation
    missed = [muts[i][0] for i in range(len(muts)) if i not in bad]
    if missed:
        raise vlib.Inconclusive("self-test: TcpConnTrace accepted corrupted records: %s" % missed)
    return len(muts)


def mech_pass(ctx, cases, behs, *, label, max_drift=8):
    """Mechanism pass (drift report): is every single-connection record a behaviour of TcpConn.tla's mechanism layer under the
    script that was performed?  Not a verdict: unmatched records are counted as drift with a sample."""
    rows = []
    for c in cases:
        if len(behs[c["beh"]]["sc"]) != 1 or c["hung"]:
            continue
        n = normalize(c)
        n = {k: n[k] for k in ("hs", "tk", "script", "tlog", "clog", "mlog", "dials")}
        if c.get("reset") or c["acceptAt"] < 0:
            n["clog"] = []
        rows.append((c, n))
    # anti-vacuity: a corrupted copy of a record (its AddClosed removed) goes last and must NOT be matched
    canary = None
    for c, n in reversed(rows):
        if n["mlog"] and n["mlog"][-1]["m"] == "Closed":
            canary = (dict(c, canary=True), dict(n, mlog=n["mlog"][:-1]))
            break
    if canary:
        rows = rows + [canary]
    todo = rows
    matched, drift = 0, []
    runs = 0
    while todo and runs <= max_drift:
        runs += 1
        tf = os.path.join(ctx.sub("mech"), "trace-%d.ndjson" % len(os.listdir(ctx.sub("mech"))))
        vlib.write_ndjson(tf, [n for _, n in todo])
        ok, r = vlib.validate_traces(ctx, "TcpConnTraceM", "TcpConnTraceM.cfg", tf, timeout=900)
        if not ok and r.violated:
            raise vlib.Inconclusive("TcpConnTraceM failed (%s): %s" % (label, "\n".join(r.out.splitlines()[-10:])))
        got = {int(m.group(1)) for m in re.finditer(r'<<"MATCHED", (\d+)>>', r.out)}
        k = 0
        while k + 1 in got:
            k += 1
        matched += k
        if k == len(todo):
            todo = []
            break
        drift.append(todo[k][0])
        todo = todo[k + 1:]
    if canary:
        rows = rows[:-1]
        if drift and drift[-1].get("canary"):
            drift = drift[:-1]
        elif not todo:
            raise vlib.Inconclusive("TcpConnTraceM matched a corrupted record (%s)" % label)
    ctx.cov.setdefault("mechanism_pass", {})[label] = {"records": len(rows), "matched": matched, "unmatched": len(drift),
                                                      "not_examined": max(0, len(todo) - (1 if canary else 0))}
    if drift:
        ctx.cov["drift"] += len(drift)
        c = drift[0]
        ctx.notes.append("drift (%s): %d record(s) are not behaviours of the mechanism layer under their script, e.g. script %s; %s" % (
            label, len(drift), " ".join(c["env"]), json.dumps(brief(c))))
    return matched, drift
