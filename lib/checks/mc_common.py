"""Collector-level conformance of the per-connection metrics of prometheus/metrics.go (spec/MetricsCount.tla).

Callable parts (they only update ctx.cov / ctx.notes and call ctx.violation; the caller writes the evidence):
  tcp_collector_part(ctx)   C15 at the REAL collector: AddOpenTCPConnection / AddAuthenticated / AddProbe / AddClosed
  udp_collector_part(ctx)   C16 at the REAL collector: AddUDPNatEntry / AddPacketFromClient / AddPacketFromTarget /
                            RemoveNatEntry, including scrapes CONCURRENT with datagram reports
  concurrent_part(ctx, race=True)   C19: both kinds of connections, concurrent callers and scrapers, race detector on

Each part: TLC exhaustive check of MetricsCount.tla (counters as the collectors keep them => sums of the per-connection
facts of the call history), TLC-simulated report sequences replayed on prometheus.NewServiceMetrics - one after the other
with a Registry.Gather at every Scrape step, and several sequences at once (one goroutine each) against goroutines that
Gather in a loop - and validation of the recorded calls + exported values by TLC (MetricsCountTrace)."""
import json, os, re
import vlib
from checks import tt_common as T

OVERLAY = dict(T.OVERLAY)
OVERLAY["zz_verif_metricscount_test.go"] = os.path.join(vlib.HARNESS, "overlay", "prometheus", "zz_verif_metricscount_test.go")
NK = 3
TCP_ACTS = {"Open", "Auth", "Probe", "Close"}
UDP_ACTS = {"NatAdd", "PktC", "PktT", "NatRemove"}

KIND_TEXT = {
    "unexpected-series": "a series with a status / access key that no reported connection had was exported",
    "tcp-opened-mismatch": "tcp_connections_opened differs from the number of connections opened",
    "tcp-closed-mismatch": "tcp_connections_closed{status,access_key} differs from the connections closed with that status "
                           "and authenticated with that key",
    "tcp-duration-count-mismatch": "tcp_connection_duration_ms count differs from the closed count of its status",
    "tcp-opened-ne-closed": "all connections are closed but opened != closed",
    "tcp-bytes-mismatch": "data_bytes{proto=tcp} per key and direction differs from the sums reported at the closes of the "
                          "connections authenticated with that key",
    "tcp-probes-mismatch": "tcp_probes count / byte sum differs from the probe reports made",
    "udp-nat-count-mismatch": "udp_nat_entries_added / removed differ from the associations added / removed",
    "udp-packets-mismatch": "udp_packets_from_client_per_location{status} differs from the client datagrams reported",
    "udp-bytes-mismatch": "data_bytes{proto=udp} per key and direction differs from the sums of the datagrams reported "
                          "(an increment was lost or counted twice)",
    "tcp-location-mismatch": "tcp_connections_opened/closed per location differ from the connections of the clients of that "
                             "location class",
    "tcp-location-bytes-mismatch": "data_bytes_per_location{proto=tcp} differs from the bytes of the clients of that location",
    "udp-location-packets-mismatch": "udp_packets_from_client_per_location{location,status} differs from the datagrams reported "
                                     "for clients of that location class (a datagram was counted under another client's location)",
    "udp-location-bytes-mismatch": "data_bytes_per_location{proto=udp} differs from the bytes of the clients of that location",
    "counter-decreased": "a counter went down between two scrapes",
}


def gen(ctx, num, seed, **consts):
    cfg = T.cfg_with("Gen_MetricsCount.cfg", **consts)
    r = vlib.tlc(ctx, "MetricsCountGen", "Gen_MetricsCountRun.cfg", simulate=num, depth=400, seed=seed, deadlock=False,
                 timeout=600, extra_files={"Gen_MetricsCountRun.cfg": cfg})
    behs, seen = [], set()
    for b in r.behaviours:
        k = json.dumps(b, sort_keys=True)
        if k not in seen:
            seen.add(k)
            behs.append(b)
    return behs


def project(beh, acts):
    """keeps the steps of one protocol (+ scrapes); connection ids stay as they are"""
    return [s for s in beh if s["a"] in acts or s["a"] in ("Init", "Scrape")]


def run_overlay(ctx, behs, mode, *, tag, rep=1, scrapers=2, group=8, race=False, timeout=900):
    d = ctx.sub(tag)
    inp, outp = os.path.join(d, "in.json"), os.path.join(d, "out.ndjson")
    if os.path.exists(outp):
        os.remove(outp)
    json.dump({"mode": mode, "behaviours": behs, "nk": NK, "rep": rep, "scrapers": scrapers, "group": group}, open(inp, "w"))
    rc, out = vlib.go_overlay_test(ctx, "prometheus", OVERLAY, "^TestVerifMetricsCount$", race=race, timeout=timeout,
                                   env_extra={"VERIF_MCNT_IN": inp, "VERIF_MCNT_OUT": outp})
    if vlib.compile_failed(out):
        raise vlib.Inconclusive("metrics-count overlay does not compile against the working tree:\n" + out[-3000:])
    rows = vlib.read_ndjson(outp) if os.path.exists(outp) else []
    return rc, out, rows


def split(rows):
    traces, cur = [], None
    for r in rows:
        if r.get("ev") == "Reset":
            cur = [r]
            traces.append(cur)
        elif r.get("ev") == "Done":
            cur = None
        elif cur is not None:
            cur.append(r)
    return traces


def densify(traces):
    """dense connection ids per trace; returns (rows, MaxConn, index)"""
    out, index, maxc = [], [], 1
    for tn, t in enumerate(traces):
        ids = {}
        for r in t:
            d = {k: v for k, v in r.items() if k in ("ev", "c", "key", "loc", "b", "st", "d", "n", "cp", "pt", "tp", "pc", "obs")}
            if "c" in d:
                d["c"] = ids.setdefault(d["c"], len(ids) + 1)
            out.append(d)
            index.append((tn, r))
        maxc = max(maxc, len(ids))
    return out, maxc, index


def validate(ctx, traces, desc, timeout=1200):
    rows, maxc, index = densify(traces)
    tf = os.path.join(ctx.scratch, "mc-trace-%d.ndjson" % len(os.listdir(ctx.scratch)))
    vlib.write_ndjson(tf, rows)
    cfg = T.cfg_with("MetricsCountTrace.cfg", NK=NK, MaxConn=maxc)
    ok, r = vlib.validate_traces(ctx, "MetricsCountTrace", "MetricsCountTraceRun.cfg", tf, timeout=timeout,
                                 extra_files={"MetricsCountTraceRun.cfg": cfg})
    res = T.parse_result(r)
    if res is None or res["lines"] != len(rows) or not ok:
        raise vlib.Inconclusive("MetricsCountTrace did not consume the whole trace (%s): %s %s" % (
            desc, r.violated or "", "\n".join(r.out.splitlines()[-15:])))
    viols = []
    for v in res["viols"]:
        tn, orig = index[v["line"] - 1]
        viols.append((v["kind"], tn, orig))
    return dict(events=res["lines"], ntraces=res["ntraces"], violations=viols)


def calls_text(trace, upto_row=None, limit=700):
    parts = []
    for r in trace[1:]:
        ev = r["ev"]
        if ev == "Scrape":
            parts.append("Scrape")
        elif ev == "Close":
            parts.append("Close(c%d,%s,%s)" % (r["c"], ["OK", "ERR_CIPHER", "ERR_RELAY_CLIENT"][r["st"] - 1], r["d"]))
        elif ev in ("Auth", "NatAdd"):
            parts.append("%s(c%d,k%d)" % (ev, r["c"], r["key"]))
        elif ev == "PktC":
            parts.append("PktC(c%d,%s,n=%d,%d/%d)" % (r["c"], ["OK", "ERR_CIPHER"][r["st"] - 1], r["n"], r["cp"], r["pt"]))
        elif ev == "PktT":
            parts.append("PktT(c%d,n=%d,%d/%d)" % (r["c"], r["n"], r["tp"], r["pc"]))
        elif ev == "Probe":
            parts.append("Probe(c%d,%d)" % (r["c"], r["b"]))
        elif "c" in r:
            parts.append("%s(c%d)" % (ev, r["c"]))
        if r is upto_row:
            break
    s = " ; ".join(parts)
    return s if len(s) <= limit else "... " + s[-limit:]


def report(ctx, res, traces, desc, behs_of_trace, setup):
    seen = set()
    for kind, tn, row in res["violations"]:
        if kind in seen:
            continue
        seen.add(kind)
        t = traces[tn]
        ctx.violation({"module": "MetricsCount", "kind": kind, "mode": t[0].get("mode")},
                      "Prometheus collectors (%s): %s; exported %s; calls: %s" % (
                          desc, KIND_TEXT.get(kind, kind), json.dumps(row.get("obs") or row)[:500], calls_text(t, row)),
                      {"module": "MetricsCount", "setup": setup, "behaviours": behs_of_trace(tn), "exported": row.get("obs") or row})


def exhaustive(ctx):
    if ctx.cov.get("metricscount_model_checked"):
        return
    cfg = T.cfg_with("MC_MetricsCount.cfg", MaxOps=4 if ctx.quick else 6)
    r = vlib.tlc(ctx, "MetricsCount", "MC_MetricsCountRun.cfg", workers="auto", timeout=3000, deadlock=False,
                 extra_files={"MC_MetricsCountRun.cfg": cfg})
    ctx.add_tlc(r, "MetricsCount: collectors' counters => sums of per-connection facts (closed per status/key, bytes per key/"
                   "direction, probes, packets, nat entries, opened = closed)")
    if not r.ok:
        raise vlib.Inconclusive("model finding in MetricsCount.tla: %s" % r.violated)
    ctx.cov["metricscount_model_checked"] = True


def crash_in_collectors(out):
    """A Go panic / fatal error whose goroutine stack has a frame in the repository's prometheus package (harness files
    excluded) -> (kind, where, text); None otherwise (a crash of the harness itself is not a verdict)."""
    m = re.search(r"^(fatal error: .*|panic: .*)$", out, re.M)
    if not m:
        return None
    text = out[m.start():]
    fr = None
    for pre in (vlib.REPO.rstrip("/") + "/", "/repo/"):
        fr = re.search(r"^\s+%s((?:prometheus|ipinfo|service)/(?!zz_verif_)[^\s:]+\.go):(\d+)" % re.escape(pre), text, re.M)
        if fr:
            break
    if not fr:
        return None
    where = "%s:%s" % (fr.group(1), fr.group(2))
    kind = "concurrent-map-access" if "concurrent map" in m.group(1) else "crash-under-concurrent-use"
    return kind, where, text


def _seq(ctx, behs, tag, desc):
    rc, out, rows = run_overlay(ctx, behs, "seq", tag=tag)
    if rc != 0 or "HARNESS-ERROR" in out or not rows or rows[-1].get("ev") != "Done":
        raise vlib.Inconclusive("metrics-count overlay (%s) failed rc=%d:\n%s" % (desc, rc, out[-2500:]))
    traces = split(rows)
    res = validate(ctx, traces, desc)
    report(ctx, res, traces, desc, lambda tn: [behs[tn]], {"mode": "seq"})
    ctx.cov["traces_validated_against_impl"] += res["ntraces"] - len(res["violations"])
    ctx.cov["evaluations"] += len(behs)
    ctx.cov["distinct_nontrivial"] += sum(1 for b in behs if sum(1 for s in b if s["a"] in ("Close", "PktC", "PktT")) >= 2)
    return res


def _conc(ctx, behs, tag, desc, *, rep, scrapers, group, race=False, rounds=1):
    """returns (res of the last round, race-detector output)"""
    allout = ""
    for rd in range(rounds):
        rc, out, rows = run_overlay(ctx, behs, "conc", tag="%s%d" % (tag, rd), rep=rep, scrapers=scrapers, group=group, race=race)
        allout += out
        if "HARNESS-ERROR" in out:
            raise vlib.Inconclusive("metrics-count overlay (%s): %s" % (desc, out[-2500:]))
        crash = crash_in_collectors(out)
        if crash:
            kind, where, text = crash
            ctx.violation({"module": "metrics", "kind": kind, "where": where},
                          "the process died (%s) inside the metrics collectors under concurrent reports and scrapes (%s), first "
                          "collector frame %s" % (text.splitlines()[0][:160], desc, where),
                          {"module": "MetricsCount", "setup": {"mode": "conc", "rep": rep, "scrapers": scrapers, "group": group},
                           "behaviours": behs[:group], "output": text[:3000]})
            return None, allout
        if not rows or rows[-1].get("ev") != "Done":
            if race and "WARNING: DATA RACE" in out:
                return None, allout
            raise vlib.Inconclusive("metrics-count overlay (%s) did not finish rc=%d:\n%s" % (desc, rc, out[-2500:]))
        traces = split(rows)
        res = validate(ctx, traces, desc)
        setup = {"mode": "conc", "rep": rep, "scrapers": scrapers, "group": group}
        report(ctx, res, traces, desc, lambda tn: behs[tn * group:(tn + 1) * group], setup)
        ctx.cov["traces_validated_against_impl"] += res["ntraces"] - len(res["violations"])
        ctx.cov["evaluations"] += len(traces)
        ctx.cov["distinct_nontrivial"] += len(traces)
        ctx.cov.setdefault("collector_concurrent_runs", []).append(
            {"what": desc, "groups": len(traces), "callers_per_group": group, "rep": rep, "scrapers": scrapers,
             "concurrent_gathers": rows[-1].get("gathers"), "events": res["events"], "race": race})
        if res["violations"]:
            break
    return res, allout


def tcp_collector_part(ctx):
    """C15 at the collector.  Sequential: every TLC behaviour's TCP projection, Gather at every Scrape.  Concurrent:
    groups of 8 behaviours at once (connection objects of different goroutines interleave) against 2 scrapers."""
    exhaustive(ctx)
    n = 80 if ctx.quick else 800
    behs = [project(b, TCP_ACTS) for b in gen(ctx, n, ctx.seed + 21, MaxOps=50)]
    behs = [b for b in behs if len(b) > 4]
    if len(behs) < n // 2:
        raise vlib.Inconclusive("MetricsCount generation produced only %d TCP behaviours" % len(behs))
    ante = sum(1 for b in behs if any(b[i]["a"] == "Close" and any(x["a"] == "Auth" and x["c"] == b[i]["c"] for x in b[:i]) and
                                      any(y["a"] == "Close" and not any(x["a"] == "Auth" and x["c"] == y["c"] for x in b) for y in b[i + 1:])
                                      for i in range(len(b))))
    if ante < 5:
        raise vlib.Inconclusive("vacuous: only %d behaviours close an unauthenticated connection after an authenticated one" % ante)
    ctx.cov["tcp_unauth_close_after_auth_close"] = ante
    _seq(ctx, behs, "mcT", "TCP connection reports, sequential")
    _conc(ctx, behs, "mcTc", "TCP connection reports, 8 concurrent callers + 2 scrapers", rep=1, scrapers=2, group=8)
    ctx.sample({"collector_tcp_behaviour": behs[0][:10]})


def udp_collector_part(ctx):
    """C16 at the collector.  Sequential replay, then the hammer: groups of 8 behaviours at once, every datagram report
    repeated `rep` times, while 3 goroutines Gather in a loop - at quiescence the exported per-key/direction byte and
    packet sums must equal the sums reported."""
    exhaustive(ctx)
    n = 64 if ctx.quick else 640
    behs = [project(b, UDP_ACTS) for b in gen(ctx, n, ctx.seed + 22, MaxOps=50)]
    behs = [b for b in behs if sum(1 for s in b if s["a"] in ("PktC", "PktT")) >= 3]
    if len(behs) < n // 2:
        raise vlib.Inconclusive("MetricsCount generation produced only %d UDP behaviours" % len(behs))
    _seq(ctx, behs, "mcU", "UDP association reports, sequential")
    hammer = behs[:16] if ctx.quick else behs[:64]
    rep = 5000 if ctx.quick else 20000
    _conc(ctx, hammer, "mcUc", "UDP datagram reports x%d against concurrent scrapes" % rep,
          rep=rep, scrapers=3, group=8, rounds=2 if ctx.quick else 4)
    ctx.sample({"collector_udp_behaviour": behs[0][:10]})


def location_part(ctx):
    """C20 at the collector under concurrent use: clients of DIFFERENT location classes (global v4 / global v6 with
    hundreds of AS numbers, loopback = XL) report TCP connections and UDP datagrams from 8 goroutines at once into ONE
    collector; at quiescence every per-location series must carry exactly the reports of the clients of its own class."""
    exhaustive(ctx)
    n = 32 if ctx.quick else 320
    behs = gen(ctx, n, ctx.seed + 24, MaxOps=50)
    behs = [b for b in behs if len({s.get("loc") for s in b if s.get("loc")}) >= 2]
    if len(behs) < n // 2:
        raise vlib.Inconclusive("MetricsCount generation produced only %d behaviours with clients of two location classes" % len(behs))
    _conc(ctx, behs, "mcL", "clients of different location classes, 8 concurrent callers + 2 scrapers", rep=300, scrapers=2,
          group=8)


def concurrent_part(ctx, race=True):
    """C19: TCP and UDP reports together from 8 concurrent callers against 3 scrapers - once under the race detector, once
    without it (sync.Pool and the scheduler behave differently under -race) - plus the UDP hammer.  Returns the output of
    the race-detector run (the caller turns race reports into violations)."""
    exhaustive(ctx)
    n = 32 if ctx.quick else 320
    behs = gen(ctx, n, ctx.seed + 23, MaxOps=50)
    if len(behs) < n // 2:
        raise vlib.Inconclusive("MetricsCount generation produced only %d behaviours" % len(behs))
    res, out = _conc(ctx, behs, "mcX", "TCP+UDP reports, 8 concurrent callers + 3 scrapers, -race", rep=20, scrapers=3, group=8,
                     race=race)
    _conc(ctx, behs, "mcXn", "TCP+UDP reports, 8 concurrent callers + 3 scrapers", rep=100, scrapers=3, group=8)
    hammer = [project(b, UDP_ACTS) for b in behs]
    hammer = [b for b in hammer if sum(1 for s in b if s["a"] in ("PktC", "PktT")) >= 3][:16]
    if hammer:
        _conc(ctx, hammer, "mcXh", "UDP datagram reports x5000 against concurrent scrapes", rep=5000, scrapers=3, group=8,
              rounds=1 if ctx.quick else 4)
    return out
