"""C08 - server-issued salts are fresh, recognisable, and never accepted back.

1. TLC exhaustive: TcpAuth.tla (authenticator order findAccessKey -> IsServerSalt -> replayCache.Add -> writer with the
   entry's salt generator; generators mark iff saltSize-4 >= 16) => RespSaltsFresh, RespSaltsRecognised,
   ReflectedNeverAuthenticated (whatever the replay cache: nil, capacity 0, on), StatusClasses, ProbeNoEffect.
2. spec -> code: TLC-simulated behaviours (sequences of connections with every salt choice: new, client-used, taken
   from a server response) executed on the real authenticator + handler over loopback TCP for all four ciphers; a
   server-made salt is presented as the RECORDED REAL SERVER OUTPUT (whole, truncated to >= 50 bytes, extended) or as
   the client's own stream under that salt; replay cache absent / capacity 0 / on; key lists padded to 50 / 300.
3. code -> spec: TLC (TcpAuthTrace) validates the recorded traces: first saltSize bytes of each response stream
   (interned: equal bytes = equal token), the mark verified by an independent HKDF-SHA1/HMAC-SHA1 implementation,
   authenticator results, probe observables (no byte to the client, no dial, AddProbe, held open until the client
   closes or the deadline).
4. concurrent stage (`storm`): 16 goroutines x 500 (thorough 3000) genuine handshakes on ONE key at the same instant for
   each marked cipher class (chacha20, aes-256, aes-192), capacity-0 replay cache; every response salt must be new and
   carry the mark; 300 (1000) recordings per class are reflected (whole / truncated / extended / own stream) while more
   handshakes run: all must be refused as ERR_REPLAY_SERVER.
5. fault injection (`fault`): crypto/rand.Reader is replaced for a bounded window by a reader that fails N times while
   the response salt of a genuine connection is drawn (all four classes): either no response stream is produced
   (EntropyFails) or the salt is new and marked like any other.
6. freshness at scale: response salts of many real connections, pairwise distinct (TLC: every token is the next one).
"""
import json, os
import vlib
from checks import ta_common

ASSUME = [
    "freshness is checked as pairwise distinctness of the response salts of the run, not proved",
    "a client-made salt carries a valid 4-byte mark only with probability 2^-32 (not modelled)",
    "AES-128 (16-byte salts) is outside the recognisability / reflection clauses by the property's wording; its salts are "
    "only checked for freshness",
    "the mark is verified with an independent RFC 5869 HKDF-SHA1 + HMAC-SHA1 implementation in the harness",
    "entropy faults are injected by substituting crypto/rand.Reader in the driver process (go1.23: rand.Read reads through "
    "that variable); other sources of randomness are not covered",
    "the replay cache is abstracted to 'remembers every handshake of the scenario' when on (its window is C07)",
    "TLC 1.8.0 and the hand transcription of tcp.go:119-157 / server_salt.go / cipher_list.go:38-53 into TcpAuth.tla",
]

KEYS = {   # must equal KeysQ / KeysX of spec/TcpAuthMC.tla (checked against the New step of the generated behaviours)
    # name 99 = the key configured without an id (ID "")
    "Q": [dict(name=1, cls=1, sec=1), dict(name=2, cls=2, sec=1), dict(name=99, cls=3, sec=2), dict(name=4, cls=4, sec=2),
          dict(name=5, cls=1, sec=1)],
    # driver `storm`: one key per cipher class with marked salts
    "S3": [dict(name=1, cls=1, sec=1), dict(name=99, cls=2, sec=2), dict(name=3, cls=3, sec=3)],
    # driver `fault`: one key per cipher class
    "S4": [dict(name=1, cls=1, sec=1), dict(name=2, cls=2, sec=2), dict(name=99, cls=3, sec=3), dict(name=4, cls=4, sec=4)],
    "X": [dict(name=1, cls=4, sec=1), dict(name=99, cls=3, sec=1), dict(name=3, cls=2, sec=1), dict(name=4, cls=1, sec=1)],
}


def exhaustive(ctx):
    cfgs = [("MC_TcpAuth.cfg", "5 keys, 3 connections, 2 in flight"),
            ("MC_TcpAuthFault.cfg", "entropy faults: 5 keys, 2 connections")]
    if not ctx.quick:
        cfgs += [("MC_TcpAuthX.cfg", "four classes under one secret"),
                 ("MC_TcpAuthThorough.cfg", "4 connections, 3 in flight")]
    for cfg, label in cfgs:
        r = vlib.tlc(ctx, "TcpAuthMC", cfg, workers="auto", timeout=3000, deadlock=False)
        ctx.add_tlc(r, "exhaustive mechanism=>property: " + label)
        if not r.ok:
            raise vlib.Inconclusive("model finding in TcpAuth.tla (%s): %s" % (cfg, r.violated))


def run_behaviours(ctx, behs, keyset, pad, seed, desc, kinds=None):
    drv = ta_common.driver(ctx)
    inp = os.path.join(ctx.scratch, "ta-in-%s-%d.json" % (keyset, pad))
    json.dump({"keys": KEYS[keyset], "behs": behs, "pad": pad}, open(inp, "w"))
    tf = os.path.join(ctx.scratch, "ta-trace-%s-%d-%d.ndjson" % (keyset, pad, seed))
    kf = os.path.join(ctx.scratch, "ta-keys-%s-%d.json" % (keyset, pad))
    info, _ = ta_common.run_driver(ctx, [drv, "auth", "-in", inp, "-out", tf, "-keys", kf, "-seed", str(seed), "-par", "16",
                                         "-timeout", "300"], "auth")
    # the trace specification's constant key list = the model's keys (no client ever speaks under a padding key; an
    # attribution to one is flagged because its name is not in this list)
    res = ta_common.validate_ta(ctx, tf, KEYS[keyset], desc, kinds or ta_common.C08_KINDS, behs=behs)
    rows = vlib.read_ndjson(tf)
    return res, rows, info


def count(ctx, rows, info):
    c = ctx.cov
    refl = {}
    cur, n_refl_beh = False, 0
    for r in rows + [{"ev": "New"}]:
        if r.get("ev") == "New":
            n_refl_beh += 1 if cur else 0
            cur = False
        if r.get("ev") == "Hello" and str(r.get("form", "")).startswith("server:"):
            cur = True
    c["evaluations"] += sum(1 for r in rows if r.get("ev") == "New")
    c["distinct_nontrivial"] += n_refl_beh
    for k, v in (info.get("forms") or {}).items():
        kk = k.split("-")[0] + ("-" + k.split("-")[1] if k.split("-")[0].endswith("recorded") else "")
        c.setdefault("opener_forms", {})
        c["opener_forms"][kk] = c["opener_forms"].get(kk, 0) + v
    c.setdefault("response_salts", 0)
    c["response_salts"] += sum(1 for r in rows if r.get("ev") == "Resp")
    c.setdefault("server_replays_refused", 0)
    c["server_replays_refused"] += sum(1 for r in rows if r.get("ev") == "Auth" and r.get("st") == "ERR_REPLAY_SERVER")


def storm(ctx):
    """Concurrent stage: 16 goroutines x N genuine handshakes on ONE key at the same instant (per marked cipher class)
    through the real authenticator with a capacity-0 replay cache, then reflections of the recordings in the middle of
    more handshakes.  Overlapping IsServerSalt / GetSalt computations of one generator must still mark every response
    salt and recognise every reflected one."""
    drv = ta_common.driver(ctx)
    n, sample = (500, 300) if ctx.quick else (3000, 1000)
    tf = os.path.join(ctx.scratch, "storm.ndjson")
    info, _ = ta_common.run_driver(ctx, [drv, "storm", "-g", "16", "-n", str(n), "-sample", str(sample), "-out", tf,
                                         "-seed", str(ctx.seed)], "storm", timeout=900)
    res = ta_common.validate_ta(ctx, tf, KEYS["S3"], "storm g=16 n=%d sample=%d" % (n, sample), ta_common.C08_KINDS)
    if info.get("panics"):
        ctx.cov.setdefault("panics_recovered", 0)
        ctx.cov["panics_recovered"] += info["panics"]
    ctx.cov["storm"] = info
    ctx.cov["response_salts"] = ctx.cov.get("response_salts", 0) + res["mass"]
    ctx.cov["server_replays_refused"] = ctx.cov.get("server_replays_refused", 0) + info.get("reflections", 0) \
        - info.get("reflections_accepted", 0)
    ctx.cov["evaluations"] += 3
    ctx.cov["distinct_nontrivial"] += 3


def fault(ctx):
    """Fault injection: crypto/rand.Reader fails 1, 2, 3, 4, 7 or 1000 times while the response salt of a genuine
    connection is drawn (all four cipher classes, several connections per case).  Allowed outcomes (EntropyFails /
    FirstWrite of TcpAuth.tla): no response stream, or a response whose salt is new - never a salt completed without
    fresh randomness (which repeats from connection to connection)."""
    drv = ta_common.driver(ctx)
    k = 4 if ctx.quick else 25
    tf = os.path.join(ctx.scratch, "fault.ndjson")
    info, _ = ta_common.run_driver(ctx, [drv, "fault", "-n", str(k), "-out", tf, "-seed", str(ctx.seed)], "fault", timeout=600)
    if not info.get("injected_failures"):
        raise vlib.Inconclusive("fault stage: no entropy failure was injected (crypto/rand.Reader not used by this toolchain?)")
    ta_common.validate_ta(ctx, tf, KEYS["S4"], "fault injection: crypto/rand fails while the salt is drawn",
                          ta_common.C08_KINDS)
    ctx.cov["fault_injection"] = info
    ctx.cov["response_salts"] = ctx.cov.get("response_salts", 0) + info.get("responses", 0)
    ctx.cov["evaluations"] += 1
    ctx.cov["distinct_nontrivial"] += 1


def stage(ctx, name, f):
    """A stage whose driver process was killed by a crash in the code under test has reported that as a violation
    (ta_common.report_crash); the remaining stages still run."""
    try:
        f()
    except ta_common.DriverCrashed:
        ctx.cov["skipped"].append("%s: the driver process was killed by a crash in the code under test (reported)" % name)


def behaviour_stage(ctx):
    n = 120 if ctx.quick else 1200
    plans = [("Gen_TcpAuth.cfg", "Q", 0), ("Gen_TcpAuth.cfg", "Q", 50), ("Gen_TcpAuthX.cfg", "X", 300)]
    for i, (cfg, keyset, pad) in enumerate(plans):
        behs = ta_common.gen_behaviours(ctx, "TcpAuthGen", cfg, n, ctx.seed * 3 + i)
        if len(behs) < n // 3:
            raise vlib.Inconclusive("behaviour generation (%s) produced only %d behaviours" % (cfg, len(behs)))
        res, rows, info = run_behaviours(ctx, behs, keyset, pad, ctx.seed * 10 + i,
                                         "auth %s keys=%s pad=%d" % (cfg, keyset, pad))
        count(ctx, rows, info)
        if i == 0:
            ctx.sample({"behaviour": behs[0]})
            ctx.sample({"trace_head": rows[:14]})


def mass(ctx):
    drv = ta_common.driver(ctx)
    nconn = 3000 if ctx.quick else 100000
    tf = os.path.join(ctx.scratch, "mass.ndjson")
    info, _ = ta_common.run_driver(ctx, [drv, "salts", "-n", str(nconn), "-par", "16", "-out", tf, "-seed", str(ctx.seed)],
                                   "salts", timeout=1800)
    res = ta_common.validate_ta(ctx, tf, KEYS["Q"], "salts n=%d" % nconn, ta_common.C08_KINDS)
    ctx.cov["response_salts"] = ctx.cov.get("response_salts", 0) + res["mass"]
    ctx.cov["mass_run"] = info
    ctx.cov["evaluations"] += 1


def run(ctx):
    exhaustive(ctx)
    stage(ctx, "behaviours", lambda: behaviour_stage(ctx))
    stage(ctx, "storm", lambda: storm(ctx))
    stage(ctx, "fault", lambda: fault(ctx))
    stage(ctx, "salts", lambda: mass(ctx))   # freshness at scale
    vlib.write_evidence(ctx, "model_checking",
                        "TLC enumerates all interleavings of <= 3-4 connections with every salt choice and replay-cache "
                        "mode; simulated behaviours (distinct as action sequences) are executed on the real authenticator + "
                        "handler over TCP with real encryption; non-trivial = the behaviour presents at least one "
                        "server-made salt (reflected real server output or own stream under that salt); every trace is "
                        "validated by TLC; response_salts = salts checked for freshness and mark", ASSUME)


def replay(ctx, path):
    d = json.load(open(path))
    rep = d["replay"]
    keys = rep.get("keys")
    if rep.get("behaviour") and isinstance(keys, list):
        # re-execute the behaviour on the real code (key list without padding), validate the fresh trace
        ks = "Q" if any(k["name"] == 5 for k in keys if k["name"] < 1000) else "X"
        for s in range(6):
            run_behaviours(ctx, [rep["behaviour"]], ks, 0, ctx.seed * 100 + s, "replay of " + os.path.basename(path))
        return
    # nothing to re-execute (mass run): the recorded trace itself is judged again
    rows = [x for x in rep["scenario_trace"] if x.get("ev") != "..."]
    tf = os.path.join(ctx.scratch, "replay.ndjson")
    vlib.write_ndjson(tf, rows)
    if isinstance(keys, list):
        ta_common.validate_ta(ctx, tf, keys, "recorded trace of " + os.path.basename(path), ta_common.C08_KINDS)
