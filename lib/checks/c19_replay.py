"""C19, replay history: (a) linearizability - concurrent Add/Resize traces, ordered by the hook under the cache mutex,
must be explainable by the sequential ReplayCache spec (TLC, ReplayCacheTrace); (b) race monitor - the same driver
built with -race."""
import json, os
import vlib
from checks import rc_common, race_common


def run_part(ctx):
    drv = vlib.go_build(ctx, "./cmd/replaycache", "replaycache-race", race=True)
    env = vlib.goenv(extra={"GORACE": "halt_on_error=0"})
    shapes = [dict(g=8, n=300, cap=5, univ=12, presize=15, rounds=6),
              dict(g=16, n=200, cap=50, univ=80, presize=40, rounds=3)]
    if not ctx.quick:
        shapes += [dict(g=64, n=300, cap=20, univ=40, presize=30, rounds=5),
                   dict(g=4, n=5000, cap=1000, univ=3000, presize=500, rounds=2, maxcap=2000)]
    for i, sh in enumerate(shapes):
        tf = os.path.join(ctx.scratch, "c19rc%d.ndjson" % i)
        cmd = [drv, "conc", "-out", tf, "-seed", str(ctx.seed * 13 + i)]
        for k, v in sh.items():
            cmd += ["-" + k, str(v)]
        rc, out, err = vlib.run(cmd, env=env, timeout=900)
        reps = race_common.race_reports(err)
        race_common.report(ctx, "ReplayCache", reps, "replaycache conc %s" % json.dumps(sh, sort_keys=True))
        if rc not in (0, 66) and not reps:
            raise vlib.Inconclusive("replaycache -race driver failed rc=%d: %s" % (rc, err[-1500:]))
        # linearizability: the mechanism layer must explain every result (drift here IS the verdict for C19: results
        # that no sequential order of the same calls produces) - except while races are being reported anyway
        res = rc_common.validate(ctx, tf, "C19 conc %s" % json.dumps(sh, sort_keys=True))
        ctx.cov["evaluations"] += sh["rounds"]
        ctx.cov["distinct_nontrivial"] += sh["rounds"]
        if res["drift"] and not reps:
            sl = rc_common.context_slice(tf, res["drift"], 12)
            ctx.violation({"module": "ReplayCache", "kind": "not-linearizable"},
                          "C19: ReplayCache results are not explained by the sequential specification in hook order "
                          "(trace line %d): %s" % (res["drift"], json.dumps(sl[-1])),
                          {"trace_from_last_New": sl})
