"""C17 - tunnel time equals the time each client actually had a tunnel open.

0. The overlay harness probes how the working tree's Collect reads the clock: before taking the lock ("asis", the code
   as it was written) or under it ("underlock", the repaired variant).  The model variant of spec/TunnelTime.tla is
   chosen accordingly (constant ClockUnderLock).
1. TLC exhaustive (design verdict): mechanism => property layer (InWindowKey/Loc, LocSumEqKeySum, Conservation,
   RefCountMatches, NonNegativeIncrement, Monotone) for the variant the code implements; for "asis" the interleaved
   model is EXPECTED to fail NonNegativeIncrement: TLC prints the shortest schedule, which is a model finding and is
   replayed on the real collectors (only what the real code then does is a verdict).
2. spec -> code: TLC-simulated behaviours (sequential histories; histories with everything interleaved inside scrapes,
   two concurrent scrapers) are executed on the real prometheus.NewServiceMetrics collectors under the stubbed clock.
3. code -> spec: the recorded traces (what each scrape really showed) are validated by TLC (TunnelTimeTrace): property
   layer = verdict, mechanism layer = drift.
3b. concurrent stage (no hook): workers + concurrent Registry.Gather scrapes, burst rounds of simultaneous FIRST opens of
   one (ip,key); the serialised trace with its quiescent scrapes is validated by TLC against the ideal account.
4. a scrape that panicked in-process is re-run in a child `go test` process through Registry.Gather to show that
   nothing recovers it (process exit).
"""
import json, os
import vlib
from checks import tt_common as T

ASSUME = [
    "time is the stubbed package variable prometheus.now driven by the model's integer clock; one model unit is 700, 1000, "
    "250 or 1300 ms on the code side (round robin per behaviour), values are compared in thousandths of a unit, so "
    "sub-second periods between reports are accounted for",
    "concurrent stage: the stub clock advances only at barriers, so every serialisation of a phase that respects program "
    "order has the same ideal account; burst rounds make all workers open the first tunnels of one idle (ip,key) at once "
    "while a database lookup takes 1 ms",
    "a scrape is the direct call of serviceMetrics.Collect in a harness goroutine (what Registry.Gather does in its "
    "collector goroutines); the end-of-history scrape and the child-process run go through Registry.Gather itself",
    "the location label an IP is accounted under is the one the C20 decision table gives (fake database, loopback = XL)",
    "client addresses that cannot be parsed by toIPKey never get tunnel time (not reachable with real sockets)",
    "TLC 1.8.0 and the hand transcription of metrics.go into TunnelTime.tla (checked by trace validation, drift = 0)",
]


def exhaustive(ctx, mode):
    quick = ctx.quick
    runs = []
    if mode == "asis":
        seq = T.cfg_with("MC_TunnelTimeSeq.cfg", MaxClock=2 if quick else 3)
        runs.append(("TunnelTime", "seq.cfg", seq, "code as is, sequential histories: mechanism => property"))
    else:
        if quick:
            runs.append(("TunnelTime", "MC_TunnelTime.cfg", None, "clock under lock, 2 scrapers interleaved with 2 tunnels"))
            runs.append(("TunnelTime", "MC_TunnelTime3.cfg", None, "clock under lock, 1 scraper interleaved with 3 tunnels"))
        else:
            runs.append(("TunnelTime", "MC_TunnelTimeThorough.cfg", None, "clock under lock, 2 scrapers, 3 tunnels, clock<=3"))
            seq = T.cfg_with("MC_TunnelTimeSeq.cfg", MaxClock=3, ClockUnderLock=True)
            runs.append(("TunnelTime", "seq.cfg", seq, "clock under lock, sequential histories incl. unknown stop"))
    for module, cfg, text, label in runs:
        r = vlib.tlc(ctx, module, cfg, workers="auto", timeout=3000, deadlock=False,
                     extra_files={cfg: text} if text else None)
        ctx.add_tlc(r, label)
        if not r.ok:
            raise vlib.Inconclusive("model finding in TunnelTime.tla (%s): %s" % (label, r.violated))
    # anti-vacuity: the antecedents of the property layer are reachable (TLC must violate the negated witness)
    w = vlib.tlc(ctx, "TunnelTime", "MC_TunnelTimeWitness.cfg", workers=2, timeout=600, deadlock=False, want_trace=False)
    if w.violated != "Witness":
        raise vlib.Inconclusive("vacuity: no reachable scrape showing time with two overlapping tunnels (%s)" % w.violated)
    crash_beh = None
    if mode == "asis":
        r = T.shortest_crash(ctx)
        ctx.add_tlc(r, "code as is, scrapes interleaved: search for a negative increment (expected model finding)")
        if r.violated == "CrashDump" and r.behaviours:
            crash_beh = min(r.behaviours, key=len)
            ctx.notes.append("model finding (as-is model, NonNegativeIncrement): %s" % json.dumps(crash_beh))
        elif not r.ok:
            raise vlib.Inconclusive("as-is model: unexpected TLC result %s" % r.violated)
    return crash_beh


def nontrivial(trace):
    """a scrape of this trace showed tunnel time > 0"""
    return any(r.get("ev") == "CollectEnd" and any(v > 0 for v in (r.get("keyv") or {}).values()) for r in trace)


def replay_family(ctx, name, behs, mode, *, db="alt"):
    rc, out, rows = T.run_overlay(ctx, behs, db=db, tag=name)
    err = T.overlay_failed(rc, out, rows)
    if err:
        raise vlib.Inconclusive("prometheus overlay harness (%s): %s" % (name, err))
    m2, traces = T.split_traces(rows)
    if m2 != mode:
        raise vlib.Inconclusive("clock-read probe unstable: %s then %s" % (mode, m2))
    if len(traces) != len(behs):
        raise vlib.Inconclusive("%s: %d behaviours but %d traces" % (name, len(behs), len(traces)))
    res = T.validate(ctx, traces, mode, name, behaviours=behs, report=False)
    ctx.cov["traces_validated_against_impl"] += res["ntraces"]
    ctx.cov["evaluations"] += len(behs)
    ctx.cov["distinct_nontrivial"] += sum(1 for t in traces if nontrivial(t))
    ctx.cov.setdefault("trace_events", 0)
    ctx.cov["trace_events"] += res["events"]
    return traces, res


def concurrent_stage(ctx, shape, tag="c17conc"):
    rc, out, rows = T.run_concurrent(ctx, shape, tag=tag)
    if vlib.compile_failed(out):
        raise vlib.Inconclusive("metrics concurrent overlay does not compile against the working tree:\n" + out[-3000:])
    if rc != 0 or "HARNESS-ERROR" in out or not rows or rows[-1].get("ev") != "Done":
        raise vlib.Inconclusive("metrics concurrent driver failed (rc=%d):\n%s" % (rc, out[-2500:]))
    _, traces = T.split_traces(rows)
    res = T.validate(ctx, traces, "underlock", "concurrent first opens %s" % json.dumps(shape, sort_keys=True), report=False,
                     timeout=1800)
    ctx.cov["traces_validated_against_impl"] += res["ntraces"]
    ctx.cov["evaluations"] += rows[-1].get("bursts", 0) + shape["phases"]
    ctx.cov["distinct_nontrivial"] += rows[-1].get("bursts", 0)
    ctx.cov["concurrent_stage"] = {"shape": shape, "events": res["events"], "burst_rounds": rows[-1].get("bursts"),
                                   "concurrent_gathers": rows[-1].get("gathers"), "conns": rows[-1].get("conns")}
    return traces, res


def child_confirm(ctx, beh):
    """Runs the behaviour with the scrape going through Registry.Gather in a child process.  Returns a description."""
    rc, out, rows = T.run_overlay(ctx, [beh], db="nil", child=True, tag="child", timeout=120)
    if vlib.compile_failed(out):
        return "child run did not compile"
    if rc != 0 and "counter cannot decrease in value" in out and "panic:" in out:
        frame = ""
        for ln in out.splitlines():
            if "prometheus/metrics.go:" in ln:
                frame = ln.strip()
                break
        return "child process running the same schedule through Registry.Gather died: 'panic: counter cannot decrease in " \
               "value' (exit %d; first repo frame %s)" % (rc, frame or "?")
    return "child process did not die (rc=%d)" % rc


def selftest(ctx, traces, mode):
    """anti-vacuity: a corrupted copy of an accepted trace must be rejected by TLC (one extra second in a scrape)."""
    import copy
    for t in traces:
        if t[-1].get("panic") or any(r.get("panic") for r in t):
            continue
        for i, r in enumerate(t):
            if r.get("ev") == "CollectEnd" and any(v > 0 for v in (r.get("keyv") or {}).values()):
                bad = copy.deepcopy(t)
                k = sorted(bad[i]["keyv"])[0]
                bad[i]["keyv"][k] += 1
                res = T.validate(ctx, [bad], mode, "selftest", report=False, quiet=True)
                if not res["violations"]:
                    raise vlib.Inconclusive("trace validator self-test: a corrupted scrape value was accepted")
                less = copy.deepcopy(t)
                less[i]["keyv"][k] -= 1
                for e in less[i]["locv"]:
                    if e["v"] >= 1:
                        e["v"] -= 1
                        break
                res = T.validate(ctx, [less], mode, "selftest", report=False, quiet=True)
                if not res["violations"]:
                    raise vlib.Inconclusive("trace validator self-test: a lost second was accepted")
                return
    raise vlib.Inconclusive("trace validator self-test: no accepted trace with a non-zero scrape")


def run(ctx):
    quick = ctx.quick
    # 0. probe + a first family that is safe in both variants: sequential histories
    nseq = 150 if quick else 1500
    ninter = 150 if quick else 1500
    seq, _ = T.gen_behaviours(ctx, nseq, Interleave=False, NS=1, MaxOps=30, seed=ctx.seed)
    seq2, _ = T.gen_behaviours(ctx, nseq // 3, Interleave=False, NS=1, MaxOps=14, NI=2, NK=2, NL=2, MaxConn=5, seed=ctx.seed + 1)
    seq += seq2
    if len(seq) < nseq // 2:
        raise vlib.Inconclusive("behaviour generation produced only %d sequential behaviours" % len(seq))
    rc, out, rows = T.run_overlay(ctx, seq[:1], db="nil", tag="probe")
    err = T.overlay_failed(rc, out, rows)
    if err:
        raise vlib.Inconclusive("prometheus overlay harness: " + err)
    mode, _ = T.split_traces(rows)
    if mode not in ("asis", "underlock"):
        raise vlib.Inconclusive("Collect does not read the stubbed clock (probe says %r): the harness cannot drive time" % mode)
    ctx.cov["clock_read"] = "before Lock (code as it is)" if mode == "asis" else "under the lock"

    # 1. design verdict for the variant the code implements (+ expected model finding for the as-is variant)
    crash_beh = exhaustive(ctx, mode)

    # 2./3. replay + trace validation
    all_viol = []          # (kind, trace, row, behaviour, family)
    fams = [("sequential", seq)]
    inter, _ = T.gen_behaviours(ctx, ninter, Interleave=True, NS=2, MaxOps=30, ClockUnderLock=(mode != "asis"), seed=ctx.seed + 2)
    inter2, _ = T.gen_behaviours(ctx, ninter // 2, Interleave=True, NS=2, MaxOps=12, NI=2, NK=2, NL=2, MaxConn=4, TickSet="{1, 2}",
                                 ClockUnderLock=(mode != "asis"), seed=ctx.seed + 3)
    fams.append(("interleaved", inter + inter2))
    if crash_beh:
        fams.append(("model-finding", [crash_beh]))
    good = []
    for name, behs in fams:
        traces, res = replay_family(ctx, name, behs, mode)
        for kind, tn, row in res["violations"]:
            all_viol.append((kind, traces[tn], row, behs[tn], name))
        if name == "sequential":
            good = traces
            ctx.sample({"behaviour": behs[0][:12]})
            ctx.sample({"recorded_trace_head": [r for r in traces[0] if r.get("ev") != "Expo"][:10]})
    selftest(ctx, good, mode)

    # concurrent stage: workers + concurrent scrapes; burst rounds in which all workers open the FIRST tunnels of one idle
    # (ip,key) at the same instant while a database lookup takes a millisecond.  The totals at every quiescent scrape must
    # equal the ideal account (TLC on the serialised trace).
    shape = dict(g=8, s=2, phases=3 if quick else 10, ops=40, seed=ctx.seed, nk=3, unit_ms=700)
    ctraces, cres = concurrent_stage(ctx, shape)
    for kind, tn, row in cres["violations"]:
        all_viol.append((kind, ctraces[tn], row, {"concurrent_shape": shape}, "concurrent-first-opens"))

    if crash_beh and not any(f == "model-finding" for *_, f in all_viol):
        raise vlib.Inconclusive("model/code divergence: the as-is model's negative increment was not reproduced by the real "
                                "collectors on schedule %s" % json.dumps(crash_beh))

    # verdicts: one report per kind (shortest schedule), the rest counted
    by_kind = {}
    for v in all_viol:
        by_kind.setdefault(v[0], []).append(v)
    for kind, vs in sorted(by_kind.items()):
        vs.sort(key=lambda v: (len(v[1]), v[4] != "model-finding"))
        k, trace, row, beh, fam = vs[0]
        extra = ""
        if kind == "negative-increment":
            extra = child_confirm(ctx, beh)
            ctx.notes.append(extra)
        upto = trace[:T.row_index(trace, row) + 1]
        if fam == "concurrent-first-opens":
            upto = upto[:1] + [{"ev": "...", "skipped": max(0, len(upto) - 61)}] + upto[-60:] if len(upto) > 61 else upto
        ctx.cov.setdefault("violating_traces", {})[kind] = len(vs)
        ctx.violation(T.signature(kind),
                      "tunnel time: %s; schedule (%s, clock read %s): %s; observed: %s; %d recorded traces show this. %s" % (
                          T.KIND_TEXT.get(kind, kind), fam, ctx.cov["clock_read"], T.schedule_text(upto)[-700:],
                          json.dumps({a: b for a, b in row.items() if a != "ev"})[:300], len(vs), extra),
                      {"module": "TunnelTime", "family": fam, "behaviour": beh, "recorded_trace": upto, "mode": mode,
                       "process_level": extra})

    vlib.write_evidence(ctx, "model_checking",
                        "TLC enumerates every interleaving of opens/auths/closes (TCP and UDP), ticks and split scrapes for "
                        "the small constants (states/transitions); simulated behaviours, distinct as action sequences, are "
                        "executed on the real collectors; traces_validated = recorded traces TLC accepted against the "
                        "property layer; non-trivial = a scrape of the trace showed tunnel time > 0", ASSUME)


def replay(ctx, path):
    d = json.load(open(path))
    rp = d["replay"]
    beh = rp.get("behaviour")
    if isinstance(beh, dict) and beh.get("concurrent_shape"):
        traces, res = concurrent_stage(ctx, beh["concurrent_shape"], tag="replay")
        for kind, tn, row in res["violations"][:1]:
            T.report_violation(ctx, kind, traces[tn][:1] + traces[tn][max(1, T.row_index(traces[tn], row) - 60):T.row_index(traces[tn], row) + 1],
                               row, "replay (concurrent first opens)", beh)
        print("replayed concurrent stage: %d violation(s)" % len(res["violations"]))
        return
    if not beh:
        raise vlib.Inconclusive("replay file has no behaviour")
    rc, out, rows = T.run_overlay(ctx, [beh], db="alt", tag="replay")
    err = T.overlay_failed(rc, out, rows)
    if err:
        raise vlib.Inconclusive("prometheus overlay harness: " + err)
    mode, traces = T.split_traces(rows)
    res = T.validate(ctx, traces, mode, "replay of " + os.path.basename(path), behaviours=[beh], report=True)
    print("replayed: clock read %s; %d violation(s); schedule: %s" % (mode, len(res["violations"]), T.schedule_text(traces[0])))
