"""C19 - shared server state is free of data races under concurrent use.

Two halves per component (key list, replay history, association table, shared listeners, metrics collectors):
 * linearizability: concurrent drivers record each operation at its linearization point (hook under the lock) or as
   call start/end; TLC must explain the recorded results with the sequential specification of the component;
 * memory model: the same spec-driven drivers are built with the Go race detector; every report with a frame in the
   repository is a violation.  This half is a runtime monitor, not a model-checking result (see DESIGN.md C19)."""
import importlib
import vlib

PARTS = ["c19_replay", "c19_listeners", "c19_cipherlist", "c19_nat", "c19_metrics", "c19_server"]


def run(ctx):
    ran = []
    # the sequential specifications themselves (design verdicts) are checked exhaustively by their own properties'
    # checks; here one exhaustive run of the smallest is included so that the evidence carries TLC statistics
    r = vlib.tlc(ctx, "ReplayCache", "MC_ReplayCache.cfg", workers="auto", timeout=1200, deadlock=False)
    ctx.add_tlc(r, "sequential specification of the replay history")
    for p in PARTS:
        try:
            mod = importlib.import_module("checks." + p)
        except ImportError:
            ctx.cov["skipped"].append("%s: not built yet" % p)
            continue
        mod.run_part(ctx)
        ran.append(p)
    ctx.cov["components"] = ran
    vlib.write_evidence(ctx, "model_checking",
                        "per component: concurrent spec-driven driver rounds (each round = one concurrent history) validated "
                        "by TLC against the sequential specification, and executed under the Go race detector",
                        ["the race detector only sees the interleavings that occur; it is a monitor, not a proof",
                         "hooks fire under the component's lock, so hook order is a linearization order"])


def replay(ctx, path):
    run(ctx)
