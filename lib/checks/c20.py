"""C20 - metrics never expose client addresses and label locations by class.

1. TLC exhaustive: LocationLabel.tla - the decision steps of ipinfo.GetIPInfoFromAddr/FromIP (mechanism) against the
   statement's table Label(class, database behaviour) and "database consulted => global /\\ enabled", whole table.
2. spec -> code -> spec (i): every row TLC prints is executed by harness/cmd/locationlabel on the real ipinfo functions
   with many concrete addresses per class and several concrete databases per behaviour (recording fake, answers only
   for the expected IP); the recorded calls are validated by TLC (LocationLabelTrace): label by class (verdict),
   database use (verdict), error return (drift).
2b. labels of the real collectors' series: TLC-simulated histories of LocationLabelHist.tla (which metrics call looks a
   client up, which series it feeds; per-client database behaviour scripted and CHANGING: error / no country / country)
   are replayed on prometheus.NewServiceMetrics; after every step the labels whose series grew are recorded for
   tcp_connections_opened/closed, data_bytes_per_location, udp_packets_from_client_per_location and
   tunnel_time_seconds_per_location, and LocationLabelTrace checks them against Label(class, behaviour in force at the
   lookup that feeds the series) - the same client is looked up many times per history.
2c. scrape concurrent with a client's FIRST registration: LocationLabelRace.tla (registration + lookup as one critical
   section; negative control = entry visible before its lookup answered) is checked exhaustively; TLC-simulated schedules
   (Begin / ScrapeBegin / Release / ScrapeEnd) are replayed on the real collectors with a database stub whose lookup
   BLOCKS; LocationLabelTrace (ScrapeSet) judges the location labels every scrape exported: never empty with lookup
   enabled, only the final labels of the clients.  A scrape that blocks until the lookup answers is fine.
3. exposure (ii): TLC-generated traffic histories of TunnelTime.tla (open/auth/close/probe/udp add/packets/remove/
   scrape) are replayed on the REAL prometheus.NewServiceMetrics collectors (private registry) from distinctive client
   addresses; the text exposition and the gathered series are scanned for client IP literals (all textual forms) and
   client ports; label names must be in the fixed set; `port` values must be listener addresses; location labels must
   be the ones the table gives for the clients.  The same traces are validated by TunnelTimeTrace (C17's oracle).
"""
import ipaddress, json, os, re
import vlib
from checks import tt_common as T

ALLOWED_LABELS = {"access_key", "location", "asn", "asorg", "status", "dir", "proto", "port", "found_key", "error", "le",
                  "version"}
ASSUME = [
    "'global' is Go's net.IP.IsGlobalUnicast (RFC1918/ULA/CGNAT/reserved addresses are looked up; the repository's own "
    "test TestGetIPInfoFromIPLocalNetworkAddressReturnsUnknownLocation pins this reading); the stricter reading is the "
    "spec constant PrivateIsGlobal = FALSE",
    "the class of each concrete address is fixed by construction in harness/cmd/locationlabel (table of literals), not "
    "computed with the code under test",
    "zoned literals may be XA or XL but uniformly; GetIPInfoFromIP(nil map, nil IP) = '' is API misuse outside the statement",
    "exposure is checked on the collectors of prometheus.NewServiceMetrics driven through the public metrics API with "
    "fake conns carrying distinctive addresses; the process-level /metrics endpoint adds only the server metrics "
    "(build info, keys, ports), which carry no per-client data",
    "TLC 1.8.0 and the hand transcription of ipinfo.go into LocationLabel.tla (checked by trace validation)",
]


def _result(r):
    for ln in r.prints + r.out.splitlines():
        m = re.match(r'^<<"RESULT", "(.*)">>$', ln.strip())
        if m:
            try:
                return json.loads(m.group(1).replace('\\"', '"').replace("\\\\", "\\"))
            except ValueError:
                return None
    return None


def table_binding(ctx):
    r = vlib.tlc(ctx, "LocationLabel", "MC_LocationLabel.cfg", workers=2, timeout=300, deadlock=False)
    ctx.add_tlc(r, "exhaustive decision table: mechanism => Label(class, db), DbConsulted => global /\\ enabled")
    if not r.ok:
        raise vlib.Inconclusive("model finding in LocationLabel.tla: %s" % r.violated)
    g = vlib.tlc(ctx, "LocationLabelGen", "Gen_LocationLabel.cfg", workers=1, timeout=300, deadlock=False)
    rows, seen = [], set()
    for b in g.behaviours:
        k = (b["entry"], b["cls"], b["db"])
        if k not in seen:
            seen.add(k)
            rows.append(b)
    if len(rows) < 80:
        raise vlib.Inconclusive("decision table generation produced only %d rows" % len(rows))
    drv = vlib.go_build(ctx, "./cmd/locationlabel", "locationlabel")
    rf = os.path.join(ctx.scratch, "ll-rows.json")
    tf = os.path.join(ctx.scratch, "ll-trace.ndjson")
    json.dump(rows, open(rf, "w"))
    rc, out, err = vlib.run([drv, "-in", rf, "-out", tf], env=vlib.goenv(), timeout=300)
    if rc != 0:
        raise vlib.Inconclusive("locationlabel driver failed: %s" % err[-2000:])
    events = vlib.read_ndjson(tf)
    ok, r = vlib.validate_traces(ctx, "LocationLabelTrace", "LocationLabelTrace.cfg", tf, timeout=600)
    res = _result(r)
    if res is None or res["lines"] != len(events) or not ok:
        raise vlib.Inconclusive("LocationLabelTrace did not consume the whole trace: %s %s" % (
            r.violated or "", "\n".join(r.out.splitlines()[-15:])))
    ctx.cov["traces_validated_against_impl"] += len(rows) - len({(events[v["line"] - 1]["entry"], events[v["line"] - 1]["cls"],
                                                                   events[v["line"] - 1]["db"]) for v in res["viols"]})
    ctx.cov["evaluations"] += len(events)
    ctx.cov["distinct_nontrivial"] += len({(e["entry"], e["cls"], e["db"], e["variant"], e["addr"]) for e in events
                                           if e["db"] != "disabled"})
    ctx.cov.setdefault("label_calls", 0)
    ctx.cov["label_calls"] += len(events)
    for e in events[:1] + [e for e in events if e["cls"] == "zoned"][:1] + [e for e in events if e["consulted"]][:1]:
        ctx.sample({"label_call": e})
    if res["drifts"]:
        ctx.cov["drift"] += len(res["drifts"])
        ctx.notes.append("drift (ipinfo): %d calls differ from the mechanism layer only (error return / lookup detail), e.g. %s" % (
            len(res["drifts"]), json.dumps(events[res["drifts"][0] - 1])))
    seen_sig = set()
    for v in res["viols"]:
        e = events[v["line"] - 1]
        sig = {"module": "LocationLabel", "kind": v["kind"], "entry": e["entry"], "class": e["cls"], "db": e["db"]}
        k = json.dumps(sig, sort_keys=True)
        if k in seen_sig:
            continue
        seen_sig.add(k)
        ctx.violation(sig, "ipinfo.GetIPInfo%s labelled %s address %s as %r with database behaviour %s/%s (database %s): %s" % (
            e["entry"], e["cls"], e["addr"], e["raw"], e["db"], e["variant"],
            "asked with %s" % e.get("dbarg") if e["consulted"] else "not asked", v["kind"]),
            {"kind": "label", "row": {"entry": e["entry"], "cls": e["cls"], "db": e["db"]}, "event": e})
    return len(rows), len(events)


# ---- exposure -----------------------------------------------------------------------------------------
def ip_forms(host):
    ip = ipaddress.ip_address(host)
    forms = set()
    if ip.version == 4:
        o = host.split(".")
        n = int(ip)
        forms |= {host, "::ffff:" + host, "%02x%02x:%02x%02x" % tuple(int(x) for x in o), "%08x" % n, str(n),
                  "-".join(o), "_".join(o), ".".join(reversed(o)), "%x:%x" % (n >> 16, n & 0xffff)}
    else:
        forms |= {ip.compressed, ip.exploded, ip.exploded.replace(":", ""),
                  ":".join("%x" % int(g, 16) for g in ip.exploded.split(":")),
                  ip.compressed.replace(":", "-"), ip.exploded.replace(":", "-")}
    return {f.lower() for f in forms if len(f) >= 7}


def scan_exposition(expo, reset):
    """-> list of (kind, detail) findings for one behaviour's exposition."""
    findings = []
    text = expo["text"]
    low = text.lower()
    listeners = set(reset["listeners"])
    clients = []
    for a in reset["clients"]:
        host, port = a.rsplit(":", 1)
        clients.append((host.strip("[]"), port))
    for host, port in clients:
        for f in ip_forms(host):
            if f in low:
                line = next((ln for ln in text.splitlines() if f in ln.lower()), "")
                findings.append(("client-ip-exposed", "client %s appears as %r in: %s" % (host, f, line[:200])))
                break
        m = re.search(r"(?<![\d.])%s(?![\d.])" % re.escape(port), text)
        if m:
            line = next((ln for ln in text.splitlines() if re.search(r"(?<![\d.])%s(?![\d.])" % re.escape(port), ln)), "")
            findings.append(("client-port-exposed", "client port %s appears in: %s" % (port, line[:200])))
    exp_loc = {tuple(x) for x in reset["labels"]} | ({("", "", "")} if not reset["db"] else set())
    for s in expo["series"]:
        names = set(s["labels"])
        extra = names - ALLOWED_LABELS
        if extra:
            findings.append(("unknown-label-name", "series %s has label(s) %s" % (s["name"], sorted(extra))))
        if "port" in s["labels"] and s["labels"]["port"] not in listeners:
            findings.append(("port-label-not-listener", "series %s has port=%r (listeners: %s)" % (
                s["name"], s["labels"]["port"], sorted(listeners))))
        if "location" in s["labels"]:
            tup = (s["labels"]["location"], s["labels"].get("asn", ""), s["labels"].get("asorg", ""))
            if tup not in exp_loc:
                findings.append(("location-label-unexpected", "series %s has location tuple %s; the table gives %s" % (
                    s["name"], list(tup), sorted(exp_loc))))
    return findings


def exposure(ctx):
    quick = ctx.quick
    n = 120 if quick else 1200
    fam = []
    b1, _ = T.gen_behaviours(ctx, n, Interleave=False, NS=1, MaxOps=36, seed=ctx.seed)
    b2, _ = T.gen_behaviours(ctx, n // 2, Interleave=False, NS=1, MaxOps=60, MaxConn=12, NI=5, NL=3, seed=ctx.seed + 7, depth=120)
    fam = b1 + b2
    if len(fam) < n // 2:
        raise vlib.Inconclusive("behaviour generation produced only %d behaviours" % len(fam))
    rc, out, rows = T.run_overlay(ctx, fam, db="alt", tag="expo")
    err = T.overlay_failed(rc, out, rows)
    if err:
        raise vlib.Inconclusive("prometheus overlay harness: " + err)
    mode, traces = T.split_traces(rows)
    # the same traces are tunnel-time traces: validated by C17's oracle (violations belong to C17; noted here)
    res = T.validate(ctx, traces, mode, "C20 exposure histories", behaviours=fam, report=False)
    ctx.cov["traces_validated_against_impl"] += res["ntraces"]
    if res["violations"]:
        ctx.notes.append("%d of the exposure histories violate the tunnel-time oracle (reported by C17): %s" % (
            len(res["violations"]), res["violations"][0][0]))
    nscan = nseries = 0
    families = set()
    reported = set()
    for i, t in enumerate(traces):
        reset = t[0]
        expo = next((r for r in t if r.get("ev") == "Expo"), None)
        if expo is None:
            continue
        nscan += 1
        nseries += len(expo["series"])
        families |= {s["name"] for s in expo["series"]}
        for kind, detail in scan_exposition(expo, reset):
            if kind in reported:
                continue
            reported.add(kind)
            ctx.violation({"module": "metrics", "kind": kind},
                          "metrics exposition after a scripted traffic history: %s" % detail,
                          {"kind": "exposure", "behaviour": fam[i] if i < len(fam) else None, "db": reset["db"],
                           "clients": reset["clients"], "detail": detail})
    if nscan < len(fam) // 2:
        raise vlib.Inconclusive("only %d of %d histories produced an exposition" % (nscan, len(fam)))
    need = {"tcp_connections_opened", "tcp_connections_closed", "tcp_probes", "data_bytes", "data_bytes_per_location",
            "udp_nat_entries_added", "udp_packets_from_client_per_location", "tunnel_time_seconds",
            "tunnel_time_seconds_per_location", "time_to_cipher_ms", "tcp_connection_duration_ms"}
    missing = need - families
    if missing:
        raise vlib.Inconclusive("the traffic histories did not populate metric families %s (vacuous exposure scan)" % sorted(missing))
    ctx.cov["evaluations"] += nscan
    ctx.cov["distinct_nontrivial"] += nscan
    ctx.cov["expositions_scanned"] = nscan
    ctx.cov["series_scanned"] = nseries
    ctx.cov["metric_families_seen"] = sorted(families)
    ex = next((r for t in traces for r in t if r.get("ev") == "Expo"), None)
    if ex:
        ctx.sample({"exposition_head": ex["text"].splitlines()[:12]})
    return nscan


# ---- labels of the real collectors' series under scripted per-client database behaviours ---------------------
LH_OVERLAY = dict(T.OVERLAY)
LH_OVERLAY["zz_verif_labelhist_test.go"] = os.path.join(vlib.HARNESS, "overlay", "prometheus", "zz_verif_labelhist_test.go")
LH_FAMILIES = ["opened", "closed", "bytes", "udp", "tt"]
LH_NAMES = {"opened": "tcp_connections_opened", "closed": "tcp_connections_closed", "bytes": "data_bytes_per_location",
            "udp": "udp_packets_from_client_per_location", "tt": "tunnel_time_seconds_per_location"}


def lh_generate(ctx, num, seed, **consts):
    cfg = T.cfg_with("Gen_LocationLabelHist.cfg", **consts)
    r = vlib.tlc(ctx, "LocationLabelHistGen", "Gen_LocationLabelHistRun.cfg", simulate=num, depth=120, seed=seed,
                 deadlock=False, timeout=600, extra_files={"Gen_LocationLabelHistRun.cfg": cfg})
    behs, seen = [], set()
    for b in r.behaviours:
        k = json.dumps(b, sort_keys=True)
        if k not in seen:
            seen.add(k)
            behs.append(b)
    return behs


def lh_run(ctx, behs, tag="lh"):
    d = ctx.sub(tag)
    inp, outp = os.path.join(d, "in.json"), os.path.join(d, "out.ndjson")
    steps = [[{k: v for k, v in st.items() if k in ("a", "c", "ip", "key", "m", "dbm", "enabled")} for st in b] for b in behs]
    json.dump({"behaviours": steps}, open(inp, "w"))
    rc, out = vlib.go_overlay_test(ctx, "prometheus", LH_OVERLAY, "^TestVerifLabelHistory$", timeout=600,
                                   env_extra={"VERIF_LH_IN": inp, "VERIF_LH_OUT": outp})
    if vlib.compile_failed(out):
        raise vlib.Inconclusive("label-history overlay does not compile against the working tree:\n" + out[-3000:])
    rows = vlib.read_ndjson(outp) if os.path.exists(outp) else []
    if rc != 0 or "HARNESS-ERROR" in out or not rows or rows[-1].get("ev") != "Done":
        raise vlib.Inconclusive("label-history overlay failed (rc=%d):\n%s" % (rc, out[-3000:]))
    return rows


def lh_events(behs, rows):
    """Merges what the model says each step feeds (want: lookups stamped with the database behaviour in force at the
    lookup) with what the real exposition showed (got) into LabelSet/Consulted events for LocationLabelTrace."""
    events, index = [], []
    resets = {r["beh"]: r for r in rows if r.get("ev") == "Reset"}
    steps = {(r["beh"], r["i"]): r for r in rows if r.get("ev") == "Step"}
    for bi, b in enumerate(behs):
        rs = resets.get(bi)
        if rs is None:
            raise vlib.Inconclusive("label-history: behaviour %d not executed" % bi)
        cls, cc = rs["cls"], rs["cc"]
        for si, st in enumerate(b[1:], start=1):
            ob = steps.get((bi, si))
            if ob is None or ob["a"] != st["a"]:
                raise vlib.Inconclusive("label-history: step %d of behaviour %d not recorded" % (si, bi))
            for fam in LH_FAMILIES:
                want = [{"cls": cls[w["ip"] - 1], "db": w["db"], "cc": cc[w["ip"] - 1]} for w in st[fam]]
                got = list(ob["got"].get(fam, []))
                mode = st["ttmode"] if fam == "tt" else "eq"
                if not want and not got:
                    continue
                events.append({"ev": "LabelSet", "family": fam, "mode": mode, "want": want, "got": got})
                index.append((bi, si, fam))
            calls = [cls[i - 1] if 1 <= i <= len(cls) else "nonip" for i in ob.get("dbcalls") or []]
            if calls:
                events.append({"ev": "Consulted", "cls": calls, "enabled": bool(rs["enabled"])})
                index.append((bi, si, "consulted"))
    return events, index


def lh_judge(ctx, behs, rows, desc):
    events, index = lh_events(behs, rows)
    tf = os.path.join(ctx.scratch, "lh-trace-%d.ndjson" % len(os.listdir(ctx.scratch)))
    vlib.write_ndjson(tf, events)
    ok, r = vlib.validate_traces(ctx, "LocationLabelTrace", "LocationLabelTrace.cfg", tf, timeout=900)
    res = _result(r)
    if res is None or res["lines"] != len(events) or not ok:
        raise vlib.Inconclusive("LocationLabelTrace did not consume the label-history trace: %s %s" % (
            r.violated or "", "\n".join(r.out.splitlines()[-15:])))
    bad = {}
    for v in res["viols"]:
        bi, si, fam = index[v["line"] - 1]
        bad.setdefault(bi, []).append((si, fam, v["kind"], events[v["line"] - 1]))
    reported = set()
    for bi in sorted(bad, key=lambda b: (min(x[0] for x in bad[b]), b)):
        si, fam, kind, ev = min(bad[bi])
        sig = {"module": "metrics", "kind": kind, "family": LH_NAMES.get(fam, fam)}
        k = json.dumps(sig, sort_keys=True)
        if k in reported:
            continue
        reported.add(k)
        hist = " ; ".join("%s(%s)" % (s["a"], ",".join(str(s[x]) for x in ("c", "ip", "key", "m") if s.get(x))) for s in behs[bi][1:si + 1])
        ctx.violation(sig,
                      "location labels of the real collectors: step %d of a scripted history fed %s with label(s) %s; the "
                      "decision table allows %s the label(s) of the lookup(s) %s (client class, database behaviour in force at "
                      "that lookup, country the database answers); history: %s" % (
                          si, LH_NAMES.get(fam, fam), ev.get("got") if "got" in ev else "(database asked)",
                          "exactly" if ev.get("mode") == "eq" else "only", json.dumps(ev.get("want") if "want" in ev else ev.get("cls")),
                          hist[-700:]),
                      {"kind": "labelhist", "behaviour": behs[bi], "step": si, "event": ev})
    return len(events), len(behs) - len(bad), res


def label_histories(ctx):
    quick = ctx.quick
    n = 60 if quick else 600
    behs = lh_generate(ctx, n, ctx.seed + 3) + lh_generate(ctx, n // 2, ctx.seed + 4, NI=2, NK=1, MaxConn=8, MaxOps=30) \
        + lh_generate(ctx, max(4, n // 10), ctx.seed + 5, DbEnabled=False)
    if len(behs) < n // 2:
        raise vlib.Inconclusive("label-history generation produced only %d behaviours" % len(behs))
    # the antecedent must be there: a client looked up again after an erroring lookup (same or changed behaviour)
    def relook(b):
        err_ips, hit = set(), False
        dbm = list(b[0]["dbm"])
        for st in b[1:]:
            if st["a"] == "SetDb":
                dbm[st["ip"] - 1] = st["m"]
            if st["a"] in ("Open", "NatAdd", "Auth") and st.get("ip"):
                if st["ip"] in err_ips:
                    hit = True
                if dbm[st["ip"] - 1] == "error":
                    err_ips.add(st["ip"])
        return hit
    nre = sum(1 for b in behs if b[0]["enabled"] and relook(b))
    if nre < 5:
        raise vlib.Inconclusive("label histories are vacuous: only %d look a client up again after a database error" % nre)
    r = vlib.tlc(ctx, "LocationLabelHist", "MC_LocationLabelHist.cfg", workers="auto", timeout=900, deadlock=False)
    ctx.add_tlc(r, "lookup model of the collectors (which call looks up, which series it feeds): structure invariants")
    if not r.ok:
        raise vlib.Inconclusive("model finding in LocationLabelHist.tla: %s" % r.violated)
    rows = lh_run(ctx, behs)
    nev, nok, res = lh_judge(ctx, behs, rows, "label histories")
    ctx.cov["traces_validated_against_impl"] += nok
    ctx.cov["evaluations"] += len(behs)
    ctx.cov["distinct_nontrivial"] += nre
    ctx.cov["label_history_events"] = nev
    ctx.cov["label_histories_relookup_after_error"] = nre
    ctx.sample({"label_history_head": behs[0][:6]})


# ---- a scrape concurrent with the first registration of a client (LocationLabelRace) -------------------------
LR_OVERLAY = dict(T.OVERLAY)
LR_OVERLAY["zz_verif_labelrace_test.go"] = os.path.join(vlib.HARNESS, "overlay", "prometheus", "zz_verif_labelrace_test.go")
LR_KIND_TEXT = {
    "empty-location-with-lookup-enabled": "location lookup is ENABLED, yet the scrape exported a tunnel-time series with the "
                                          "empty location (reserved for 'lookup disabled'): the client was reported before its "
                                          "lookup had answered, so one client appears under two location labels",
    "series-label-mismatch": "the scrape exported a location label that no registered client has by its class / database "
                             "behaviour (or a sequential scrape lacks a client's label)",
}


def lr_generate(ctx, num, seed, **consts):
    cfg = T.cfg_with("Gen_LocationLabelRace.cfg", **consts)
    r = vlib.tlc(ctx, "LocationLabelRaceGen", "Gen_LocationLabelRaceRun.cfg", simulate=num, depth=80, seed=seed,
                 deadlock=False, timeout=300, extra_files={"Gen_LocationLabelRaceRun.cfg": cfg})
    if r.violated:
        raise vlib.Inconclusive("model finding in LocationLabelRace.tla while generating: %s" % r.violated)
    behs, seen = [], set()
    for b in r.behaviours:
        k = json.dumps(b, sort_keys=True)
        if k not in seen:
            seen.add(k)
            behs.append(b)
    return behs


def lr_run(ctx, behs, tag="lr", wait_ms=200):
    d = ctx.sub(tag)
    inp, outp = os.path.join(d, "in.json"), os.path.join(d, "out.ndjson")
    steps = [[{k: v for k, v in st.items() if k in ("a", "ip", "dbm", "enabled")} for st in b] for b in behs]
    json.dump({"wait_ms": wait_ms, "behaviours": steps}, open(inp, "w"))
    rc, out = vlib.go_overlay_test(ctx, "prometheus", LR_OVERLAY, "^TestVerifLabelRace$", timeout=180,
                                   env_extra={"VERIF_LR_IN": inp, "VERIF_LR_OUT": outp})
    if vlib.compile_failed(out):
        raise vlib.Inconclusive("label-race overlay does not compile against the working tree:\n" + out[-3000:])
    rows = vlib.read_ndjson(outp) if os.path.exists(outp) else []
    if rc != 0 or "HARNESS-ERROR" in out or not rows or rows[-1].get("ev") != "Done":
        raise vlib.Inconclusive("label-race overlay failed (rc=%d):\n%s" % (rc, out[-3000:]))
    return rows


def lr_judge(ctx, behs, rows):
    """ScrapeSet events (what the model allows: want; what the real scrape exported: got) -> LocationLabelTrace."""
    resets = {r["beh"]: r for r in rows if r.get("ev") == "Reset"}
    steps = {(r["beh"], r["i"]): r for r in rows if r.get("ev") == "Step"}
    events, index = [], []
    for bi, b in enumerate(behs):
        rs = resets.get(bi)
        if rs is None:
            raise vlib.Inconclusive("label-race: behaviour %d not executed" % bi)
        for si, st in enumerate(b[1:], start=1):
            ob = steps.get((bi, si))
            if ob is None or ob["a"] != st["a"]:
                raise vlib.Inconclusive("label-race: step %d of behaviour %d not recorded" % (si, bi))
            if st["a"] in ("ScrapeEnd", "Scrape"):
                want = [{"cls": rs["cls"][w["ip"] - 1], "db": w["db"], "cc": rs["cc"][w["ip"] - 1]} for w in st["want"]]
                events.append({"ev": "ScrapeSet", "enabled": bool(rs["enabled"]), "mode": st["mode"], "want": want,
                               "got": list(ob["got"])})
                index.append((bi, si, ob))
    tf = os.path.join(ctx.scratch, "lr-trace-%d.ndjson" % len(os.listdir(ctx.scratch)))
    vlib.write_ndjson(tf, events)
    ok, r = vlib.validate_traces(ctx, "LocationLabelTrace", "LocationLabelTrace.cfg", tf, timeout=600)
    res = _result(r)
    if res is None or res["lines"] != len(events) or not ok:
        raise vlib.Inconclusive("LocationLabelTrace did not consume the label-race trace: %s %s" % (
            r.violated or "", "\n".join(r.out.splitlines()[-15:])))
    bad, reported = set(), set()
    for v in res["viols"]:
        bi, si, ob = index[v["line"] - 1]
        bad.add(bi)
        conc = behs[bi][si]["a"] == "ScrapeEnd"
        sig = {"module": "metrics", "kind": v["kind"], "family": "tunnel_time_seconds_per_location",
               "schedule": "scrape-during-first-lookup" if conc else "sequential-scrape"}
        k = json.dumps(sig, sort_keys=True)
        if k in reported:
            continue
        reported.add(k)
        ev = events[v["line"] - 1]
        hist = " ; ".join("%s%s" % (s["a"], "(%d)" % s["ip"] if s.get("ip") else "") for s in behs[bi][1:si + 1])
        ctx.violation(sig,
                      "%s of tunnel_time_seconds_per_location: %s.  The scrape exported the series {%s}; the clients whose "
                      "registration had begun have the location labels %s (class, database behaviour, country); %s; schedule: %s" % (
                          "a scrape started while the location lookup of a client's first tunnel was in progress" if conc
                          else "a sequential scrape", LR_KIND_TEXT.get(v["kind"], v["kind"]), " | ".join(ob.get("tuples") or []),
                          json.dumps(ev["want"]), "lookup %s" % ("enabled" if ev["enabled"] else "disabled"), hist[-600:]),
                      {"kind": "labelrace", "behaviour": behs[bi], "step": si, "event": ev})
    return events, index, bad


def label_race(ctx):
    r = vlib.tlc(ctx, "LocationLabelRace", "MC_LocationLabelRace.cfg", workers=2, timeout=300, deadlock=False)
    ctx.add_tlc(r, "scrape concurrent with a client's first registration: no unset location, one location per client")
    if not r.ok:
        raise vlib.Inconclusive("model finding in LocationLabelRace.tla: %s" % r.violated)
    neg = vlib.tlc(ctx, "LocationLabelRace", "MC_LocationLabelRaceNeg.cfg", workers=2, timeout=300, deadlock=False)
    if neg.violated != "NoUnsetLocation":
        raise vlib.Inconclusive("negative control of LocationLabelRace (entry visible before its lookup answered) was not "
                                "rejected by NoUnsetLocation: %s" % neg.violated)
    budget = 20 if ctx.quick else 120          # concurrent scrapes (each may block for wait_ms on a correct tree)
    cand = lr_generate(ctx, 40 if ctx.quick else 300, ctx.seed + 11) + \
        lr_generate(ctx, 6 if ctx.quick else 30, ctx.seed + 12, DbEnabled=False)
    behs, nconc = [], 0
    for b in cand:
        c = sum(1 for s in b if s["a"] == "ScrapeBegin")
        dis = not b[0]["enabled"]
        if c == 0 or (nconc + c > budget and not dis) or (dis and sum(1 for x in behs if not x[0]["enabled"]) >= 2):
            continue
        behs.append(b)
        nconc += 0 if dis else c
    if nconc < 8:
        raise vlib.Inconclusive("label-race generation produced only %d concurrent scrapes" % nconc)
    rows = lr_run(ctx, behs)
    events, index, bad = lr_judge(ctx, behs, rows)
    # antecedent: the scrape really was started while a lookup was blocked inside startConnection
    inflight = sum(1 for (_, _, ob) in index if ob["a"] == "ScrapeEnd" and ob.get("lookups_in_flight"))
    if inflight < 5:
        raise vlib.Inconclusive("label-race schedules are vacuous: only %d scrapes were started while a tunnel-time lookup was "
                                "blocked in the database stub" % inflight)
    blocked = sum(1 for (_, _, ob) in index if ob["a"] == "ScrapeEnd" and ob.get("blocked"))
    ctx.cov["traces_validated_against_impl"] += len(behs) - len(bad)
    ctx.cov["evaluations"] += len(behs)
    ctx.cov["distinct_nontrivial"] += sum(1 for bi, b in enumerate(behs) if b[0]["enabled"])
    ctx.cov["label_race_scrapes_during_lookup"] = inflight
    ctx.cov["label_race_scrapes_that_waited_for_the_lookup"] = blocked
    ctx.sample({"label_race_head": behs[0][:6]})


def selftest(ctx):
    """anti-vacuity: the scanner must flag a planted client literal / label."""
    reset = {"listeners": ["192.0.2.2:9001"], "clients": ["203.0.113.77:54321", "[2001:db8::77]:54322"], "labels": [["AA", "1", "o"]],
             "db": True}
    planted = [
        ({"text": 'x{client="::ffff:203.0.113.77"} 1\n', "series": []}, "client-ip-exposed"),
        ({"text": 'x{a="2001:0DB8:0000:0000:0000:0000:0000:0077"} 1\n', "series": []}, "client-ip-exposed"),
        ({"text": 'x{a="b"} 54322\n', "series": []}, "client-port-exposed"),
        ({"text": "", "series": [{"name": "x", "labels": {"remote": "a"}}]}, "unknown-label-name"),
        ({"text": "", "series": [{"name": "x", "labels": {"port": "203.0.113.77:54321"}}]}, "port-label-not-listener"),
    ]
    for expo, kind in planted:
        if kind not in {k for k, _ in scan_exposition(expo, reset)}:
            raise vlib.Inconclusive("exposure scanner self-test failed for %s" % kind)
    if scan_exposition({"text": 'tcp_probes_bucket{port="192.0.2.2:9001",le="51"} 3\n',
                        "series": [{"name": "tcp_probes", "labels": {"port": "192.0.2.2:9001", "le": "51"}}]}, reset):
        raise vlib.Inconclusive("exposure scanner self-test: false positive")


def process_exposure(ctx):
    """process level: the real binary is driven from the distinctive client address 127.0.0.77 (TCP handshakes and UDP
    datagrams on every listener of TLC-generated configurations, with reloads); after every measurement round the text
    served by its /metrics endpoint (all registered collectors, including the Go runtime ones) is scanned for the
    client's IP and ports by the driver; TLC (ReloadTrace) flags `client-exposed`."""
    from checks import rl_common
    behs = rl_common.gen_scenarios(ctx, "Gen_Reload.cfg", 30, ctx.seed + 5)
    pb = [b for b in behs if b and b[0]["a"] == "Load" and b[0]["ok"]][:6 if ctx.quick else 60]
    if not pb:
        ctx.cov["skipped"].append("process-level exposure: no usable scenario")
        return
    sc = [{"id": i + 1, "replay": 0, "steps": b} for i, b in enumerate(pb)]
    tf = rl_common.run_process(ctx, sc, "proc-c20", timeout=1500)
    n = sum(1 for r in vlib.read_ndjson(tf) if r.get("ev") == "Exposition")
    rl_common.judge(ctx, tf, "process level: /metrics of the real binary", "C20",
                    {"client-exposed": "the text served by /metrics contains the client's IP address or port"},
                    only={"client-exposed"})
    ctx.cov["evaluations"] += n
    ctx.cov["process_level_expositions"] = n


def run(ctx):
    selftest(ctx)
    nrows, ncalls = table_binding(ctx)
    nscan = exposure(ctx)
    label_histories(ctx)
    label_race(ctx)
    from checks import mc_common
    mc_common.location_part(ctx)
    process_exposure(ctx)
    vlib.write_evidence(ctx, "model_checking",
                        "TLC enumerates the complete decision table of LocationLabel.tla (states/transitions); every row "
                        "is executed on the real ipinfo functions (label_calls concrete calls; traces_validated counts "
                        "table rows whose every call TLC accepted, plus the traffic histories accepted by the tunnel-time "
                        "oracle); evaluations = calls + expositions scanned; non-trivial = calls with lookup enabled + "
                        "expositions of histories that populated every metric family", ASSUME)


def replay(ctx, path):
    d = json.load(open(path))
    rp = d["replay"]
    if rp.get("kind") == "label":
        drv = vlib.go_build(ctx, "./cmd/locationlabel", "locationlabel")
        rf = os.path.join(ctx.scratch, "rows.json")
        tf = os.path.join(ctx.scratch, "trace.ndjson")
        json.dump([rp["row"]], open(rf, "w"))
        rc, out, err = vlib.run([drv, "-in", rf, "-out", tf], env=vlib.goenv(), timeout=300)
        if rc != 0:
            raise vlib.Inconclusive("locationlabel driver failed: %s" % err[-2000:])
        events = vlib.read_ndjson(tf)
        ok, r = vlib.validate_traces(ctx, "LocationLabelTrace", "LocationLabelTrace.cfg", tf, timeout=600)
        res = _result(r)
        if res is None or not ok:
            raise vlib.Inconclusive("trace validation failed")
        for v in res["viols"][:1]:
            e = events[v["line"] - 1]
            ctx.violation(d["signature"], "reproduced: %s labelled %r (%s)" % (e["addr"], e["raw"], v["kind"]), rp)
    elif rp.get("kind") == "labelrace":
        rows = lr_run(ctx, [rp["behaviour"]], tag="replay")
        lr_judge(ctx, [rp["behaviour"]], rows)
    elif rp.get("kind") == "labelhist":
        rows = lh_run(ctx, [rp["behaviour"]], tag="replay")
        lh_judge(ctx, [rp["behaviour"]], rows, "replay")
    else:
        rc, out, rows = T.run_overlay(ctx, [rp["behaviour"]], db="fake" if rp.get("db") else "nil", tag="replay")
        err = T.overlay_failed(rc, out, rows)
        if err:
            raise vlib.Inconclusive(err)
        mode, traces = T.split_traces(rows)
        for t in traces:
            expo = next((r for r in t if r.get("ev") == "Expo"), None)
            for kind, detail in (scan_exposition(expo, t[0]) if expo else []):
                ctx.violation({"module": "metrics", "kind": kind}, "reproduced: " + detail, rp)
                break
