"""C11 - reload never interrupts service on retained listeners.

1. TLC exhaustive: Reload.tla invariant WindowKeepsBoth (in the hand-over window every listener of both configurations
   is held and keys common to both serve) + Listeners.tla (every connection/datagram goes to exactly one handle) are
   checked by their own configurations (C10, C12).
2. spec -> code: TLC-simulated sequences of valid configurations sharing addresses are loaded into a real OutlineServer;
   a gate between start-new and stop-old (verif hook) places a client on every (address, key class) of the universe
   inside the window, after stop-old and after the reload; free-running hammer clients run through ungated reloads;
   relays opened before a reload (idle, mid-transfer, half-closed; some carried over two reloads) must complete
   byte-exact with status OK.
3. code -> spec: every client operation is judged by ReloadTrace against the set of configurations that were live at
   some time during the operation."""
import json, os
import vlib
from checks import rl_common, c10

TEXT = dict(c10.TEXT)
TEXT.update({
    "refused-on-retained": "a connection attempt / datagram was refused on an address present in the old and the new configuration",
    "common-key-rejected": "a key present in both configurations did not authenticate during the reload",
    "wrong-attribution": "a client authenticated under an id that neither configuration has for that listener and key",
    "handled-not-once": "an accepted connection was reported opened/closed other than exactly once",
    "datagram-lost": "a datagram sent to a retained address was not processed by any generation",
    "connection-unhandled": "an accepted connection on a retained address was never handled",
    "relay-interrupted": "a connection that was relaying when the reload happened did not run to completion",
})


def run(ctx):
    c10.exhaustive(ctx)
    n = 10 if ctx.quick else 150
    behs = rl_common.gen_scenarios(ctx, "Gen_Handover.cfg", n, ctx.seed)
    if len(behs) < max(3, n // 3):
        raise vlib.Inconclusive("scenario generation produced only %d scenarios" % len(behs))
    sc = []
    for i, b in enumerate(behs):
        steps = [st for st in b if st["a"] == "Load"]
        sc.append({"id": i + 1, "replay": 0, "mode": "gated" if i % 2 == 0 else "hammer", "steps": steps})
    # reloads requested the way an operator does (the server's own configuration file rewritten, SIGHUP to the process), two
    # SIGHUPs in a row: every reload that started a new generation must stop the old one and finish
    for j, b in enumerate(behs[:2 if ctx.quick else 20]):
        sc.append({"id": len(sc) + 1, "replay": 0, "mode": "sighup2", "steps": [st for st in b if st["a"] == "Load"]})
    chunk = 40
    relays = clients = 0
    for i in range(0, len(sc), chunk):
        tf = rl_common.run_harness(ctx, sc[i:i + chunk], "c11-%d" % (i // chunk), run_re="TestVerifHandover", timeout=3000)
        rows = vlib.read_ndjson(tf)
        if any(r.get("ev") == "NoSink" for r in rows):
            ctx.cov["skipped"].append("no reachable public-class sink (192.0.2.2): long-lived relays not exercised")
        relays += sum(1 for r in rows if r.get("ev") == "Relay")
        clients += sum(1 for r in rows if r.get("ev") == "Client")
        rl_common.judge(ctx, tf, "hand-over: gated window clients, hammer clients, long-lived relays", "C11", TEXT)
    ctx.cov["evaluations"] += len(sc)
    ctx.cov["distinct_nontrivial"] += sum(1 for s in sc if len(s["steps"]) >= 2)
    ctx.cov["client_operations"] = clients
    ctx.cov["relays_across_reloads"] = relays
    ctx.sample({"scenario": [st["cfg"] for st in sc[0]["steps"]], "mode": sc[0]["mode"]})
    vlib.write_evidence(ctx, "model_checking",
                        "scenarios = TLC-simulated sequences of <= 4 reloads over 7 valid configurations that share addresses; "
                        "even scenarios are gated (clients on all 10 listeners x 4 key classes inside the window, after "
                        "stop-old and after the reload), odd ones cycle the sequence 3 times under free-running clients; "
                        "non-trivial = at least two reloads",
                        c10.ASSUME + ["relays use a sink on 192.0.2.2 (public class for the default dialer, locally reachable)"])


def replay(ctx, path):
    d = json.load(open(path))
    ev = d["replay"]["events"]
    steps = [{"a": "Load", "cfg": e["cfg"], "frn": [], "ok": True} for e in ev if e.get("ev") == "LoadStart"]
    sc = [{"id": 1, "replay": 0, "mode": m, "steps": steps} for m in ("gated", "hammer", "sighup2")]
    tf = rl_common.run_harness(ctx, sc, "replay", run_re="TestVerifHandover")
    rl_common.judge(ctx, tf, "replay of " + os.path.basename(path), "C11", TEXT)
