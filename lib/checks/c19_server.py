"""C19, server level: the composition in cmd/outline-ss-server (key lists, replay history, listeners and collectors wired
together by runConfig) under the Go race detector.  Hand-over scenarios of Reload.tla (TLC-simulated reload sequences over
configurations that share addresses AND keys between services) run in hammer mode: free-running TCP and UDP clients on
every listener while configurations are reloaded.  Every race report with a frame in the repository is a violation; the
client operations themselves are judged by ReloadTrace as in C11 (harness problems only make this part inconclusive).
run_part(ctx): (the main session composes C19; no evidence is written here)"""
import vlib
from checks import rl_common, race_common


def run_part(ctx):
    n = 4 if ctx.quick else 30
    behs = rl_common.gen_scenarios(ctx, "Gen_Handover.cfg", 3 * n, ctx.seed + 77)
    # prefer scenarios whose configurations put one key into two services / both formats (shared entries are the risk)
    def shares(b):
        for st in b:
            if st["a"] != "Load":
                continue
            c = st["cfg"]
            seen = set()
            for s in c["svcs"]:
                for k in set(s["ks"]):
                    if k in seen:
                        return True
                seen |= set(s["ks"])
        return False
    behs.sort(key=lambda b: not shares(b))
    behs = behs[:n]
    if not behs:
        ctx.cov["skipped"].append("c19_server: no scenario")
        return
    sc = [{"id": i + 1, "replay": 0, "mode": "hammer", "steps": [st for st in b if st["a"] == "Load"]} for i, b in enumerate(behs)]
    ctx.race_output = ""
    try:
        tf = rl_common.run_harness(ctx, sc, "c19-server", run_re="TestVerifHandover", timeout=2400, race=True)
    except vlib.Inconclusive as e:
        # the race detector makes the test binary exit non-zero when it has something to report: look at the output first
        reps = race_common.race_reports(str(e))
        if reps:
            race_common.report(ctx, "Server", reps, "hand-over hammer scenarios on a real OutlineServer under -race")
            return
        raise
    reps = race_common.race_reports(getattr(ctx, "race_output", ""))
    race_common.report(ctx, "Server", reps, "hand-over hammer scenarios on a real OutlineServer under -race")
    ctx.cov["server_level_race_scenarios"] = {"scenarios": len(sc), "with_a_key_in_two_services": sum(1 for b in behs if shares(b))}
    ctx.cov["evaluations"] += len(sc)
