"""Reload binding (cmd/outline-ss-server) shared by C09, C10, C11 and the system level of C07."""
import json, os, random, re, socket
import vlib

KINDS = ["load-result", "serving-mismatch", "listening-mismatch", "leftover-runner", "harness-problem",
         "refused-on-retained", "common-key-rejected", "wrong-attribution", "handled-not-once", "datagram-lost",
         "connection-unhandled", "relay-interrupted", "client-exposed", "process-panic", "nat-lifetime"]
OVERLAY = {"zz_verif_reload_test.go": os.path.join(vlib.ROOT, "harness", "overlay", "main", "reload_test.go"),
           "zz_verif_handover_test.go": os.path.join(vlib.ROOT, "harness", "overlay", "main", "handover_test.go")}


LOCKDIR = "/tmp/verif-portlocks"
_reserved = []


def _pid_alive(pid):
    try:
        os.kill(pid, 0)
        return True
    except ProcessLookupError:
        return False
    except Exception:
        return True


def _reserve(p):
    """cross-process reservation of a port number (several checks may run on this machine at the same time)"""
    os.makedirs(LOCKDIR, exist_ok=True)
    f = os.path.join(LOCKDIR, str(p))
    for attempt in (1, 2):
        try:
            fd = os.open(f, os.O_CREAT | os.O_EXCL | os.O_WRONLY, 0o644)
            os.write(fd, str(os.getpid()).encode())
            os.close(fd)
            _reserved.append(f)
            return True
        except FileExistsError:
            try:
                pid = int(open(f).read().strip() or "0")
            except Exception:
                pid = 0
            if pid and _pid_alive(pid):
                return False
            try:
                os.remove(f)      # stale reservation
            except OSError:
                return False
    return False


def release_ports():
    for f in _reserved:
        try:
            os.remove(f)
        except OSError:
            pass
    del _reserved[:]


import atexit
atexit.register(release_ports)


def free_ports(n, seed):
    """ports outside the ephemeral range, reserved across processes, free for tcp and udp on 127.0.0.1 and the wildcard"""
    rng = random.Random(seed * 7919 + os.getpid())
    out = []
    tries = 0
    while len(out) < n and tries < 40000:
        tries += 1
        p = 20000 + rng.randrange(12000)
        if p in out or not _reserve(p):
            continue
        ok = True
        for fam, typ, addr in ((socket.AF_INET, socket.SOCK_STREAM, "127.0.0.1"), (socket.AF_INET, socket.SOCK_DGRAM, "127.0.0.1"),
                               (socket.AF_INET6, socket.SOCK_STREAM, "::"), (socket.AF_INET6, socket.SOCK_DGRAM, "::")):
            so = socket.socket(fam, typ)
            try:
                if typ == socket.SOCK_STREAM:
                    so.setsockopt(socket.SOL_SOCKET, socket.SO_REUSEADDR, 1)
                so.bind((addr, p))
            except OSError:
                ok = False
            finally:
                so.close()
            if not ok:
                break
        if ok:
            out.append(p)
    if len(out) < n:
        raise vlib.Inconclusive("no free ports")
    return out


def gen_scenarios(ctx, cfg, num, seed, depth=60, module="ReloadGen"):
    r = vlib.tlc(ctx, module, cfg, simulate=num, depth=depth, seed=seed, deadlock=False, timeout=600)
    out, seen = [], set()
    for b in r.behaviours:
        k = json.dumps(b, sort_keys=True)
        if k not in seen:
            seen.add(k)
            out.append(b)
    return out


def run_harness(ctx, scenarios, name, run_re="TestVerifReload", timeout=1500, race=False):
    """scenarios: list of {"id", "replay", "steps"}.  Returns the trace path."""
    inp = os.path.join(ctx.scratch, name + ".in.json")
    out = os.path.join(ctx.scratch, name + ".ndjson")
    ports = free_ports(5 * len(scenarios), ctx.seed + len(name))
    for i, sc in enumerate(scenarios):
        sc["ports"] = ports[5 * i:5 * i + 5]
    json.dump({"ports": ports[:5], "scenarios": scenarios}, open(inp, "w"))
    rc, txt = vlib.go_overlay_test(ctx, "cmd/outline-ss-server", OVERLAY, run_re, tags="verif", race=race,
                                   env_extra={"VERIF_IN": inp, "VERIF_OUT": out}, timeout=timeout, verbose=False)
    if race:
        ctx.race_output = getattr(ctx, "race_output", "") + txt
    if vlib.compile_failed(txt):
        raise vlib.Inconclusive("reload overlay harness does not compile against the working tree:\n" + txt[-3000:])
    if rc != 0 or not os.path.exists(out):
        raise vlib.Inconclusive("reload harness failed (rc=%d):\n%s" % (rc, txt[-60000:]))
    release_ports()
    rows = vlib.read_ndjson(out)
    if not rows or rows[-1].get("ev") != "Done":
        raise vlib.Inconclusive("reload harness did not finish:\n%s" % txt[-2000:])
    return out


def parse_result(r):
    for ln in [vlib.result_tuple(r) or ""]:
        m = re.match(r'^<<"RESULT", (\d+), (\d+), (\d+), <<([\d, ]+)>>, (\d+)>>', ln.strip())
        if m:
            vio = [int(x) for x in m.group(4).split(",")]
            return dict(lines=int(m.group(1)), nscen=int(m.group(2)), nprobe=int(m.group(3)), vio=dict(zip(KINDS, vio)),
                        ndrift=int(m.group(5)))
    return None


def scenario_slice(rows, line):
    i = line - 1
    start = i
    while start > 0 and rows[start].get("ev") != "Scenario":
        start -= 1
    return rows[start:i + 1]


def judge(ctx, tf, desc, pid, kind_text, scenarios=None, only=None):
    rows = vlib.read_ndjson(tf)
    ok, r = vlib.validate_traces(ctx, "ReloadTrace", "ReloadTrace.cfg", tf, timeout=900)
    res = parse_result(r)
    if res is None or res["lines"] != len(rows) or not ok:
        raise vlib.Inconclusive("ReloadTrace did not consume the whole trace (%s): rc=%s ok=%s parsed=%s rows=%d\n%s" % (
            desc, r.rc, ok, res and res.get("lines"), len(rows), "\n".join([l for l in r.out.splitlines() if "rror" in l or "xception" in l][:6] + r.out.splitlines()[-6:])))
    ctx.cov["traces_validated_against_impl"] += res["nscen"]
    ctx.cov.setdefault("probes", 0)
    ctx.cov["probes"] += res["nprobe"]
    if res.get("ndrift"):
        ctx.cov["drift"] += res["ndrift"]
        ctx.notes.append("drift: %d expositions whose keys/ports gauges differ from the loaded configuration (%s)" % (res["ndrift"], desc))
    for k, line in res["vio"].items():
        if line and k != "harness-problem" and (only is None or k in only):
            sl = scenario_slice(rows, line)
            last_load = [x for x in sl if x.get("ev") == "Load"]
            ctx.violation({"module": "Reload", "kind": k, "after": kind_after(sl)},
                          "%s: %s (%s, trace line %d): observed %s" % (pid, kind_text.get(k, k), desc, line,
                                                                      json.dumps({a: b for a, b in sl[-1].items() if a not in ("cfg",)})[:600]),
                          {"driver": desc, "events": sl})
    if res["vio"]["harness-problem"] and not ctx.violations:
        sl = scenario_slice(rows, res["vio"]["harness-problem"])
        raise vlib.Inconclusive("the reload harness could not measure (%s): %s" % (desc, json.dumps(sl[-1])[:1500]))
    return res


def kind_after(sl):
    """classifies the history that led to the mismatch: which kind of load attempt preceded the probe"""
    loads = [x for x in sl if x.get("ev") == "Load"]
    if not loads:
        return "none"
    last = loads[-1]
    if last["cfg"].get("kind") == "stop":
        return "stop"
    if last.get("ok"):
        return "successful-load" if len([x for x in loads if x.get("ok")]) > 1 or len(loads) > 1 else "first-load"
    if last["cfg"].get("kind") != "ok":
        return "failed-load:" + last["cfg"]["kind"]
    return "failed-load:start"


def build_server(ctx):
    """the real binary, built from the working tree (no hooks: plain release build)"""
    out = os.path.join(ctx.sub("bin"), "outline-ss-server")
    mf = ctx.sub("modfile-bin")
    import shutil, subprocess
    shutil.copy(os.path.join(vlib.REPO, "go.mod"), os.path.join(mf, "go.mod"))
    shutil.copy(os.path.join(vlib.REPO, "go.sum"), os.path.join(mf, "go.sum"))
    p = subprocess.run(["go", "build", "-modfile", os.path.join(mf, "go.mod"), "-o", out, "./cmd/outline-ss-server"],
                       cwd=vlib.REPO, env=vlib.goenv(), stdout=subprocess.PIPE, stderr=subprocess.STDOUT, text=True)
    if p.returncode != 0:
        raise vlib.Inconclusive("cannot build outline-ss-server from the working tree:\n" + p.stdout[-3000:])
    return out


def run_process(ctx, scenarios, name, timeout=1500):
    """process level (L4a): the real binary as a subprocess, SIGHUP reloads, observed through sockets, /metrics, logs"""
    server = build_server(ctx)
    drv = vlib.go_build(ctx, "./cmd/procdrive", "procdrive", tags="")
    inp = os.path.join(ctx.scratch, name + ".in.json")
    out = os.path.join(ctx.scratch, name + ".ndjson")
    ports = free_ports(6 * len(scenarios), ctx.seed + 100 + len(name))
    for i, sc in enumerate(scenarios):
        sc["ports"] = ports[6 * i:6 * i + 6]
    json.dump({"scenarios": scenarios}, open(inp, "w"))
    rc, o, e = vlib.run([drv, "-bin", server, "-in", inp, "-out", out], env=vlib.goenv(), timeout=timeout)
    if rc != 0 or not os.path.exists(out):
        raise vlib.Inconclusive("procdrive failed (rc=%d): %s" % (rc, e[-2000:]))
    release_ports()
    rows = vlib.read_ndjson(out)
    if not rows or rows[-1].get("ev") != "Done":
        raise vlib.Inconclusive("procdrive did not finish: %s" % e[-1500:])
    return out
