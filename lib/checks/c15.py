"""C15 - TCP connection metrics match what happened on the wire.

1. TLC exhaustive: TcpConn.tla with every outcome class (all opener classes x ok/refuse/disallowed target x corrupt
   chunks x target reset / complete close x client reset, with clock): the metrics log is Open.Auth?.Probe?.Closed, Probe <=> authentication failed, one
   status per outcome class, counters advance with the bytes (MC_TcpConn_C15.cfg).
2. spec -> code: TLC-simulated behaviours of every outcome class replayed on the real handler with a recording
   TCPConnMetrics; byte counts are measured independently by the harness at its own sockets (ciphertext on the client
   side, plaintext at the target).
3. code -> spec: TLC judges every connection record (language, Probe/Auth rules, status class, counters vs wire).
4. second pass with the REAL prometheus.NewServiceMetrics in a private registry: gathered tcp_connections_opened/closed
   and data_bytes sums against the recorded calls; concurrent variant with 50 (quick) / 500 (thorough) connections open at
   once on one listener.
"""
import copy, json, os, random
import vlib
from checks import tc_common as tc

ASSUME = [
    "ProxyTarget is compared with the bytes the target application received, ClientProxy with the ciphertext bytes the client "
    "wrote, on connections that ran to completion; on others only <= is required",
    "exact spelling of undocumented ERR_ADDRESS_* statuses is folded into one class; ERR_CIPHER / ERR_REPLAY_CLIENT / "
    "ERR_REPLAY_SERVER are required literally (PROBES.md)",
    "Prometheus totals are compared with the recorded calls by the check (sums), the per-connection rules by TLC",
]


def merge(behs):
    """Many single-connection behaviours as ONE behaviour over connections 1..n (their events interleaved round-robin;
    each connection's own order is kept).  Connections are independent in TcpConn.tla (C18_Isolation), so the merge is a
    behaviour of the n-connection model."""
    seqs = []
    for i, b in enumerate(behs):
        seqs.append([dict(e, c=i + 1) if e["c"] else None for e in b["tr"]])
    out, idx = [], [0] * len(seqs)
    live = True
    while live:
        live = False
        for i, s in enumerate(seqs):
            # advance this connection up to and including its next environment action
            while idx[i] < len(s):
                e = s[idx[i]]
                idx[i] += 1
                if e is None:
                    continue
                out.append(e)
                live = True
                if e["a"] in tc.ENV:
                    break
    return {"sc": [b["sc"][0] for b in behs], "tr": out}


def compare_totals(ctx, pr, label, cases):
    g, r = pr["gathered"], pr["recorded"]
    diffs = []
    if int(g["opened"]) != r["opened"]:
        diffs.append("tcp_connections_opened %s != %d AddOpenTCPConnection calls" % (g["opened"], r["opened"]))
    for st in set(g["closed"]) | set(r["closed"]):
        if int(g["closed"].get(st, 0)) != r["closed"].get(st, 0):
            diffs.append("tcp_connections_closed{status=%s} %s != %d AddClosed calls" % (st, g["closed"].get(st, 0), r["closed"].get(st, 0)))
    for d in ("c>p", "p>t", "p<t", "c<p"):
        if int(g["data_bytes"].get(d, 0)) != r["data_bytes"].get(d, 0):
            diffs.append("data_bytes{proto=tcp,dir=%s} %s != %d (sum of AddClosed counters)" % (d, g["data_bytes"].get(d, 0), r["data_bytes"].get(d, 0)))
    nprobe = sum(1 for c in cases for m in c["mlog"] if m["m"] == "Probe")
    if sum(g.get("probes", {}).values()) != nprobe:
        diffs.append("tcp_probes sample count %s != %d AddProbe calls" % (g.get("probes"), nprobe))
    ctx.cov.setdefault("prometheus", {})[label] = {"gathered": g, "recorded": r}
    if diffs:
        ctx.violation({"module": "TcpConn", "kind": "prometheus-totals", "where": "prometheus/metrics.go tcpConnMetrics"},
                      "gathered Prometheus families differ from the calls made on TCPConnMetrics (%s): %s" % (label, "; ".join(diffs)),
                      {"module": "TcpConn", "label": label, "gathered": g, "recorded": r})


def run(ctx):
    q = ctx.quick
    r = vlib.tlc(ctx, "TcpConn", "MC_TcpConn_C15.cfg" if q else "MC_TcpConn_C15Thorough.cfg", workers="auto", timeout=2400)
    ctx.add_tlc(r, "exhaustive: every outcome class, metrics language / status / counters")
    if not r.ok:
        raise vlib.Inconclusive("model finding in TcpConn.tla / MC_TcpConn_C15.cfg: %s" % r.violated)

    rng = random.Random(ctx.seed)
    behs = tc.gen(ctx, "Gen_TcpConn_C15.cfg", 2000 if q else 20000, seed=ctx.seed)
    pick = tc.select(behs, 130 if q else 2000, lambda f: (f["hs"], f["tk"], f["bad"], f["rst"], f["dial"], min(f["trecv"] + f["crecv"], 2), f["tclose"], f["crst"],
                                                          min(f["after_close"], 2)), rng)
    cases, _, pr, hung = tc.run_family(ctx, "C15_", pick, label="c15-outcomes", par=8, prom=True, **tc.TIMED)
    if hung:
        raise vlib.Inconclusive("handlers still running after the script ended: %s" % ctx.notes[-1])
    compare_totals(ctx, pr, "per-scenario", cases)
    tc.mech_pass(ctx, cases, pick, label="c15-outcomes")
    outcomes = {}
    for c in cases:
        if c["mlog"] and c["mlog"][-1]["m"] == "Closed":
            outcomes[c["mlog"][-1]["s"]] = outcomes.get(c["mlog"][-1]["s"], 0) + 1
    ctx.cov["outcome_classes_seen"] = outcomes
    need = {"OK", "ERR_CIPHER", "ERR_REPLAY_CLIENT", "ERR_REPLAY_SERVER", "ERR_READ_ADDRESS", "ERR_CONNECT", "ERR_RELAY_CLIENT"}
    missing = need - set(outcomes)
    if not any(k.startswith("ERR_ADDRESS") for k in outcomes):
        missing.add("ERR_ADDRESS_*")
    if missing and not ctx.violations:
        raise vlib.Inconclusive("outcome classes never reached on the real code: %s (seen %s)" % (sorted(missing), outcomes))
    ctx.cov["distinct_nontrivial"] += len(pick)
    ctx.cov["self_test_rejected"] = tc.self_test(ctx, cases, tc.REAL_SLACK)
    for st in ("OK", "ERR_RELAY_CLIENT", "ERR_REPLAY_SERVER"):
        for c in cases:
            if c["mlog"] and c["mlog"][-1]["s"] == st:
                ctx.sample({"script": " ".join(c["env"]), "observed": tc.brief(c)})
                break

    # termination orders that end in a socket error on one direction after the other direction ended in an orderly way
    # (steered generation): the target closes completely and the client keeps uploading; the client resets mid-stream
    ac = [b for b in tc.gen(ctx, "Gen_TcpConn_C15AfterClose.cfg", 4000 if q else 20000, seed=ctx.seed + 7) if tc.features(b)["after_close"] >= 1]
    cr = [b for b in tc.gen(ctx, "Gen_TcpConn_C15CRst.cfg", 1500 if q else 8000, seed=ctx.seed + 8) if tc.features(b)["crst"]]
    se = tc.select(ac, 24 if q else 200, lambda f: (min(f["after_close"], 3), min(f["crecv"], 1)), rng) + \
        tc.select(cr, 24 if q else 200, lambda f: (f["tfin"] > 0, f["rst"], min(f["trecv"], 1), min(f["crecv"], 1)), rng)
    if sum(1 for b in se if tc.features(b)["after_close"] >= 2) < 3 or sum(1 for b in se if tc.features(b)["crst"]) < 5:
        raise vlib.Inconclusive("steered generation produced too few socket-error behaviours (%d)" % len(se))
    secases, _, _, sehung = tc.run_family(ctx, "C15_", se, label="c15-socket-errors", timeout_ms=5000, par=8)
    if sehung:
        raise vlib.Inconclusive("handlers still running after the script ended: %s" % ctx.notes[-1])
    tc.mech_pass(ctx, secases, se, label="c15-socket-errors")
    ctx.cov["distinct_nontrivial"] += len(se)
    ctx.cov["socket_error_outcomes"] = {}
    for c in secases:
        if c["mlog"] and c["mlog"][-1]["m"] == "Closed":
            k = "%s%s:%s" % ("tclose" if c["tcl"] != "no" else "", "crst" if c["crst"] else "", c["mlog"][-1]["s"])
            ctx.cov["socket_error_outcomes"][k] = ctx.cov["socket_error_outcomes"].get(k, 0) + 1

    # the listener is closed (accept reports net.ErrClosed, StreamServe cancels its handlers' context, as at every reload or stop)
    # while a probe is being absorbed: the probe report must still carry everything the prober sent until the connection
    # ended, and the connection is reported closed once (family shared with C06, judged here by the C15 layer)
    sh = tc.gen(ctx, "Gen_TcpConn_C06Shutdown.cfg", 6000 if q else 24000, seed=ctx.seed + 11)
    def more_before_close(b):
        """bytes beyond the 50-byte search window (token kind 9, "junk") were sent a tick or more before the listener closed: the
        drain has read them by then, so a report made at that moment must already count them"""
        seen_junk = ticked = False
        for e in b["tr"]:
            if e["a"] == "CSend" and e["v"] // 10 == 9:
                seen_junk = True
            elif e["a"] == "Tick" and seen_junk:
                ticked = True
            elif e["a"] == "CloseListener":
                return seen_junk and ticked
        return False
    shc = [b for b in sh if tc.features(b)["lclose"] and tc.features(b)["probe"]]
    key = lambda f: (f["hs"], min(f["ntok"], 3), f["ticks"] > 2)
    sp1 = tc.select([b for b in shc if more_before_close(b)], 14 if q else 150, key, rng)
    spick = sp1 + tc.select([b for b in shc if not more_before_close(b)], 12 if q else 150, key, rng)
    if len(spick) < 12 or len(sp1) < 3:
        raise vlib.Inconclusive("too few listener-closes-during-absorb behaviours (%d, %d with data absorbed before the close)" % (len(spick), len(sp1)))
    ctx.cov["probes_with_data_absorbed_before_listener_close"] = len(sp1)
    shcases, _, _, shhung = tc.run_family(ctx, "C15_", spick, label="c15-listener-closes-during-absorb", par=8, **tc.TIMED)
    if shhung:
        raise vlib.Inconclusive("handlers still running after the script ended: %s" % ctx.notes[-1])
    tc.mech_pass(ctx, shcases, spick, label="c15-listener-closes-during-absorb")
    ctx.cov["distinct_nontrivial"] += len(spick)
    ctx.cov["probes_absorbed_across_listener_close"] = len(shcases)

    # a relay write that fails part-way: the receiver stops reading (16 KiB socket buffers), the sender keeps sending 400 KiB
    # chunks, the receiver resets (target during an upload, client during a download): the sent-to counters must not exceed
    # what the proxy's write system calls really handed to that socket (counted by the harness underneath the handler)
    wf = tc.gen(ctx, "Gen_TcpConn_C15WriteFail.cfg", 2500 if q else 10000, seed=ctx.seed + 9)
    wup = [b for b in wf if tc.features(b)["rst"] and any(e["a"] == "TPause" for e in b["tr"])]
    wdn = [b for b in wf if tc.features(b)["crst"] and any(e["a"] == "CPause" for e in b["tr"])]
    wpick = []
    for b in tc.select(wup, 10 if q else 80, lambda f: (min(f["trecv"], 2),), rng) + tc.select(wdn, 10 if q else 80, lambda f: (min(f["crecv"], 2),), rng):
        b = copy.deepcopy(b)
        b["ov"] = {"datasize": 400 << 10, "tdatasize": 400 << 10}
        wpick.append(b)
    if len(wpick) < 10:
        raise vlib.Inconclusive("too few failing-write behaviours (%d up, %d down)" % (len(wup), len(wdn)))
    wcases, _, _, whung = tc.run_family(ctx, "C15_", wpick, label="c15-write-fails-part-way", timeout_ms=5000, par=8, extra=["-hang-ms", "8000"])
    if whung:
        raise vlib.Inconclusive("handlers still running after the script ended: %s" % ctx.notes[-1])
    tc.mech_pass(ctx, wcases, wpick, label="c15-write-fails-part-way")
    ctx.cov["distinct_nontrivial"] += len(wpick)
    ctx.cov["failing_writes"] = {"records": len(wcases), "counter_below_payload": sum(
        1 for c in wcases if c["mlog"] and c["mlog"][-1]["m"] == "Closed" and (c["mlog"][-1]["n"][1] < c["wcpl"] or c["mlog"][-1]["n"][3] < c["wpc"] + 1))}

    # the server's wiring layer, service.NewShadowsocksService(...).HandleStream with a recording ServiceMetrics (the metrics
    # object of a connection is what AddOpenTCPConnection returns):
    #  (a) connections handed out right before accept reports net.ErrClosed (StreamServe with the harness' accept function)
    of = os.path.join(ctx.sub("burst"), "burst.ndjson")
    rc, out, err = vlib.run([tc.driver(ctx), "burst", "-rounds", str(30 if q else 200), "-n", "3", "-seed", str(ctx.seed), "-out", of],
                            env=vlib.goenv(), timeout=900)
    if rc != 0:
        raise vlib.Inconclusive("tcpconn burst failed rc=%d: %s" % (rc, err[-1500:]))
    bcases = [r for r in vlib.read_ndjson(of) if r.get("ev") == "Case"]
    bbad = tc.judge(ctx, bcases, tc.REAL_SLACK, label="c15-service-layer-shutdown")
    ctx.cov["evaluations"] += len(bcases) // 3
    ctx.cov["distinct_nontrivial"] += 1
    ctx.cov["service_layer"] = {"burst_connections": len(bcases)}
    for i in sorted(bbad):
        mine = sorted(p for p in bbad[i][0] if p.startswith("C15_"))
        if mine:
            ctx.violation({"module": "TcpConn", "kind": mine[0], "where": "service/shadowsocks.go HandleStream (connection accepted as the listener closes)"},
                          "%s: %s [connection handed out right before accept reported net.ErrClosed, handled through "
                          "ssService.HandleStream; %d of %d such connections] observed: %s" % (
                              mine[0], tc.DESCR.get(mine[0], ""), sum(1 for j in bbad if mine[0] in bbad[j][0]), len(bcases),
                              json.dumps(tc.brief(bcases[i]))),
                          {"module": "TcpConn", "burst": True, "case": bcases[i]})
            break
    #  (b) probe behaviours under virtual time (the service's own 59 s timeout), again through HandleStream
    try:
        from checks import tc_vt
        vb = [b for b in pick if len(b["sc"]) == 1 and b["sc"][0]["hs"] != "valid" and not tc.features(b)["lclose"]][:40 if q else 400]
        vcases = tc_vt.run_vt(ctx, vb, "c15-vt-service", via_service=True)
        tc_vt.report(ctx, vcases, vb, "c15-vt-service-layer", prefix="C15_")
        ctx.cov["service_layer"]["virtual_time_probes"] = len(vcases)
    except ImportError:
        ctx.cov["skipped"].append("virtual-time variant: not built")

    # concurrent: n single-connection behaviours (no clock) merged into one, all on one listener at once
    n = 50 if q else 500
    nb = tc.gen(ctx, "Gen_TcpConn_C15NoClock.cfg", 1500 if q else 8000, seed=ctx.seed + 5)
    nb = [b for b in nb if len(b["tr"]) > 8]
    many = tc.select(nb, n, lambda f: (f["hs"], f["tk"], f["bad"], f["dial"], min(f["trecv"] + f["crecv"], 2)), rng)
    if len(many) < n * 0.8:
        raise vlib.Inconclusive("only %d behaviours for the concurrent variant" % len(many))
    merged = merge(many)
    ccases, brows, cpr, chung = tc.run_family(ctx, "C15_", [merged], label="c15-concurrent-%d" % len(many), timeout_ms=8000, par=1,
                                              prom=True, extra=["-own-waits", "-await-ms", "1000", "-hang-ms", "12000"], confirm=False)
    if chung:
        raise vlib.Inconclusive("concurrent variant: handlers still running: %s" % ctx.notes[-1])
    compare_totals(ctx, cpr, "concurrent-%d" % len(many), ccases)
    ctx.cov["concurrent_connections"] = len(ccases)
    ctx.cov["distinct_nontrivial"] += 1
    tc.finish(ctx)
    # the same clauses at the level of the real Prometheus collectors (prometheus/metrics.go): MetricsCount.tla, behaviours
    # generated by TLC driven through NewServiceMetrics(...), a Gather() of the registry judged by MetricsCountTrace
    from checks import mc_common
    mc_common.tcp_collector_part(ctx)
    vlib.write_evidence(ctx, "model_checking",
                        "TLC enumerates every outcome class of the connection model; simulated behaviours (pairwise distinct, "
                        "balanced over opener class / target kind / corruption / reset / amount of data) are executed on the "
                        "real handler with recording metrics and the real Prometheus collectors; every connection record is "
                        "judged by TLC; all behaviours count as non-trivial (each ends in a reported connection)",
                        ASSUME)


def replay(ctx, path):
    tc.replay_violation(ctx, path, "C15_")
