"""C04 - UDP associations give each client one stable, private outbound socket.

1. TLC exhaustive: UdpNat.tla (natmap Get/set/del, Add, expiry and re-creation, 3 clients of which two share an IP)
   => SrcPrivate, SrcStable, OwnerOnly, OnePerClient, CreateOnce, CreateOnlyValid.
2. spec -> code: TLC behaviours with four client sockets (two on 127.0.0.1 with different ports, 127.0.0.2, 192.0.2.2), several
   targets (IPv4, IPv6, port 53, eth0), replies from the addressed target, from another port of its host and from stranger
   sockets to the association's source port, idle periods (expiry, re-creation) - executed through PacketHandler.Handle.
3. code -> spec: the source port every target saw, which client socket received each relayed datagram and the NatAdd/NatRemove
   order at the metrics sink are judged by UdpNatTrace with C04's predicates.
Scope: one packet handler (one NAT table), as the property states.
"""
import vlib
from checks import udp_common as U

ASSUME = [
    "the outbound socket of an association is identified by its source PORT (it is a dual-stack wildcard socket, the source IP "
    "follows the route to the destination); a port is considered re-usable once RemoveNatEntry was reported for its association",
    "the driver is step-synchronous; datagrams received during a step are attributed to that step",
    "two families: (main) loopback+public validator with IP-literal destinations; (def) the handler's DEFAULT validator with host-name "
    "destinations (localhost via /etc/hosts, *.verif.test via an in-process DNS behind net.DefaultResolver); every other behaviour "
    "drives Handle with the conn of service.NewListenerManager().ListenPacket (production path)",
    "TLC 1.8.0 and the hand transcription of udp.go into UdpNat.tla",
]


def nontrivial(b):
    cl = {s["c"] for s in b if s["a"] == "CDgram" and s["k"] != 0 and s["hdr"]}
    stranger = any(s["a"] == "TReply" and s["src"] in (6, 7, 8) for s in b)
    # (a late reply after another client has sent: the case in which a shared source-address object would misroute)
    return len(cl) >= 2 or (len(cl) >= 1 and stranger)


ZONED_PROPS = U.PROPS["C04"] + ["FwdAuthentic", "FwdComplete", "ReplyAuthentic", "ReplyComplete"]
WINDOW_PROPS = U.PROPS["C04"] + ["FwdAuthentic", "FwdComplete"]


def zoned(ctx):
    """client addresses that differ only in the IPv6 zone, in front of the real Handle (in-package, fake client-side conn)"""
    import os
    d = ctx.sub("zoned")
    tf = os.path.join(d, "trace-raw.ndjson")
    rc, out = vlib.go_overlay_test(
        ctx, "service", {"zz_verif_zoned_test.go": os.path.join(vlib.HARNESS, "overlay", "service", "zz_verif_zoned_test.go")},
        "TestVerifZonedClients", env_extra={"VERIF_ZN_OUT": tf, "GOMEMLIMIT": "2GiB"}, timeout=300)
    if vlib.compile_failed(out):
        ctx.cov["skipped"].append("zoned-clients harness does not compile against this tree: " + out[-400:])
        return
    if "HARNESS-ERROR" in out or not os.path.exists(tf):
        raise vlib.Inconclusive("zoned-clients harness failed (rc=%s): %s" % (rc, out[-2000:]))
    rows = vlib.read_ndjson(tf)
    ends = [r for r in rows if r.get("ev") == "EndZ"]
    if len(ends) != 2:
        raise vlib.Inconclusive("zoned-clients harness: %d of 2 variants completed: %s" % (len(ends), out[-2000:]))
    clean = os.path.join(d, "trace.ndjson")
    vlib.write_ndjson(clean, [r for r in rows if r.get("ev") != "EndZ"])
    U.validate(ctx, clean, "UdpNatTraceReal.cfg", ZONED_PROPS, "zoned client addresses (fake client-side conn, real Handle)")
    ctx.cov["evaluations"] += len(ends)
    ctx.cov["distinct_nontrivial"] += len(ends)
    ctx.cov["zoned_client_datagrams"] = sum(1 for r in rows if r.get("ev") == "CSend")
    ctx.sample({"zoned_clients_trace_head": rows[:8]})


def run(ctx):
    q = ctx.quick
    U.exhaustive(ctx, ["MC_UdpNatC03.cfg", "MC_UdpNatSync.cfg"] if q else ["MC_UdpNatC03T.cfg", "MC_UdpNatSync.cfg", "MC_UdpNatLong.cfg"], "C04")
    fams = U.real_families(ctx, "c04", 60 if q else 400, 50 if q else 300, U.PROPS["C04"], seed_off=7919)
    ctx.cov["source_ports_observed"] = 0
    ctx.cov["replies_relayed"] = 0
    ctx.cov["behaviours_via_listener_manager"] = 0
    for fam, behs, trace, sums in fams:
        ctx.cov["evaluations"] += len(behs)
        ctx.cov["distinct_nontrivial"] += U.count(behs, nontrivial)
        rows = vlib.read_ndjson(trace)
        ctx.cov["source_ports_observed"] += len({r["from"] for r in rows if r.get("ev") == "TRecv"})
        ctx.cov["replies_relayed"] += sum(1 for r in rows if r.get("ev") == "CRecv")
        ctx.cov["behaviours_via_listener_manager"] += sum(1 for x in sums if x.get("via_manager"))
        ctx.sample({"family": fam, "behaviour": behs[0]})
        ctx.sample({"family": fam, "target_observations": [r for r in rows if r.get("ev") == "TRecv"][:4]})
        if fam == "def":
            ctx.cov["hostname_datagrams"] = sum(1 for r in rows if r.get("ev") == "CSend" and r["dst"] in (11, 12, 13))
    zoned(ctx)
    U.window(ctx, WINDOW_PROPS)
    vlib.write_evidence(ctx, "model_checking",
                        "as C03; non-trivial = at least two clients have associations in the behaviour, or a stranger / other-port "
                        "socket sends to an association's source port",
                        ASSUME)


def replay(ctx, path):
    U.replay_file(ctx, path, U.PROPS["C04"])
