"""C19, component "metrics collectors (traffic against scrapes)".  Called by the C19 check: run_part(ctx) only updates
ctx.cov / ctx.notes and calls ctx.violation; it writes no evidence.

a. race monitor + linearizability by trace validation: the concurrent overlay driver (package prometheus, built with
   -race) runs many goroutines doing open/auth/close, probe, nat add/packets/remove against concurrent Registry.Gather
   scrapes on the real collectors; the stub clock advances only at barriers, where a quiescent scrape is recorded.  The
   serialised trace is validated by TLC (TunnelTimeTrace): the totals after quiescence must equal the ideal accounting of
   spec/TunnelTime.tla, whatever the real interleaving was.  Any race report whose stack is in the repository's packages
   is a violation (module "metrics", kind "data-race", where = top repository frame).
c. per-connection counters: mc_common.concurrent_part (MetricsCount.tla) - TCP and UDP reports from concurrent callers
   against concurrent scrapes, with and without -race, and the UDP hammer; totals at quiescence = sums reported.
b. sequential consistency of Collect against start/stop: the shortest schedule of the as-is model of TunnelTime.tla in
   which a scrape's clock read and its locked part are separated by a tick and a start (TLC, exhaustive) is replayed on
   the real collectors, also under -race; if the real scrape panics the result is not explainable by any sequential order
   of the two calls (Collect;start and start;Collect are both fine) -> violation (kind "non-linearizable").
"""
import json, os, re
import vlib
from checks import tt_common as T

REPO_MOD = "github.com/Jigsaw-Code/outline-ss-server/"


def parse_races(out):
    """-> list of dict(where, block) for every race report with a frame in the repository's packages (harness files
    zz_verif_* excluded when looking for the top repository frame)."""
    reports = []
    blocks = re.split(r"^==================\s*$", out, flags=re.M)
    for b in blocks:
        if "WARNING: DATA RACE" not in b:
            continue
        where = None
        lines = b.splitlines()
        for i, ln in enumerate(lines):
            if REPO_MOD in ln and i + 1 < len(lines):
                loc = lines[i + 1].strip()
                m = re.match(r"^(\S+?/(?:service|net|prometheus|ipinfo|cmd|internal)/[^\s:]+\.go):(\d+)", loc)
                if m and "zz_verif_" not in m.group(1):
                    path = m.group(1)
                    for pre in (vlib.REPO.rstrip("/") + "/", "/repo/"):
                        if path.startswith(pre):
                            path = path[len(pre):]
                    where = "%s:%s" % (path, m.group(2))
                    break
        if where:
            reports.append({"where": where, "block": b.strip()[:3000]})
    return reports


def concurrent(ctx, shape, idx):
    rc, out, rows = T.run_concurrent(ctx, shape, tag="mconc%d" % idx, race=True)
    if vlib.compile_failed(out):
        raise vlib.Inconclusive("metrics concurrent overlay does not compile against the working tree:\n" + out[-3000:])
    races = parse_races(out)
    ctx.cov.setdefault("race_reports", 0)
    ctx.cov["race_reports"] += len(races)
    seen = set()
    for r in races:
        if r["where"] in seen:
            continue
        seen.add(r["where"])
        ctx.violation({"module": "metrics", "kind": "data-race", "where": r["where"]},
                      "data race reported by the Go race detector in the metrics collectors under concurrent traffic and "
                      "scrapes (top repository frame %s)" % r["where"],
                      {"component": "metrics", "shape": shape, "report": r["block"]})
    if "HARNESS-ERROR" in out:
        raise vlib.Inconclusive("metrics concurrent driver: " + out[-2000:])
    if "panic:" in out and "counter cannot decrease" in out:
        ctx.violation({"module": "metrics", "kind": "non-linearizable", "where": T.SIG_NEG["where"]},
                      "a concurrent scrape panicked ('counter cannot decrease in value') although the clock only advances at "
                      "barriers", {"component": "metrics", "shape": shape, "output": out[-3000:]})
        return
    if not rows or rows[-1].get("ev") != "Done":
        if races:
            return            # the run was cut short by the race detector's verdict; already reported
        raise vlib.Inconclusive("metrics concurrent driver did not finish (rc=%d):\n%s" % (rc, out[-2000:]))
    done = rows[-1]
    mode, traces = T.split_traces(rows)
    res = T.validate(ctx, traces, "underlock", "metrics concurrent %s" % json.dumps(shape, sort_keys=True), report=False,
                     timeout=1800)
    ctx.cov["traces_validated_against_impl"] += res["ntraces"]
    ctx.cov["evaluations"] += shape["phases"]
    ctx.cov["distinct_nontrivial"] += shape["phases"]
    ctx.cov.setdefault("metrics_concurrent", []).append(
        {"shape": shape, "events": res["events"], "concurrent_gathers": done.get("gathers"), "conns": done.get("conns"),
         "burst_rounds_concurrent_first_opens": done.get("bursts"),
         "accepted": res["ntraces"], "race_reports": len(races)})
    for kind, tn, row in res["violations"][:1]:
        ctx.violation({"module": "metrics", "kind": "non-linearizable", "what": kind},
                      "tunnel-time totals after quiescence differ from every sequential order of the concurrent calls (%s): "
                      "observed %s after %s" % (T.KIND_TEXT.get(kind, kind), json.dumps({k: v for k, v in row.items() if k != "ev"})[:400],
                                                T.schedule_text(traces[tn][:T.row_index(traces[tn], row) + 1])[-500:]),
                      {"component": "metrics", "shape": shape, "kind": kind, "row": row})


def sequential_consistency(ctx):
    rc, out, rows = T.run_overlay(ctx, [[{"a": "Init", "locmap": [1]}]], db="nil", tag="c19probe", race=True)
    err = T.overlay_failed(rc, out, rows)
    if err:
        raise vlib.Inconclusive("prometheus overlay harness: " + err)
    mode, _ = T.split_traces(rows)
    ctx.cov.setdefault("metrics_clock_read", mode)
    if mode != "asis":
        ctx.notes.append("metrics: Collect reads the clock %s; the split-scrape schedule does not exist in this code" % (
            "under the lock" if mode == "underlock" else mode))
        return
    r = T.shortest_crash(ctx)
    ctx.add_tlc(r, "TunnelTime as-is model: Collect's clock read and locked part separated (expected model finding)")
    if r.violated != "CrashDump" or not r.behaviours:
        return
    beh = min(r.behaviours, key=len)
    rc, out, rows = T.run_overlay(ctx, [beh], db="nil", tag="c19sc", race=True)
    for rep in parse_races(out):
        ctx.cov["race_reports"] = ctx.cov.get("race_reports", 0) + 1
        ctx.violation({"module": "metrics", "kind": "data-race", "where": rep["where"]},
                      "data race in the metrics collectors (split-scrape schedule), top repository frame %s" % rep["where"],
                      {"component": "metrics", "behaviour": beh, "report": rep["block"]})
    err = T.overlay_failed(rc, out, rows)
    if err:
        raise vlib.Inconclusive("prometheus overlay harness: " + err)
    mode, traces = T.split_traces(rows)
    ctx.cov["evaluations"] += 1
    if traces and any(x.get("panic") for x in traces[0]):
        ctx.violation({"module": "metrics", "kind": "non-linearizable", "where": T.SIG_NEG["where"]},
                      "Collect || startConnection: the scrape panicked ('counter cannot decrease in value') on schedule %s; "
                      "both sequential orders (scrape;start and start;scrape) complete normally, so the result equals no "
                      "sequential order of the same calls" % T.schedule_text(traces[0]),
                      {"component": "metrics", "behaviour": beh, "recorded_trace": traces[0]})
    else:
        ctx.cov["distinct_nontrivial"] += 1


def run_part(ctx):
    quick = ctx.quick
    shapes = [dict(g=8, s=3, phases=6, ops=120, seed=ctx.seed, nk=4),
              dict(g=16, s=2, phases=4, ops=60, seed=ctx.seed + 11, nk=2)]
    if not quick:
        shapes += [dict(g=32, s=4, phases=8, ops=30, seed=ctx.seed + 23, nk=4),
                   dict(g=4, s=8, phases=12, ops=60, seed=ctx.seed + 37, nk=3)]
    for i, sh in enumerate(shapes):
        concurrent(ctx, sh, i)
    sequential_consistency(ctx)
    # c. the per-connection counters (spec/MetricsCount.tla): concurrent callers + concurrent scrapes, totals at quiescence
    from checks import mc_common
    out = mc_common.concurrent_part(ctx, race=True)
    seen = set()
    for r in parse_races(out or ""):
        ctx.cov["race_reports"] = ctx.cov.get("race_reports", 0) + 1
        if r["where"] in seen:
            continue
        seen.add(r["where"])
        ctx.violation({"module": "metrics", "kind": "data-race", "where": r["where"]},
                      "data race reported by the Go race detector in the metrics collectors (per-connection reports against "
                      "scrapes), top repository frame %s" % r["where"], {"component": "metrics", "report": r["block"]})
