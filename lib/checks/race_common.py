"""Go race detector as a runtime monitor riding on the spec-driven drivers (C19, memory-model half)."""
import re
import vlib

_FRAME = re.compile(r"^\s+(/\S+\.go):(\d+)")


def race_reports(stderr_text, repo=None):
    """Returns a list of dicts {where, funcs, text} for every DATA RACE report that has a frame in the repository."""
    repo = repo or vlib.REPO
    out = []
    blocks = stderr_text.split("WARNING: DATA RACE")[1:]
    for b in blocks:
        b = b.split("==================")[0]
        frames = []
        lines = b.splitlines()
        for i, ln in enumerate(lines):
            m = _FRAME.match(ln)
            if m and (m.group(1).startswith(repo + "/") or "/outline-ss-server/" in m.group(1)) \
                    and "/verif/" not in m.group(1) and "_test.go" not in m.group(1):
                fn = lines[i - 1].strip() if i > 0 else ""
                rel = m.group(1).split("outline-ss-server/")[-1] if "outline-ss-server/" in m.group(1) else m.group(1)[len(repo) + 1:]
                frames.append((rel, int(m.group(2)), fn))
        if frames:
            files = sorted({f[0] for f in frames})
            # signature by function names (stable across line shifts)
            funcs = []
            for f in frames:
                name = f[2].rsplit("/", 1)[-1] if f[2] else ""
                name = name[:-2] if name.endswith("()") else name
                if name and name not in funcs:
                    funcs.append(name)
            out.append({"where": "%s:%d" % (frames[0][0], frames[0][1]), "files": files, "funcs": funcs[:4],
                        "text": "WARNING: DATA RACE" + b[:1800]})
    return out


def report(ctx, module, reports, desc):
    seen = set()
    for r in reports:
        key = (tuple(r["files"]), tuple(r["funcs"][:2]))
        if key in seen:
            continue
        seen.add(key)
        ctx.violation({"module": module, "kind": "data-race", "funcs": r["funcs"][:2]},
                      "C19: data race reported by the Go race detector in %s (%s) during %s" % (
                          r["where"], " / ".join(r["funcs"][:2]), desc),
                      {"driver": desc, "report": r["text"]})
    ctx.cov.setdefault("race_reports", 0)
    ctx.cov["race_reports"] += len(reports)
