"""C07 - a client handshake is accepted at most once within the replay history.

1. TLC exhaustive: ReplayCache.tla (mechanism => RecentRefused, FreshAccepted) for small constants.
2. spec -> code: TLC-simulated behaviours (Add/Resize scripts) executed on the real service.ReplayCache.
3. code -> spec: sequential and concurrent (hook-linearized) traces of the real cache validated by ReplayCacheTrace.
4. system level: handshakes replayed across listeners, services and reloads of the real server (c07_system).
"""
import json, os
import vlib
from checks import rc_common

ASSUME = [
    "32-bit pre-hash values are treated as the identity of a handshake; the harness maps tokens to (key id, salt) pairs "
    "with pairwise distinct pre-hashes using its own XOR-fold implementation",
    "the verif hook in service/replay.go fires under the cache mutex, so trace order is linearization order",
    "TLC 1.8.0 and the hand transcription of replay.go into ReplayCache.tla (checked by trace validation)",
]


def apalache_induction(ctx):
    """ReplayCacheInd.tla: Init => IndInv and IndInv /\\ Next => IndInv' for 5 hashes, capacities 0..4 and an unbounded
    number of operations (integers are symbolic).  IndInv contains I4: whenever the property layer obliges a refusal the
    hash is remembered, hence the next Add of it returns FALSE."""
    import shutil, subprocess, tempfile
    if not shutil.which("apalache-mc"):
        ctx.cov["skipped"].append("apalache-mc not found: inductive check not run")
        return
    d = tempfile.mkdtemp(prefix="apa-", dir=ctx.scratch)
    shutil.copy(os.path.join(vlib.SPEC, "ReplayCacheInd.tla"), d)
    done = 0
    for name, args in (("Init => IndInv", ["--init=Init", "--inv=IndInv", "--length=0"]),
                       ("IndInv /\\ Next => IndInv'", ["--init=IndInit", "--inv=IndInv", "--length=1"])):
        try:
            p = subprocess.run(["timeout", "900", "apalache-mc", "check", "--cinit=CInit"] + args + ["ReplayCacheInd.tla"],
                               cwd=d, stdout=subprocess.PIPE, stderr=subprocess.STDOUT, text=True)
        except Exception as e:
            raise vlib.Inconclusive("apalache could not be started: %r" % e)
        if "EXITCODE: OK" in p.stdout and "The outcome is: NoError" in p.stdout:
            done += 1
        elif "outcome is: Error" in p.stdout or "violated" in p.stdout:
            raise vlib.Inconclusive("model finding: Apalache refutes the inductive step '%s' of ReplayCacheInd.tla" % name)
        else:
            raise vlib.Inconclusive("apalache failed on '%s': %s" % (name, p.stdout[-600:]))
    ctx.cov["apalache_inductive_obligations"] = {"obligations": 2, "discharged": done,
                                                 "what": "IndInv inductive for 5 hashes, capacities 0..4, unbounded history"}


def run(ctx):
    quick = ctx.quick
    # 1. design verdict
    r = vlib.tlc(ctx, "ReplayCache", "MC_ReplayCache.cfg" if quick else "MC_ReplayCacheThorough.cfg",
                 workers="auto", timeout=3000, deadlock=False)
    ctx.add_tlc(r, "exhaustive mechanism=>property")
    if not r.ok:
        # a model finding: by policy never a verdict on its own
        raise vlib.Inconclusive("model finding in ReplayCache.tla: %s" % r.violated)

    drv = vlib.go_build(ctx, "./cmd/replaycache", "replaycache")
    env = vlib.goenv()
    # 2. spec -> code
    nbeh = 300 if quick else 3000
    behs, g = rc_common.gen_behaviours(ctx, nbeh)
    if len(behs) < nbeh // 3:
        raise vlib.Inconclusive("behaviour generation produced only %d behaviours" % len(behs))
    bf = os.path.join(ctx.scratch, "behs.json")
    json.dump(behs, open(bf, "w"))
    tf = os.path.join(ctx.scratch, "seq.ndjson")
    rc, out, err = vlib.run([drv, "seq", "-in", bf, "-out", tf, "-seed", str(ctx.seed)], env=env)
    if rc != 0:
        raise vlib.Inconclusive("replaycache seq driver failed: %s" % err[-2000:])
    rc_common.validate(ctx, tf, "seq: TLC behaviours on the real cache")
    # 2b. the same behaviours with every Add presented as a real handshake to the stream authenticator that shares the cache
    tfa = os.path.join(ctx.scratch, "authseq.ndjson")
    rc, out, err = vlib.run([drv, "authseq", "-in", bf, "-out", tfa, "-seed", str(ctx.seed + 3)], env=env)
    if rc != 0:
        # the driver stops when the authenticator answers a valid handshake with anything but OK / ERR_REPLAY_CLIENT
        raise vlib.Inconclusive("replaycache authseq driver failed: %s" % err[-2000:])
    rc_common.validate(ctx, tfa, "authseq: TLC behaviours through NewShadowsocksStreamAuthenticator (cache resized under it)")
    ctx.cov["behaviours_through_the_authenticator"] = len(behs)
    ctx.cov["behaviours_resizing_from_zero"] = sum(1 for b in behs if b and b[0].get("a") == "New" and b[0].get("n") == 0
                                                   and any(o.get("a") == "Resize" and o.get("n", 0) > 0 for o in b))
    ctx.cov["evaluations"] += 2 * len(behs)
    nontriv = sum(1 for b in behs if any(o.get("obl") for o in b))
    ctx.cov["distinct_nontrivial"] += nontriv
    ctx.sample({"behaviour": behs[0]})

    # 3. code -> spec: concurrent, hook-linearized; several shapes
    shapes = [
        dict(g=8, n=200, cap=5, univ=12, presize=25, rounds=20, dup=0),
        dict(g=4, n=100, cap=3, univ=6, presize=10, rounds=30, dup=0),
        dict(g=16, n=50, cap=40, univ=30, presize=0, rounds=10, dup=20),     # concurrent copies: exactly one wins
        dict(g=2, n=3000, cap=100, univ=260, presize=200, rounds=3, dup=0),
    ]
    if not quick:
        shapes += [
            dict(g=8, n=4000, cap=2000, univ=5000, presize=1500, rounds=2, dup=0, maxcap=4000),
            dict(g=4, n=15000, cap=20000, univ=30000, presize=10000, rounds=1, dup=0, maxcap=20000),
            dict(g=16, n=500, cap=7, univ=16, presize=12, rounds=40, dup=0),
            dict(g=1, n=20000, cap=50, univ=120, presize=60, rounds=3, dup=0),
        ]
    for i, sh in enumerate(shapes):
        tf = os.path.join(ctx.scratch, "conc%d.ndjson" % i)
        cmd = [drv, "conc", "-out", tf, "-seed", str(ctx.seed * 31 + i)]
        for k, v in sh.items():
            cmd += ["-" + k, str(v)]
        rc, out, err = vlib.run(cmd, env=env, timeout=600)
        if rc != 0:
            raise vlib.Inconclusive("replaycache conc driver failed: %s" % err[-2000:])
        res = rc_common.validate(ctx, tf, "conc %s" % json.dumps(sh, sort_keys=True), timeout=1800)
        ctx.cov["evaluations"] += sh["rounds"]
        ctx.cov["distinct_nontrivial"] += sh["rounds"]
        if i == 0:
            ctx.sample({"concurrent_trace_head": vlib.read_ndjson(tf)[:8]})

    # 3b. unbounded history (thorough): Apalache discharges an inductive invariant of the typed copy of the model
    if not quick:
        apalache_induction(ctx)

    # 4. system level
    try:
        from checks import c07_system
    except ImportError:
        c07_system = None
        ctx.cov["skipped"].append("system-level replay across listeners/services/reloads: not built yet")
    if c07_system:
        c07_system.run(ctx)

    vlib.write_evidence(ctx, "model_checking",
                        "TLC enumerates all Add/Resize sequences for the small constants; simulated behaviours (distinct "
                        "as action sequences) are executed on the real cache; non-trivial = contains an Add that the "
                        "property layer obliges to refuse (a replay inside the window); concurrent rounds count one each",
                        ASSUME)


def replay(ctx, path):
    d = json.load(open(path))
    rows = [x for x in d["replay"]["trace_from_last_New"] if x.get("ev") != "..."]
    tf = os.path.join(ctx.scratch, "replay.ndjson")
    vlib.write_ndjson(tf, rows)
    rc_common.validate(ctx, tf, "replay of " + os.path.basename(path))
