"""C19, shared listeners: race monitor on the stress driver (the linearizability half is ListenersTrace in C12)."""
import json, os
import vlib
from checks import ln_common, race_common


def run_part(ctx):
    drv = vlib.go_build(ctx, "./cmd/listeners", "listeners-race", race=True)
    env = vlib.goenv(extra={"GORACE": "halt_on_error=0"})
    sh = dict(rounds=60 if ctx.quick else 600, threads=6, ops=4, conns=4)
    tf = os.path.join(ctx.scratch, "c19ln.ndjson")
    cmd = [drv, "stress", "-out", tf, "-seed", str(ctx.seed * 7 + 3), "-watchdog", "4s"]
    for k, v in sh.items():
        cmd += ["-" + k, str(v)]
    rc, out, err = vlib.run(cmd, env=env, timeout=1800)
    reps = race_common.race_reports(err)
    race_common.report(ctx, "Listeners", reps, "listeners stress %s" % json.dumps(sh, sort_keys=True))
    if rc not in (0, 66) and not reps:
        raise vlib.Inconclusive("listeners -race driver failed rc=%d: %s" % (rc, err[-1500:]))
    ctx.cov["evaluations"] += sh["rounds"]
    ctx.cov["distinct_nontrivial"] += sh["rounds"]
    ln_common.judge(ctx, tf, "C19 stress under -race", ln_common.C12_KINDS | ln_common.C13_KINDS)
