"""C10 - configuration reload is all-or-nothing.

1. TLC exhaustive: Reload.tla, all sequences of load attempts over the catalogue with every fault point of each
   (unreadable / malformed / invalid file, bad cipher in legacy keys / first / second service, bind failure at any
   listener); invariants AllOrNothing, WindowKeepsBoth.  The pinned variant (ZombieOnFail) is the negative control.
2. spec -> code: TLC-simulated scenarios are executed on a real OutlineServer inside package main (go test -overlay):
   configuration files are written, foreign sockets occupy the addresses whose bind must fail, loadConfig is called.
3. code -> spec: after every attempt the harness measures which addresses listen and which (listener, cipher+secret)
   pairs authenticate under which id (real handshakes and datagrams), plus the runConfig goroutines; ReloadTrace
   recomputes Serving(last good configuration) and compares."""
import json, os
import vlib
from checks import rl_common

TEXT = {
    "load-result": "loadConfig succeeded/failed differently from the specification",
    "serving-mismatch": "the keys that authenticate are not exactly those of the most recent configuration that loaded",
    "listening-mismatch": "the addresses that listen are not exactly those of the most recent configuration that loaded",
    "leftover-runner": "a runConfig goroutine of a failed or stopped configuration is still running",
    "connection-unhandled": "a connection accepted on an address of the configuration was never handled by the server",
}
ASSUME = [
    "every scenario uses its own ports outside the ephemeral range; only the server under test can hold them",
    "attribution is read from the ServiceMetrics interface (AddAuthenticated / AddUDPNatEntry) per client address",
    "the harness drives loadConfig directly (the SIGHUP path calls the same function)",
]


def exhaustive(ctx):
    r = vlib.tlc(ctx, "MC_Reload", "MC_Reload_Fixed.cfg" if ctx.quick else "MC_Reload_FixedThorough.cfg", workers="auto", timeout=3000)
    ctx.add_tlc(r, "Reload: AllOrNothing + WindowKeepsBoth over all load sequences with fault points")
    if not r.ok:
        raise vlib.Inconclusive("model finding in Reload.tla: %s" % r.violated)
    c = vlib.tlc(ctx, "MC_Reload", "MC_Reload_Pinned.cfg", workers=4, timeout=600)
    ctx.cov["tlc_runs"].append({"module": "MC_Reload", "cfg": "Pinned", "mode": "negative control", "found": c.violated})
    if c.violated != "AllOrNothing":
        raise vlib.Inconclusive("negative control: the pinned variant should violate AllOrNothing, got %r" % c.violated)


def process_level(ctx, behs, n, pid, text):
    """L4a: the same scenarios against the real binary (SIGHUP reloads, /metrics attribution, log lines).  A process whose
    first load fails has no SIGHUP handler, so only scenarios whose first load succeeds are used."""
    pb = [b for b in behs if b and b[0]["a"] == "Load" and b[0]["ok"]][:n]
    if not pb:
        ctx.cov["skipped"].append("process level: no scenario starts with a successful load")
        return
    # every third scenario requests each reload with TWO SIGHUPs a few milliseconds apart (the second arrives while the first
    # reload is still running; those configurations carry 2 500 filler keys), every second one runs the server with -verbose
    sc = [{"id": i + 1, "replay": 0, "steps": b, "burst": i % 3 == 2, "verbose": i % 2 == 1} for i, b in enumerate(pb)]
    for s in sc:
        if s["burst"]:
            # no foreign sockets in these scenarios: with two reloads per request "held during the load" has no clear meaning
            # (ReloadTrace recomputes the expected result of every load from the configuration and the sockets actually held)
            s["steps"] = [dict(st, frn=[]) if st.get("a") == "Load" else st for st in s["steps"]]
    tf = rl_common.run_process(ctx, sc, "proc-" + pid.lower(), timeout=3000)
    rl_common.judge(ctx, tf, "process level: real binary, SIGHUP reloads, /metrics", pid, text)
    ctx.cov["evaluations"] += len(pb)
    ctx.cov["process_level_scenarios"] = len(pb)


def run(ctx):
    exhaustive(ctx)
    n = 120 if ctx.quick else 2500
    behs = rl_common.gen_scenarios(ctx, "Gen_Reload.cfg", n, ctx.seed)
    if len(behs) < n // 3:
        raise vlib.Inconclusive("scenario generation produced only %d scenarios" % len(behs))
    faults = set()
    nontriv = 0
    for b in behs:
        has_fail_after_good = False
        good = False
        for st in b:
            if st["a"] == "Load":
                if not st["ok"]:
                    faults.add((json.dumps(st["cfg"], sort_keys=True), st["failedAt"]))
                    if good:
                        has_fail_after_good = True
                else:
                    good = True
        nontriv += 1 if has_fail_after_good else 0
    sc = [{"id": i + 1, "replay": 0, "steps": b} for i, b in enumerate(behs)]
    chunk = 300
    for i in range(0, len(sc), chunk):
        tf = rl_common.run_harness(ctx, sc[i:i + chunk], "c10-%d" % (i // chunk), timeout=3000)
        rl_common.judge(ctx, tf, "load sequences with fault injection", "C10", TEXT)
    ctx.cov["evaluations"] += len(behs)
    ctx.cov["distinct_nontrivial"] += nontriv
    ctx.cov["distinct_fault_points"] = len(faults)
    process_level(ctx, behs, 12 if ctx.quick else 150, "C10", TEXT)
    ctx.sample({"scenario": [{k: v for k, v in st.items() if k in ("a", "cfg", "frn", "ok", "failedAt")} for st in behs[0]]})
    vlib.write_evidence(ctx, "model_checking",
                        "scenarios = TLC-simulated sequences of <= 4 load attempts over a 12-configuration catalogue with "
                        "every fault point (distinct as sequences); non-trivial = contains a failing attempt after a "
                        "successful one; every attempt is followed by a full measurement of the (listener, key) matrix",
                        ASSUME)


def replay(ctx, path):
    d = json.load(open(path))
    ev = d["replay"]["events"]
    steps = [{"a": "Load", "cfg": e["cfg"], "frn": e["frn"], "ok": e["ok"]} for e in ev if e.get("ev") == "Load" and e["cfg"].get("kind") != "stop"]
    tf = rl_common.run_harness(ctx, [{"id": 1, "replay": 0, "steps": steps}], "replay")
    rl_common.judge(ctx, tf, "replay of " + os.path.basename(path), "C10", TEXT)
