"""C13 - listener management never deadlocks.  See ln_common.py for the pipeline."""
import json, os
import vlib
from checks import ln_common


def run(ctx):
    ln_common.run_all(ctx, ln_common.C13_KINDS)
    vlib.write_evidence(ctx, "model_checking",
                        "TLC explores every interleaving of the listen/close/accept scripts, the accept/read goroutines and "
                        "the incoming connections for the small constants; schedules simulated by TLC are replayed step by "
                        "step through gates on the real ListenerManager (non-trivial = replayed to the end without divergence); "
                        "stress rounds are random scripts on 1-3 shared addresses; all traces are judged by ListenersTrace",
                        ln_common.ASSUME)


def replay(ctx, path):
    d = json.load(open(path))
    sched = d["replay"].get("schedule")
    drv = vlib.go_build(ctx, "./cmd/listeners", "listeners")
    if sched:
        inp = os.path.join(ctx.scratch, "replay.json")
        json.dump({"kinds": ln_common.KINDS_JSON, "foreign": ln_common.FOREIGN, "schedules": [sched] * 5}, open(inp, "w"))
        tf, err = ln_common.run_driver(ctx, drv, "sched", ["-in", inp, "-watchdog", "2s"], "replay")
    else:
        tf = os.path.join(ctx.scratch, "replay.ndjson")
        vlib.write_ndjson(tf, d["replay"]["events"])
    ln_common.judge(ctx, tf, "replay of " + os.path.basename(path), ln_common.C13_KINDS, None)
