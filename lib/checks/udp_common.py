"""UdpNat binding shared by C03, C04, C14, C16, C18 (UDP part) and C19 (association table).

  exhaustive()     TLC on spec/UdpNat.tla for a list of MC cfgs (mechanism => property layer)
  gen()            TLC -simulate on UdpNatGen: behaviours for the step-synchronous drivers
  run_real()       harness/cmd/udpnat replay: behaviours executed on PacketHandler.Handle with real sockets,
                   observations recorded per observer
  validate()       UdpNatTrace (TLC) evaluates the property layer on the recorded observations; a rejected behaviour
                   is a violation (the observations are values the real code produced), reported with its trace slice
"""
import json, os, re, subprocess, time
import vlib

PROPS = {
    "C03": ["FwdToNamed", "FwdAuthentic", "FwdOnce", "FwdComplete", "ReplyAuthentic", "ReplyOnce", "SaltsFresh", "ReplyComplete",
            "CreateOnlyValid"],
    # NoEarlyRemoval belongs to C04 as well: "one stable socket while the association is alive" and "any datagram arriving at
    # that source address from any target is delivered" both fail when something other than the promised timeout (a failed
    # send, a datagram from a host that is not the DNS server, ...) tears the association down
    # ReplyComplete likewise: "any datagram arriving at that source address from any target is delivered to that client" (a
    # zero-length datagram is a datagram)
    "C04": ["SrcPrivate", "SrcStable", "OwnerOnly", "OnePerClient", "CreateOnce", "CreateOnlyValid", "NoEarlyRemoval", "ReplyComplete"],
    "C14": ["NoEarlyRemoval", "ReclaimedInTime", "ShutdownReclaimed", "RemoveOnce", "DeadlineMonotone", "WriteExtends",
            "NoEarlyClose", "CloseOnce", "FastCloseRule"],
    # ReclaimedInTime in C16: "removed once" means the removal IS reported when the association's time is up, not only when the
    # listener is closed
    "C16": ["MetricsLanguage", "CreateOnce", "CreateOnlyValid", "PktCSound", "PktTSound", "PktCPerDatagram", "PktTPerReply", "PktTSize",
            "RemoveOnce", "ReclaimedInTime", "ShutdownReclaimed"],
}
ALL_PROPS = sorted({p for v in PROPS.values() for p in v})

WHAT = {
    "FwdAuthentic": "a target received a datagram that was not an authenticated, allowed client datagram delivered intact "
                    "through the association of its client and key",
    "FwdToNamed": "a client datagram was delivered to a target OTHER than the one named in its own (authenticated) address header - "
                  "e.g. to the target of an earlier datagram of the association, another port of the same host or another name of "
                  "equal length - so the named target did not get it and a target it was never addressed to did",
    "FwdOnce": "a client datagram was forwarded more than once",
    "FwdComplete": "a datagram that authenticates under a configured key (for a known client address: the key of its "
                   "association) and names an allowed destination was not forwarded",
    "ReplyAuthentic": "a reply relayed to a client was not encrypted under the association's key / did not carry the true "
                      "sender address / did not carry the unmodified payload",
    "ReplyOnce": "a datagram from a target was relayed more than once",
    "SaltsFresh": "two relayed replies carry the same salt",
    "ReplyComplete": "a deliverable datagram that reached a live association's socket was not relayed to the client",
    "CreateOnlyValid": "an association was created by a datagram that does not authenticate under the reported key or names "
                       "a forbidden destination",
    "CreateOnce": "an association (or the datagram creating it) was reported added twice",
    "SrcPrivate": "two associations share a source address, or one association used two source ports",
    "SrcStable": "a datagram of a client with a live association left through another association",
    "OwnerOnly": "a datagram that arrived on an association's socket was delivered to a client that does not own it",
    "OnePerClient": "a second association was added for a client address whose association had not been removed",
    "NoEarlyRemoval": "an association was removed before the promised time after the client's last datagram",
    "ReclaimedInTime": "an association was not torn down within the bound after its deadline",
    "ShutdownReclaimed": "an association survived the shutdown of the packet listener",
    "RemoveOnce": "RemoveNatEntry was reported more than once for one association",
    "DeadlineMonotone": "the read deadline of an association moved earlier",
    "WriteExtends": "a datagram was forwarded without the deadline being at least (now + timeout)",
    "NoEarlyClose": "an association's socket was closed before the promised time",
    "CloseOnce": "an association's socket was closed more than once",
    "FastCloseRule": "the DNS fast close fired when it must not, or did not fire for a single-query DNS association",
    "MetricsLanguage": "metrics calls of an association do not follow NatAdd . (PktC|PktT)* . NatRemove",
    "PktCSound": "AddPacketFromClient reports do not match the datagrams seen on the wire (status / sizes / key)",
    "PktTSound": "AddPacketFromTarget reports do not match the datagrams seen on the wire (status / sizes / key)",
    "PktCPerDatagram": "a client datagram on an association was reported not exactly once (or on the wrong association)",
    "PktTPerReply": "a datagram read from an association's socket was reported not exactly once",
    "PktTSize": "AddPacketFromTarget did not carry the size read from the target (whatever the outcome of the relay)",
}


def exhaustive(ctx, cfgs, label="", workers="auto", timeout=1500):
    out = []
    if os.environ.get("VERIF_UDP_SKIP_MC"):      # development aid for mutation runs (the model does not depend on the repo)
        ctx.cov["skipped"].append("exhaustive TLC runs skipped by VERIF_UDP_SKIP_MC: %s" % cfgs)
        return out
    for cfg in cfgs:
        r = vlib.tlc(ctx, "MC_UdpNat", cfg, workers=workers, timeout=timeout, deadlock=False)
        ctx.add_tlc(r, "%s %s" % (label, cfg))
        if not r.ok:
            raise vlib.Inconclusive("model finding in UdpNat.tla (%s): %s violated; not a verdict on the code" % (cfg, r.violated))
        out.append(r)
    return out


def gen(ctx, cfg, num, seed=None, depth=400, with_result=False):
    r = vlib.tlc(ctx, "UdpNatGen", cfg, simulate=num, depth=depth, seed=seed if seed is not None else ctx.seed,
                 deadlock=False, timeout=600)
    behs, seen = [], set()
    for b in r.behaviours:
        k = json.dumps(b, sort_keys=True)
        if k not in seen and b:
            seen.add(k)
            behs.append(b)
    if len(behs) < max(3, num // 4):
        raise vlib.Inconclusive("behaviour generation produced only %d behaviours from %s" % (len(behs), cfg))
    return (behs, r) if with_result else behs


# SOCKS address header length per destination token (as HdrLen/GenFam in the spec); used for COVERAGE counting only
_HDRLEN = {1: 7, 2: 7, 6: 7, 10: 7, 14: 7, 15: 7, 3: 19, 4: 19, 5: 19, 18: 19, 11: 13, 16: 13, 12: 18, 17: 18, 13: 19}


def switches(b):
    """target switches inside one association that behaviour b contains: (client, position >= 3, from, to) where the datagram
    names another destination than the client's previous one with an address header of the same length"""
    out, per = [], {}
    for st in b:
        if st.get("a") in ("Tick", "Shutdown"):
            per = {}
        if st.get("a") != "CDgram":
            continue
        l = per.setdefault(st["c"], [])
        l.append(st["dst"])
        if len(l) >= 3 and l[-1] != l[-2] and _HDRLEN.get(l[-1]) == _HDRLEN.get(l[-2]):
            out.append((st["c"], len(l), l[-2], l[-1]))
    return out


def capped_env(extra=None):
    """environment of every driver child: soft Go heap limit + the driver's own 3 GiB RSS watchdog (see
    startMemoryWatchdog in harness/cmd/udpnat/common.go); run_capped() adds an external watchdog on top"""
    e = {"GOMEMLIMIT": "2GiB", "VERIF_MEM_LIMIT_MB": "3072"}
    e.update(extra or {})
    return vlib.goenv(extra=e)


def _rss_mb(pid):
    try:
        with open("/proc/%d/statm" % pid) as f:
            return int(f.read().split()[1]) * (os.sysconf("SC_PAGE_SIZE") // 1024) // 1024
    except Exception:
        return 0


def run_capped(cmd, env=None, timeout=900, limit_mb=4096):
    """Like vlib.run, plus an external memory watchdog: the child is killed (Inconclusive) above limit_mb resident."""
    p = subprocess.Popen(cmd, env=env or capped_env(), stdout=subprocess.PIPE, stderr=subprocess.PIPE, text=True)
    import threading
    killed = {}

    def watch():
        while p.poll() is None:
            m = _rss_mb(p.pid)
            if m > limit_mb:
                killed["mb"] = m
                p.kill()
                return
            time.sleep(0.2)
    th = threading.Thread(target=watch, daemon=True)
    th.start()
    try:
        out, err = p.communicate(timeout=timeout)
    except subprocess.TimeoutExpired:
        p.kill()
        p.communicate()
        raise vlib.Inconclusive("driver timeout after %ss: %s" % (timeout, " ".join(cmd[:3])))
    if killed:
        raise vlib.Inconclusive("driver killed by the memory watchdog at %d MiB resident: %s" % (killed["mb"], " ".join(cmd[:3])))
    return p.returncode, out, err


_drv = {}


def driver(ctx, race=False):
    k = (id(ctx), race)
    if k not in _drv:
        _drv[k] = vlib.go_build(ctx, "./cmd/udpnat", "udpnat-race" if race else "udpnat", race=race)
    return _drv[k]


def run_real(ctx, behs, name, prom=False, procs=None, timeout=900, validator="loopback", listener="alternate"):
    """Executes the behaviours on the real packet handler (several driver processes, each a slice, sequential inside).
    Returns (trace_path, summaries aligned with behs)."""
    drv = driver(ctx)
    d = ctx.sub(name)
    bf = os.path.join(d, "behs.json")
    json.dump(behs, open(bf, "w"))
    procs = procs or min(12, max(1, (vlib.NCPU * 3) // 4), len(behs))
    per = (len(behs) + procs - 1) // procs
    ps = []
    for i in range(procs):
        lo, hi = i * per, min(len(behs), (i + 1) * per)
        if lo >= hi:
            break
        tf = os.path.join(d, "trace-%d.ndjson" % i)
        sf = os.path.join(d, "sum-%d.json" % i)
        cmd = [drv, "replay", "-in", bf, "-out", tf, "-summary", sf, "-seed", str(ctx.seed * 1000 + i), "-from", str(lo), "-to", str(hi)]
        cmd += ["-validator", validator, "-listener", listener]
        if prom:
            cmd.append("-prom")
        ps.append((subprocess.Popen(cmd, env=capped_env(), stdout=subprocess.PIPE, stderr=subprocess.PIPE, text=True), tf, sf, lo, hi))
    import threading
    over = {}

    def watch():
        while any(q[0].poll() is None for q in ps):
            for q in ps:
                if q[0].poll() is None and _rss_mb(q[0].pid) > 4096:
                    over["pid"] = q[0].pid
                    for z in ps:
                        if z[0].poll() is None:
                            z[0].kill()
                    return
            time.sleep(0.2)
    threading.Thread(target=watch, daemon=True).start()
    trace = os.path.join(d, "trace.ndjson")
    sums = []
    t0 = time.time()
    with open(trace, "w") as out:
        for p, tf, sf, lo, hi in ps:
            try:
                so, se = p.communicate(timeout=max(10, timeout - (time.time() - t0)))
            except subprocess.TimeoutExpired:
                for q in ps:
                    q[0].kill()
                raise vlib.Inconclusive("udpnat replay driver timeout (%s)" % name)
            if over:
                raise vlib.Inconclusive("udpnat replay driver killed by the memory watchdog (above 4 GiB resident) (%s)" % name)
            if p.returncode != 0 and ("panic:" in (se or "") or "fatal error:" in (se or "")) and "outline-ss-server/" in (se or ""):
                for q in ps:
                    q[0].kill()
                m = re.search(r"outline-ss-server/(\S+?)\(.*?\)\n\s+\S*?/((?:service|net|prometheus|ipinfo|internal)/[\w./]+\.go):(\d+)", se)
                where = "%s:%s %s" % (m.group(2), m.group(3), m.group(1)) if m else "?"
                msg = (re.search(r"(panic: [^\n]*|fatal error: [^\n]*)", se) or [""])[0]
                last = vlib.read_ndjson(tf)[-12:] if os.path.exists(tf) else []
                ctx.violation({"module": "UdpNat", "kind": "panic-in-udp-path", "where": where},
                              "the process died while relaying UDP (%s, behaviours %d..%d): %s at %s" % (name, lo, hi, msg, where),
                              {"behaviours": behs[lo:hi], "cmd": " ".join(cmd[1:]), "last_trace_lines": last, "stderr_tail": se[-3000:]})
                raise vlib.Inconclusive("udpnat replay driver died (reported as a violation above): %s" % msg)
            if p.returncode != 0:
                for q in ps:
                    q[0].kill()
                raise vlib.Inconclusive("udpnat replay driver failed rc=%s (%s, behaviours %d..%d): %s" % (
                    p.returncode, name, lo, hi, (se or so)[-3000:]))
            out.write(open(tf).read())
            sums += json.load(open(sf))
    if len(sums) != len(behs):
        raise vlib.Inconclusive("udpnat replay: %d summaries for %d behaviours" % (len(sums), len(behs)))
    return trace, sums


def parse_result(r):
    for ln in r.prints + r.out.splitlines():
        m = re.match(r'^<<"RESULT", "(.*)">>$', ln.strip())
        if m:
            return json.loads(m.group(1).replace('\\"', '"').replace("\\\\", "\\"))
    return None


def trace_slices(trace_path):
    """list of (first_line_no, [rows]) per behaviour (split at Reset)"""
    rows = vlib.read_ndjson(trace_path)
    out, cur, start = [], None, 0
    for i, row in enumerate(rows):
        if row.get("ev") == "Reset":
            if cur is not None:
                out.append((start, cur))
            cur, start = [], i + 1
        if cur is not None:
            cur.append(row)
    if cur is not None:
        out.append((start, cur))
    return out


def validate(ctx, trace_path, cfg, props, desc, behs=None, module="UdpNat", own=None, timeout=1200, confirm=None):
    """Runs UdpNatTrace with the given property subset.  Every behaviour whose observations break a property is
    reported as a violation (signature: module + property).  Returns the RESULT dict."""
    nlines = sum(1 for ln in open(trace_path) if ln.strip())
    c = open(os.path.join(vlib.SPEC, cfg)).read()
    c = re.sub(r"Props = \{[^}]*\}", "Props = {%s}" % ", ".join('"%s"' % p for p in props), c)
    ok, r = vlib.validate_traces(ctx, "UdpNatTrace", "UdpNatTraceRun.cfg", trace_path, timeout=timeout,
                                 extra_files={"UdpNatTraceRun.cfg": c})
    res = parse_result(r)
    if res is None or not ok or res["lines"] != nlines:
        raise vlib.Inconclusive("trace validation did not consume the whole trace (%s): %s" % (
            desc, (r.violated or "") + "\n" + "\n".join(r.out.splitlines()[-15:])))
    bad_traces = {b["trace"] for b in res["bads"]}
    ctx.cov["traces_validated_against_impl"] += res["ntraces"] - len(bad_traces)
    ctx.cov.setdefault("trace_events", 0)
    ctx.cov["trace_events"] += res["lines"]
    ctx.cov.setdefault("property_evaluations", 0)
    ctx.cov["property_evaluations"] += res["nchecks"] * len(props)
    if res["bads"]:
        sl = trace_slices(trace_path)
        seen = set()
        tried = {}
        for b in sorted(res["bads"], key=lambda x: x["line"]):
            if b["prop"] in seen:
                continue          # one report per property and run; the others are the same kind
            start, rows = sl[b["trace"] - 1]
            upto = rows[: b["line"] - start + 1]
            beh = behs[b["trace"] - 1] if behs and b["trace"] - 1 < len(behs) else None
            if confirm is not None and beh is not None:
                # verdict policy: a rejection seen in a batch run on real sockets counts only when the behaviour, executed again on
                # its own, is rejected for the same property (a datagram the kernel dropped or a starved process under load is not
                # the code's doing); up to three rejected behaviours per property are tried
                if tried.get(b["prop"], 0) >= 3:
                    continue
                tried[b["prop"]] = tried.get(b["prop"], 0) + 1
                again = False
                for attempt in (1, 2):
                    for tpath in confirm(beh, "%s-%d-%d" % (b["prop"], tried[b["prop"]], attempt)):
                        ok2, r2 = vlib.validate_traces(ctx, "UdpNatTrace", "UdpNatTraceRun.cfg", tpath, timeout=timeout,
                                                       extra_files={"UdpNatTraceRun.cfg": c})
                        res2 = parse_result(r2)
                        if res2 is not None and ok2 and any(x["prop"] == b["prop"] for x in res2["bads"]):
                            again = True
                            break
                    if again:
                        break
                if not again:
                    msg = "%s was rejected for behaviour %d in the batch run (%s) but not when that behaviour was executed again alone (2 x 2 runs)" % (
                        b["prop"], b["trace"], desc)
                    ctx.notes.append("not reproduced: " + msg)
                    if not hasattr(ctx, "_udp_unconfirmed"):
                        ctx._udp_unconfirmed = []
                    ctx._udp_unconfirmed.append(msg)
                    continue
            seen.add(b["prop"])
            ctx.violation({"module": module, "kind": b["prop"]},
                          "%s [%s, behaviour %d, trace line %d; %d behaviour(s) rejected by this run]" % (
                              WHAT.get(b["prop"], b["prop"]), desc, b["trace"], b["line"], len(bad_traces)),
                          {"driver": desc, "property": b["prop"], "cfg": cfg, "behaviour": beh, "trace": upto})
    return res


def summary_violations(ctx, sums, behs, desc, want):
    """End-of-behaviour facts measured by the driver itself (they are not events of the trace):
       want: subset of {"returned", "leak", "salt", "prom"}"""
    for i, s in enumerate(sums):
        beh = behs[i] if behs else None
        if s.get("flood"):
            ctx.violation({"module": "UdpNat", "kind": "metrics-flood"},
                          "the proxy made more than 4000 metrics calls in one behaviour (%d more were dropped): packets are reported that "
                          "nobody sent - an association goroutine is spinning (%s, behaviour %d)" % (s["flood"], desc, i + 1),
                          {"behaviour": beh, "summary": s})
            return
        if "returned" in want and not s.get("returned"):
            ctx.violation({"module": "UdpNat", "kind": "handle-not-returned"},
                          "PacketHandler.Handle did not return within 5 s after the listener was closed (%s, behaviour %d)" % (desc, i + 1),
                          {"behaviour": beh, "summary": s})
            return
        if "returned" in want and s.get("unreclaimed"):
            ctx.violation({"module": "UdpNat", "kind": "ShutdownReclaimed"},
                          "%d association(s) not removed 5 s after the listener was closed (%s, behaviour %d)" % (s["unreclaimed"], desc, i + 1),
                          {"behaviour": beh, "summary": s})
            return
        if "leak" in want and (s.get("leak_goroutines", 0) > 0 or s.get("leak_fds", 0) > 0):
            ctx.violation({"module": "UdpNat", "kind": "resource-leak"},
                          "after the listener closed and all associations ended: %d goroutine(s) of the repo's packages and %d "
                          "descriptor(s) above the baseline (%s, behaviour %d)" % (s.get("leak_goroutines", 0), s.get("leak_fds", 0), desc, i + 1),
                          {"behaviour": beh, "summary": s})
            return
        if "salt" in want and s.get("salt_dup"):
            ctx.violation({"module": "UdpNat", "kind": "SaltsFresh"},
                          "a reply salt was used twice within one run (%s, behaviour %d)" % (desc, i + 1), {"behaviour": beh, "summary": s})
            return
        if "prom" in want and s.get("prom") and not s["prom"]["ok"]:
            ctx.violation({"module": "UdpNat", "kind": "prometheus-mismatch"},
                          "gathered udp_nat_entries_added/removed or data_bytes{proto=udp} differ from the calls made, or entries added != entries removed after shutdown (%s, behaviour %d)" % (desc, i + 1),
                          {"behaviour": beh, "summary": s})
            return


def count(behs, pred):
    return sum(1 for b in behs if pred(b))


def has(b, kind, **kw):
    for st in b:
        if st.get("a") == kind and all(st.get(k) == v for k, v in kw.items()):
            return True
    return False


def replay_file(ctx, path, props, cfg=None):
    """Re-judges the recorded trace of a violation; when the behaviour is present it is re-executed first (on both kinds of
    listener conn) with the validator of its family."""
    d = json.load(open(path))
    rp = d["replay"]
    cfg = cfg or rp.get("cfg") or "UdpNatTraceReal.cfg"
    if rp.get("behaviour") and cfg.startswith("UdpNatTraceReal"):
        validator = "default" if "Def" in cfg else "loopback"
        for listener in ("manager", "raw"):
            trace, sums = run_real(ctx, [rp["behaviour"]], "replay-" + listener, procs=1, validator=validator, listener=listener)
            validate(ctx, trace, cfg, props, "replay (re-executed, %s listener) of %s" % (listener, os.path.basename(path)), [rp["behaviour"]])
            summary_violations(ctx, sums, [rp["behaviour"]], "replay", {"returned", "leak", "salt", "prom"})
        return
    tf = os.path.join(ctx.scratch, "replay.ndjson")
    vlib.write_ndjson(tf, rp["trace"])
    validate(ctx, tf, cfg, props, "replay (recorded trace) of " + os.path.basename(path))


def real_families(ctx, name, n_main, n_def, props, seed_off=0, prom=False, want=(), n_focus=12, n_switch=0):
    """The two real-socket families every UDP check runs:
      main: validator = loopback + RequirePublicIP, IP-literal destinations (IPv4, IPv6, port 53, eth0, ULA forbidden)
      def : the handler's DEFAULT validator (RequirePublicIP; SetTargetIPValidator not called) with destinations also named
            by host name (localhost -> loopback: forbidden; fake-DNS names -> public: allowed / ULA: forbidden)
    In both, every other behaviour drives Handle with the packet conn of service.NewListenerManager().ListenPacket (the
    production path), the others with a plain net.ListenUDP socket.  Returns [(family, behs, trace, sums)]."""
    # focus: two clients (+ one that only ever names the unsendable destination), one key, destinations {A, port-53 B,
    #        unsendable}: a send that FAILS on a live association or as the very first datagram (the association, its deadline
    #        and its socket must stay / it must still be reclaimed), a DNS query answered by another host first, empty payloads
    # switch: two clients, each under its own key, no idle periods, destinations in groups of EQUAL address-header length
    #        (IPv4: A / another port of A's host / another IP; IPv6: two ports of ::1; names: same name other port, another name
    #        of equal length): >= 3 datagrams in ONE association whose target changes (A,A,B / A,B,A / A,B,B,A ...): the target
    #        named in THIS datagram's header gets it and nobody else (FwdToNamed, FwdOnce, FwdComplete)
    # The families are independent (own behaviours, own driver processes, own trace validation): they run side by side.
    import concurrent.futures
    driver(ctx)      # build once, before the threads
    fams = [f for f in (("main", "Gen_UdpNatReal.cfg", "UdpNatTraceReal.cfg", n_main, "loopback"),
                        ("def", "Gen_UdpNatRealDef.cfg", "UdpNatTraceRealDef.cfg", n_def, "default"),
                        ("focus", "Gen_UdpNatRealFocus.cfg", "UdpNatTraceReal.cfg", n_focus, "loopback"),
                        ("switch", "Gen_UdpNatRealSwitch.cfg", "UdpNatTraceRealSw.cfg", n_switch, "loopback")) if f[3] > 0]

    def one(f):
        fam, gencfg, tracecfg, n, validator = f
        behs, gr = gen(ctx, gencfg, n, seed=ctx.seed + seed_off + {"main": 0, "def": 500009, "focus": 900001, "switch": 700001}[fam], with_result=True)
        if fam == "switch":
            # the model counts the switches of every finished behaviour (DumpSw in UdpNatGen); a family without any is vacuous
            nsw = sum(int(m.group(1)) for m in (re.match(r'^<<"SWITCHES", (\d+)>>$', ln.strip()) for ln in gr.prints) if m)
            sw = [x for b in behs for x in switches(b)]
            ctx.cov["target_switches_generated_by_model"] = ctx.cov.get("target_switches_generated_by_model", 0) + nsw
            ctx.cov["target_switches_replayed"] = ctx.cov.get("target_switches_replayed", 0) + len(sw)
            ctx.cov["target_switch_pairs"] = sorted({"%d->%d" % (x[2], x[3]) for x in sw})
            if nsw == 0 or len(sw) < 3:
                raise vlib.Inconclusive("the target-switch family contains %d/%d switches inside an association" % (nsw, len(sw)))
        trace, sums = run_real(ctx, behs, "%s-%s" % (name, fam), prom=prom, validator=validator, procs=min(8, len(behs)))
        desc = "real sockets, %s validator%s" % ({"main": "loopback+public", "focus": "loopback+public (focused family: failing sends, DNS + other host)",
                                                   "switch": "loopback+public (target switches inside one association: same-length address headers, other port / IP / name)"}.get(
            fam, "default (RequirePublicIP), host-name destinations"), ", Prometheus collectors" if prom else "")
        def again(beh, tag):
            out = []
            for listener in ("manager", "raw"):
                t2, _ = run_real(ctx, [beh], "%s-%s-confirm-%s-%s" % (name, fam, tag, listener), procs=1, validator=validator, listener=listener)
                out.append(t2)
            return out
        validate(ctx, trace, tracecfg, props, desc, behs, confirm=again)
        summary_violations(ctx, sums, behs, desc, set(want))
        return (fam, behs, trace, sums)

    with concurrent.futures.ThreadPoolExecutor(max_workers=4) as ex:
        futs = [ex.submit(one, f) for f in fams]
        res, errs = [], []
        for fu in futs:
            try:
                res.append(fu.result())
            except Exception as e:       # let the other families finish (their verdicts count), then report
                errs.append(e)
    if errs:
        raise errs[0]
    un = getattr(ctx, "_udp_unconfirmed", [])
    if un and not ctx.violations and not ctx.known_matched:
        raise vlib.Inconclusive(un[0])
    return res


def window(ctx, props, desc="datagram during the teardown of the client's previous association"):
    """harness/cmd/udpnat window: a client datagram arrives after its association's deadline has fired and RemoveNatEntry has
    been entered, before natmap.del (the recording metrics hold the teardown there: an exact schedule)."""
    d = ctx.sub("window")
    tf, sf = os.path.join(d, "trace.ndjson"), os.path.join(d, "sum.json")
    rc, out, err = run_capped([driver(ctx), "window", "-out", tf, "-summary", sf, "-seed", str(ctx.seed)], timeout=180)
    if rc != 0:
        raise vlib.Inconclusive("udpnat window failed rc=%s: %s" % (rc, err[-1500:]))
    validate(ctx, tf, "UdpNatTraceReal.cfg", props, desc)
    sums = json.load(open(sf))
    summary_violations(ctx, sums, None, desc, {"returned", "leak"})
    ctx.cov["evaluations"] += len(sums)
    ctx.cov["distinct_nontrivial"] += len(sums)
    return sums


def two_listeners(ctx, props, n=120):
    """harness/cmd/udpnat twol: one PacketHandler, two packet conns each with its own Handle goroutine (a service with two UDP
    listeners); first datagrams of fresh clients on one, junk on the other, the target checks every byte."""
    d = ctx.sub("twol")
    tf, sf = os.path.join(d, "trace.ndjson"), os.path.join(d, "sum.json")
    rc, out, err = run_capped([driver(ctx), "twol", "-out", tf, "-summary", sf, "-seed", str(ctx.seed), "-clients", str(n)], timeout=180)
    if rc != 0:
        raise vlib.Inconclusive("udpnat twol failed rc=%s: %s" % (rc, err[-1500:]))
    s = json.load(open(sf))
    cfg = open(os.path.join(vlib.SPEC, "UdpNatTraceRealDef.cfg")).read()
    cfg = cfg.replace("Allowed = {10, 12, 15}", "Allowed = {1, 2, 4, 5, 10, 11, 12, 15}").replace("MaxAssoc = 12", "MaxAssoc = %d" % (s["associations"] + 3))
    name = "UdpNatTraceTwol.cfg"
    open(os.path.join(d, name), "w").write(cfg)
    _validate_cfgtext(ctx, tf, cfg, props, "one handler, two listeners (concurrent Handle loops), %d fresh clients + junk" % n)
    ctx.cov["evaluations"] += 1
    ctx.cov["distinct_nontrivial"] += 1
    ctx.cov["two_listeners"] = {k: s[k] for k in ("sent", "received", "intact", "not_a_sent_payload", "missing", "associations")}
    return s


def _validate_cfgtext(ctx, trace_path, cfgtext, props, desc, module="UdpNat"):
    nlines = sum(1 for ln in open(trace_path) if ln.strip())
    c = re.sub(r"Props = \{[^}]*\}", "Props = {%s}" % ", ".join('"%s"' % p for p in props), cfgtext)
    ok, r = vlib.validate_traces(ctx, "UdpNatTrace", "UdpNatTraceRun.cfg", trace_path, timeout=900, extra_files={"UdpNatTraceRun.cfg": c})
    res = parse_result(r)
    if res is None or not ok or res["lines"] != nlines:
        raise vlib.Inconclusive("trace validation did not consume the whole trace (%s): %s" % (desc, "\n".join(r.out.splitlines()[-12:])))
    bad = {b["trace"] for b in res["bads"]}
    ctx.cov["traces_validated_against_impl"] += res["ntraces"] - len(bad)
    for b in res["bads"]:
        rows = vlib.read_ndjson(trace_path)
        odd = [x for x in rows if x.get("ev") == "TRecv" and x.get("p") == -1][:5]
        ctx.violation({"module": module, "kind": b["prop"]}, "%s [%s]" % (WHAT.get(b["prop"], b["prop"]), desc),
                      {"driver": desc, "property": b["prop"], "datagrams_at_target_that_nobody_sent": odd, "trace_tail": rows[-12:]})
    return res
