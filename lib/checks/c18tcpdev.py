import vlib
from checks import c18_tcp
def run(ctx):
    c18_tcp.run_part(ctx)
    print({k: v for k, v in ctx.cov.items() if k not in ("samples", "tlc_runs")}, ctx.notes[:5])
def replay(ctx, path): pass
