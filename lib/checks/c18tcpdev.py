import vlib
from checks import c18_tcp
def run(ctx):
    c18_tcp.run_part(ctx)
def replay(ctx, path): pass
