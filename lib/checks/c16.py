"""C16 - UDP metrics match the datagrams actually relayed.

1. TLC exhaustive: UdpNat.tla observation logs (mlogH: CS/NatAdd/PktC by the Handle loop, mlogG: PktT/NatRemove per association
   goroutine) => MetricsLanguage, PktCSound, PktTSound, PktCPerDatagram, PktTPerReply, RemoveOnce, CreateOnce, at boundary sizes,
   with failing datagrams on live associations and every reply class.
2. spec -> code: TLC behaviours through PacketHandler.Handle with a recording UDPMetrics; sizes are measured independently at
   the harness's client and target sockets.
3. code -> spec: UdpNatTrace with C16's predicates (per datagram: status OK iff it was seen on the wire, wire/payload sizes
   equal the measured ones, key = the key that opened the association; exactly one report per datagram; NatAdd first,
   NatRemove last and once) - the per-key, per-direction sums follow from the per-datagram equalities.
4. second pass with the REAL prometheus.NewServiceMetrics collectors (private registry) behind the recorder: gathered
   udp_nat_entries_added/removed and data_bytes{proto="udp",dir,access_key} must equal the recorded calls.
"""
import vlib
from checks import udp_common as U

ASSUME = [
    "wire sizes are what the harness sockets sent/received (UDP payload lengths)",
    "a reply larger than the proxy's read buffer is truncated by the kernel; the size the proxy read is what it can report",
    "the driver is step-synchronous; metrics calls made during a step are attributed to that step's datagram",
    "TLC 1.8.0 and the hand transcription of udp.go into UdpNat.tla",
]


def nontrivial(b):
    fw = any(s["a"] == "CDgram" and s["k"] != 0 and s["hdr"] and s["dst"] != 3 for s in b)
    return fw and any(s["a"] == "TReply" for s in b)


def run(ctx):
    q = ctx.quick
    U.exhaustive(ctx, ["MC_UdpNatC16.cfg", "MC_UdpNatSync.cfg"] if q else ["MC_UdpNatC16T.cfg", "MC_UdpNatSync.cfg", "MC_UdpNatLong.cfg"], "C16")
    behs = U.gen(ctx, "Gen_UdpNatReal.cfg", 100 if q else 600, seed=ctx.seed + 104729)
    trace, sums = U.run_real(ctx, behs, "c16")
    U.validate(ctx, trace, "UdpNatTraceReal.cfg", U.PROPS["C16"], "real sockets, recording metrics", behs)
    U.summary_violations(ctx, sums, behs, "real sockets, recording metrics", set())
    # second pass: real Prometheus collectors
    b2 = behs[: (40 if q else 300)]
    trace2, sums2 = U.run_real(ctx, b2, "c16prom", prom=True)
    U.validate(ctx, trace2, "UdpNatTraceReal.cfg", U.PROPS["C16"], "real sockets, Prometheus collectors behind the recorder", b2)
    U.summary_violations(ctx, sums2, b2, "Prometheus pass", {"prom"})
    ctx.cov["evaluations"] += len(behs) + len(b2)
    ctx.cov["distinct_nontrivial"] += U.count(behs, nontrivial)
    rows = vlib.read_ndjson(trace)
    ctx.cov["metrics_calls_checked"] = sum(1 for r in rows if r.get("ev") == "M")
    ctx.cov["prometheus_gathers_compared"] = sum(1 for s in sums2 if s.get("prom"))
    sts = {}
    for r in rows:
        if r.get("ev") == "M" and r["m"] in ("PktC", "PktT"):
            sts[r["m"] + ":" + r["st"]] = sts.get(r["m"] + ":" + r["st"], 0) + 1
    ctx.cov["statuses_seen"] = sts
    ctx.sample({"behaviour": behs[0]})
    ctx.sample({"prometheus": next((s["prom"] for s in sums2 if s.get("prom") and s["prom"]["bytes"]), None)})
    vlib.write_evidence(ctx, "model_checking",
                        "as C03; non-trivial = the behaviour contains a forwarded datagram and a datagram sent to an association's "
                        "socket; the Prometheus pass re-executes a prefix of the behaviours",
                        ASSUME)


def replay(ctx, path):
    U.replay_file(ctx, path, U.PROPS["C16"])
