"""C16 - UDP metrics match the datagrams actually relayed.

1. TLC exhaustive: UdpNat.tla observation logs (mlogH: CS/NatAdd/PktC by the Handle loop, mlogG: PktT/NatRemove per association
   goroutine) => MetricsLanguage, PktCSound, PktTSound, PktCPerDatagram, PktTPerReply, RemoveOnce, CreateOnce, at boundary sizes,
   with failing datagrams on live associations and every reply class.
2. spec -> code: TLC behaviours through PacketHandler.Handle with a recording UDPMetrics; sizes are measured independently at
   the harness's client and target sockets.
3. code -> spec: UdpNatTrace with C16's predicates (per datagram: status OK iff it was seen on the wire, wire/payload sizes
   equal the measured ones, key = the key that opened the association; exactly one report per datagram; NatAdd first,
   NatRemove last and once) - the per-key, per-direction sums follow from the per-datagram equalities.
4. second pass with the REAL prometheus.NewServiceMetrics collectors (private registry) behind the recorder: gathered
   udp_nat_entries_added/removed and data_bytes{proto="udp",dir,access_key} must equal the recorded calls.
"""
import vlib
from checks import udp_common as U

ASSUME = [
    "wire sizes are what the harness sockets sent/received (UDP payload lengths)",
    "every behaviour ends with the listener being closed (most of them while associations are live); exactly one RemoveNatEntry per "
    "association is required afterwards, and gathered nat_entries_removed == nat_entries_added",
    "a reply larger than the proxy's read buffer is truncated by the kernel; the size the proxy read is what it can report",
    "the driver is step-synchronous; metrics calls made during a step are attributed to that step's datagram",
    "TLC 1.8.0 and the hand transcription of udp.go into UdpNat.tla",
]


def nontrivial(b):
    fw = any(s["a"] == "CDgram" and s["k"] != 0 and s["hdr"] and s["dst"] != 3 for s in b)
    return fw and any(s["a"] == "TReply" for s in b)


def run(ctx):
    q = ctx.quick
    U.exhaustive(ctx, ["MC_UdpNatC16.cfg", "MC_UdpNatSync.cfg"] if q else ["MC_UdpNatC16T.cfg", "MC_UdpNatSync.cfg", "MC_UdpNatLong.cfg"], "C16")
    fams = U.real_families(ctx, "c16", 55 if q else 400, 30 if q else 200, U.PROPS["C16"], seed_off=104729, want={"returned"}, n_focus=8 if q else 40)
    # second pass: the REAL Prometheus collectors (private registry) behind the recorder.  Every behaviour ends with the listener
    # being closed, usually while associations are still live: afterwards nat_entries_removed must equal nat_entries_added.
    fams2 = U.real_families(ctx, "c16prom", 30 if q else 200, 0 if q else 100, U.PROPS["C16"], seed_off=15485863, prom=True, want={"returned", "prom"},
                             n_focus=0 if q else 12)
    sts, ncalls, live_at_close = {}, 0, 0
    for fam, behs, trace, sums in fams + fams2:
        ctx.cov["evaluations"] += len(behs)
        ctx.cov["distinct_nontrivial"] += U.count(behs, nontrivial)
        rows = vlib.read_ndjson(trace)
        ncalls += sum(1 for r in rows if r.get("ev") == "M")
        for r in rows:
            if r.get("ev") == "M" and r["m"] in ("PktC", "PktT"):
                sts[r["m"] + ":" + r["st"]] = sts.get(r["m"] + ":" + r["st"], 0) + 1
        live_at_close += sum(1 for x in sums if x.get("live_at_close", 0) > 0)
    ctx.cov["metrics_calls_checked"] = ncalls
    ctx.cov["statuses_seen"] = sts
    ctx.cov["behaviours_closing_the_listener_with_live_associations"] = live_at_close
    ctx.cov["prometheus_gathers_compared"] = sum(1 for f in fams2 for x in f[3] if x.get("prom"))
    ctx.sample({"behaviour": fams[0][1][0]})
    ctx.sample({"prometheus": next((x["prom"] for f in fams2 for x in f[3] if x.get("prom") and x["prom"]["bytes"]), None)})
    vlib.write_evidence(ctx, "model_checking",
                        "as C03; non-trivial = the behaviour contains a forwarded datagram and a datagram sent to an association's "
                        "socket; the Prometheus pass re-executes a prefix of the behaviours",
                        ASSUME)


def replay(ctx, path):
    U.replay_file(ctx, path, U.PROPS["C16"])
