"""Virtual-time variant of the TcpConn replays (C06): harness/cmd/tcpconn/vt_test.go under testing/synctest (go1.26,
GODEBUG=asynctimerchan=0), in-memory transport.StreamConn, the service's 59 s timeout.  Records are judged by TLC with
zero slack: close instants are compared exactly."""
import copy, json, os, subprocess, collections
import vlib
from checks import tc_common as tc

CIPHERS = ["AEAD_CHACHA20_POLY1305", "AEAD_AES_256_GCM", "AEAD_AES_192_GCM", "AEAD_AES_128_GCM"]
_n = [0]


def run_vt(ctx, behs, label, seed=None, base_idx=0, via_service=False):
    _n[0] += 1
    d = ctx.sub("vt%d" % _n[0])
    bf, of = os.path.join(d, "behs.json"), os.path.join(d, "cases.ndjson")
    json.dump(behs, open(bf, "w"))
    vlib.ensure_harness_sum()
    env = vlib.goenv("1.26", {"GODEBUG": "asynctimerchan=0", "TCPVT_IN": bf, "TCPVT_OUT": of, "TCPVT_BASE": str(base_idx),
                               "TCPVT_SEED": str(ctx.seed if seed is None else seed), "TCPVT_SERVICE": "1" if via_service else "0"})
    cmd = [vlib.gobin("1.26"), "test", "-vet=off", "-count=1", "-run", "^TestVT$", "-timeout", "600s", "./cmd/tcpconn"]
    try:
        p = subprocess.run(cmd, cwd=vlib.HARNESS, env=env, stdout=subprocess.PIPE, stderr=subprocess.STDOUT, text=True, timeout=700)
    except subprocess.TimeoutExpired:
        raise vlib.Inconclusive("virtual-time test timed out (%s)" % label)
    if p.returncode != 0 or not os.path.exists(of):
        if vlib.compile_failed(p.stdout):
            raise vlib.Inconclusive("virtual-time harness does not compile: %s" % p.stdout[-1500:])
        raise vlib.Inconclusive("virtual-time test failed (%s): %s" % (label, p.stdout[-2500:]))
    cases = vlib.read_ndjson(of)
    if len(cases) != len(behs):
        raise vlib.Inconclusive("virtual-time test produced %d records for %d behaviours" % (len(cases), len(behs)))
    return cases


def toks_of(beh):
    return [(e["v"] // 10, e["v"] % 10) for e in beh["tr"] if e["a"] == "CSend"]


def sweep(behs, rng, quick):
    """Probe behaviours (TLC-generated) instantiated with concrete lengths x ciphers x key-list sizes x replay cache on/off x
    bit-flip offset classes."""
    # shape of the client's sends -> byte lengths of its tokens
    shapes = {
        (): [[]],                                            # 0 bytes
        ((1, 1),): [[1], [25], [49]],                        # fewer than 50, never completed
        ((1, 2),): [[50]],
        ((1, 1), (1, 1)): [[1, 49], [49, 1], [20, 30]],
        ((1, 2), (9, 0)): [[50, 1], [50, 23], [50, 41]],      # 51, 73, 91 bytes
        ((1, 1), (1, 1), (9, 0)): [[20, 30, 41]],
        ((1, 2), (9, 0), (9, 0)): [[50, 1000, 16500]],        # several chunks
        ((1, 1), (1, 1), (9, 0), (9, 0)): [[10, 40, 23, 4000]],
    }
    by = collections.defaultdict(list)
    for b in behs:
        f = tc.features(b)
        if len(b["sc"]) != 1 or b["sc"][0]["hs"] != "garbage":
            continue
        k = tuple(toks_of(b))
        if k in shapes:
            by[(k, any(e["a"] == "CFin" for e in b["tr"]))].append(b)
    out = []
    # key-list sizes 0 (a service without keys: nobody authenticates), 1, 3, 100
    combos = [(c, n, r) for c in CIPHERS for n in (0, 1, 3, 100) for r in (False, True)]
    variants = ["random", "flip-salt", "flip-len", "flip-lentag"]
    i = 0
    for (k, fin), bl in sorted(by.items(), key=repr):
        for lens in shapes[k]:
            cs = combos if not quick else rng.sample(combos, 6) + [(rng.choice(CIPHERS), 0, rng.random() < 0.5)]
            for (c, n, r) in cs:
                b = copy.deepcopy(bl[i % len(bl)])
                i += 1
                v = variants[i % 4] if sum(lens) >= 50 else "random"
                b["ov"] = {"cipher": c, "nkeys": n or 1, "replay": r, "lens": lens, "variant": v, "keypos": i, "emptykeys": n == 0}
                out.append(b)
    return out


def report(ctx, cases, behs, label, prefix="C06_"):
    bad = tc.judge(ctx, cases, tc.EXACT_SLACK, label=label)
    ctx.cov["evaluations"] += len(behs)
    seen = getattr(ctx, "_tc_done_kinds", None)
    if seen is None:
        seen = ctx._tc_done_kinds = set()
    for i in sorted(bad):
        preds, snapi = bad[i]
        mine = sorted(p for p in preds if p.startswith(prefix))
        if not mine:
            continue
        case = cases[i]
        sig = tc.signature(mine[0], case)
        sig["where"] = sig.get("where", "") if mine[0] == "C06_DrainHolds" else sig["where"] + " (virtual time)"
        k = json.dumps(sig, sort_keys=True)
        if k in seen:
            continue
        seen.add(k)
        beh = behs[case["beh"]]
        ctx.violation(sig, "%s under virtual time (59 s timeout, exact instants): %s [%s] script: %s; observed: %s" % (
            mine[0], tc.DESCR.get(mine[0], ""), tc.input_class(case), tc.env_script(beh), json.dumps(tc.brief(case))),
            {"module": "TcpConn", "virtual_time": True, "behaviour": beh, "base_idx": case["beh"], "predicate": mine[0], "case": case})
    return bad


def run(ctx, timed_behs, invalid_behs, rng):
    q = ctx.quick
    # the same TLC behaviours as on real sockets, plus clients that never half-close
    nofin = tc.gen(ctx, "Gen_TcpConn_C06NoFin.cfg", 500 if q else 4000, seed=ctx.seed + 2)
    pick = tc.select(nofin, 60 if q else 800, lambda f: (f["hs"], min(f["ntok"], 4)), rng)
    # ... and the listener closing while a probe is being absorbed (StreamServe cancels the handlers' context)
    sh = tc.gen(ctx, "Gen_TcpConn_C06Shutdown.cfg", 1200 if q else 6000, seed=ctx.seed + 5)
    shp = tc.select([b for b in sh if tc.features(b)["lclose"] and tc.features(b)["probe"]], 30 if q else 300,
                    lambda f: (f["hs"], min(f["ntok"], 3)), rng)
    behs = [b for b in timed_behs if len(b["sc"]) == 1] + pick + invalid_behs + shp
    cases = run_vt(ctx, behs, "vt-behaviours")
    report(ctx, cases, behs, "vt-behaviours")
    tc.mech_pass(ctx, cases, behs, label="vt-behaviours")
    # sweep: contents / lengths / ciphers / key-list sizes / replay cache: the close instant must be the same
    sw = sweep(nofin + timed_behs, rng, q)
    if len(sw) < 40:
        raise vlib.Inconclusive("virtual-time sweep: only %d instantiated behaviours" % len(sw))
    scases = run_vt(ctx, sw, "vt-sweep")
    report(ctx, scases, sw, "vt-sweep")
    tc.mech_pass(ctx, scases, sw, label="vt-sweep")
    inst = collections.Counter()
    for c in scases + cases:
        if c["hs"] != "valid" and not c["cfin"] and c["closeAt"] >= 0:
            inst[c["closeAt"] - c["acceptAt"]] += 1
    ctx.cov["virtual_time"] = {"behaviours": len(behs), "sweep": len(sw),
                               "close_instant_minus_accept_ms_of_silent_probers": dict(inst),
                               "ciphers": sorted({c["cipher"] for c in scases}), "nkeys": sorted({0 if b["ov"].get("emptykeys") else b["ov"]["nkeys"] for b in sw}),
                               "lengths": sorted({sum(t["n"] for t in c["csent"]) for c in scases})}
    ctx.cov["distinct_nontrivial"] += len(sw) + len(pick)
    if len(inst) > 1:
        ctx.notes.append("virtual time: silent probers were closed at different instants %s (each judged above)" % dict(inst))
    if scases:
        ctx.sample({"virtual_time_sweep_record": tc.brief(scases[len(scases) // 2])})


def replay(ctx, d):
    r = d["replay"]
    cases = run_vt(ctx, [r["behaviour"]], "vt-replay", seed=d["seed"], base_idx=r["base_idx"])
    bad = report(ctx, cases, [r["behaviour"]], "vt-replay")
    if not ctx.violations:
        print("replay: the behaviour no longer violates C06 under virtual time (%s)" % (bad or "no failing predicate"))
