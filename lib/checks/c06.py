"""C06 - unauthenticated TCP input is absorbed silently until the timeout; invalid authenticated streams are drained.

1. TLC exhaustive: pre-authentication phase of TcpConn.tla with clock (all opener classes x lengths 0/<50/50/>50 in
   several pieces x client FIN or not x time up to beyond the deadline), post-authentication invalid streams; liveness.
   MC_TcpConn_C06Inner.cfg models tcp.go:305-308 AS WRITTEN (drain through the decrypting reader): TLC finds the early
   half-close; that model finding is turned into a behaviour (Gen_TcpConn_C06Witness.cfg) and replayed on the real code.
2. spec -> code, real sockets, 600 ms handshake timeout: TLC-simulated behaviours (probe classes incl. replays and
   reflected replays, bit flips, FIN or not, sends at different ticks); FIN vs RST seen by the prober; nothing written.
3. spec -> code, virtual time (testing/synctest, in-memory conns, 59 s timeout): the same behaviours plus a sweep over
   lengths x ciphers x key-list sizes (0, 1, 3, 100) x replay cache on/off x bit-flip offset classes; close instants compared exactly.
4. code -> spec: every connection record judged by TLC against the property layer (TcpConnTrace.tla).
"""
import json, os, random
import vlib
from checks import tc_common as tc

ASSUME = [
    "real sockets: 600 ms handshake timeout, model tick = 300 ms; a close observed up to 1.5 s late is tolerated, an early "
    "close is not (2 ms clock granularity); clients do not send within 250 ms of the deadline",
    "virtual time: in-memory transport.StreamConn whose deadlines are timers of the synctest bubble; instants compared exactly",
    "all byte strings: enumerated classes x seeded random contents, one bit flip per offset class per scenario",
    "authentication outcomes are abstract in TcpConn.tla (detail: CipherList/TcpAuth modules)",
]


def run(ctx):
    q = ctx.quick
    r = vlib.tlc(ctx, "TcpConn", "MC_TcpConn_C06.cfg" if q else "MC_TcpConn_C06Thorough.cfg", workers="auto", timeout=1800)
    ctx.add_tlc(r, "exhaustive pre-auth phase with clock + invalid authenticated streams (drain of the raw connection)")
    if not r.ok:
        raise vlib.Inconclusive("model finding in TcpConn.tla / MC_TcpConn_C06.cfg: %s" % r.violated)
    r = vlib.tlc(ctx, "TcpConn", "MC_TcpConn_C06Live.cfg", workers="auto", timeout=1800)
    ctx.add_tlc(r, "liveness: every handler path terminates (bounded close)")
    if not r.ok:
        raise vlib.Inconclusive("liveness model finding (MC_TcpConn_C06Live.cfg): %s" % r.violated)
    ri = vlib.tlc(ctx, "TcpConn", "MC_TcpConn_C06Inner.cfg", workers=4, timeout=900)
    ctx.cov["tlc_runs"].append({"module": "TcpConn", "cfg": "MC_TcpConn_C06Inner.cfg", "label": "model of tcp.go:305-308 as written: "
                                "expected to violate Inv_C06Drain", "violated": ri.violated, "distinct": ri.distinct})
    if ri.violated != "Inv_C06Drain":
        raise vlib.Inconclusive("the model of the code as written no longer shows the early half-close (%s)" % ri.violated)

    rng = random.Random(ctx.seed)
    # 2a. the model finding, as a behaviour, on the real code (policy: a model finding is a verdict only if reproduced)
    wbeh, rw = tc.witness(ctx)
    ctx.sample({"witness_behaviour_of_the_model_of_the_code_as_written": tc.env_script(wbeh)})
    tc.run_family(ctx, "C06_", [wbeh], label="c06-witness", timeout_ms=5000, par=1)

    # 2b. timed probes on real sockets
    behs = tc.gen(ctx, "Gen_TcpConn_C06.cfg", 1500 if q else 12000, seed=ctx.seed)
    probes = [b for b in behs if tc.features(b)["hs"][0] != "valid" or tc.features(b)["probe"]]
    post = [b for b in behs if tc.features(b)["hs"][0] == "valid" and not tc.features(b)["probe"]]
    pick = tc.select(probes, 110 if q else 1200, lambda f: (f["hs"], min(f["ntok"], 4), f["ticks"] > 2), rng)
    pick += tc.select(post, 30 if q else 400, lambda f: (f["bad"], f["dial"], f["ticks"] > 2), rng)
    # key-list size 0 as well: a service without keys must absorb probes like any other
    import copy
    for b in [b for b in pick if tc.features(b)["hs"][0] == "garbage"][:12 if q else 100]:
        e = copy.deepcopy(b)
        e["ov"] = {"emptykeys": True}
        pick.append(e)
    cases, _, _, hung = tc.run_family(ctx, "C06_", pick, label="c06-timed", par=8, **tc.TIMED)
    if hung:
        raise vlib.Inconclusive("handlers still running after the script ended: %s" % ctx.notes[-1])
    ctx.cov["distinct_nontrivial"] += sum(1 for b in pick if tc.features(b)["probe"] or tc.features(b)["bad"])
    tc.mech_pass(ctx, cases, pick, label="c06-timed")
    kinds = {}
    for c in cases:
        if c["mlog"] and c["mlog"][-1]["m"] == "Closed":
            kinds[c["mlog"][-1]["s"]] = kinds.get(c["mlog"][-1]["s"], 0) + 1
    ctx.cov["real_socket_outcomes"] = kinds
    closes = {}
    for c in cases:
        if c["hs"] != "valid" and c["closeAt"] >= 0:
            k = "FIN" if c["clog"] == [0] else "RST" if c["clog"] == [-1] else str(c["clog"])
            closes[k] = closes.get(k, 0) + 1
    ctx.cov["prober_close_kinds"] = closes
    for c in [c for c in cases if c["hs"] != "valid"][:2]:
        ctx.sample({"script": " ".join(c["env"]), "observed": tc.brief(c)})

    # 2c. invalid authenticated streams generated from the model of the code as written (more data after the corrupt
    #     chunk, polite target): the client holds the connection open for >= 300 ms
    ib = tc.gen(ctx, "Gen_TcpConn_C06Inner.cfg", 600 if q else 5000, seed=ctx.seed + 1)
    ib = [b for b in ib if tc.features(b)["bad"]]
    ipick = tc.select(ib, 30 if q else 400, lambda f: (f["junk"], f["dial"], f["tfin"], f["cfin"]), rng)
    icases, _, _, _ = tc.run_family(ctx, "C06_", ipick, label="c06-invalid-authenticated", timeout_ms=5000, par=16)
    tc.mech_pass(ctx, icases, ipick, label="c06-invalid-authenticated")
    ctx.cov["distinct_nontrivial"] += len(ipick)
    # 2d. the target replies and finishes FIRST (the proxy legitimately passes its FIN on to the client); only then does the
    #     client send a chunk that fails authentication, and keeps the connection open: still drained, not closed
    ab = [b for b in tc.gen(ctx, "Gen_TcpConn_C06BadAfterTFin.cfg", 2000 if q else 10000, seed=ctx.seed + 3) if tc.features(b)["bad"]]
    apick = tc.select(ab, 24 if q else 200, lambda f: (f["junk"], min(f["crecv"], 1), min(f["trecv"], 1)), rng)
    if len(apick) < 10:
        raise vlib.Inconclusive("steered generation produced too few bad-after-target-FIN behaviours (%d)" % len(apick))
    acases, _, _, _ = tc.run_family(ctx, "C06_", apick, label="c06-invalid-after-target-finished", timeout_ms=5000, par=16)
    tc.mech_pass(ctx, acases, apick, label="c06-invalid-after-target-finished")
    ctx.cov["distinct_nontrivial"] += len(apick)
    ipick = ipick + apick
    # 2e. the listener is closed (accept reports net.ErrClosed, StreamServe cancels the context of its handlers, as at every
    #     configuration reload) while a probe is being absorbed: still silent and open until the client closes or the timeout
    sh = tc.gen(ctx, "Gen_TcpConn_C06Shutdown.cfg", 1500 if q else 8000, seed=ctx.seed + 4)
    spick = tc.select([b for b in sh if tc.features(b)["lclose"] and tc.features(b)["probe"]], 30 if q else 300,
                      lambda f: (f["hs"], min(f["ntok"], 3), f["ticks"] > 2), rng)
    if len(spick) < 15:
        raise vlib.Inconclusive("too few listener-closes-during-absorb behaviours (%d)" % len(spick))
    scases, _, _, shung = tc.run_family(ctx, "C06_", spick, label="c06-listener-closes-during-absorb", par=8, **tc.TIMED)
    if shung:
        raise vlib.Inconclusive("handlers still running after the script ended: %s" % ctx.notes[-1])
    tc.mech_pass(ctx, scases, spick, label="c06-listener-closes-during-absorb")
    ctx.cov["distinct_nontrivial"] += len(spick)
    # 2f. many probes in the drain at the same moment (320 quick / 600 thorough, each >= 50 bytes or a replay, none half-closes):
    #     every one of them stays open and silent until the timeout, however many there are
    nmany = 320 if q else 600
    mb = [b for b in tc.gen(ctx, "Gen_TcpConn_C06NoFin.cfg", 2500 if q else 6000, seed=ctx.seed + 6)
          if len(b["sc"]) == 1 and b["sc"][0]["hs"] != "valid" and any(e["a"] == "Auth" for e in b["tr"])]
    if len(mb) < 40:
        raise vlib.Inconclusive("too few absorbed-probe behaviours for the concurrent family (%d)" % len(mb))
    many = [mb[i % len(mb)] for i in range(nmany)]
    merged = tc.merge_behaviours(many)
    mcases, _, _, mhung = tc.run_family(ctx, "C06_", [merged], label="c06-many-concurrent-probes-%d" % nmany, timeout_ms=3000, par=1,
                                        extra=["-own-waits", "-hold-ms", "4000", "-hang-ms", "12000", "-debug-every", "0"], confirm=False)
    if mhung:
        raise vlib.Inconclusive("concurrent probes: handlers still running: %s" % ctx.notes[-1])
    late = [c for c in mcases if c["acceptAt"] >= 0 and c["preDoneAt"] > c["acceptAt"] + 2500]
    ctx.cov["concurrent_probes"] = {"connections": len(mcases), "closed_at_timeout": sum(1 for c in mcases if c["drain"] == "timeout"),
                                    "span_of_accepts_ms": max(c["acceptAt"] for c in mcases) - min(c["acceptAt"] for c in mcases if c["acceptAt"] >= 0)}
    if ctx.cov["concurrent_probes"]["span_of_accepts_ms"] > 2000 and not ctx.violations:
        raise vlib.Inconclusive("the %d probes could not be opened within the handshake timeout (%s)" % (nmany, ctx.cov["concurrent_probes"]))
    ctx.cov["distinct_nontrivial"] += 1
    ctx.cov["self_test_rejected"] = tc.self_test(ctx, cases, tc.REAL_SLACK)

    # 3. virtual time
    try:
        from checks import tc_vt
    except ImportError:
        tc_vt = None
        ctx.cov["skipped"].append("virtual-time variant: not built")
    if tc_vt:
        tc_vt.run(ctx, pick, ipick, rng)

    tc.finish(ctx)
    vlib.write_evidence(ctx, "model_checking",
                        "TLC enumerates the pre-authentication phase with a clock for every opener class and piece-wise "
                        "delivery; simulated behaviours (pairwise distinct as sequences of environment actions and observations, "
                        "balanced over opener class / number of pieces / timing) are executed on the real handler on real "
                        "sockets (600 ms timeout) and under virtual time (59 s); non-trivial = the connection fails "
                        "authentication or turns invalid after it; every connection record is judged by TLC",
                        ASSUME)


def replay(ctx, path):
    d = json.load(open(path))
    if d["replay"].get("virtual_time"):
        from checks import tc_vt
        return tc_vt.replay(ctx, d)
    tc.replay_violation(ctx, path, "C06_")
