"""C07, system level: one replay history for every listener, service and reload generation of the process.

TLC behaviours of ReplayCache.tla with a fixed capacity are mapped onto a real OutlineServer (package main harness):
`Add(h)` = handshake h (a byte-identical copy when h was presented before) presented on a listener that alternates
between two services sharing the key; `Resize` steps become configuration reloads.  The observed statuses
(ERR_REPLAY_CLIENT or not) form a ReplayCache trace that ReplayCacheTrace validates."""
import json, os
import vlib
from checks import rc_common, rl_common

# two services sharing key 1 (id1) on different listeners, and a variant of the same configuration for reloads
CFG_A = {"kind": "ok", "legacy": [], "svcs": [{"ks": [1, 2], "ls": [["tcp", 1], ["udp", 1]]}, {"ks": [1, 3], "ls": [["tcp", 2]]}]}
CFG_B = {"kind": "ok", "legacy": [], "svcs": [{"ks": [1], "ls": [["tcp", 1]]}, {"ks": [3, 1], "ls": [["tcp", 2], ["tcp", 3]]}]}


def run(ctx):
    n = 10 if ctx.quick else 200
    behs, g = rc_common.gen_behaviours(ctx, n, cfg="Gen_ReplayCacheSys.cfg", seed=ctx.seed + 11)
    behs6, g6 = rc_common.gen_behaviours(ctx, n, cfg="Gen_ReplayCacheSys6.cfg", seed=ctx.seed + 12)
    behs = behs + behs6      # two values of -replay_history
    scen = []
    for i, b in enumerate(behs):
        steps = [{"a": "Load", "cfg": CFG_A, "frn": [], "ok": True}]
        cur, k = CFG_A, 0
        for o in b[1:]:
            if o["a"] == "Add":
                k += 1
                addrs = [1, 2] if cur is CFG_A else [1, 2, 3]
                steps.append({"a": "Replay", "clients": [{"addr": addrs[k % len(addrs)], "key": 1, "kind": "h%d" % o["h"]}]})
            else:
                cur = CFG_B if cur is CFG_A else CFG_A
                steps.append({"a": "Load", "cfg": cur, "frn": [], "ok": True})
        scen.append({"id": i + 1, "replay": b[0]["n"], "mode": "noprobe", "steps": steps})
    tf = rl_common.run_harness(ctx, scen, "c07sys", timeout=1500)
    judge_rows(ctx, vlib.read_ndjson(tf), "in-package server", behs, scen)
    # the same scenarios against the real binary: -replay_history flag, SIGHUP reloads, statuses read from /metrics
    import copy
    pscen = copy.deepcopy(scen[:6 if ctx.quick else 80])
    tf2 = rl_common.run_process(ctx, pscen, "c07proc", timeout=1500)
    judge_rows(ctx, vlib.read_ndjson(tf2), "real binary", behs, pscen)


def judge_rows(ctx, rows, where, behs, scen):
    out = []
    for r in rows:
        if r["ev"] == "Scenario":
            out.append({"ev": "New", "cap": r["replay"]})
        elif r["ev"] == "Handshake":
            replayed = r["status"] in ("ERR_REPLAY_CLIENT", "ERR_REPLAY_SERVER")
            if not r["listening"] or r["err"] != "<nil>" or (r["id"] != 1 and not replayed) or r["status"] == "ERR_CIPHER":
                raise vlib.Inconclusive("system-level replay scenario could not present a handshake: %s" % json.dumps(r))
            out.append({"ev": "Add", "h": int(r["name"][1:]), "ret": r["status"] != "ERR_REPLAY_CLIENT",
                        "status": r["status"], "addr": r["addr"]})
    rt = os.path.join(ctx.scratch, "c07sys-rc-%d.ndjson" % len(ctx.cov["samples"]))
    vlib.write_ndjson(rt, out)
    rc_common.validate(ctx, rt, "system level (%s): handshakes replayed across listeners, services and reloads" % where)
    ctx.cov["evaluations"] += len(scen)
    ctx.cov["distinct_nontrivial"] += sum(1 for b in behs[:len(scen)] if any(o.get("obl") for o in b))
    ctx.sample({"system_scenario_statuses": [o for o in out[:12]]})
