"""C01 - TCP access-key authentication is sound and complete for every key list.

1. TLC exhaustive: CipherList.tla (mechanism: two-pass snapshot, search on the snapshot, mark/move-to-front with
   container/list semantics, Update) => Sound, Complete, SnapshotIsPermutation, NoAuthNoEffect, InvalidRefused.
2. spec -> code: TLC-simulated behaviours (schedules with Updates between snapshot, search and mark; all four ciphers;
   duplicate keys; several client IPs; every class of invalid opener) executed on the real CipherList (behind a
   recording/gating wrapper), the real authenticator and stream handler over loopback TCP with real encryption; lists
   padded to 50 / 300 keys.
3. code -> spec: the recorded traces (snapshot orders, mark calls, returned ids, metrics, dials, bytes at the client)
   are validated by TLC (CipherListTrace): verdict from the property layer only, mechanism differences are drift.
4. concurrent family: 8-16 goroutines of lookups (through the real authenticator) and marks on one real list, without
   and with Updates; call/return traces validated by TLC (every snapshot a permutation of a list current during the
   call, every valid client authenticated, nobody else).
"""
import json, os
import vlib
from checks import ta_common

ASSUME = [
    "AEAD forgery resistance: opening bytes not produced with a configured key decrypt under none (the harness builds "
    "corrupted openers by single-bit flips in salt / encrypted length / length tag, foreign keys and random bytes)",
    "opening byte strings are covered by classes (valid, foreign key, random >= 50, short + FIN, short + stall, bit flips "
    "per field) x seeds, not all strings",
    "the recording wrapper sees the real list only through the public CipherList interface; element tokens are assigned "
    "in creation order like UpdateCore does",
    "TLC 1.8.0 and the hand transcription of cipher_list.go / tcp.go:75-113 into CipherList.tla (checked by trace "
    "validation: exact snapshot orders, found entries and mark arguments are compared as drift)",
]


def exhaustive(ctx):
    cfgs = [("MC_CipherList.cfg", "3 concurrent lookups, 1 Update"), ("MC_CipherListUpd.cfg", "2 concurrent lookups, 2 Updates")]
    if not ctx.quick:
        cfgs += [("MC_CipherListThorough.cfg", "3 concurrent lookups, 2 Updates, 6 opener classes"),
                 ("MC_CipherListX.cfg", "four classes under one secret, AES-128 duplicates, empty list")]
    for cfg, label in cfgs:
        r = vlib.tlc(ctx, "CipherListMC", cfg, workers="auto", timeout=3000, deadlock=False)
        ctx.add_tlc(r, "exhaustive mechanism=>property: " + label)
        if not r.ok:
            raise vlib.Inconclusive("model finding in CipherList.tla (%s): %s" % (cfg, r.violated))


def nontrivial(trace_rows):
    """behaviours (traces) in which at least one connection was authenticated, and those with an Update between a
    snapshot and its search"""
    auth, upd_between, cur, open_snaps, hit = 0, 0, False, set(), False
    for r in trace_rows + [{"ev": "Reset"}]:
        ev = r.get("ev")
        if ev == "Reset":
            auth += 1 if cur else 0
            upd_between += 1 if hit else 0
            cur, open_snaps, hit = False, set(), False
        elif ev == "Snapshot":
            open_snaps.add(r["g"])
        elif ev == "Update" and open_snaps:
            hit = True
        elif ev in ("Find", "Read50"):
            open_snaps.discard(r["g"]) if ev == "Find" or not r.get("ok") else None
        elif ev == "Result" and r.get("st") == "OK":
            cur = True
    return auth, upd_between


def stale_mark_features(beh):
    """(a) a Mark of an element of a REPLACED list (snapshot, then Update, then the client's bytes) followed by a later
    connection; (b) ... by a later connection with a key of the NEW list; (c) ... with a key that the Update revoked"""
    lists, stale, old = [], False, set()
    a = b = c = False
    for s in beh:
        if s["a"] == "Update":
            lists.append({(k["cls"], k["sec"]) for k in s["shape"]})
        elif s["a"] == "Mark" and not s["moved"] and not stale:
            stale = True
            old = set().union(*lists[:-1]) if len(lists) > 1 else set()
        elif s["a"] == "Snapshot" and stale:
            a = True
            k = (s["op"]["cls"], s["op"]["sec"])
            if s["op"]["kind"] == "valid" and k in lists[-1]:
                b = True
            if s["op"]["kind"] == "valid" and k not in lists[-1] and k in old:
                c = True
    return a, b, c


def replay_behaviours(ctx, behs, desc, seed):
    drv = ta_common.driver(ctx)
    bf = os.path.join(ctx.scratch, "cl-behs-%d.json" % seed)
    json.dump(behs, open(bf, "w"))
    tf = os.path.join(ctx.scratch, "cl-trace-%d.ndjson" % seed)
    info, _ = ta_common.run_driver(ctx, [drv, "beh", "-in", bf, "-out", tf, "-seed", str(seed), "-par", "16",
                                         "-timeout", "2000"], "beh", module="CipherList")
    ctx.cov.setdefault("handler_panics_logged", 0)
    ctx.cov["handler_panics_logged"] += info.get("panics_logged", 0)
    skipped = info.get("skipped_late", 0)
    if skipped:
        ctx.cov["skipped"].append("%d behaviours whose valid opener reached the server later than half the handshake "
                                  "timeout (machine load): not evaluated" % skipped)
    if skipped > len(behs) // 2:
        raise vlib.Inconclusive("too many behaviours ran late (%d of %d)" % (skipped, len(behs)))
    res = ta_common.validate_cl(ctx, tf, desc, behs=behs)
    rows = vlib.read_ndjson(tf)
    a, u = nontrivial(rows)
    ctx.cov["evaluations"] += res["ntraces"]
    ctx.cov["distinct_nontrivial"] += a
    ctx.cov.setdefault("behaviours_with_update_between_snapshot_and_search", 0)
    ctx.cov["behaviours_with_update_between_snapshot_and_search"] += u
    ctx.cov.setdefault("connections", 0)
    ctx.cov["connections"] += sum(1 for r in rows if r.get("ev") == "Result")
    ctx.cov.setdefault("authenticated_connections", 0)
    ctx.cov["authenticated_connections"] += sum(1 for r in rows if r.get("ev") == "Result" and r.get("st") == "OK")
    return rows


def concurrent(ctx):
    """Concurrent lookup / mark family (C01 quantifies over concurrent lookups and key-list replacements too): G
    goroutines of lookups through the real authenticator (4 client IPs, valid / foreign / corrupted / short openers) and
    direct MarkUsedByClientIP calls on ONE real list - first with a list that stays put (only lookups and marks
    interleave), then with Updates.  Every goroutine records its own call/return events with monotonic stamps; TLC
    (CipherListTrace, concurrent part): every snapshot is a permutation of a list generation current during the call,
    every valid client is authenticated, nobody else is."""
    drv = ta_common.driver(ctx)
    shapes = [dict(g=8, upd=1, n=800, size=6, rounds=3, pace=1, gens=1),
              dict(g=16, upd=1, n=300, size=6, rounds=2, pace=2000, gens=60)]
    if not ctx.quick:
        shapes += [dict(g=32, upd=2, n=1500, size=10, rounds=3, pace=3000, gens=60),
                   dict(g=4, upd=1, n=6000, size=3, rounds=3, pace=1, gens=1)]
    for i, sh in enumerate(shapes):
        tf = os.path.join(ctx.scratch, "c01conc%d.ndjson" % i)
        cmd = [drv, "conc", "-out", tf, "-seed", str(ctx.seed * 19 + i)]
        for k, v in sh.items():
            cmd += ["-" + k, str(v)]
        desc = "conc %s" % json.dumps(sh, sort_keys=True)
        try:
            ta_common.run_driver(ctx, cmd, desc, module="CipherList")
        except ta_common.DriverCrashed:
            ctx.cov["skipped"].append("%s: the driver process was killed by a crash in the code under test (reported)" % desc)
            continue
        ta_common.validate_cl(ctx, tf, desc, signature_extra={"concurrent": True})
        rows = vlib.read_ndjson(tf)
        ctx.cov["evaluations"] += sh["rounds"]
        ctx.cov["distinct_nontrivial"] += sh["rounds"]
        ctx.cov.setdefault("concurrent_lookups", 0)
        ctx.cov["concurrent_lookups"] += sum(1 for r in rows if r.get("ev") == "CResult")
        ctx.cov.setdefault("concurrent_lookups_authenticated", 0)
        ctx.cov["concurrent_lookups_authenticated"] += sum(1 for r in rows if r.get("ev") == "CResult" and r.get("st") == "OK")


def run(ctx):
    exhaustive(ctx)
    n = 150 if ctx.quick else 1500
    total = []
    for i, cfg in enumerate(["Gen_CipherListHist.cfg", "Gen_CipherList.cfg"]):
        behs = ta_common.gen_behaviours(ctx, "CipherListGen", cfg, n, ctx.seed * 2 + i)
        if len(behs) < n // 3:
            raise vlib.Inconclusive("behaviour generation (%s) produced only %d behaviours" % (cfg, len(behs)))
        if i == 0:
            # the stale-Mark-after-Update interleaving (with revocation) must always be among the replayed behaviours
            fs = [stale_mark_features(b) for b in behs]
            cnt = [sum(1 for f in fs if f[j]) for j in range(3)]
            ctx.cov["behaviours_stale_mark_then_connection"] = cnt[0]
            ctx.cov["behaviours_stale_mark_then_new_key"] = cnt[1]
            ctx.cov["behaviours_stale_mark_then_revoked_key"] = cnt[2]
            if min(cnt) < 10:
                raise vlib.Inconclusive("generated behaviours do not cover the stale-Mark-after-Update interleaving "
                                        "(then connection / new key / revoked key: %s)" % cnt)
        try:
            rows = replay_behaviours(ctx, behs, "beh %s" % cfg, ctx.seed * 10 + i)
        except ta_common.DriverCrashed:
            ctx.cov["skipped"].append("beh %s: the driver process was killed by a crash in the code under test (reported)" % cfg)
            continue
        total.append(len(behs))
        if i == 0:
            ctx.sample({"behaviour": behs[0]})
            ctx.sample({"trace_head": [ta_common.abbreviate(r) for r in rows[:10]]})
    concurrent(ctx)
    vlib.write_evidence(ctx, "model_checking",
                        "TLC enumerates all interleavings of <= 3 lookups (snapshot / read / search / mark / serve) with "
                        "Updates for the small key lists; simulated behaviours (distinct as action sequences) are executed "
                        "on the real list + authenticator + handler over TCP with real encryption and key lists padded to "
                        "0/50/300 extra keys; every recorded trace is validated by TLC against the specification; "
                        "non-trivial = at least one connection of the behaviour was authenticated (the antecedent of Sound "
                        "and Complete)", ASSUME)


def replay(ctx, path):
    d = json.load(open(path))
    rep = d["replay"]
    if rep.get("behaviour"):
        # re-execute the behaviour on the real code as it is now (run alone, several seeds: padding 0/50/300 and the
        # concrete bytes vary) and validate the fresh traces; the verdict is about the current code
        for s in range(6):
            replay_behaviours(ctx, [rep["behaviour"]], "replay of " + os.path.basename(path), ctx.seed * 100 + s)
        return
    # no behaviour to re-execute (concurrent trace): the recorded trace itself is judged again
    rows = [x for x in rep["scenario_trace"] if x.get("ev") != "..."]
    tf = os.path.join(ctx.scratch, "replay.ndjson")
    vlib.write_ndjson(tf, rows)
    ta_common.validate_cl(ctx, tf, "recorded trace of " + os.path.basename(path))
