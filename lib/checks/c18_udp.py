"""C18, UDP part - no datagram from a client or a target can crash the server or leak its resources.

run_part(ctx): (the main session composes C18; no evidence is written here)
 1. TLC: MC_UdpNatC16.cfg carries the UDP termination properties (NoCrash, HandleTotal: every Handle step has an outcome,
    FailureIsolated, AllReclaimed) over the enumerated input classes; MC_UdpNatC18Bug.cfg is the model of a tree in which a zoned
    reply source makes timedCopy slice with a negative index: TLC must find NoCrash violated there (model finding), and the
    counter-example (one datagram, one reply from the zoned sender) is what the "zoned" family executes on the real code.
 2. Each scenario family runs in a CHILD process (harness/cmd/udpnat c18 -case ...): authenticated malformed plaintexts
    (atyp 0,1,2,3,4,5,255; domain length 0,1,255; headers truncated at every field boundary; empty plaintext) on new and
    known associations under all four ciphers; datagram sizes 0..65507; reply sizes {0,1,fits,too big for the client,too big
    for the pack buffer} x source classes {IPv4, IPv6, other port, stranger, eth0}; reply from a zoned link-local source.
    Verdicts: child died (unrecovered panic) / "Panic in UDP loop" log records (recovered panic) / handler no longer serves
    fresh clients / Handle does not return / goroutines or descriptors above the baseline.
"""
import json, os, re
import vlib
from checks import udp_common as U

FAMILIES = ["plaintexts", "sizes", "replies", "zoned"]


def _panic_where(err):
    """top frame of the repo in a Go panic trace"""
    m = re.search(r"outline-ss-server/(service|net|prometheus|ipinfo)[^\n]*\n\s+\S*?/((?:service|net|prometheus|ipinfo)/[\w.]+\.go):(\d+)", err)
    fn = re.search(r"outline-ss-server/service\.(\w+)", err)
    return (m.group(2) if m else "?"), (int(m.group(3)) if m else 0), (fn.group(1) if fn else "?")


def run_part(ctx):
    q = ctx.quick
    ctx.cov.setdefault("udp_c18", {})
    U.exhaustive(ctx, ["MC_UdpNatC16.cfg"] if q else ["MC_UdpNatC16T.cfg"], "C18 udp termination")
    r = vlib.tlc(ctx, "MC_UdpNat", "MC_UdpNatC18Bug.cfg", workers=2, timeout=300, deadlock=False)
    ctx.cov["udp_c18"]["model_of_zoned_panic"] = {"violated": r.violated, "trace_len": len(r.trace)}
    if r.violated != "NoCrash":
        raise vlib.Inconclusive("MC_UdpNatC18Bug.cfg: expected TLC to find NoCrash violated, got %r" % r.violated)
    drv = U.driver(ctx)
    seeds = [ctx.seed] if q else [ctx.seed, ctx.seed + 1, ctx.seed + 2]
    for fam in FAMILIES:
        for sd in seeds:
            rc, out, err = U.run_capped([drv, "c18", "-case", fam, "-seed", str(sd)], timeout=300)
            ctx.cov["evaluations"] += 1
            if rc == 3 or "HARNESS-ERROR" in err:
                raise vlib.Inconclusive("udpnat c18 %s: harness error: %s" % (fam, err[-1500:]))
            if rc != 0:
                if "panic:" in err or "fatal error:" in err:
                    file, line, fn = _panic_where(err)
                    msg = (re.search(r"(panic: [^\n]*|fatal error: [^\n]*)", err) or [None, ""])[1] if re.search(r"(panic: [^\n]*|fatal error: [^\n]*)", err) else ""
                    kind = "panic-zoned-reply-source" if fam == "zoned" else "panic-" + fam
                    where = "service/udp.go timedCopy" if (fam == "zoned" and "timedCopy" in err) else "%s %s" % (file, fn)
                    repro = None
                    m = re.search(r"zoned: (\S+) -> (\S+)", err)
                    if m:
                        repro = {"sender_socket": m.group(1), "sent_to": m.group(2)}
                    ctx.violation({"module": "UdpNat", "kind": kind, "where": where},
                                  "the process died handling UDP input (family %s): %s at %s:%d (%s); the goroutine started by natmap.Add has no recover"
                                  % (fam, msg, file, line, fn),
                                  {"family": fam, "seed": sd, "cmd": "harness/cmd/udpnat c18 -case %s -seed %d" % (fam, sd), "exit": rc,
                                   "zoned": repro, "stderr_tail": err[-3000:]})
                    break
                raise vlib.Inconclusive("udpnat c18 %s exited with %s: %s" % (fam, rc, err[-1500:]))
            try:
                res = json.loads(out.strip().splitlines()[-1])
            except Exception:
                raise vlib.Inconclusive("udpnat c18 %s: unparsable output: %s" % (fam, out[-500:]))
            ctx.cov["udp_c18"][fam] = {"steps": res["steps"], "classes": len(res["classes"]), "statuses": res["statuses"],
                                       "skipped": res.get("skipped", "")}
            if res.get("skipped"):
                ctx.cov["skipped"].append("c18 udp %s: %s" % (fam, res["skipped"]))
                continue
            ctx.cov["distinct_nontrivial"] += 1
            rep = {"family": fam, "seed": sd, "cmd": "harness/cmd/udpnat c18 -case %s -seed %d" % (fam, sd), "result": res}
            if res["panics_logged"]:
                ctx.violation({"module": "UdpNat", "kind": "recovered-panic-" + fam, "where": "service/udp.go Handle"},
                              "%d recovered panic(s) in the UDP loop (family %s): %s" % (res["panics_logged"], fam, res["panic_msgs"][:2]), rep)
            elif not res["alive"] or not res["others_ok"]:
                ctx.violation({"module": "UdpNat", "kind": "listener-stopped-" + fam, "where": "service/udp.go Handle"},
                              "after the %s inputs the packet handler no longer serves fresh clients" % fam, rep)
            elif not res["end"]["returned"]:
                ctx.violation({"module": "UdpNat", "kind": "handle-not-returned", "where": "service/udp.go Handle"},
                              "Handle did not return within 5 s after the listener was closed (family %s)" % fam, rep)
            elif res["end"]["unreclaimed"] or res["end"]["leak_goroutines"] > 0 or res["end"]["leak_fds"] > 0:
                ctx.violation({"module": "UdpNat", "kind": "resource-leak-" + fam, "where": "service/udp.go natmap"},
                              "after the %s inputs, listener closed: %d association(s) not removed, %d goroutine(s), %d descriptor(s) above the baseline"
                              % (fam, res["end"]["unreclaimed"], res["end"]["leak_goroutines"], res["end"]["leak_fds"]), rep)
            elif fam == "zoned":
                z = res["zoned"]
                ctx.cov["udp_c18"]["zoned"]["observed"] = z
                if not (z["delivered"] and z["hdr_ok"] and z["payload_ok"]):
                    ctx.violation({"module": "UdpNat", "kind": "zoned-reply-not-relayed-intact", "where": "service/udp.go timedCopy"},
                                  "a reply from a zoned link-local source did not crash the server but was not relayed with the sender's "
                                  "IPv6 address (type 4, zone dropped) and the unmodified payload: %s" % json.dumps(z), rep)
        else:
            continue
    return ctx.cov["udp_c18"]
