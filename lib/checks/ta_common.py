"""TCP authentication binding shared by C01 (key search: CipherList), C08 (authenticator / server salts: TcpAuth) and
the key-list part of C19: behaviour generation, the tcpauth driver, trace validation by TLC."""
import json, os, re
import vlib


# ---------------------------------------------------------------------------------------------------------------
# driver
# ---------------------------------------------------------------------------------------------------------------
def driver(ctx, race=False):
    key = "_tcpauth_race" if race else "_tcpauth"
    if not getattr(ctx, key, None):
        setattr(ctx, key, vlib.go_build(ctx, "./cmd/tcpauth", "tcpauth-race" if race else "tcpauth", race=race))
    return getattr(ctx, key)


class DriverCrashed(Exception):
    """The driver process was killed by a panic / fatal error raised in the code under test (already reported as a
    violation): the stage has no trace to validate."""


_REPO_FN = re.compile(r"^(github\.com/Jigsaw-Code/outline-ss-server/\S.*)$")


def crash_report(stderr_text):
    """A Go crash (panic / fatal error) of the driver process whose goroutine trace has a frame of the repository:
    returns {msg, where, text}; else None."""
    m = re.search(r"^(panic: .*|fatal error: .*)$", stderr_text or "", re.M)
    if not m:
        return None
    lines = stderr_text[m.start():].splitlines()
    for i, ln in enumerate(lines[:-1]):
        f = _REPO_FN.match(ln.strip())
        if f:
            loc = lines[i + 1].strip().split(" +0x")[0]
            for d in ("/service/", "/net/", "/prometheus/", "/ipinfo/", "/cmd/"):
                if d in loc:
                    loc = loc[loc.rindex(d) + 1:]
                    break
            fn = f.group(1)[len("github.com/Jigsaw-Code/outline-ss-server/"):]
            fn = fn[:fn.rindex("(")] if "(" in fn else fn
            return {"msg": m.group(1)[:300], "where": "%s (%s)" % (loc, fn), "text": "\n".join(lines[:60])}
    return None


def report_crash(ctx, module, what, cmd, rc, err):
    """The real code crashed the process under the driver's load: an observation about the code, not a harness failure."""
    cr = crash_report(err)
    if not cr:
        return False
    ctx.violation({"module": module, "kind": "process-crashed-in-service-code", "where": cr["where"]},
                  "the code under test crashed the process during tcpauth %s: %s at %s" % (what, cr["msg"], cr["where"]),
                  {"driver": "tcpauth " + what, "cmd": cmd[1:], "rc": rc, "crash": cr["text"]})
    return True


def run_driver(ctx, cmd, what, timeout=900, env=None, module="TcpAuth"):
    rc, out, err = vlib.run(cmd, env=env or vlib.goenv(), timeout=timeout)
    if rc != 0 and report_crash(ctx, module, what, cmd, rc, err):
        raise DriverCrashed(what)
    if rc != 0:
        raise vlib.Inconclusive("tcpauth %s failed (rc=%d): %s" % (what, rc, (err or out)[-2000:]))
    info = {}
    for ln in out.splitlines():
        if ln.startswith("{"):
            try:
                info = json.loads(ln)
            except ValueError:
                pass
    return info, err


# ---------------------------------------------------------------------------------------------------------------
# TLC helpers
# ---------------------------------------------------------------------------------------------------------------
def gen_behaviours(ctx, module, cfg, num, seed, depth=120):
    r = vlib.tlc(ctx, module, cfg, simulate=num, depth=depth, seed=seed, deadlock=False, timeout=600)
    behs, seen = [], set()
    for b in r.behaviours:
        k = json.dumps(b, sort_keys=True)
        if k not in seen:
            seen.add(k)
            behs.append(b)
    return behs


def parse_result(r):
    """<<"RESULT", "{json}">> printed by the Report invariant of the trace specs"""
    for ln in r.prints + r.out.splitlines():
        m = re.match(r'^<<"RESULT", "(.*)">>$', ln.strip())
        if m:
            try:
                return json.loads(m.group(1).replace('\\"', '"').replace("\\\\", "\\"))
            except ValueError:
                return None
    return None


def _cfg(name, repl):
    s = open(os.path.join(vlib.SPEC, name)).read()
    for a, b in repl.items():
        if a not in s:
            raise vlib.Inconclusive("%s: expected '%s'" % (name, a))
        s = s.replace(a, b)
    return s


def scenario_slice(rows, line, resets=("Reset", "CReset", "New"), keep=60):
    """rows of the scenario that contains 1-based `line`, up to that line (long arrays abbreviated for the summary)"""
    start = line - 1
    while start > 0 and rows[start].get("ev") not in resets:
        start -= 1
    sl = rows[start:line]
    if len(sl) > keep + 1:
        sl = [sl[0], {"ev": "...", "skipped": len(sl) - keep - 1}] + sl[-keep:]
    return sl


def abbreviate(row, n=12):
    out = {}
    for k, v in row.items():
        if isinstance(v, list) and len(v) > n:
            out[k] = v[:n] + ["... %d more" % (len(v) - n)]
        else:
            out[k] = v
    return out


# ---------------------------------------------------------------------------------------------------------------
# CipherListTrace
# ---------------------------------------------------------------------------------------------------------------
CL_SUMMARY = {
    "snapshot-not-permutation": "SnapshotForClientIP returned something that is not a permutation of the current key list",
    "snapshot-of-a-list-not-current-during-the-call": "SnapshotForClientIP returned a list generation that was not current "
                                                      "at any time during the call (not linearizable)",
    "unsound-attribution": "a connection was attributed to an ID that is not configured with the client's cipher and secret",
    "valid-key-refused": "a stream encrypted under a configured key was not authenticated",
    "list-operation-crashed": "a SnapshotForClientIP / MarkUsedByClientIP / Update call panicked under concurrent use",
    "lookup-crashed": "the handler panicked during the key search of a client that holds a configured key (StreamServe "
                      "recovers, the connection is closed): the client is not authenticated",
    "effect-without-authentication": "a target was dialled / bytes were written / AddAuthenticated was reported for an "
                                     "unauthenticated connection",
    "invalid-opener-accepted": "opening bytes that are valid under no configured key were authenticated",
}


def validate_cl(ctx, trace_path, desc, *, behs=None, timeout=1200, signature_extra=None):
    """Runs CipherListTrace over the trace.  Property-layer failures -> ctx.violation; mechanism differences -> drift.
    Returns the RESULT dict."""
    rows = vlib.read_ndjson(trace_path)
    if not rows:
        raise vlib.Inconclusive("empty trace (%s)" % desc)
    maxslot = max([r.get("g", 1) for r in rows if isinstance(r.get("g"), int)] + [1])
    maxgen = max([r.get("k", 1) for r in rows if r.get("ev") in ("UpdCall", "UpdRet")] + [1])
    cfg = _cfg("CipherListTrace.cfg", {"MaxSlot = 64": "MaxSlot = %d" % maxslot, "MaxGen = 64": "MaxGen = %d" % maxgen})
    ok, r = vlib.validate_traces(ctx, "CipherListTrace", "CipherListTraceRun.cfg", trace_path, timeout=timeout,
                                 extra_files={"CipherListTraceRun.cfg": cfg})
    res = parse_result(r)
    if res is None or res["lines"] != len(rows) or not ok:
        raise vlib.Inconclusive("CipherListTrace did not consume the whole trace (%s): %s" % (
            desc, (r.violated or "") + " " + "\n".join(r.out.splitlines()[-15:])))
    ctx.cov["traces_validated_against_impl"] += res["ntraces"]
    ctx.cov.setdefault("trace_events", 0)
    ctx.cov["trace_events"] += res["lines"]
    if res["drift"]:
        ctx.cov["drift"] += 1
        sl = scenario_slice(rows, res["drift"])
        ctx.notes.append("drift (%s): %s line %d differs from the mechanism layer of CipherList.tla: %s" % (
            res["dkind"], desc, res["drift"], json.dumps(abbreviate(sl[-1]))))
    for line, kind in res["viols"]:
        sl = scenario_slice(rows, line)
        sig = {"module": "CipherList", "kind": kind}
        sig.update(signature_extra or {})
        rep = {"driver": desc, "trace_line": line, "scenario_trace": sl}
        head = sl[0]
        if behs is not None and head.get("ev") == "Reset" and isinstance(head.get("beh"), int) and head["beh"] < len(behs):
            rep["behaviour"] = behs[head["beh"]]
            rep["beh_seed"] = head.get("seed")
            rep["pad"] = head.get("pad")
        ctx.violation(sig, "%s (%s, trace line %d): %s" % (CL_SUMMARY.get(kind, kind), desc, line,
                                                         json.dumps(abbreviate(sl[-1]))), rep)
    return res


# ---------------------------------------------------------------------------------------------------------------
# TcpAuthTrace
# ---------------------------------------------------------------------------------------------------------------
TA_SUMMARY = {
    "reflected-handshake-authenticated": "a handshake whose salt is server-issued for the matched key was authenticated",
    "reflected-handshake-not-classified-as-server-replay": "a reflected handshake was refused, but not as ERR_REPLAY_SERVER",
    "refused-handshake-had-effects": "a refused handshake was not handled like a probe: dial / bytes to the client / "
                                     "AddAuthenticated observed",
    "refused-handshake-not-drained": "a refused handshake was closed by the server before the client closed and before "
                                     "the deadline",
    "response-salt-not-fresh": "a response stream began with a salt that had been seen before in this run",
    "response-salt-not-recognised": "a response salt of >= 20 bytes does not carry the server mark for its key "
                                    "(independent HKDF-SHA1/HMAC-SHA1 check)",
    "bytes-written-to-unauthenticated-client": "bytes were written to a client that was not authenticated",
    "invalid-opener-authenticated": "opening bytes valid under no configured key were authenticated",
    "unsound-attribution": "a connection was attributed to an ID not configured with the client's cipher and secret",
    "valid-fresh-handshake-refused": "a valid handshake with a never-seen salt was refused",
    "handshake-crashed": "the code under test panicked while serving a connection (salt check / salt generation): the "
                         "client is dropped without a recognisable fresh response salt",
}
C08_KINDS = {"reflected-handshake-authenticated", "reflected-handshake-not-classified-as-server-replay",
             "refused-handshake-had-effects", "refused-handshake-not-drained", "response-salt-not-fresh",
             "response-salt-not-recognised", "bytes-written-to-unauthenticated-client", "handshake-crashed"}
C01_KINDS = {"invalid-opener-authenticated", "unsound-attribution", "valid-fresh-handshake-refused",
             "bytes-written-to-unauthenticated-client", "refused-handshake-had-effects", "handshake-crashed"}


def keys_module(keys):
    body = ", ".join("[name |-> %d, cls |-> %d, sec |-> %d]" % (k["name"], k["cls"], k["sec"]) for k in keys)
    return ("----------------------------- MODULE TcpAuthKeys -----------------------------\n"
            "TraceKeys == << %s >>\n"
            "===============================================================================\n" % body)


def validate_ta(ctx, trace_path, keys, desc, kinds, *, behs=None, timeout=1200):
    rows = vlib.read_ndjson(trace_path)
    if not rows:
        raise vlib.Inconclusive("empty trace (%s)" % desc)
    maxc = max([r.get("c", 1) for r in rows if isinstance(r.get("c"), int)] + [1])
    cfg = _cfg("TcpAuthTrace.cfg", {"MaxConn = 16": "MaxConn = %d" % maxc})
    ok, r = vlib.validate_traces(ctx, "TcpAuthTrace", "TcpAuthTraceRun.cfg", trace_path, timeout=timeout,
                                 extra_files={"TcpAuthTraceRun.cfg": cfg, "TcpAuthKeys.tla": keys_module(keys)})
    res = parse_result(r)
    if res is None or res["lines"] != len(rows) or not ok:
        raise vlib.Inconclusive("TcpAuthTrace did not consume the whole trace (%s): %s" % (
            desc, (r.violated or "") + " " + "\n".join(r.out.splitlines()[-15:])))
    ctx.cov["traces_validated_against_impl"] += max(res["ntraces"], 1 if res["mass"] else 0)
    ctx.cov.setdefault("trace_events", 0)
    ctx.cov["trace_events"] += res["lines"]
    if res["drift"]:
        ctx.cov["drift"] += 1
        sl = scenario_slice(rows, res["drift"])
        ctx.notes.append("drift (%s): %s line %d differs from the mechanism layer of TcpAuth.tla: %s" % (
            res["dkind"], desc, res["drift"], json.dumps(abbreviate(sl[-1]))))
    seen = set()
    for v in res["viols"]:
        line, kind = v[0], v[1]
        sl = scenario_slice(rows, line)
        if kind not in kinds:
            ctx.cov["drift"] += 1
            ctx.notes.append("observation outside this property (%s) in %s line %d: %s" % (kind, desc, line,
                                                                                       json.dumps(abbreviate(sl[-1]))))
            continue
        cls = None
        if rows[line - 1].get("ev") in ("Resp", "MassResp"):
            cls = rows[line - 1].get("cls")
        sig = {"module": "TcpAuth", "kind": kind}
        if cls is not None:
            sig["cipher_class"] = cls
        if (kind, cls) in seen:
            continue
        seen.add((kind, cls))
        rep = {"driver": desc, "trace_line": line, "scenario_trace": sl, "keys": keys if len(keys) <= 12 else len(keys)}
        if rows[line - 1].get("ev") == "MassResp" and kind == "response-salt-not-fresh":
            rep["same_salt_earlier"] = [dict(r, line=i + 1) for i, r in enumerate(rows[:line - 1])
                                        if r.get("t") == rows[line - 1].get("t")][:3]
        head = sl[0]
        if behs is not None and head.get("ev") == "New" and isinstance(head.get("beh"), int) and head["beh"] < len(behs):
            rep["behaviour"] = behs[head["beh"]]
            rep["beh_seed"] = head.get("seed")
        ctx.violation(sig, "%s (%s, trace line %d): %s" % (TA_SUMMARY.get(kind, kind), desc, line,
                                                         json.dumps(abbreviate(sl[-1]))), rep)
    return res
