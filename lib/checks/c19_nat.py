"""C19, association table - natmap / natconn / timedCopy under concurrent use.

run_part(ctx): (the main session composes C19; no evidence is written here)
 * harness/cmd/udpnat conc, built with -race: many client sockets at once create, use and let expire associations on one
   PacketHandler (Get under RLock vs set/del under Lock, onWrite vs onRead on one natconn, natmap.Close under traffic, the key
   list's snapshot/mark), an echo target answers, the listener is closed while clients still send.
   Any race report with a frame in the repo's packages is a violation (runtime monitor, reported separately from traces).
 * the recorded observations are judged by UdpNatTrace with the predicates that do not need a step-synchronous driver
   (attribution, once-ness, key/salt/header of replies, owner-only delivery, NatAdd/NatRemove language, no early removal,
   shutdown reclaims everything) - i.e. the results are explainable by the sequential specification of the table.
"""
import json, os, re
import vlib
from checks import udp_common as U

CONC_PROPS = ["MetricsLanguage", "CreateOnce", "CreateOnlyValid", "OnePerClient", "FwdAuthentic", "FwdOnce", "ReplyAuthentic",
              "ReplyOnce", "SaltsFresh", "OwnerOnly", "RemoveOnce", "NoEarlyRemoval", "ShutdownReclaimed"]


def race_reports(err):
    """[(top repo frame 'file:line func', text)] for every DATA RACE block with a frame in the repo's packages"""
    out = []
    for blk in re.split(r"={18,}", err):
        if "DATA RACE" not in blk:
            continue
        m = re.search(r"\n\s+github\.com/Jigsaw-Code/outline-ss-server/(\S+?)\(\)\n\s+\S*?/((?:service|net|prometheus|ipinfo)/[\w./]+\.go):(\d+)", blk)
        if m:
            out.append(("%s:%s %s" % (m.group(2), m.group(3), m.group(1)), blk.strip()[:3000]))
    return out


def run_part(ctx):
    q = ctx.quick
    ctx.cov.setdefault("natmap_c19", {"runs": 0, "race_reports": 0, "datagrams": 0, "associations": 0})
    drv = U.driver(ctx, race=True)
    shapes = [(24, 3), (48, 2), (8, 5)] if q else [(24, 3), (48, 3), (8, 8), (64, 4), (16, 6), (96, 2)]
    for i, (clients, rounds) in enumerate(shapes):
        d = ctx.sub("conc%d" % i)
        tf, sf = os.path.join(d, "trace.ndjson"), os.path.join(d, "sum.json")
        env = U.capped_env({"GORACE": "halt_on_error=0", "GOMEMLIMIT": "3GiB"})
        rc, out, err = U.run_capped([drv, "conc", "-out", tf, "-summary", sf, "-seed", str(ctx.seed * 17 + i), "-clients", str(clients),
                                     "-rounds", str(rounds)], env=env, timeout=300)
        reps = race_reports(err)
        ctx.cov["natmap_c19"]["runs"] += 1
        ctx.cov["natmap_c19"]["race_reports"] += len(reps)
        if reps:
            where, text = reps[0]
            ctx.violation({"module": "natmap", "kind": "data-race", "where": where},
                          "the race detector reported an unsynchronised access in the repo's packages while %d clients used one packet "
                          "handler: %s" % (clients, where),
                          {"cmd": "udpnat(-race) conc -clients %d -rounds %d -seed %d" % (clients, rounds, ctx.seed * 17 + i), "report": text,
                           "all": [w for w, _ in reps]})
            continue
        if rc != 0 and rc != 66:
            if "panic:" in err:
                ctx.violation({"module": "natmap", "kind": "panic-under-concurrency", "where": "service/udp.go"},
                              "the process died under concurrent use: %s" % (re.search(r"panic: [^\n]*", err) or [""])[0], {"stderr": err[-3000:]})
                continue
            raise vlib.Inconclusive("udpnat conc failed rc=%s: %s" % (rc, err[-2000:]))
        s = json.load(open(sf))
        ctx.cov["natmap_c19"]["datagrams"] += s["datagrams"]
        ctx.cov["natmap_c19"]["associations"] += s["associations"]
        ctx.cov["evaluations"] += 1
        ctx.cov["distinct_nontrivial"] += 1 if s["associations"] > clients else 0
        cfg = open(os.path.join(vlib.SPEC, "UdpNatTraceReal.cfg")).read().replace("MaxAssoc = 12", "MaxAssoc = %d" % (s["associations"] + 2))
        cfgname = "UdpNatTraceConc%d.cfg" % i
        open(os.path.join(d, cfgname), "w").write(cfg)
        # validate() reads the cfg from spec/: pass the widened cfg through a private copy of the spec directory entry
        _validate_with_cfg(ctx, tf, cfg, "concurrent clients=%d rounds=%d" % (clients, rounds))
        e = s["end"]
        if not e["returned"] or e["unreclaimed"] or e["leak_goroutines"] > 0 or e["leak_fds"] > 0:
            ctx.violation({"module": "natmap", "kind": "not-reclaimed-under-concurrency", "where": "service/udp.go natmap.Close"},
                          "listener closed under traffic: Handle returned=%s, %d association(s) not removed, %d goroutine(s), %d descriptor(s) "
                          "above the baseline" % (e["returned"], e["unreclaimed"], e["leak_goroutines"], e["leak_fds"]), {"summary": s})
    # one handler, two packet conns, two Handle goroutines (a service with two UDP listeners), no recorder at all: whatever the
    # Handle loops share is watched by the race detector without any synchronisation added by the harness
    for j in range(2 if q else 5):
        d = ctx.sub("twol%d" % j)
        env = U.capped_env({"GORACE": "halt_on_error=0", "GOMEMLIMIT": "3GiB"})
        rc, out, err = U.run_capped([drv, "twol", "-norec", "-out", os.path.join(d, "t.ndjson"), "-summary", os.path.join(d, "s.json"),
                                     "-seed", str(ctx.seed * 29 + j), "-clients", "150"], env=env, timeout=300)
        reps = race_reports(err)
        ctx.cov["natmap_c19"]["runs"] += 1
        ctx.cov["natmap_c19"]["race_reports"] += len(reps)
        ctx.cov["evaluations"] += 1
        if reps:
            where, text = reps[0]
            ctx.violation({"module": "natmap", "kind": "data-race", "where": where},
                          "the race detector reported an unsynchronised access in the repo's packages while two Handle loops of one packet "
                          "handler ran concurrently: %s" % where,
                          {"cmd": "udpnat(-race) twol -norec -clients 150 -seed %d" % (ctx.seed * 29 + j), "report": text, "all": [w for w, _ in reps]})
            break
        if rc != 0 and rc != 66:
            raise vlib.Inconclusive("udpnat twol (-race) failed rc=%s: %s" % (rc, err[-1500:]))
    return ctx.cov["natmap_c19"]


def _validate_with_cfg(ctx, tf, cfgtext, desc):
    nlines = sum(1 for ln in open(tf) if ln.strip())
    c = re.sub(r"Props = \{[^}]*\}", "Props = {%s}" % ", ".join('"%s"' % p for p in CONC_PROPS), cfgtext)
    ok, r = vlib.validate_traces(ctx, "UdpNatTrace", "UdpNatTraceRun.cfg", tf, timeout=1200, extra_files={"UdpNatTraceRun.cfg": c})
    res = U.parse_result(r)
    if res is None or not ok or res["lines"] != nlines:
        raise vlib.Inconclusive("trace validation did not consume the whole trace (%s): %s" % (desc, "\n".join(r.out.splitlines()[-12:])))
    ctx.cov["traces_validated_against_impl"] += res["ntraces"] - len({b["trace"] for b in res["bads"]})
    for b in res["bads"]:
        ctx.violation({"module": "natmap", "kind": "not-serialisable:" + b["prop"], "where": "service/udp.go natmap"},
                      "observations of a concurrent run are not explainable by the sequential specification: %s [%s]" % (
                          U.WHAT.get(b["prop"], b["prop"]), desc),
                      {"driver": desc, "property": b["prop"], "trace_tail": vlib.read_ndjson(tf)[-40:]})
