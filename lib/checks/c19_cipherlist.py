"""C19, key list: concurrent lookups (through the real authenticator, several client IPs, valid / foreign / corrupted /
short openers) and direct MarkUsedByClientIP calls against Updates on ONE real CipherList.
 (a) race monitor - the driver is built with -race; every report with a frame in the repository is a violation;
 (b) linearizability - each goroutine records its own call/return events with monotonic time stamps (no lock, atomic or
     channel is added between the goroutines); TLC (CipherListTrace, concurrent part) checks that every snapshot is a
     permutation of a list generation that may have been current during the call and that every lookup's result is
     explained by that generation (Sound / Complete / InvalidRefused of CipherList.tla)."""
import json, os
import vlib
from checks import ta_common, race_common


def run_part(ctx):
    drv = ta_common.driver(ctx, race=True)
    env = vlib.goenv(extra={"GORACE": "halt_on_error=0"})
    shapes = [dict(g=2, upd=1, n=500, size=4, rounds=3, pace=1500),
              dict(g=8, upd=2, n=250, size=6, rounds=3, pace=3000),
              dict(g=32, upd=2, n=60, size=8, rounds=2, pace=3000)]
    if not ctx.quick:
        shapes += [dict(g=64, upd=3, n=120, size=10, rounds=3, pace=4000),
                   dict(g=16, upd=1, n=1500, size=40, rounds=2, pace=6000),
                   dict(g=4, upd=4, n=1500, size=3, rounds=3, pace=500)]
    for i, sh in enumerate(shapes):
        tf = os.path.join(ctx.scratch, "c19cl%d.ndjson" % i)
        cmd = [drv, "conc", "-out", tf, "-seed", str(ctx.seed * 17 + i), "-gens", "60"]
        for k, v in sh.items():
            cmd += ["-" + k, str(v)]
        desc = "tcpauth conc %s" % json.dumps(sh, sort_keys=True)
        rc, out, err = vlib.run(cmd, env=env, timeout=900)
        reps = race_common.race_reports(err)
        seen = set()
        for r in reps:
            if r["where"] in seen:
                continue
            seen.add(r["where"])
            ctx.violation({"module": "CipherList", "kind": "data-race", "where": r["where"]},
                          "C19: data race reported by the Go race detector at %s (%s) during %s" % (
                              r["where"], " / ".join(r["funcs"][:2]), desc),
                          {"driver": desc, "seed": ctx.seed * 17 + i, "report": r["text"]})
        ctx.cov.setdefault("race_reports", 0)
        ctx.cov["race_reports"] += len(reps)
        if rc not in (0, 66) or (rc == 66 and not reps) or not os.path.exists(tf):
            if ta_common.report_crash(ctx, "CipherList", "conc -race", cmd, rc, err) or reps:
                continue   # the process died in the code under test (e.g. of the corrupted list): reported
            raise vlib.Inconclusive("tcpauth conc -race failed rc=%d: %s" % (rc, err[-1500:]))
        res = ta_common.validate_cl(ctx, tf, "C19 " + desc, signature_extra={"concurrent": True})
        ctx.cov["evaluations"] += sh["rounds"]
        ctx.cov["distinct_nontrivial"] += sh["rounds"]
        ctx.cov.setdefault("cipherlist_concurrent_lookups", 0)
        ctx.cov["cipherlist_concurrent_lookups"] += sum(1 for r in vlib.read_ndjson(tf) if r.get("ev") == "CResult")
        if i == 1:
            ctx.sample({"cipherlist_concurrent_trace_head": [ta_common.abbreviate(r, 8) for r in vlib.read_ndjson(tf)[:8]]})
