"""ReplayCache binding shared by C07 (window property) and C19 (linearizability / race monitor)."""
import json, os, re
import vlib


def parse_result(r):
    """<<"RESULT", lines, ntraces, viol, "kind", drift>> printed by ReplayCacheTrace!Report"""
    for ln in [vlib.result_tuple(r) or ""]:
        m = re.match(r'^<<"RESULT", (\d+), (\d+), (\d+), "([^"]*)", (\d+)>>', ln.strip())
        if m:
            return dict(lines=int(m.group(1)), ntraces=int(m.group(2)), viol=int(m.group(3)), kind=m.group(4),
                        drift=int(m.group(5)))
    return None


def gen_behaviours(ctx, num, cfg="Gen_ReplayCache.cfg", seed=None):
    r = vlib.tlc(ctx, "ReplayCacheGen", cfg, simulate=num, depth=60, seed=seed, deadlock=False, timeout=300)
    behs, seen = [], set()
    for b in r.behaviours:
        k = json.dumps(b, sort_keys=True)
        if k not in seen:
            seen.add(k)
            behs.append(b)
    return behs, r


def context_slice(trace_path, line, before=40):
    rows = vlib.read_ndjson(trace_path)
    start = line - 1
    while start > 0 and rows[start].get("ev") != "New":
        start -= 1
    sl = rows[start:line]
    if len(sl) > before + 1:
        sl = [sl[0], {"ev": "...", "skipped": len(sl) - before - 1}] + sl[-before:]
    return sl


def validate(ctx, trace_path, driver_desc, timeout=900):
    """Runs ReplayCacheTrace over the trace.  Returns the RESULT dict.  Property-layer failures are reported as
    violations (they are statements about values the real code returned); mechanism-layer differences are drift."""
    # injective renaming of pre-hash values to dense tokens 1..MaxTok (see the note in ReplayCacheTrace.tla)
    rows = vlib.read_ndjson(trace_path)
    tok = {}
    for row in rows:
        if row.get("ev") == "Add":
            row["h"] = tok.setdefault(row["h"], len(tok) + 1)
    dense = trace_path + ".dense"
    vlib.write_ndjson(dense, rows)
    nlines = len(rows)
    cfg = open(os.path.join(vlib.SPEC, "ReplayCacheTrace.cfg")).read().replace("MaxTok = 100000", "MaxTok = %d" % max(1, len(tok)))
    ok, r = vlib.validate_traces(ctx, "ReplayCacheTrace", "ReplayCacheTraceRun.cfg", dense, timeout=timeout,
                                 extra_files={"ReplayCacheTraceRun.cfg": cfg})
    res = parse_result(r)
    if res is None or res["lines"] != nlines or not ok:
        raise vlib.Inconclusive("trace validation did not consume the whole trace (%s): %s" % (
            driver_desc, (r.violated or "") + " " + "\n".join(r.out.splitlines()[-15:])))
    ctx.cov["traces_validated_against_impl"] += res["ntraces"]
    ctx.cov.setdefault("trace_events", 0)
    ctx.cov["trace_events"] += res["lines"]
    if res["drift"]:
        ctx.cov["drift"] += 1
        ctx.notes.append("drift: %s line %d: observed result differs from the mechanism layer: %s" % (
            driver_desc, res["drift"], json.dumps(context_slice(trace_path, res["drift"], 8)[-3:])))
    if res["viol"]:
        sl = context_slice(trace_path, res["viol"])
        ctx.violation({"module": "ReplayCache", "kind": res["kind"]},
                      "ReplayCache.Add %s (%s, trace line %d): %s" % (
                          "accepted a handshake that appeared within the replay window" if res["kind"] == "recent-accepted"
                          else "refused a handshake never presented before (no checksum collision)",
                          driver_desc, res["viol"], json.dumps(sl[-1])),
                      {"driver": driver_desc, "trace_from_last_New": sl})
    return res
