"""C02 - TCP relay delivers both byte streams intact, in order, with half-close.

1. TLC exhaustive: TcpConn.tla relay phase, <=3 chunks each way, address alone / coalesced / split, the 50 key-search
   bytes in one or two pieces, every order of speaking and half-closing, every interleaving of the two copy loops
   (MC_TcpConn_C02.cfg); liveness under weak fairness (MC_TcpConn_C02Live.cfg).
2. spec -> code: TLC-simulated behaviours replayed by harness/cmd/tcpconn on real loopback sockets (real Shadowsocks
   client, scripted target, chunk sizes from {1,2,1000,16383,random,multi-chunk}, address types 1/3/4, all four ciphers,
   key lists of 1/3/100).
3. code -> spec: TLC evaluates the property layer on what client and target recorded (TcpConnTrace.tla).
"""
import random
import vlib
from checks import tc_common as tc

ASSUME = [
    "payload sizes and contents are sampled (seeded), not all 16383 sizes; pieces are identified by SHA-256 of their bytes",
    "the harness controls the order of environment actions relative to observations, not the interleaving of the two copy "
    "goroutines inside the proxy (TLC covers those in the model; the real scheduler samples them)",
    "loopback TCP, the SDK's Shadowsocks client as peer, TLC 1.8 and the transcription of tcp.go into TcpConn.tla",
]


def run(ctx):
    q = ctx.quick
    r = vlib.tlc(ctx, "TcpConn", "MC_TcpConn_C02.cfg" if q else "MC_TcpConn_C02Thorough.cfg", workers="auto", timeout=1800)
    ctx.add_tlc(r, "exhaustive relay: mechanism => C02 (and C15, C18 invariants)")
    if not r.ok:
        raise vlib.Inconclusive("model finding in TcpConn.tla / MC_TcpConn_C02.cfg: %s" % r.violated)
    rp = vlib.tlc(ctx, "TcpConn", "MC_TcpConn_C02Pause.cfg" if q else "MC_TcpConn_C02PauseThorough.cfg", workers="auto", timeout=1800)
    ctx.add_tlc(rp, "back-pressure: a receiver may stop reading for any time; a relay write only blocks (no timeout transition)")
    if not rp.ok:
        raise vlib.Inconclusive("model finding in TcpConn.tla / MC_TcpConn_C02Pause*.cfg: %s" % rp.violated)
    for cfg, what in (("MC_TcpConn_C02PauseLive.cfg", "liveness with receivers that pause once: everything is still delivered"),
                      ("MC_TcpConn_C02Live.cfg", "liveness under weak fairness: every accepted connection ends, everything sent is delivered"),
                      ("MC_TcpConn_C02Indep.cfg", "liveness with only the proxy fair: a half-close and the data before it reach the peer "
                                                  "whatever the other direction does")):
        r = vlib.tlc(ctx, "TcpConn", cfg, workers="auto", timeout=1800)
        ctx.add_tlc(r, what)
        if not r.ok:
            raise vlib.Inconclusive("liveness model finding (%s): %s" % (cfg, r.violated))

    rng = random.Random(ctx.seed)
    behs = tc.gen(ctx, "Gen_TcpConn_C02.cfg", 4000 if q else 60000, seed=ctx.seed)
    relay = [b for b in behs if tc.features(b)["dial"]]
    pick = tc.select(relay, 200 if q else 5000, lambda f: (min(f["trecv"], 3), min(f["crecv"], 3)), rng)
    pick += tc.select([b for b in behs if not tc.features(b)["dial"]], 10 if q else 40, lambda f: f["ntok"], rng)
    if len(pick) < (150 if q else 900):
        raise vlib.Inconclusive("only %d behaviours generated" % len(pick))
    cases, brows, _, hung = tc.run_family(ctx, "C02_", pick, label="c02-relay", timeout_ms=5000, par=8 if q else 12)
    if hung:
        raise vlib.Inconclusive("handlers still running after the script ended (see notes): %s" % ctx.notes[-1])
    tc.mech_pass(ctx, cases, pick, label="c02-relay")
    # steered generation: orders that random walks rarely take
    #  (a) the target half-closes first, the client sees it and only then uploads its data and half-closes
    tf = [b for b in tc.gen(ctx, "Gen_TcpConn_C02TargetFirst.cfg", 2500 if q else 12000, seed=ctx.seed + 1) if tc.features(b)["trecv"] >= 1]
    tpick = tc.select(tf, 30 if q else 400, lambda f: (min(f["trecv"], 3), min(f["crecv"], 3)), rng)
    #  (b) the relay outlives the handshake deadline: the target speaks only after accept + timeout (real time: 600 ms
    #      timeout; virtual time: the service's 59 s)
    lt = [b for b in tc.gen(ctx, "Gen_TcpConn_C02Late.cfg", 4000 if q else 16000, seed=ctx.seed + 2) if tc.features(b)["crecv"] >= 1]
    lpick = tc.select(lt, 30 if q else 300, lambda f: (min(f["trecv"], 2), min(f["crecv"], 2), f["ticks"]), rng)
    #  (c) a large upload (3 x 1 MiB) to a target that has finished its own direction and does not read for 400 ms: when the
    #      handler is done the data still sits in the proxy's socket buffers and must nevertheless arrive completely
    import copy
    big = []
    for b in [b for b in tf if tc.features(b)["trecv"] >= 2 and tc.features(b)["tfin"]][:4 if q else 30]:
        b = copy.deepcopy(b)
        b["ov"] = {"craft": "pause", "datasize": 1 << 20}
        big.append(b)
    if len(big) < 3:
        raise vlib.Inconclusive("no behaviour for the large-upload scenario")
    bcases, _, _, h4 = tc.run_family(ctx, "C02_", big, label="c02-large-upload-slow-target", timeout_ms=5000, par=3,
                                     extra=["-hang-ms", "8000"])
    if h4:
        raise vlib.Inconclusive("handlers still running after the script ended (see notes): %s" % ctx.notes[-1])
    ctx.cov["large_upload_bytes_to_target"] = sorted(c["wtr"] for c in bcases)
    #  (d) back-pressure: a receiver (target during an upload, client during a download) stops reading for longer than the
    #      handler's timeout while more data is in flight than the (small) socket buffers hold; the relay write just blocks
    pz = tc.gen(ctx, "Gen_TcpConn_C02Pause.cfg", 3000 if q else 12000, seed=ctx.seed + 4)
    zup = tc.select([b for b in pz if tc.features(b)["tpause"] and tc.features(b)["trecv"] >= 1], 8 if q else 60,
                    lambda f: (min(f["trecv"], 2), min(f["crecv"], 1)), rng)
    zdn = tc.select([b for b in pz if tc.features(b)["cpause"] and tc.features(b)["crecv"] >= 1], 8 if q else 60,
                    lambda f: (min(f["crecv"], 2), min(f["trecv"], 1)), rng)
    if len(zup) < 4 or len(zdn) < 4:
        raise vlib.Inconclusive("too few back-pressure behaviours (%d up, %d down)" % (len(zup), len(zdn)))
    zpick = []
    for b in zup + zdn:
        b = copy.deepcopy(b)
        b["ov"] = {"datasize": 400 << 10, "tdatasize": 400 << 10}
        zpick.append(b)
    zcases, _, _, h5 = tc.run_family(ctx, "C02_", zpick, label="c02-paused-receiver", par=8, extra=["-hang-ms", "8000"], **tc.TIMED)
    if h5:
        raise vlib.Inconclusive("handlers still running after the script ended (see notes): %s" % ctx.notes[-1])
    tc.mech_pass(ctx, zcases, zpick, label="c02-paused-receiver")
    if len(tpick) < 20 or len(lpick) < 20:
        raise vlib.Inconclusive("steered generation produced too few behaviours (%d, %d)" % (len(tpick), len(lpick)))
    tcases, _, _, h2 = tc.run_family(ctx, "C02_", tpick, label="c02-target-ends-first", timeout_ms=5000, par=8 if q else 12)
    lcases, _, _, h3 = tc.run_family(ctx, "C02_", lpick, label="c02-relay-outlives-deadline", par=8, **tc.TIMED)
    if h2 or h3:
        raise vlib.Inconclusive("handlers still running after the script ended (see notes): %s" % ctx.notes[-1])
    tc.mech_pass(ctx, tcases, tpick, label="c02-target-ends-first")
    tc.mech_pass(ctx, lcases, lpick, label="c02-relay-outlives-deadline")
    try:
        from checks import tc_vt
        vcases = tc_vt.run_vt(ctx, lpick, "c02-vt-late")
        tc_vt.report(ctx, vcases, lpick, "c02-vt-relay-outlives-deadline", prefix="C02_")
        tc.mech_pass(ctx, vcases, lpick, label="c02-vt-relay-outlives-deadline")
    except ImportError:
        ctx.cov["skipped"].append("virtual-time variant: not built")
    #  (e) many relays at once on ONE listener: single-connection behaviours merged into one behaviour of the n-connection model
    #      (connections are independent in TcpConn.tla, C18_Isolation): the clients dial back to back, so StreamServe's accept
    #      loop hands out a burst of connections while the handlers of the earlier ones are only just starting; every one of
    #      them must still get its own bytes, in order, and its own end of stream
    nconc = 40 if q else 300
    cb = [b for b in relay if not any(e["a"] == "Tick" and e["v"] > 1 for e in b["tr"]) and len(b["tr"]) > 8]
    many = tc.select(cb, nconc, lambda f: (min(f["trecv"], 3), min(f["crecv"], 3), f["tfin"] > 0, f["cfin"] > 0), rng)
    if len(many) < nconc * 0.7:
        raise vlib.Inconclusive("only %d behaviours for the concurrent variant" % len(many))
    merged = tc.merge_behaviours(many)
    mcases, _, _, h6 = tc.run_family(ctx, "C02_", [merged], label="c02-concurrent-%d" % len(many), timeout_ms=8000, par=1,
                                     extra=["-own-waits", "-await-ms", "1000", "-hang-ms", "12000"], confirm=False)
    if h6:
        raise vlib.Inconclusive("concurrent variant: handlers still running: %s" % ctx.notes[-1])
    ctx.cov["concurrent_relays_on_one_listener"] = len(mcases)
    ctx.cov["distinct_nontrivial"] += 1
    pick = pick + tpick + lpick + big + zpick
    cases = cases + tcases + lcases + bcases + zcases
    ntv = 0
    for b in pick:
        f = tc.features(b)
        if f["dial"] and (f["tfin"] or f["cfin"]):
            ntv += 1
    ctx.cov["distinct_nontrivial"] += ntv
    ctx.cov["self_test_rejected"] = tc.self_test(ctx, cases, tc.REAL_SLACK)
    ok = [c for c in cases if c["mlog"] and c["mlog"][-1]["s"] == "OK"]
    for c in ok[:3]:
        ctx.sample({"script": " ".join(c["env"]), "observed": tc.brief(c)})
    ctx.cov["connections_OK"] = len(ok)
    ctx.cov["bytes_relayed"] = sum(c["wtr"] + c["wcr"] for c in ok)
    tc.finish(ctx)
    vlib.write_evidence(ctx, "model_checking",
                        "TLC enumerates every behaviour of the relay model for <=3 chunks each way; simulated behaviours "
                        "(pairwise distinct as sequences of environment actions and observations, balanced over the number "
                        "of chunks each way) are executed on the real handler; non-trivial = relayed and at least one "
                        "half-close propagated; every connection record is judged by TLC against the property layer",
                        ASSUME)


def replay(ctx, path):
    tc.replay_violation(ctx, path, "C02_")
