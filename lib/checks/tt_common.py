"""TunnelTime binding shared by C17 (tunnel-time accounting), C20 (exposure of client addresses) and the metrics part
of C19: behaviour generation from spec/TunnelTime.tla, the in-package overlay harness of package prometheus, and
validation of the recorded traces by spec/TunnelTimeTrace.tla."""
import json, os, re
import vlib

OVERLAY = {"zz_verif_tunneltime_test.go": os.path.join(vlib.HARNESS, "overlay", "prometheus", "zz_verif_tunneltime_test.go")}
SCALE = 1000
EMPTY_KEY = 2          # key 2 of every key universe has the empty string as its ID (vfEmptyKey in the harness)
SIG_NEG = {"module": "TunnelTime", "kind": "negative-increment",
           "where": "prometheus/metrics.go Collect reads now() before Lock"}

KIND_TEXT = {
    "negative-increment": "a scrape panicked inside Collect (negative counter increment, 'counter cannot decrease in value')",
    "under-count": "a scrape showed LESS tunnel time for a key than the client(s) had tunnels open (time lost)",
    "over-count": "a scrape showed MORE tunnel time for a key than the client(s) had tunnels open (double counting / "
                  "unauthenticated or overlapping tunnels counted)",
    "unknown-key-series": "tunnel time was reported under an access key that never had an authenticated tunnel",
    "loc-sum-mismatch": "the per-location tunnel-time total differs from the per-key total",
    "loc-window": "tunnel time was reported under the wrong location",
    "decrease": "a tunnel-time counter decreased between two scrapes",
}


def cfg_with(name, **consts):
    """Text of spec/<name> with constants replaced (NAME = value lines)."""
    txt = open(os.path.join(vlib.SPEC, name)).read()
    for k, v in consts.items():
        if isinstance(v, bool):
            v = "TRUE" if v else "FALSE"
        txt, n = re.subn(r"(?m)^(\s*%s\s*=\s*).*$" % re.escape(k), lambda m: m.group(1) + str(v), txt)
        if n != 1:
            raise vlib.Inconclusive("constant %s not found in %s" % (k, name))
    return txt


def gen_behaviours(ctx, num, *, seed=None, depth=80, **consts):
    """TLC -simulate on TunnelTimeGen; returns distinct behaviours (lists of steps starting with Init)."""
    cfg = cfg_with("Gen_TunnelTime.cfg", **consts)
    r = vlib.tlc(ctx, "TunnelTimeGen", "Gen_TunnelTimeRun.cfg", simulate=num, depth=depth, seed=seed, deadlock=False,
                 timeout=600, extra_files={"Gen_TunnelTimeRun.cfg": cfg})
    behs, seen = [], set()
    for b in r.behaviours:
        k = json.dumps(b, sort_keys=True)
        if k not in seen:
            seen.add(k)
            behs.append(b)
    return behs, r


def shortest_crash(ctx):
    """Exhaustive search on the as-is model for the shortest behaviour that ends in a negative increment."""
    r = vlib.tlc(ctx, "TunnelTimeGen", "MC_TunnelTimeAsIs.cfg", workers=1, timeout=900, deadlock=False, want_trace=False)
    return r


UNITS_MS = [700, 1000, 250, 1300]     # code-side length of one model clock unit, round robin per behaviour


def run_overlay(ctx, behaviours, *, db="alt", child=False, race=False, tag="tt", timeout=600, units_ms=None):
    """Replays behaviours on the real collectors.  Returns (rc, output, trace rows or [])."""
    d = ctx.sub(tag)
    inp = os.path.join(d, "in.json")
    outp = os.path.join(d, "out.ndjson")
    if os.path.exists(outp):
        os.remove(outp)
    json.dump({"behaviours": behaviours, "db": db, "child": child, "units_ms": units_ms or UNITS_MS}, open(inp, "w"))
    rc, out = vlib.go_overlay_test(ctx, "prometheus", OVERLAY, "^TestVerifTunnelTime$", race=race, timeout=timeout,
                                   env_extra={"VERIF_TT_IN": inp, "VERIF_TT_OUT": outp})
    rows = []
    if os.path.exists(outp):
        with open(outp) as f:
            for ln in f:
                ln = ln.strip()
                if ln:
                    try:
                        rows.append(json.loads(ln))
                    except ValueError:
                        pass     # a process killed in mid-write
    return rc, out, rows


OVERLAY_CONC = dict(OVERLAY)
OVERLAY_CONC["zz_verif_metricsconc_test.go"] = os.path.join(vlib.HARNESS, "overlay", "prometheus", "zz_verif_metricsconc_test.go")


def run_concurrent(ctx, shape, *, tag="mconc", race=False, timeout=900):
    """Concurrent driver on the real collectors (workers + concurrent scrapes; burst rounds in which all workers open the
    first tunnels of one idle (ip,key) at the same instant).  Returns (rc, output, rows)."""
    d = ctx.sub(tag)
    cfgp, outp = os.path.join(d, "cfg.json"), os.path.join(d, "out.ndjson")
    if os.path.exists(outp):
        os.remove(outp)
    json.dump(shape, open(cfgp, "w"))
    rc, out = vlib.go_overlay_test(ctx, "prometheus", OVERLAY_CONC, "^TestVerifMetricsConcurrent$", race=race, timeout=timeout,
                                   env_extra={"VERIF_MC_OUT": outp, "VERIF_MC_CFG": cfgp})
    rows = []
    if os.path.exists(outp):
        with open(outp) as f:
            for ln in f:
                ln = ln.strip()
                if ln:
                    try:
                        rows.append(json.loads(ln))
                    except ValueError:
                        pass
    return rc, out, rows


def overlay_failed(rc, out, rows):
    """Harness-level failure (not a verdict)."""
    if vlib.compile_failed(out):
        return "overlay does not compile against the working tree:\n" + out[-3000:]
    if "HARNESS-ERROR" in out:
        return out[-3000:]
    if rc != 0:
        return "overlay test failed (rc=%d):\n%s" % (rc, out[-3000:])
    if not rows or rows[-1].get("ev") != "Done":
        return "overlay trace incomplete:\n" + out[-2000:]
    return None


def split_traces(rows):
    """-> (mode, [trace rows starting with Reset ...])"""
    mode, traces, cur = None, [], None
    for r in rows:
        ev = r.get("ev")
        if ev == "Mode":
            mode = r["mode"]
        elif ev == "Reset":
            cur = [r]
            traces.append(cur)
        elif ev == "Done":
            cur = None
        elif cur is not None:
            cur.append(r)
    return mode, traces


def _units(x, unit_ms=1000):
    """seconds shown by the collectors -> thousandths of a model clock unit (one unit = unit_ms on the code side)"""
    return int(round(float(x) * 1000.0 * SCALE / unit_ms))


def densify(traces):
    """Rewrites recorded traces into the integer form TunnelTimeTrace reads.  Returns (rows, consts, index) where
    index[i] = (trace number, original row) of dense row i (1-based line i+1)."""
    NI = NK = NL = MC = NS = 1
    out, index = [], []
    pre = []
    for tn, t in enumerate(traces):
        reset = t[0]
        labels = [tuple(x) for x in reset["labels"]]
        locid = {}
        for lb in labels:
            locid.setdefault(lb, len(locid) + 1)
        NI = max(NI, len(labels))
        NL = max(NL, len(locid))
        for r in t:
            NK = max(NK, int(r.get("key", 0) or 0))
            MC = max(MC, int(r.get("c", 0) or 0))
            NS = max(NS, int(r.get("s", 0) or 0))
        pre.append((tn, t, labels, locid))
    for tn, t, labels, locid in pre:
        unit = int(t[0].get("unit_ms") or 1000)
        for r in t:
            ev = r["ev"]
            if ev == "Reset":
                lm = [locid[lb] for lb in labels] + [1] * (NI - len(labels))
                d = {"ev": "Reset", "locmap": lm}
            elif ev == "CollectEnd":
                key = [0] * (NK + 1)
                loc = [0] * (NL + 1)
                if not r.get("panic"):
                    for kname, v in (r.get("keyv") or {}).items():
                        m = re.match(r"^k(\d+)$", kname)
                        if kname == "" and EMPTY_KEY <= NK and t[0].get("mode") != "concurrent":
                            key[EMPTY_KEY - 1] += _units(v, unit)
                        elif m and 1 <= int(m.group(1)) <= NK and (int(m.group(1)) != EMPTY_KEY or t[0].get("mode") == "concurrent"):
                            key[int(m.group(1)) - 1] += _units(v, unit)
                        else:
                            key[NK] += _units(v, unit)
                    for e in (r.get("locv") or []):
                        i = locid.get(tuple(e["l"]))
                        if i:
                            loc[i - 1] += _units(e["v"], unit)
                        else:
                            loc[NL] += _units(e["v"], unit)
                d = {"ev": "CollectEnd", "s": r["s"], "panic": bool(r.get("panic")), "key": key, "loc": loc}
            elif ev == "Expo":
                continue
            else:
                d = {k: v for k, v in r.items() if k in ("ev", "c", "ip", "key", "d", "s")}
            out.append(d)
            index.append((tn, r))
    return out, dict(NI=NI, NK=NK, NL=NL, MaxConn=MC, NS=NS), index


def parse_result(r):
    """<<"RESULT", "{json}">> printed by TunnelTimeTrace!Report"""
    for ln in r.prints + r.out.splitlines():
        m = re.match(r'^<<"RESULT", "(.*)">>$', ln.strip())
        if m:
            try:
                return json.loads(m.group(1).replace('\\"', '"').replace("\\\\", "\\"))
            except ValueError:
                return None
    return None


def validate(ctx, traces, mode, desc, *, behaviours=None, timeout=900, report=True, max_reports=3, quiet=False):
    """TLC (TunnelTimeTrace) over the recorded traces, one deterministic pass.  Property-layer failures ->
    ctx.violation (they are statements about values the real collectors showed; at most max_reports per kind are
    written out, the rest counted); mechanism-layer differences -> drift.
    Returns dict(ntraces accepted, violations=[(kind, trace index, row)], drift, events)."""
    out = dict(ntraces=0, violations=[], drift=0, events=0)
    if not traces:
        return out
    rows, consts, index = densify(traces)
    tf = os.path.join(ctx.scratch, "tt-trace-%d.ndjson" % (len(os.listdir(ctx.scratch))))
    vlib.write_ndjson(tf, rows)
    consts["ClockUnderLock"] = (mode != "asis")
    cfg = cfg_with("TunnelTimeTrace.cfg", **consts)
    ok, r = vlib.validate_traces(ctx, "TunnelTimeTrace", "TunnelTimeTraceRun.cfg", tf, timeout=timeout,
                                 extra_files={"TunnelTimeTraceRun.cfg": cfg})
    res = parse_result(r)
    if res is None or res["lines"] != len(rows) or not ok:
        raise vlib.Inconclusive("trace validation did not consume the whole trace (%s): %s %s" % (
            desc, r.violated or "", "\n".join(r.out.splitlines()[-15:])))
    out["events"] = res["lines"]
    for ln in res["drifts"]:
        tn, orig = index[ln - 1]
        out["drift"] += 1
        if quiet:
            continue
        ctx.cov["drift"] += 1
        if out["drift"] <= 3:
            ctx.notes.append("drift (%s): trace %d: observed scrape differs from the mechanism layer: %s | %s" % (
                desc, tn, json.dumps(orig)[:300], schedule_text(traces[tn])[-400:]))
    per_kind = {}
    for v in res["viols"]:
        tn, orig = index[v["line"] - 1]
        out["violations"].append((v["kind"], tn, orig))
        per_kind[v["kind"]] = per_kind.get(v["kind"], 0) + 1
        if report and per_kind[v["kind"]] <= max_reports:
            report_violation(ctx, v["kind"], traces[tn], orig, desc,
                             behaviours[tn] if behaviours and tn < len(behaviours) else None)
    out["ntraces"] = res["ntraces"] - len(res["viols"])
    return out


def schedule_text(trace):
    parts = []
    empty = trace and trace[0].get("mode") != "concurrent"
    kn = lambda k: ('k%d[id=""]' % k) if (empty and k == EMPTY_KEY) else "k%d" % k
    for r in trace[1:]:
        ev = r["ev"]
        fm = {1: "/16B", 2: "/4B", 3: "/str"}.get(r.get("f"), "")
        if ev == "...":
            parts.append("...")
        elif ev in ("Open",):
            parts.append("Open(c%d,ip%d%s)" % (r["c"], r["ip"], fm))
        elif ev == "Auth":
            parts.append("Auth(c%d,%s)" % (r["c"], kn(r["key"])))
        elif ev == "NatAdd":
            parts.append("NatAdd(c%d,ip%d%s,%s)" % (r["c"], r["ip"], fm, kn(r["key"])))
        elif ev in ("Close", "NatRemove", "RemoveAgain", "Probe", "Packet"):
            parts.append("%s(c%d)" % (ev, r["c"]))
        elif ev == "Tick":
            parts.append("Tick(%d)" % r["d"])
        elif ev == "CollectBegin":
            parts.append("CollectBegin(s%d)" % r["s"])
        elif ev == "CollectEnd":
            parts.append("CollectEnd(s%d%s)" % (r["s"], ",PANIC" if r.get("panic") else ""))
    return " ; ".join(parts)


def row_index(trace, row):
    """position of the very row object (identical scrape results occur more than once in a trace)"""
    for i, r in enumerate(trace):
        if r is row:
            return i
    return trace.index(row) if row in trace else len(trace) - 1


def signature(kind):
    if kind == "negative-increment":
        return dict(SIG_NEG)
    return {"module": "TunnelTime", "kind": kind}


def report_violation(ctx, kind, trace, row, desc, behaviour=None):
    upto = trace[:row_index(trace, row) + 1]
    ctx.violation(signature(kind),
                  "tunnel time (%s): %s; observed %s; schedule: %s" % (
                      desc, KIND_TEXT.get(kind, kind), json.dumps({k: v for k, v in row.items() if k != "ev"})[:300],
                      schedule_text(upto)[-900:]),
                  {"module": "TunnelTime", "driver": desc, "behaviour": behaviour, "recorded_trace": upto,
                   "mode": trace[0].get("mode")})
