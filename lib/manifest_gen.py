#!/usr/bin/env python3
"""Regenerates /verif/MANIFEST.json from the table below (single source of truth for what is claimed)."""
import json, os, subprocess
ROOT = os.path.dirname(os.path.dirname(os.path.abspath(__file__)))

BASELINE_OFF = ("cd /repo && GOFLAGS=-mod=mod GOPROXY=off GOSUMDB=off go test -json -vet=off -count=1 -timeout 25m ./...")

# id -> (technique, level text, level note, design ref)
CHECKS = {
 "C07": ("TLC exhaustive check of ReplayCache.tla + TLC-generated behaviours replayed on the real cache + hook-linearized "
         "concurrent traces validated by ReplayCacheTrace.tla",
         "The two-generation cache is specified in TLA+ (mechanism layer) together with the window property stated over the "
         "call history alone (property layer); TLC proves mechanism=>property for every Add/Resize sequence of the small "
         "constants. Conformance both ways: TLC-simulated scripts run on the real service.ReplayCache, and sequential + "
         "concurrent traces (linearization order from a hook under the cache mutex, capacities up to 20000 in thorough) are "
         "checked line by line by TLC against the property layer (verdict) and the mechanism layer (drift). The same scripts run a second "
         "time with every Add presented as a real client handshake to NewShadowsocksStreamAuthenticator sharing the cache, which is "
         "resized under it.",
         "Trusts TLC, the harness's independent pre-hash fold, and that the hook is called under the mutex. Bounded: 4-5 "
         "hashes / capacities 0..4 / <=10 operations exhaustively; larger sizes only through validated traces.",
         "DESIGN.md section 4 C07"),
}

CHECKS["C12"] = ("TLC exhaustive check of Listeners.tla (lock/channel/goroutine granularity) + TLC schedules replayed step by step "
    "through verif gates on the real ListenerManager + stress traces judged by ListenersTrace.tla",
    "service/listeners.go is specified at the granularity of its mutexes, channels, goroutines and the kernel queue; TLC checks "
    "exactly-once delivery, closed-stays-closed, undisturbed other handles and complete release (socket, goroutines, held "
    "connections) over every interleaving of the scripted listen/close/accept calls and incoming connections/datagrams. The "
    "pinned code's variants are kept as negative controls (TLC must find each of the three defects). Conformance: TLC-simulated "
    "schedules are enforced on the real code through gates at every lock/channel/socket operation and the outcome (API results, "
    "client-side fate of every connection, re-bindability, goroutines left) is judged by TLC; free-running stress rounds likewise, "
    "plus mass acquire/release rounds (44 addresses) and a churn mode (tight acquire/accept/close loops on one address, ~100 000 "
    "rounds, events stamped from one atomic counter and written out in batches). An item sent after Close(h) returned may not "
    "reach h (model flag CloseWaits: Close waits for the calls in flight). A connection the server closes or resets although no call "
    "returned it and a handle of its address was open all the time is a violation (client-side look before the cleanup; negative "
    "control RecheckAfterRecv; steered close-then-receive schedules replayed with forced gate placement). Liveness under fairness: "
    "GoroutinesEnd (accept/read goroutines end once every handle is closed), with the pinned stuck-accept variant as negative control.",
    "Bounded: 3 threads x <=4 calls, <=3 handles, 2-3 connections/datagrams, 3 keys; select nondeterminism can make a schedule "
    "diverge (counted, never an alarm). Trusts runtime.Stack wait states and loopback TCP/UDP semantics.",
    "DESIGN.md section 4 C12, 9a, 9d")
CHECKS["C13"] = ("TLC deadlock check of Listeners.tla + TLC schedules (incl. the pinned code's deadlock counter-examples) replayed through "
    "verif gates on the real ListenerManager + stress with a watchdog, judged by ListenersTrace.tla",
    "Deadlock freedom of the manager / shared-listener / handle locking discipline is checked by TLC's deadlock detection over all "
    "interleavings of concurrent listen and close scripts (stream and packet, same and different addresses). The model is bound to "
    "the code by step-by-step schedule replay through gates placed before every Lock(), channel operation and socket call; a call "
    "that does not return within the watchdog, with goroutines parked in sync.Mutex.Lock, is the verdict. The lock-order inversion "
    "of the pinned commit is kept as a negative control and as regression schedules. Accept failures (EMFILE, injected by exhausting "
    "the driver's descriptor table around the accept) are part of the model (GacceptErr) and of the schedules; a driver process that "
    "dies with a panic in the repository's frames is a violation; stress adds mass acquire/release rounds (44 addresses), tcp and udp "
    "of one port, debug logging, and churn loops (~100 000 acquire/accept/close rounds). Liveness form under weak fairness of threads "
    "and listener goroutines (FairSpec, no schedule history, no VIEW): EventuallySettled (every call returns or waits for traffic on "
    "an open handle, stably) and NoStarvation; the pinned deadlock variant must violate it.",
    "Bounded: 3 threads, 3 keys, <=4 calls per thread exhaustively; more threads only in stress. A deadlock needs the watchdog "
    "(2 s) to expire with listen/close calls outstanding; slow machines cannot cause it because gates are opened first.",
    "DESIGN.md section 4 C13, 9a, 9d")

CHECKS["C19"] = ("per shared component: hook-linearized concurrent traces validated by TLC against the component's sequential TLA+ "
    "specification (linearizability) + the same spec-driven drivers run under the Go race detector (monitor)",
    "Each shared component has a sequential TLA+ specification (ReplayCache, Listeners, CipherList, UdpNat, TunnelTime). Concurrent "
    "drivers (2-64 goroutines) record every operation at its linearization point and TLC must explain all recorded results by the "
    "sequential specification. Whether the compiled code performs unsynchronised conflicting accesses is a memory-model fact that no "
    "trace of API events shows; for that half the same drivers are built with -race and every report with a frame in the repository "
    "is a violation. That half is a runtime monitor riding on the conformance harness, not a model-checking result. A server-level "
    "part runs hand-over hammer scenarios (configurations that put one key into two services; the server-level collector scraped "
    "the whole time) on a real OutlineServer under -race: the composition in cmd/outline-ss-server is a shared component too.",
    "The race detector only sees interleavings that occur in the run. Components whose parts are not built yet are listed under "
    "coverage.skipped in the evidence.",
    "DESIGN.md section 4 C19")

CHECKS["C09"] = ("TLC-generated configuration universe (ReloadCfgGen.tla) loaded into a real OutlineServer; every (listener, key) pair probed with "
    "real TCP handshakes and UDP datagrams; measured relation compared by TLC (ReloadTrace.tla) with Reload!Serving(cfg)",
    "Reload.tla defines what a configuration serves: per service the de-duplicated key list (first id wins for equal cipher+secret) on "
    "exactly its listeners, per legacy port its keys on tcp+udp. TLC builds configurations from a bounded universe (sampled in quick, "
    "exhaustively enumerated for a smaller universe in thorough); each is loaded by the real loadConfig inside package main and all "
    "listener x key-class pairs of the universe are probed over both protocols; attribution is read from the metrics interface.",
    "Bounded universe (3 service addresses x tcp/udp, 2 legacy ports, 5 usable keys incl. one duplicate cipher+secret under a second id). "
    "Attribution among duplicate keys of one LEGACY port is not specified by the property and not generated.",
    "DESIGN.md section 4 C09")
CHECKS["C10"] = ("TLC exhaustive check of Reload.tla (all load sequences x every fault point) + TLC-simulated load sequences executed on a real "
    "OutlineServer with injected faults; listener/key matrix and runConfig goroutines measured after every attempt and judged by "
    "ReloadTrace.tla",
    "loadConfig/runConfig/Stop are specified as a flat sequence of separately failing steps over a listener manager; TLC checks that at "
    "every quiescent point exactly the last good configuration serves and listens and exactly one runConfig goroutine exists, for all "
    "sequences of <=3-4 attempts over a 12-configuration catalogue with every fault point (unreadable, malformed, invalid, bad cipher "
    "in legacy / 1st / 2nd service, bind failure at any listener). The pinned variant (failed start leaves a zombie generation) is "
    "the negative control. The same scenarios run against the real code with foreign sockets injecting the bind failures, and "
    "against the real binary (SIGHUP reloads, /metrics, logs): every second scenario with -verbose, every third requesting each reload "
    "with two SIGHUPs 0-50 ms apart on configurations with 2 500 filler keys (a reload that never reports a result, or a process "
    "that dies, is a load-result violation). The catalogue includes a key whose cipher changes across reloads, listener types in "
    "other letter cases and other spellings of one wildcard socket (valid for Validate, cannot start).",
    "Fault points are those reachable through files and sockets; goroutine accounting matches on the function name runConfig.func1.",
    "DESIGN.md section 4 C10")

CHECKS["C11"] = ("TLC invariant WindowKeepsBoth on Reload.tla + TLC-simulated reload sequences on a real OutlineServer with a gate between "
    "start-new and stop-old, hammer clients and long-lived relays; every client operation judged by ReloadTrace.tla against the "
    "configurations live during it",
    "Reload.tla states that in the hand-over window every listener of both configurations is held and common keys serve; Listeners.tla "
    "(C12) states that each connection/datagram goes to exactly one handle. On the code, a verif gate in loadConfig lets the harness "
    "place real clients on every (address, key class) inside the window, after stop-old and after the reload; free-running clients "
    "hammer TCP and UDP through ungated reloads; relays opened before a reload (idle, mid-transfer, half-closed, some across two "
    "reloads) must complete byte-exact with status OK. TLC judges each operation against the set of configurations that were live "
    "at some time during it (retained address never refused, common key authenticates, attribution from one of them, exactly one "
    "open/close report). Clients that start after Stop(old) returned are judged against the new configuration alone; the key "
    "classes in which old and new differ go first; hammer scenarios load 1 500 filler keys per service so that building a key list "
    "takes noticeable time.",
    "7 valid configurations sharing addresses, <=4 reloads per scenario (hammer scenarios cycle them 3x). UDP 'refused' is observed "
    "through ICMP on a connected socket. Needs eth0/192.0.2.2 for the relay sink (else recorded as skipped).",
    "DESIGN.md section 4 C11")
CHECKS["C05"] = ("TLC exhaustive check of AddrPolicy.tla (block table + RequirePublicIP transcription + where-the-policy-applies machine) + "
    "TLC-generated decision table and scenarios run against the real handlers with sink sockets and a fake DNS; traces judged by "
    "AddrPolicyTrace.tla; IPv4 sweep against the spec-exported table",
    "The property layer is a table of special-purpose blocks (MustReject / MustAccept / don't-care) over octets/hextets; the mechanism "
    "layer transcribes RequirePublicIP and the places the policy is applied (per resolved address for TCP, per datagram for UDP). TLC "
    "checks agreement at every block boundary (first/last/+-1, mapped forms) and NoPrivateContact over all scenario behaviours; two "
    "negative configs must be refuted. The real RequirePublicIP is compared with the TLC-generated table; TLC-generated TCP/UDP "
    "scenarios (all SOCKS encodings, resolver answer sets, forbidden destination at datagram position 1,2,k) run through the real "
    "handlers with the default dialer/validator against sinks on 127.0.0.1, ::1, fd00::2, fe80::%eth0 and 192.0.2.2; the thorough "
    "tier sweeps all 2^32 IPv4 addresses in both byte forms. Concurrent stage (AddrPolicyConc.tla: two Handle loops as two processes "
    "on one packet handler, loop-local decoded target, negative control SharedScratch): two listeners with their own Handle "
    "goroutines on one real packet handler, two clients sending 40 000 datagrams each to TLC-given public and forbidden "
    "destinations; any arrival at a forbidden sink is a private-contact violation.",
    "IPv6 by prefix class x boundaries x seeded fill, not all 2^128. 192.0.2.2 (TEST-NET-1) is the reachable stand-in for a public "
    "address. Forbidden destinations without a local sink are judged by status only.",
    "DESIGN.md section 4 C05")
CHECKS["C17"] = ("TLC exhaustive check of TunnelTime.tla (split Collect, ghost ideal accounting) + TLC-simulated histories replayed on the real "
    "Prometheus collectors under a stubbed clock (re-entrant stub realises interleavings inside Collect); traces judged by "
    "TunnelTimeTrace.tla",
    "tunnelTimeMetrics is specified with Collect split into its clock read and its locked part; the property layer is the ideal "
    "union-of-open-periods accounting computed from the Start/Stop history alone. TLC checks NonNegativeIncrement, exactness at "
    "the lock, per-location = per-key sums and conservation across scrapes for 2 IPs x 2 keys x several tunnels with ticks and "
    "overlapping scrapes; the variant with the clock read before the lock (pinned code) is kept as the expected model finding and "
    "is replayed on the code. Histories simulated by TLC run through AddOpenTCPConnection/AddAuthenticated/AddClosed and "
    "AddUDPNatEntry/RemoveNatEntry on the real collectors in a private registry; every scrape's reported values are validated.",
    "Interleavings inside Collect are realised through the stubbable package variable `now`; unparsable client addresses are out of "
    "scope. No Apalache inductive check (the spec uses recursive sums).",
    "DESIGN.md section 4 C17")
CHECKS["C20"] = ("TLC exhaustive enumeration of the location decision table (LocationLabel.tla) bound to the real ipinfo functions with a "
    "recording fake database + TLC-generated traffic histories on the real collectors whose text exposition is scanned; judged by "
    "LocationLabelTrace.tla",
    "The decision table Label(address class, database mode) with the invariant 'database consulted => global unicast and lookup "
    "enabled' is enumerated completely by TLC; every row is executed against ipinfo.GetIPInfoFromAddr/FromIP with ~90 concrete "
    "addresses per class and 8 database behaviours (calls recorded). Exposure: TLC-generated histories drive the real "
    "NewServiceMetrics collectors from distinctive client addresses; the exposition is scanned for every textual form of the client "
    "IPs and ports, label names must be in the fixed set and `port` values must be listener addresses. Scrape racing a registration "
    "(LocationLabelRace.tla: Begin / Release of a first tunnel, ScrapeBegin / Observe / ScrapeEnd; AtomicRegister = FALSE is the "
    "negative control): TLC schedules replayed on the real collectors with a location database whose lookup blocks on a channel; "
    "with lookup enabled no exported tunnel-time series may carry the empty location and every client has one location.",
    "'Global' is read as Go's IsGlobalUnicast (private ranges are looked up, as the repository's own test pins). No process-level "
    "/metrics scan.",
    "DESIGN.md section 4 C20")

CHECKS["C01"] = ("TLC exhaustive check of CipherList.tla (snapshot two-pass order, in-flight lookups across Update, stale Mark) + TLC-simulated "
    "behaviours executed over real TCP with real AEAD encryption through the real authenticator behind a recording/gating CipherList "
    "wrapper; traces judged by CipherListTrace.tla",
    "The key list and the trial-decryption search are specified with in-flight lookups that hold a snapshot while the list is updated "
    "or re-ordered; TLC checks Sound, Complete, SnapshotIsPermutation, NoAuthNoEffect, InvalidRefused for 2-3 slots, duplicate "
    "secrets, mixed cipher classes, 2 IPs, concurrent lookups and Updates. Simulated behaviours run against "
    "NewShadowsocksStreamAuthenticator/NewStreamHandler over loopback with all four ciphers, client source IPs 127.0.0.2.., lists "
    "padded with 0/50/300 keys, and opener classes valid / wrong key / random / bit flips in salt, length, tag / short+FIN / "
    "short+stall; dials, bytes to the client and metrics calls are recorded. The verdict comes from the property layer only; exact "
    "snapshot order is compared as drift.",
    "'All opening byte strings' are covered by classes x seeds; AEAD forgery resistance is assumed.",
    "DESIGN.md section 4 C01")
CHECKS["C08"] = ("TLC exhaustive check of TcpAuth.tla (authenticator order, marked/unmarked salt generators, reflected handshakes with cache nil / 0 / "
    "on) + behaviours on the real authenticator with recorded REAL server output presented back as client input; independent "
    "HKDF/HMAC verification of the salt mark; traces judged by TcpAuthTrace.tla",
    "TcpAuth.tla models findAccessKey -> IsServerSalt -> replay cache -> reader/writer and the per-key salt generator class; TLC "
    "checks RespSaltsFresh, RespSaltsRecognised, ReflectedNeverAuthenticated (whatever the cache capacity), StatusClasses, "
    "ProbeNoEffect. On the code, the first salt of every response stream is captured and its mark verified by an independent "
    "HKDF-SHA1/HMAC-SHA1 implementation; recorded server output (whole, truncated, extended) and client streams under a "
    "server-made salt are presented with the cache off and on and must end as ERR_REPLAY_SERVER with probe observables; thousands "
    "of response salts are checked pairwise distinct (10^5 in thorough).",
    "Freshness is checked as pairwise distinctness over the run (randomness itself is assumed). AES-128 (16-byte salt) is only in the "
    "freshness clause, by the property's wording.",
    "DESIGN.md section 4 C08")

_TC = ("TcpConn.tla models StreamServe / Handle / handleConnection / absorbProbe / proxyConnection and the measured connection at the "
       "granularity of the code's steps (read 50 bytes, find key, salt and replay checks, read address, dial, the two independent copy "
       "loops with their half-closes, drains, metrics calls), with a logical clock for the handshake deadline. ")
CHECKS["C02"] = ("TLC exhaustive check of TcpConn.tla relay phase (all orders of who speaks / half-closes first, all interleavings of the two copy "
    "loops) incl. liveness under fairness + TLC-generated scripts executed through the real handler with a real Shadowsocks client and "
    "scripted targets; per-observer traces judged by TcpConnTrace.tla",
    _TC + "C02: delivered bytes are a prefix of what was sent and equal it at FIN, FIN only after all data, the other direction keeps "
    "flowing after a half-close, everything sent is eventually delivered (fairness). Scripts generated by TLC (chunks mapped to sizes "
    "0,1,2,1000,16383,random; address types 1/3/4; address alone or coalesced) run on loopback sockets; client and target record "
    "lengths, SHA-256 digests and FINs, which TLC validates. A concurrent family merges 40-300 single-connection behaviours into one "
    "behaviour of the n-connection model: all clients dial ONE listener back to back (a burst through StreamServe's accept loop) and "
    "every connection is judged separately.",
    "Chunk sizes are sampled, not all 16383; <=3 chunks each way in the exhaustive model.",
    "DESIGN.md section 4 C02")
CHECKS["C06"] = ("TLC exhaustive check of TcpConn.tla pre-authentication and drain phases with a logical clock + TLC-generated probe scripts on the "
    "real handler (real sockets with a short timeout; virtual time with in-memory connections and the 59 s timeout); traces judged by "
    "TcpConnTrace.tla",
    _TC + "C06: unauthenticated => zero bytes to the client; close only after client FIN or the deadline; close instant a function of "
    "the accept time only; post-authentication invalid streams are drained while the client keeps the connection open. The variant "
    "that drains through the decrypting reader (pinned code) is the negative control. Probe classes x lengths x four ciphers x key "
    "list sizes x replay cache on/off x client FIN or not run on the real handler; under testing/synctest the close instants are "
    "compared exactly.",
    "FIN vs RST is classified only for clients that are quiescent before the deadline. Single-bit corruption: one flip per offset class "
    "per seed in quick, all offsets in thorough.",
    "DESIGN.md section 4 C06")
CHECKS["C15"] = ("TLC exhaustive check of the metrics observation language of TcpConn.tla + TLC-generated scenarios for every outcome class on the "
    "real handler with a recording TCPConnMetrics and with the real Prometheus collectors; wire byte counts measured independently at "
    "the harness sockets; judged by TcpConnTrace.tla",
    _TC + "C15: per connection the calls form Open (Authenticated)? (Probe)? Closed, Probe <=> authentication failed, one status per "
    "outcome class, and the four byte counters equal the wire counts of complete connections (never exceed them otherwise). "
    "Scenarios for success, cipher failure, both replay kinds, bad / disallowed address, connect failure and relay errors either "
    "way run on the real handler; a second pass uses prometheus.NewServiceMetrics in a private registry; a concurrent variant "
    "compares totals over 50-500 connections. The harness counts underneath the handler what its read calls on the client socket "
    "returned; AddProbe must carry exactly that number at the moment it is called (C15_ProbeBytes), also when the listener closes "
    "while the probe is being absorbed (family steered so that bytes beyond the search window are absorbed before the close).",
    "Exact spelling of statuses that PROBES.md does not document is compared as drift.",
    "DESIGN.md section 4 C15")
_UD = ("UdpNat.tla models packetHandler.Handle, trial decryption over a key-list snapshot, validatePacket, the NAT map, natconn deadlines "
       "(configured timeout, 17 s DNS rule, fast-close latch), timedCopy and expiry, with a logical clock. ")
CHECKS["C03"] = ("TLC exhaustive check of UdpNat.tla + TLC-generated datagram sequences through the real PacketHandler on loopback sockets with "
    "mixed-cipher key lists; target/client/metrics traces judged by UdpNatTrace.tla",
    _UD + "C03: forwarded => authenticated under a configured key (new client) or the association's key (known client); payload "
    "identity; replies under the same key with a fresh salt and the true sender in the header (IPv4 type 1, IPv6 type 4); invalid "
    "datagrams cause no socket, no entry, no outbound traffic. Behaviours (valid / wrong-key / truncated / garbage, sizes 0..max+1, "
    "replies from the addressed target, another port, a stranger) run through the real handler; clients decrypt replies under every "
    "key to learn which was used. FwdToNamed: every target observation sits on the destination named in that datagram's own header "
    "(steered family with same-length target switches inside one live association: other port, other IP, other host name).",
    "<=3 clients, <=3 keys, <=6 datagrams per behaviour in the exhaustive model.",
    "DESIGN.md section 4 C03")
CHECKS["C04"] = ("TLC exhaustive check of the NAT-table invariants of UdpNat.tla + the C03 driver with >=3 client sockets and >=2 targets recording "
    "source addresses; judged by UdpNatTrace.tla",
    _UD + "C04: client -> socket injective while alive, a datagram arriving on a socket is delivered exactly to its owner, an association "
    "is created only after authentication and destination validation. Targets log the source address of every datagram, clients log "
    "every reply including unsolicited ones sent by a stranger socket to the association's port.",
    "One packet handler = one NAT table (two generations during a reload have one each).",
    "DESIGN.md section 4 C04")
CHECKS["C14"] = ("TLC exhaustive check of the deadline/fast-close/expiry actions of UdpNat.tla (liveness under fairness) + behaviours replayed with "
    "exact instants on the real natmap under testing/synctest (in-package) and on real sockets with a 300 ms timeout; judged by "
    "UdpNatTrace.tla",
    _UD + "C14: the deadline never moves earlier except by the fast close; usable for the configured timeout after the last non-DNS and "
    "17 s after the last DNS datagram; expiry within a bound; exactly one removal; a single-DNS-query association closes right after "
    "the first DNS reply; shutdown expires everything; sockets and goroutines return to zero. In virtual time the recorded "
    "SetReadDeadline instants are compared with the model's clock as equalities. The promise is also checked as the server wires it: "
    "legacy-format and services-format configurations are loaded into a real OutlineServer started with -udptimeout 150 ms and every "
    "association opened by an authenticated probe is followed until its removal is reported (ReloadTrace kind nat-lifetime).",
    "A datagram racing with the fast close may be written to a dying association (the model allows it). Thorough adds one real 17 s run.",
    "DESIGN.md section 4 C14")
CHECKS["C16"] = ("TLC exhaustive check of the metrics observation of UdpNat.tla + the C03/C04/C14 replays with a recording UDPMetrics and with the "
    "real Prometheus collectors; sizes measured at the harness sockets; judged by UdpNatTrace.tla",
    _UD + "C16: per association NatAdd(key) once, NatRemove once; one report per client datagram on an association (wire size, payload "
    "sent to the target, status) and per target datagram; per key and direction the reported sums equal the sums measured at the "
    "sockets.",
    "Rejected first datagrams (no association) have no per-association report by construction of the code; the model states this.",
    "DESIGN.md section 4 C16")
CHECKS["C18"] = ("TLC termination/total-outcome properties of TcpConn.tla and UdpNat.tla + model-enumerated input classes sent authenticated through "
    "the real handlers in child processes (exit status, panic log records, goroutine/fd accounting) + the real binary driven at process "
    "level; judged by the TcpConn/UdpNat/Reload trace specs",
    "Every handler action of the two models has a total outcome and AllDone implies no goroutine or socket is left; StreamServe returns "
    "only after all handlers returned; a failure on one connection leaves the others untouched. The input classes the models "
    "enumerate (address types 0..255, domain lengths 0/1/255, headers truncated at each field, chunk lengths 0/0x3FFF/masked, reply "
    "sizes up to the pack buffer, reply sources IPv4/IPv6/zoned link-local, termination and shutdown orders) are executed on the real "
    "code; each family runs in a child process so that unrecovered panics are seen as exit status; recovered panics are read from "
    "slog records. At process level every second scenario runs with -verbose (debug statements format errors and their causes) and "
    "every second one requests reloads with SIGHUP bursts.",
    "'All raw byte strings' = classes x seeded random. The zoned link-local case needs eth0 with a link-local address.",
    "DESIGN.md section 4 C18")

PENDING = {}

def main():
    props = [json.loads(l) for l in open(os.path.join(ROOT, "properties.jsonl"))]
    hooks_commits = []
    try:
        out = subprocess.run(["git", "-C", "/repo", "log", "--format=%H %s"], capture_output=True, text=True).stdout
        for ln in out.splitlines():
            h, s = ln.split(" ", 1)
            if s.startswith("verif hooks"):
                hooks_commits.append(h)
    except Exception:
        pass
    checks, na = [], []
    for p in props:
        pid = p["id"]
        if pid in CHECKS:
            tech, text, note, ref = CHECKS[pid]
            checks.append({
                "property_id": pid,
                "quick_cmd": "bin/vcheck %s --tier quick" % pid,
                "thorough_cmd": "bin/vcheck %s --tier thorough" % pid,
                "evidence_file": "evidence/%s.json" % pid,
                "replay_cmd_template": "bin/vcheck %s --replay {path}" % pid,
                "engine": "tlc+conformance",
                "level_claimed": {"category": "model_checking", "text": text, "design_ref": ref},
                "level_note": note,
                "technique": tech,
            })
        else:
            na.append({"property_id": pid, "reason": PENDING.get(pid, "check not built yet (work in progress; see DESIGN.md section 4 for the planned decision procedure)")})
    m = {
        "version": 1,
        "setup_cmd": "bin/setup",
        "hooks": {
            "guard": "verif",
            "enable": "go build/test -tags verif (hooks are nil function variables unless a harness installs them)",
            "baseline_off_cmd": BASELINE_OFF,
            "source_commits": hooks_commits,
            "add_only": True,
        },
        "engines": [
            {"name": "tlc+conformance", "path": "bin/vcheck",
             "serves_properties": sorted(CHECKS),
             "kind_free_text": "TLA+ specifications in spec/ checked with TLC; behaviours replayed into the Go code and traces of "
                               "the Go code validated against the specifications (harness/ Go module, lib/ python glue)"},
        ],
        "checks": checks,
        "notes": "Every check: exit 0 held / exit 1 with VIOLATION line / exit 2 inconclusive (infrastructure). Known findings are in known_findings.json.",
        "not_applicable": na,
    }
    with open(os.path.join(ROOT, "MANIFEST.json"), "w") as f:
        json.dump(m, f, indent=1)
    print("MANIFEST.json: %d checks, %d not claimed" % (len(checks), len(na)))

if __name__ == "__main__":
    main()
