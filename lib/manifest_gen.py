#!/usr/bin/env python3
"""Regenerates /verif/MANIFEST.json from the table below (single source of truth for what is claimed)."""
import json, os, subprocess
ROOT = os.path.dirname(os.path.dirname(os.path.abspath(__file__)))

BASELINE_OFF = ("cd /repo && GOFLAGS=-mod=mod GOPROXY=off GOSUMDB=off go test -json -vet=off -count=1 -timeout 25m ./...")

# id -> (technique, level text, level note, design ref)
CHECKS = {
 "C07": ("TLC exhaustive check of ReplayCache.tla + TLC-generated behaviours replayed on the real cache + hook-linearized "
         "concurrent traces validated by ReplayCacheTrace.tla",
         "The two-generation cache is specified in TLA+ (mechanism layer) together with the window property stated over the "
         "call history alone (property layer); TLC proves mechanism=>property for every Add/Resize sequence of the small "
         "constants. Conformance both ways: TLC-simulated scripts run on the real service.ReplayCache, and sequential + "
         "concurrent traces (linearization order from a hook under the cache mutex, capacities up to 20000 in thorough) are "
         "checked line by line by TLC against the property layer (verdict) and the mechanism layer (drift).",
         "Trusts TLC, the harness's independent pre-hash fold, and that the hook is called under the mutex. Bounded: 4-5 "
         "hashes / capacities 0..4 / <=10 operations exhaustively; larger sizes only through validated traces.",
         "DESIGN.md section 4 C07"),
}

CHECKS["C12"] = ("TLC exhaustive check of Listeners.tla (lock/channel/goroutine granularity) + TLC schedules replayed step by step "
    "through verif gates on the real ListenerManager + stress traces judged by ListenersTrace.tla",
    "service/listeners.go is specified at the granularity of its mutexes, channels, goroutines and the kernel queue; TLC checks "
    "exactly-once delivery, closed-stays-closed, undisturbed other handles and complete release (socket, goroutines, held "
    "connections) over every interleaving of the scripted listen/close/accept calls and incoming connections/datagrams. The "
    "pinned code's variants are kept as negative controls (TLC must find each of the three defects). Conformance: TLC-simulated "
    "schedules are enforced on the real code through gates at every lock/channel/socket operation and the outcome (API results, "
    "client-side fate of every connection, re-bindability, goroutines left) is judged by TLC; free-running stress rounds likewise.",
    "Bounded: 3 threads x <=4 calls, <=3 handles, 2-3 connections/datagrams, 3 keys; select nondeterminism can make a schedule "
    "diverge (counted, never an alarm). Trusts runtime.Stack wait states and loopback TCP/UDP semantics.",
    "DESIGN.md section 4 C12, 9a, 9d")
CHECKS["C13"] = ("TLC deadlock check of Listeners.tla + TLC schedules (incl. the pinned code's deadlock counter-examples) replayed through "
    "verif gates on the real ListenerManager + stress with a watchdog, judged by ListenersTrace.tla",
    "Deadlock freedom of the manager / shared-listener / handle locking discipline is checked by TLC's deadlock detection over all "
    "interleavings of concurrent listen and close scripts (stream and packet, same and different addresses). The model is bound to "
    "the code by step-by-step schedule replay through gates placed before every Lock(), channel operation and socket call; a call "
    "that does not return within the watchdog, with goroutines parked in sync.Mutex.Lock, is the verdict. The lock-order inversion "
    "of the pinned commit is kept as a negative control and as regression schedules.",
    "Bounded: 3 threads, 3 keys, <=4 calls per thread exhaustively; more threads only in stress. A deadlock needs the watchdog "
    "(2 s) to expire with listen/close calls outstanding; slow machines cannot cause it because gates are opened first.",
    "DESIGN.md section 4 C13, 9a, 9d")

CHECKS["C19"] = ("per shared component: hook-linearized concurrent traces validated by TLC against the component's sequential TLA+ "
    "specification (linearizability) + the same spec-driven drivers run under the Go race detector (monitor)",
    "Each shared component has a sequential TLA+ specification (ReplayCache, Listeners, CipherList, UdpNat, TunnelTime). Concurrent "
    "drivers (2-64 goroutines) record every operation at its linearization point and TLC must explain all recorded results by the "
    "sequential specification. Whether the compiled code performs unsynchronised conflicting accesses is a memory-model fact that no "
    "trace of API events shows; for that half the same drivers are built with -race and every report with a frame in the repository "
    "is a violation. That half is a runtime monitor riding on the conformance harness, not a model-checking result.",
    "The race detector only sees interleavings that occur in the run. Components whose parts are not built yet are listed under "
    "coverage.skipped in the evidence.",
    "DESIGN.md section 4 C19")

CHECKS["C09"] = ("TLC-generated configuration universe (ReloadCfgGen.tla) loaded into a real OutlineServer; every (listener, key) pair probed with "
    "real TCP handshakes and UDP datagrams; measured relation compared by TLC (ReloadTrace.tla) with Reload!Serving(cfg)",
    "Reload.tla defines what a configuration serves: per service the de-duplicated key list (first id wins for equal cipher+secret) on "
    "exactly its listeners, per legacy port its keys on tcp+udp. TLC builds configurations from a bounded universe (sampled in quick, "
    "exhaustively enumerated for a smaller universe in thorough); each is loaded by the real loadConfig inside package main and all "
    "listener x key-class pairs of the universe are probed over both protocols; attribution is read from the metrics interface.",
    "Bounded universe (3 service addresses x tcp/udp, 2 legacy ports, 5 usable keys incl. one duplicate cipher+secret under a second id). "
    "Attribution among duplicate keys of one LEGACY port is not specified by the property and not generated.",
    "DESIGN.md section 4 C09")
CHECKS["C10"] = ("TLC exhaustive check of Reload.tla (all load sequences x every fault point) + TLC-simulated load sequences executed on a real "
    "OutlineServer with injected faults; listener/key matrix and runConfig goroutines measured after every attempt and judged by "
    "ReloadTrace.tla",
    "loadConfig/runConfig/Stop are specified as a flat sequence of separately failing steps over a listener manager; TLC checks that at "
    "every quiescent point exactly the last good configuration serves and listens and exactly one runConfig goroutine exists, for all "
    "sequences of <=3-4 attempts over a 12-configuration catalogue with every fault point (unreadable, malformed, invalid, bad cipher "
    "in legacy / 1st / 2nd service, bind failure at any listener). The pinned variant (failed start leaves a zombie generation) is "
    "the negative control. The same scenarios run against the real code with foreign sockets injecting the bind failures.",
    "Fault points are those reachable through files and sockets; goroutine accounting matches on the function name runConfig.func1.",
    "DESIGN.md section 4 C10")

PENDING = {}

def main():
    props = [json.loads(l) for l in open(os.path.join(ROOT, "properties.jsonl"))]
    hooks_commits = []
    try:
        out = subprocess.run(["git", "-C", "/repo", "log", "--format=%H %s"], capture_output=True, text=True).stdout
        for ln in out.splitlines():
            h, s = ln.split(" ", 1)
            if s.startswith("verif hooks"):
                hooks_commits.append(h)
    except Exception:
        pass
    checks, na = [], []
    for p in props:
        pid = p["id"]
        if pid in CHECKS:
            tech, text, note, ref = CHECKS[pid]
            checks.append({
                "property_id": pid,
                "quick_cmd": "bin/vcheck %s --tier quick" % pid,
                "thorough_cmd": "bin/vcheck %s --tier thorough" % pid,
                "evidence_file": "evidence/%s.json" % pid,
                "replay_cmd_template": "bin/vcheck %s --replay {path}" % pid,
                "engine": "tlc+conformance",
                "level_claimed": {"category": "model_checking", "text": text, "design_ref": ref},
                "level_note": note,
                "technique": tech,
            })
        else:
            na.append({"property_id": pid, "reason": PENDING.get(pid, "check not built yet (work in progress; see DESIGN.md section 4 for the planned decision procedure)")})
    m = {
        "version": 1,
        "setup_cmd": "bin/setup",
        "hooks": {
            "guard": "verif",
            "enable": "go build/test -tags verif (hooks are nil function variables unless a harness installs them)",
            "baseline_off_cmd": BASELINE_OFF,
            "source_commits": hooks_commits,
            "add_only": True,
        },
        "engines": [
            {"name": "tlc+conformance", "path": "bin/vcheck",
             "serves_properties": sorted(CHECKS),
             "kind_free_text": "TLA+ specifications in spec/ checked with TLC; behaviours replayed into the Go code and traces of "
                               "the Go code validated against the specifications (harness/ Go module, lib/ python glue)"},
        ],
        "checks": checks,
        "notes": "Every check: exit 0 held / exit 1 with VIOLATION line / exit 2 inconclusive (infrastructure). Known findings are in known_findings.json.",
        "not_applicable": na,
    }
    with open(os.path.join(ROOT, "MANIFEST.json"), "w") as f:
        json.dump(m, f, indent=1)
    print("MANIFEST.json: %d checks, %d not claimed" % (len(checks), len(na)))

if __name__ == "__main__":
    main()
