"""Common machinery for the /verif checks (stdlib only).

  * Ctx            per-run context: property id, tier, seed, scratch dir, violation/known-finding bookkeeping
  * tlc()          run TLC (exhaustive or -simulate) on a module of /verif/spec in a scratch copy, parse statistics,
                   verdict, counter-example and behaviours printed as <<"BEH", json>>
  * validate_traces()  run a <M>Trace spec over an NDJSON file recorded from the real code
  * go_build()/go_run()/go_overlay_test()   build and run harness programs against /repo's working tree
  * write_evidence()

Exit codes used by bin/vcheck: 0 property held, 1 violation (VIOLATION line printed), 2 inconclusive/infra failure.
"""
import json, os, re, shutil, subprocess, sys, tempfile, time, hashlib, signal

ROOT = os.path.dirname(os.path.dirname(os.path.abspath(__file__)))
SPEC = os.path.join(ROOT, "spec")
HARNESS = os.environ.get("VERIF_HARNESS") or os.path.join(ROOT, "harness")
REPO = os.environ.get("VERIF_REPO", "/repo")
WORK = os.path.join(ROOT, "work")
NCPU = os.cpu_count() or 4

GOENV = {
    "GOMEMLIMIT": "4GiB",
    "GOFLAGS": "-mod=mod",
    "GOPROXY": "off",
    "GOSUMDB": "off",
    "GOTOOLCHAIN": "local",
}


class Inconclusive(Exception):
    """Infrastructure failure (timeout, OOM, dead driver, unparsable output): exit 2, never a violation."""


def log(*a):
    print("[verif]", *a, file=sys.stderr, flush=True)


class Ctx:
    def __init__(self, pid, tier, seed):
        self.pid = pid
        self.tier = tier
        self.seed = int(seed)
        self.t0 = time.time()
        self.scratch = tempfile.mkdtemp(prefix="vf-%s-" % pid)
        self.violations = 0
        self.known_matched = []
        self.notes = []
        self.cov = {
            "states": 0, "transitions": 0, "traces_validated_against_impl": 0,
            "evaluations": 0, "distinct_nontrivial": 0, "samples": [],
            "tlc_runs": [], "drift": 0, "skipped": [],
        }
        self._known = load_known()
        os.makedirs(os.path.join(WORK, "replays"), exist_ok=True)

    @property
    def quick(self):
        return self.tier == "quick"

    def sub(self, name):
        d = os.path.join(self.scratch, name)
        os.makedirs(d, exist_ok=True)
        return d

    def cleanup(self):
        if os.environ.get("VERIF_KEEP_SCRATCH"):      # debugging aid only
            print("[verif] scratch kept: " + self.scratch)
            return
        shutil.rmtree(self.scratch, ignore_errors=True)

    def add_tlc(self, res, label=None):
        """Accumulate exhaustive-run statistics into the evidence."""
        self.cov["states"] += res.distinct
        self.cov["transitions"] += res.generated
        self.cov["tlc_runs"].append({
            "module": res.module, "cfg": res.cfg, "mode": res.mode, "label": label or "",
            "generated": res.generated, "distinct": res.distinct, "depth": res.depth,
            "ok": res.ok, "wall_s": round(res.wall, 1)})

    def sample(self, obj, limit=6):
        if len(self.cov["samples"]) < limit:
            self.cov["samples"].append(obj)

    # ---- verdicts -------------------------------------------------------------------------
    def violation(self, signature, summary, replay_obj):
        """Report a violation observed on the REAL code.  signature: dict identifying the specific failing
        input/schedule/call-site class; matched against known_findings.json."""
        for k in self._known:
            if k.get("status") == "known" and k.get("property") == self.pid and sig_match(k.get("signature", {}), signature):
                line = "KNOWN-FINDING: property=%s %s" % (self.pid, k.get("summary", summary))
                if line not in self.known_matched:
                    self.known_matched.append(line)
                    print(line, flush=True)
                return False
        self.violations += 1
        h = hashlib.sha1(json.dumps([signature, summary], sort_keys=True, default=str).encode()).hexdigest()[:10]
        path = os.path.join(WORK, "replays", "%s-%s-%d-%s.json" % (self.pid, self.tier, self.seed, h))
        with open(path, "w") as f:
            json.dump({"property": self.pid, "tier": self.tier, "seed": self.seed, "signature": signature,
                       "summary": summary, "replay": replay_obj}, f, indent=1, default=str)
        print("VIOLATION property=%s replay=%s" % (self.pid, path), flush=True)
        print("  what: %s" % summary, flush=True)
        return True


def sig_match(known_sig, sig):
    """A known finding suppresses a violation only if every field of its signature equals the violation's."""
    if not known_sig:
        return False
    for k, v in known_sig.items():
        if sig.get(k) != v:
            return False
    return True


def load_known():
    p = os.path.join(ROOT, "known_findings.json")
    if not os.path.exists(p):
        return []
    with open(p) as f:
        return json.load(f).get("findings", [])


# ---------------------------------------------------------------------------------------------
# TLC
# ---------------------------------------------------------------------------------------------
class TlcResult:
    def __init__(self):
        self.module = self.cfg = self.mode = ""
        self.generated = self.distinct = self.depth = 0
        self.ok = False            # completed and no error found
        self.violated = None       # name of the violated invariant / "deadlock" / "temporal" / "postcondition"
        self.trace = []            # counter-example states (list of dict var->text)
        self.behaviours = []       # parsed JSON objects printed as <<"BEH", json>>
        self.prints = []           # other PrintT tuples (raw text)
        self.out = ""
        self.wall = 0.0
        self.rc = 0
        self.coverage0 = []        # actions / expressions with 0 hits when -coverage was requested


_BEH = re.compile(r'^<<"BEH", "(.*)">>$')


def _unescape(s):
    return s.replace('\\"', '"').replace("\\\\", "\\")


def tlc(ctx, module, cfg, *, workers="auto", timeout=900, simulate=None, depth=None, seed=None,
        extra_files=None, extra_args=None, deadlock=True, coverage=False, depth_first=False, heap=None,
        want_trace=True):
    """Run TLC on spec/<module>.tla with spec/<cfg> in a scratch copy.
    simulate: None (exhaustive BFS) or number of behaviours (-simulate num=N, forces workers=1 for reproducibility
    unless workers given as int)."""
    d = tempfile.mkdtemp(prefix="tlc-", dir=ctx.scratch)
    for f in os.listdir(SPEC):
        if f.endswith(".tla") or f.endswith(".cfg"):
            shutil.copy(os.path.join(SPEC, f), d)
    for name, content in (extra_files or {}).items():
        p = os.path.join(d, name)
        if isinstance(content, bytes):
            open(p, "wb").write(content)
        else:
            open(p, "w").write(content)
    args = ["tlc", "-metadir", os.path.join(d, "meta"), "-config", cfg, "-noGenerateSpecTE"]
    mode = "bfs"
    if simulate is not None:
        mode = "simulate"
        w = workers if isinstance(workers, int) else 1
        args += ["-workers", str(w), "-simulate", "num=%d" % simulate]
        args += ["-depth", str(depth or 100)]
        args += ["-seed", str(seed if seed is not None else ctx.seed)]
    else:
        args += ["-workers", str(workers)]
    if not deadlock:
        args += ["-deadlock"]
    if coverage:
        args += ["-coverage", "1"]
    args += list(extra_args or [])
    args += [module + ".tla"]
    env = dict(os.environ)
    jopts = ["-Xss64m"]
    # the JVM default is 25% of RAM per process; several checks may run at the same time
    jopts.append("-Xmx%s" % (heap or os.environ.get("VERIF_TLC_HEAP", "8g")))
    if depth_first:
        jopts.append("-Dtlc2.tool.queue.IStateQueue=StateDeque")
    env["JAVA_TOOL_OPTIONS"] = (env.get("JAVA_TOOL_OPTIONS", "") + " " + " ".join(jopts)).strip()
    t0 = time.time()
    for attempt in (1, 2):
        try:
            p = subprocess.run(["timeout", "-k", "10", str(timeout)] + args, cwd=d, env=env,
                               stdout=subprocess.PIPE, stderr=subprocess.STDOUT, text=True)
        except Exception as e:
            raise Inconclusive("tlc could not be started: %r" % e)
        # a JVM that was killed from outside (signal) leaves neither a verdict nor an error message: run it once more
        killed_early = p.returncode == 137 and (time.time() - t0) < 0.8 * timeout
        if attempt == 1 and (p.returncode not in (0, 124, 137) or killed_early) and "Error:" not in p.stdout \
                and "Model checking completed" not in p.stdout and "error" not in p.stdout.lower():
            log("tlc ended without a verdict (rc=%d); retrying once" % p.returncode)
            shutil.rmtree(os.path.join(d, "meta"), ignore_errors=True)
            continue
        break
    r = TlcResult()
    r.module, r.cfg, r.mode = module, cfg, mode
    r.wall = time.time() - t0
    r.rc = p.returncode
    r.out = p.stdout
    if p.returncode in (124, 137):
        raise Inconclusive("tlc timeout after %ss on %s/%s" % (timeout, module, cfg))
    _parse_tlc(r)
    shutil.rmtree(d, ignore_errors=True)
    if not r.ok and r.violated is None:
        tail = "\n".join(r.out.splitlines()[-40:])
        raise Inconclusive("tlc failed on %s/%s (rc=%d):\n%s" % (module, cfg, r.rc, tail))
    return r


def _parse_tlc(r):
    out = r.out
    lines = out.splitlines()
    for ln in lines:
        m = _BEH.match(ln.strip())
        if m:
            try:
                r.behaviours.append(json.loads(_unescape(m.group(1))))
            except Exception:
                r.prints.append(ln)
        elif ln.startswith("<<"):
            r.prints.append(ln)
    m = None
    for m in re.finditer(r"(\d+) states generated, (\d+) distinct states found", out):
        pass
    if m:
        r.generated, r.distinct = int(m.group(1)), int(m.group(2))
    m2 = re.search(r"The depth of the complete state graph search is (\d+)", out)
    if m2:
        r.depth = int(m2.group(1))
    if "Model checking completed. No error has been found." in out or \
       re.search(r"Finished computing|The number of states generated: \d+\nSimulation", out) and "Error:" not in out:
        r.ok = True
    if r.mode == "simulate" and "Error:" not in out and r.rc == 0:
        r.ok = True
        m3 = re.search(r"The number of states generated: (\d+)", out)
        if m3:
            r.generated = int(m3.group(1))
            r.distinct = r.distinct or 0
    mv = re.search(r"Error: Invariant (\S+) is violated", out)
    if mv:
        r.violated = mv.group(1)
    elif "Error: Deadlock reached" in out:
        r.violated = "deadlock"
    elif "Temporal properties were violated" in out or re.search(r"Error: Temporal property \S+ was violated", out):
        r.violated = "temporal"
    elif re.search(r"Error: Action property (\S+) is violated", out):
        r.violated = re.search(r"Error: Action property (\S+) is violated", out).group(1)
    elif "Error: The postcondition" in out or ("POSTCONDITION" in out.upper() and "violated" in out and "Error" in out):
        r.violated = "postcondition"
    elif re.search(r"Error: Evaluating assumption|Error: Assumption", out):
        r.violated = "assumption"
    if r.violated:
        r.ok = False
        r.trace = _parse_trace(lines)
    # coverage zero hits
    for ln in lines:
        if re.search(r": 0\s*$", ln) and ("<" in ln):
            r.coverage0.append(ln.strip())


_STATE_HDR = re.compile(r"^State (\d+): <(.*)>$")


def _parse_trace(lines):
    states = []
    cur = None
    key = None
    for ln in lines:
        m = _STATE_HDR.match(ln)
        if m:
            cur = {"_n": int(m.group(1)), "_action": m.group(2)}
            states.append(cur)
            key = None
            continue
        if cur is None:
            continue
        if ln.startswith("/\\ "):
            body = ln[3:]
            if " = " in body:
                key, val = body.split(" = ", 1)
                cur[key.strip()] = val.strip()
        elif ln.strip() == "":
            key = None
        elif key and (ln.startswith(" ") or ln.startswith("\t")):
            cur[key.strip()] += " " + ln.strip()
        elif re.match(r"^\d+ states generated", ln) or ln.startswith("Error:") or ln.startswith("Finished"):
            if ln.startswith("Finished") or re.match(r"^\d+ states generated", ln):
                cur = None
    return states


def result_tuple(r):
    """The <<"RESULT", ...>> tuple a trace spec prints at the end, as ONE line (TLC wraps long tuples over several lines)."""
    out = r.out
    ms = list(re.finditer(r'<<\s*"RESULT"', out))
    if not ms:
        return None
    i = ms[-1].start()
    depth = 0
    j = i
    while j < len(out) - 1:
        two = out[j:j + 2]
        if two == "<<":
            depth += 1
            j += 2
            continue
        if two == ">>":
            depth -= 1
            j += 2
            if depth == 0:
                break
            continue
        j += 1
    txt = re.sub(r"\s+", " ", out[i:j])
    txt = txt.replace("<< ", "<<").replace(" >>", ">>").replace("<<  ", "<<")
    return txt


def action_name(state):
    """'Next line 12, col 3 ... of module M' -> 'Next';  'Initial predicate' -> 'Init'"""
    a = state.get("_action", "")
    return a.split(" ")[0] if a else ""


def validate_traces(ctx, module, cfg, trace_file, *, timeout=600, trace_name="trace.ndjson", depth_first=True,
                    extra_files=None):
    """Code -> spec.  Returns (accepted: bool, TlcResult).  A rejection is reported by the POSTCONDITION or by an
    invariant of the trace cfg; the caller decides whether it is a property violation or drift."""
    with open(trace_file, "rb") as f:
        data = f.read()
    files = {trace_name: data}
    files.update(extra_files or {})
    r = tlc(ctx, module, cfg, workers=1, timeout=timeout, extra_files=files, deadlock=False,
            depth_first=depth_first, heap="4g")
    return r.ok, r


# ---------------------------------------------------------------------------------------------
# Go
# ---------------------------------------------------------------------------------------------
def goenv(toolchain=None, extra=None):
    env = dict(os.environ)
    env.update(GOENV)
    if extra:
        env.update(extra)
    return env


def gobin(toolchain=None):
    return "go1.26.8" if toolchain == "1.26" else "go"


def ensure_harness_sum():
    """go.sum of the harness module is a copy of the repo's (no network)."""
    for sub in ("", "v126"):
        d = os.path.join(HARNESS, sub)
        if os.path.exists(os.path.join(d, "go.mod")):
            src = os.path.join(REPO, "go.sum")
            dst = os.path.join(d, "go.sum")
            try:
                if not os.path.exists(dst) or open(src, "rb").read() != open(dst, "rb").read():
                    shutil.copy(src, dst)
            except OSError:
                pass


def go_build(ctx, pkg, out_name, *, tags="verif", race=False, toolchain=None, moddir=None, timeout=900):
    """Build harness program ./<pkg> (relative to the harness module) against /repo's working tree."""
    ensure_harness_sum()
    out = os.path.join(ctx.sub("bin"), out_name)
    cmd = [gobin(toolchain), "build", "-o", out]
    if tags:
        cmd += ["-tags", tags]
    if race:
        cmd += ["-race"]
    cmd += [pkg]
    p = subprocess.run(cmd, cwd=moddir or HARNESS, env=goenv(toolchain), stdout=subprocess.PIPE,
                       stderr=subprocess.STDOUT, text=True, timeout=timeout)
    if p.returncode != 0:
        raise Inconclusive("go build %s failed:\n%s" % (pkg, p.stdout[-4000:]))
    return out


def run(cmd, *, cwd=None, env=None, timeout=900, input=None):
    """Run a driver; returns (rc, stdout, stderr).  Timeout -> Inconclusive."""
    try:
        p = subprocess.run(cmd, cwd=cwd, env=env, stdout=subprocess.PIPE, stderr=subprocess.PIPE, text=True,
                           timeout=timeout, input=input)
    except subprocess.TimeoutExpired:
        raise Inconclusive("driver timeout after %ss: %s" % (timeout, " ".join(cmd[:4])))
    return p.returncode, p.stdout, p.stderr


def go_overlay_test(ctx, repo_pkg, overlay_files, run_re, *, tags="verif", race=False, toolchain=None,
                    env_extra=None, timeout=900, count=1, extra_args=None, verbose=True):
    """Run in-package test files (added, never replacing) inside a package of /repo with `go test -overlay`.
    overlay_files: {virtual file name inside the package dir: real path under /verif/harness/overlay/...}.
    Returns (rc, combined output)."""
    repl = {}
    pkgdir = os.path.join(REPO, repo_pkg)
    for vname, real in overlay_files.items():
        assert vname.startswith("zz_verif_") and vname.endswith("_test.go"), vname
        target = os.path.join(pkgdir, vname)
        if os.path.exists(target):
            raise Inconclusive("overlay target exists in repo: %s" % target)
        repl[target] = real
    ov = os.path.join(ctx.sub("ov"), "overlay-%s.json" % hashlib.sha1(repr(sorted(repl)).encode()).hexdigest()[:8])
    with open(ov, "w") as f:
        json.dump({"Replace": repl}, f)
    # never let `-mod=mod` rewrite the repository's go.mod (overlay files may import indirect dependencies):
    # work on a scratch copy of go.mod/go.sum
    mf = ctx.sub("modfile-%s" % hashlib.sha1(pkgdir.encode()).hexdigest()[:8])
    shutil.copy(os.path.join(REPO, "go.mod"), os.path.join(mf, "go.mod"))
    shutil.copy(os.path.join(REPO, "go.sum"), os.path.join(mf, "go.sum"))
    cmd = [gobin(toolchain), "test", "-modfile", os.path.join(mf, "go.mod"), "-vet=off", "-overlay", ov,
           "-count", str(count), "-run", run_re, "-timeout", "%ds" % timeout]
    if verbose:
        cmd.append("-v")
    if tags:
        cmd += ["-tags", tags]
    if race:
        cmd += ["-race"]
    cmd += list(extra_args or [])
    cmd += ["."]
    env = goenv(toolchain, env_extra)
    try:
        p = subprocess.run(cmd, cwd=pkgdir, env=env, stdout=subprocess.PIPE, stderr=subprocess.STDOUT, text=True,
                           timeout=timeout + 60)
    except subprocess.TimeoutExpired:
        raise Inconclusive("overlay test timeout: %s %s" % (repo_pkg, run_re))
    return p.returncode, p.stdout


def compile_failed(out):
    return "[build failed]" in out or "[setup failed]" in out or re.search(r"^# .*\n.*\.go:\d+:\d+:", out, re.M) is not None


def read_ndjson(path):
    out = []
    with open(path) as f:
        for ln in f:
            ln = ln.strip()
            if ln:
                out.append(json.loads(ln))
    return out


def write_ndjson(path, rows):
    with open(path, "w") as f:
        for r in rows:
            f.write(json.dumps(r, separators=(",", ":")) + "\n")


# ---------------------------------------------------------------------------------------------
# evidence
# ---------------------------------------------------------------------------------------------
def write_evidence(ctx, level, rule, assumptions, extra=None):
    cov = dict(ctx.cov)
    cov["rule"] = rule
    if not cov["samples"]:
        cov["samples"] = ["(none recorded)"]
    cov["known_findings_matched"] = ctx.known_matched
    cov["notes"] = ctx.notes
    if extra:
        cov.update(extra)
    ev = {
        "property_id": ctx.pid,
        "tier": ctx.tier,
        "seed": ctx.seed,
        "level": level,
        "coverage": cov,
        "assumptions": assumptions,
        "wall_s": round(time.time() - ctx.t0, 2),
        "violations": ctx.violations,
    }
    # a run against a mutated copy (bin/with-mutant) must never overwrite the evidence of /repo
    evdir = os.environ.get("VERIF_EVIDENCE_DIR") or os.path.join(ROOT, "evidence")
    os.makedirs(evdir, exist_ok=True)
    p = os.path.join(evdir, "%s.json" % ctx.pid)
    tmp = p + ".tmp"
    with open(tmp, "w") as f:
        json.dump(ev, f, indent=1, default=str)
    os.replace(tmp, p)
    return p
