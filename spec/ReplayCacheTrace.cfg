SPECIFICATION TraceSpec
CONSTANTS
  Hashes <- TraceHashes
  Caps <- TraceCaps
  MaxOps = 0
  MaxTok = 100000
INVARIANTS Report RememberedWereSeen
POSTCONDITION TraceAccepted
CHECK_DEADLOCK FALSE
