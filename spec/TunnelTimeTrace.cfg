\* the check rewrites NI/NK/NL/MaxConn/NS/ClockUnderLock to fit the recorded trace
SPECIFICATION TraceSpec
CONSTANTS
  NI = 3
  NK = 3
  NL = 3
  MaxConn = 8
  MaxClock = 1000000
  TickSet = {1}
  NS = 2
  MaxOps = 0
  ClockUnderLock = FALSE
  Interleave = TRUE
  WithTraffic = TRUE
  WithUnknownStop = TRUE
  Forms = {1}
  LocMaps <- AllLocMaps
  Scale = 1000
INVARIANTS Report
POSTCONDITION TraceAccepted
CHECK_DEADLOCK FALSE
