----------------------------- MODULE ReloadCfgGen -----------------------------
(***************************************************************************)
(* C09: the universe of configurations.  A configuration is built step by  *)
(* step (add a service, add a key, add a listener, add a legacy key), so    *)
(* that TLC can enumerate the universe exhaustively for small bounds (BFS)  *)
(* or sample it (-simulate).  Every finished configuration is printed as a  *)
(* one-load scenario; what it must serve is Reload!Serving (checked on the  *)
(* real server by ReloadTrace).                                             *)
(***************************************************************************)
EXTENDS MC_Reload, Json

CONSTANTS MaxSvcs, MaxKeys, MaxLs, MaxLegacy, GoodKeys, SvcListeners

VARIABLES cb, fin
gvars == <<cb, fin, vars>>

UsedLs == UNION {SeqToSet(cb.svcs[i].ls) : i \in 1..Len(cb.svcs)}
LastSvc == cb.svcs[Len(cb.svcs)]

GInit == Init /\ cb = [kind |-> "ok", legacy |-> <<>>, svcs |-> <<>>] /\ fin = FALSE

\* a new service may be opened once the previous one has at least one listener
AddSvc == /\ ~fin /\ Len(cb.svcs) < MaxSvcs
          /\ (IF Len(cb.svcs) = 0 THEN TRUE ELSE Len(LastSvc.ls) > 0)
          /\ cb' = [cb EXCEPT !.svcs = Append(cb.svcs, [ks |-> <<>>, ls |-> <<>>])] /\ UNCHANGED fin
AddKey(k) == /\ ~fin /\ Len(cb.svcs) > 0 /\ Len(LastSvc.ks) < MaxKeys
             /\ k \notin SeqToSet(LastSvc.ks)
             /\ cb' = [cb EXCEPT !.svcs[Len(cb.svcs)].ks = Append(LastSvc.ks, k)] /\ UNCHANGED fin
AddLn(x) == /\ ~fin /\ Len(cb.svcs) > 0 /\ Len(LastSvc.ls) < MaxLs
            /\ x \notin UsedLs
            /\ \A j \in 1..Len(LastSvc.ls) : LastSvc.ls[j][2] <= x[2]      \* canonical order: fewer duplicates
            /\ cb' = [cb EXCEPT !.svcs[Len(cb.svcs)].ls = Append(LastSvc.ls, x)] /\ UNCHANGED fin
\* legacy keys in ANY order (ports may interleave): one id per cipher+secret and port (attribution among duplicates is not specified for legacy ports)
AddLegacy(p, k) == /\ ~fin /\ Len(cb.legacy) < MaxLegacy /\ Len(cb.svcs) = 0
                   /\ \A i \in 1..Len(cb.legacy) : ~(cb.legacy[i][1] = p /\ KeyCS[cb.legacy[i][2]] = KeyCS[k])
                   /\ cb' = [cb EXCEPT !.legacy = Append(cb.legacy, <<p, k>>)] /\ UNCHANGED fin
GFinish == /\ ~fin /\ Len(cb.svcs) + Len(cb.legacy) > 0
           /\ \A i \in 1..Len(cb.svcs) : Len(cb.svcs[i].ls) > 0
           /\ fin' = TRUE /\ UNCHANGED cb

GNext == /\ (AddSvc \/ (\E k \in GoodKeys : AddKey(k)) \/ (\E x \in SvcListeners : AddLn(x))
             \/ (\E p \in {4, 5} : \E k \in GoodKeys : AddLegacy(p, k)) \/ GFinish)
         /\ UNCHANGED vars
GSpec == GInit /\ [][GNext]_gvars

Scenario == << [a |-> "Load", cfg |-> cb, frn |-> {}, ok |-> TRUE] >>
DumpInv == fin => PrintT(<<"BEH", ToJson(Scenario)>>)
GView == <<cb, fin>>
===============================================================================
