\* NEGATIVE: the decoded target lives in one cell of the shared handler; TLC must refute ConcNoPrivateContact
SPECIFICATION ConcSpec
CONSTANTS
  Modes = {"udp"}
  LogLevels = {"debug"}
  MaxPkts = 3
  ValidateKnown = TRUE
  TcpDests <- BehTcpDests
  UdpDests <- BehUdpDests
  UdpFirst <- BehUdpDests
  NPer = 2
  SharedScratch = TRUE
INVARIANTS ConcNoPrivateContact
VIEW ConcView
CHECK_DEADLOCK FALSE
