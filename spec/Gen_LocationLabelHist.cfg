SPECIFICATION GenSpec
CONSTANTS
  NI = 5
  NK = 2
  MaxConn = 10
  MaxOps = 36
  DbEnabled = TRUE
INVARIANTS DumpInv TypeOK
CHECK_DEADLOCK FALSE
