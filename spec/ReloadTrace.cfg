SPECIFICATION TSpec
CONSTANTS
  ConfigSet <- Cat
  KeyCS <- MCKeyCS
  KeyID <- MCKeyID
  Listeners <- MCListeners
  MaxLoads = 0
  ZombieOnFail = FALSE
INVARIANTS Report
POSTCONDITION TraceAccepted
CHECK_DEADLOCK FALSE
