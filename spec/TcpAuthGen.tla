------------------------------ MODULE TcpAuthGen ------------------------------
(* Behaviour generation (spec -> code) for harness/cmd/tcpauth `auth`: connections one after the other (MaxInFlight =
   1), each a Hello with a key and a salt choice; the driver builds the real opening bytes (for a server-made salt:
   the recorded server output itself when the key allows, else its own stream under that salt) and records what the
   real authenticator / handler did. *)
EXTENDS TcpAuthMC, Json
VARIABLE done
GenInit == Init /\ done = FALSE
Quiet   == \A c \in Conns : conn[c].ph \in {"idle", "served", "noresp", "closed"}
Finish  == Quiet /\ (\A c \in Conns : conn[c].ph # "idle") /\ ~done /\ done' = TRUE /\ UNCHANGED vars
\* connections are used in order (they are interchangeable)
InOrder == \A c \in Conns : conn'[c].ph # "idle" /\ conn[c].ph = "idle" => \A d \in Conns : d < c => conn[d].ph # "idle"
GenNext == (~done /\ Next /\ InOrder /\ UNCHANGED done) \/ Finish
GenSpec == GenInit /\ [][GenNext]_<<vars, done>>
DumpInv == done => PrintT(<<"BEH", ToJson(tr)>>)
===============================================================================
