SPECIFICATION GenSpec
CONSTANTS
  Conns = {1}
  HsKinds = {"valid"}
  TgtKinds = {"ok"}
  MaxC = 3
  MaxT = 2
  MaxTok = 7
  AllowBad = FALSE
  AllowSplit = FALSE
  AllowRst = TRUE
  AllowTClose = FALSE
  AllowCRst = TRUE
  AllowPause = TRUE
  Planned = TRUE
  Timeout = 2
  MaxNow = 0
  DrainMode = "raw"
  Strict = TRUE
  WithServe = FALSE
  Hist = TRUE
  SlackEarly = 0
  SlackLate = 0
  SlackSched = 0
INVARIANTS DumpInv
ACTION_CONSTRAINT WriteFails
CHECK_DEADLOCK FALSE
