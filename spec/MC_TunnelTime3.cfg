\* exhaustive, quick tier, clock read under the lock, three tunnels (two overlapping tunnels of one client + a third), one scraper
SPECIFICATION Spec
CONSTANTS
  NI = 2
  NK = 2
  NL = 2
  MaxConn = 3
  MaxClock = 2
  TickSet = {1, 2}
  NS = 1
  MaxOps = 0
  ClockUnderLock = TRUE
  Interleave = TRUE
  WithTraffic = FALSE
  WithUnknownStop = FALSE
  Forms = {1}
  LocMaps <- CanonLocMaps
INVARIANTS TypeOK NonNegativeIncrement InWindowKey InWindowLoc ExactAtLock LocSumEqKeySum Conservation RefCountMatches StartNotInFuture
PROPERTIES Monotone
VIEW View
CHECK_DEADLOCK FALSE
