----------------------------- MODULE MC_Listeners -----------------------------
EXTENDS Listeners
\* keys: 1 = stream a1, 2 = packet a1, 3 = stream a2, 4 = stream on an address a foreign socket holds,
\*       5 = packet on an address a foreign socket holds
MCKindOf == <<"s", "p", "s", "s", "p">>
L(k, h) == [a |-> "listen", k |-> k, h |-> h]
C(h)    == [a |-> "close",  k |-> 0, h |-> h]
A(h)    == [a |-> "accept", k |-> 0, h |-> h]
F(k)    == [a |-> "free",   k |-> k, h |-> 0]

\* C13: two threads, one address: listen+close racing with listen+close
ScrDeadlock == { <<  <<L(1,1), C(1)>>, <<L(1,2), C(2)>>, <<>>  >> }
\* C12 stream: a connection accepted while nobody receives, then the last close
ScrStuck == { << <<L(1,1), C(1)>>, <<A(1), A(1)>>, <<>> >> }
\* C12 packet: reads on a closed handle while another handle stays open
ScrClosedRead == { << <<L(2,1), L(2,2), C(1), A(1)>>, <<A(2)>>, <<C(2)>> >>,
                   << <<L(1,1), L(1,2), C(1), A(1)>>, <<A(2)>>, <<C(2)>> >> }
\* mixed families: 3 threads
ScrMix3 == { << <<L(1,1), A(1), C(1)>>, <<L(1,2), C(2), L(1,3)>>, <<A(2), C(3)>> >>,
             << <<L(2,1), A(1), C(1)>>, <<L(2,2), C(2), L(2,3)>>, <<A(2), C(3)>> >>,
             << <<L(1,1), C(1), L(1,3)>>, <<L(3,2), C(2)>>, <<A(1), A(3), C(3)>> >>,
             << <<L(1,1), L(2,2), C(1)>>, <<A(1), A(2), C(2)>>, <<L(1,3), C(3)>> >> }
\* a close racing with its own pending accept/read while another handle of the address keeps waiting: whichever call
\* takes the connection/datagram must deliver it (it may not be dropped)
ScrRace == { << <<L(1,1), L(1,2), C(1)>>, <<A(1)>>, <<A(2)>> >>,
             << <<L(2,1), L(2,2), C(1)>>, <<A(1)>>, <<A(2)>> >>,
             << <<L(1,1), L(1,2), A(2)>>, <<A(1), A(1)>>, <<C(1), C(2)>> >> }
\* listens that must fail (foreign socket holds the address) among ordinary traffic: the failing call returns and
\* the manager stays usable
\* a listen fails because a foreign socket holds the address; the foreign socket goes away; the next listen on the
\* address succeeds and its close must release the socket (no reference left behind by the failed attempt)
ScrBindRetry == { << <<L(4,1), F(4), L(4,2), C(2)>>, <<>>, <<>> >>,
                  << <<L(5,1), F(5), L(5,2), A(2)>>, <<C(2)>>, <<>> >> }
ScrBindFail == { << <<L(4,1), L(1,2), C(2)>>, <<L(1,3), C(3)>>, <<>> >>,
                 << <<L(5,1), L(2,2), C(2)>>, <<L(4,3)>>, <<A(2)>> >> }
\* more scripts for the thorough tier
ScrMore == { << <<L(1,1), C(1), L(1,2)>>, <<L(1,3), A(3), C(3)>>, <<A(1), C(2)>> >>,
             << <<L(2,1), C(1), L(2,2)>>, <<L(2,3), A(3), C(3)>>, <<A(1), C(2)>> >>,
             << <<L(1,1), L(1,2), C(2)>>, <<A(1), A(2), C(1)>>, <<A(1)>> >>,
             << <<L(2,1), L(2,2), C(2)>>, <<A(1), A(2), C(1)>>, <<A(1)>> >>,
             << <<L(1,1), L(3,2)>>, <<C(1), C(2)>>, <<L(1,3), C(3)>> >> }
ScrAll == ScrDeadlock \cup ScrStuck \cup ScrClosedRead \cup ScrMix3 \cup ScrRace \cup ScrBindFail \cup ScrBindRetry
ScrThorough == ScrAll \cup ScrMore
\* liveness runs: no schedule history (cfg: Step <- StepNoHist), so the state graph is finite without a VIEW, which TLC's
\* liveness checker does not support
StepNoHist(p, l) == tr' = tr
\* C13, liveness form: under weak fairness of the API threads and the listener goroutines every call returns, except
\* calls that legitimately wait for traffic on an open handle; and that situation is stable
Settled == \A t \in Threads : (pc[t] = "idle" /\ ~HasOp(t)) \/ Parked(t)
EventuallySettled == <>[]Settled
\* a call that is not waiting for traffic never stays pending for ever
NoStarvation == \A t \in Threads : [](HasOp(t) => <>(~HasOp(t) \/ Parked(t) \/ pc[t] = "idle"))
\* once every handle is closed and every call has returned, the accept/read goroutines end (liveness form of C12's "nothing
\* keeps running")
GoroutinesEnd == [](AllHandlesClosed /\ AllDone => <>(\A g \in Socks : gor[g].pc \in {"none", "done"}))
ScrLive == ScrDeadlock \cup ScrStuck \cup ScrRace \cup ScrBindRetry
===============================================================================
