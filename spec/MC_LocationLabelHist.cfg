\* exhaustive for small constants: structure of the lookup model (reference counts, stamps)
SPECIFICATION Spec
CONSTANTS
  NI = 2
  NK = 1
  MaxConn = 2
  MaxOps = 1000
  DbEnabled = TRUE
INVARIANTS TypeOK EntryStampValid RefCount
VIEW View
CHECK_DEADLOCK FALSE
