\* exhaustive: four classes under one secret
SPECIFICATION Spec
CONSTANTS
  Keys <- KeysX
  Conns = {1, 2, 3}
  CacheModes = {"nil", "zero", "on"}
  MaxSalt = 6
  Faults = TRUE
  MaxInFlight = 2
INVARIANTS TypeOK RespSaltsFresh RespSaltsRecognised ReflectedNeverAuthenticated StatusClasses ProbeNoEffect
VIEW View
CHECK_DEADLOCK FALSE
