----------------------------- MODULE MetricsCount -----------------------------
(***************************************************************************)
(* prometheus/metrics.go: the per-connection reports of the Prometheus     *)
(* collectors (C15 / C16 at the level of the REAL collector, C19 for its   *)
(* concurrent use).                                                        *)
(*                                                                         *)
(* Mechanism layer (one action per call of the metrics API; each call is   *)
(* a handful of atomic counter additions):                                 *)
(*   Open(c)            AddOpenTCPConnection  -> tcp_connections_opened    *)
(*                      (:534-538, :109-118, :223)                         *)
(*   Auth(c,k)          AddAuthenticated: the connection object remembers  *)
(*                      the key (:120-126)                                 *)
(*   Probe(c,b)         AddProbe -> tcp_probes histogram (:142, :232)      *)
(*   Close(c,s,d)       AddClosed: data_bytes{proto=tcp} under the         *)
(*                      REMEMBERED key, tcp_connections_closed{status,key},*)
(*                      duration histogram (:128-140, :227-230)            *)
(*   NatAdd(c,k)        AddUDPNatEntry -> udp_nat_entries_added (:255,:349)*)
(*   PktC(c,s,n,cp,pt)  n x AddPacketFromClient -> packets_from_client     *)
(*                      {status}, data_bytes{proto=udp,c>p / p>t} (:357)   *)
(*   PktT(c,n,tp,pc)    n x AddPacketFromTarget -> data_bytes{p<t / c<p}   *)
(*   NatRemove(c)       RemoveNatEntry -> udp_nat_entries_removed (:353)   *)
(*   Scrape             Registry.Gather: what is exported                  *)
(* `rem[c]` is the key the connection OBJECT carries (cm.accessKey).       *)
(*                                                                         *)
(* Property layer: ghost facts per connection, from the history of calls   *)
(* alone (gkey = key it was authenticated with, gst/gdata = status and     *)
(* bytes of its close, gprobe, gpk..): what is exported must equal the     *)
(* sums of these facts - per (status, access key) closed counts, per key   *)
(* and direction byte sums for both protocols, probe count and byte sum,   *)
(* packet counts per status, added/removed associations, opened = closed   *)
(* once every connection is closed, per-location sums = per-key sums.      *)
(* Counter additions commute, so for concurrent use every serialisation    *)
(* of the calls has the same totals: a scrape at quiescence must show      *)
(* exactly the ideal sums whatever the interleaving (also with scrapes).   *)
(* Keys are 1..NK, 0 = no key (access_key=""); statuses are 1..NST / 1..NSU*)
(***************************************************************************)
EXTENDS Integers, Sequences, FiniteSets, TLC

CONSTANTS NK, NST, NSU,     \* access keys, TCP close statuses, UDP packet statuses
          NL,               \* location classes of the clients (each connection comes from a client of one class; the
                            \* per-location series of a connection carry ITS client's location, whoever else reports)
          EmptyKey,         \* the key whose configured ID is the empty string (0 = no such key): its series carry
                            \* access_key="" - the same label as connections without a key; otherwise just another key
          MaxConn, MaxOps,
          Amounts,          \* byte counts a report may carry (0 included: addIfNonZero)
          Counts            \* numbers of datagrams one PktC/PktT step stands for

Keys0 == 0..NK
Keys == 1..NK
Conns == 1..MaxConn
Lbl(k) == IF k = EmptyKey THEN 0 ELSE k     \* index of the access_key label a key is exported under
Locs == 1..NL
Dirs == 1..4                \* TCP/UDP: 1 c>p  2 p>t  3 p<t  4 c<p

VARIABLES conn,             \* c -> [kind, st]  kind: "none","tcp","udp"; st: "open","authed","closed","nat","removed"
          rem,              \* c -> key remembered by the connection object (cm.accessKey)
          cloc,             \* c -> location class of the connection's client (cm.clientInfo), 0 = none
          nconn,
          \* mechanism: the collectors' counters
          opened, closedCnt, tcpBytes, probeCnt, probeSum, natAdded, natRemoved, udpPkts, udpBytes,
          openedL, closedL, tcpBytesL, udpPktsL, udpBytesL,     \* the same per location (…_per_location series)
          \* ghost: facts per connection from the history of calls alone
          gkey, gst, gdata, gprobeN, gprobeB, gpkN, gpkB,
          shown,            \* observation: what the last scrape exported ("none" fields when no scrape is pending)
          nops, tr

mechK == <<opened, closedCnt, tcpBytes, probeCnt, probeSum, natAdded, natRemoved, udpPkts, udpBytes>>
mechL == <<openedL, closedL, tcpBytesL, udpPktsL, udpBytesL>>
mech  == <<mechK, mechL>>
ghost == <<gkey, gst, gdata, gprobeN, gprobeB, gpkN, gpkB>>
vars  == <<conn, rem, cloc, nconn, mech, ghost, shown, nops, tr>>

RECURSIVE SumF(_, _)
SumF(f, S) == IF S = {} THEN 0 ELSE LET x == CHOOSE y \in S : TRUE IN f[x] + SumF(f, S \ {x})

Zero4 == [d \in Dirs |-> 0]
NoShow == [valid |-> FALSE]

Init == /\ conn = [c \in Conns |-> [kind |-> "none", st |-> "none"]]
        /\ rem = [c \in Conns |-> 0] /\ cloc = [c \in Conns |-> 0] /\ nconn = 0
        /\ openedL = [x \in Locs |-> 0] /\ closedL = [x \in Locs |-> 0] /\ tcpBytesL = [x \in Locs |-> Zero4]
        /\ udpPktsL = [x \in Locs |-> [s \in 1..NSU |-> 0]] /\ udpBytesL = [x \in Locs |-> Zero4]
        /\ opened = 0 /\ closedCnt = [s \in 1..NST |-> [k \in Keys0 |-> 0]]
        /\ tcpBytes = [k \in Keys0 |-> Zero4] /\ probeCnt = 0 /\ probeSum = 0
        /\ natAdded = 0 /\ natRemoved = 0 /\ udpPkts = [s \in 1..NSU |-> 0]
        /\ udpBytes = [k \in Keys0 |-> Zero4]
        /\ gkey = [c \in Conns |-> 0] /\ gst = [c \in Conns |-> 0] /\ gdata = [c \in Conns |-> Zero4]
        /\ gprobeN = [c \in Conns |-> 0] /\ gprobeB = [c \in Conns |-> 0]
        /\ gpkN = [c \in Conns |-> [s \in 1..NSU |-> 0]] /\ gpkB = [c \in Conns |-> Zero4]
        /\ shown = NoShow
        /\ nops = 0 /\ tr = << [a |-> "Init"] >>

AddDirs(f, k, d) == [f EXCEPT ![k] = [x \in Dirs |-> @[x] + d[x]]]

(* ---- Core actions (reused by MetricsCountTrace) ---- *)
OpenCore(c, x) == /\ conn[c].kind = "none"
               /\ conn' = [conn EXCEPT ![c] = [kind |-> "tcp", st |-> "open"]]
               /\ rem' = [rem EXCEPT ![c] = 0]            \* a NEW connection object: no key yet
               /\ cloc' = [cloc EXCEPT ![c] = x]
               /\ nconn' = nconn + 1
               /\ opened' = opened + 1
               /\ openedL' = [openedL EXCEPT ![x] = @ + 1]
               /\ UNCHANGED <<closedCnt, tcpBytes, probeCnt, probeSum, natAdded, natRemoved, udpPkts, udpBytes, ghost,
                              closedL, tcpBytesL, udpPktsL, udpBytesL>>
AuthCore(c, k) == /\ conn[c].kind = "tcp" /\ conn[c].st = "open"
                  /\ conn' = [conn EXCEPT ![c].st = "authed"]
                  /\ rem' = [rem EXCEPT ![c] = k]
                  /\ gkey' = [gkey EXCEPT ![c] = k]
                  /\ UNCHANGED <<nconn, cloc, mech, gst, gdata, gprobeN, gprobeB, gpkN, gpkB>>
\* a probe report is made for connections that failed authentication
ProbeCore(c, b) == /\ conn[c].kind = "tcp" /\ conn[c].st = "open"
                   /\ probeCnt' = probeCnt + 1 /\ probeSum' = probeSum + b
                   /\ gprobeN' = [gprobeN EXCEPT ![c] = @ + 1] /\ gprobeB' = [gprobeB EXCEPT ![c] = @ + b]
                   /\ UNCHANGED <<conn, rem, cloc, nconn, opened, closedCnt, tcpBytes, natAdded, natRemoved, udpPkts, udpBytes,
                                  mechL, gkey, gst, gdata, gpkN, gpkB>>
CloseCore(c, s, d) == /\ conn[c].kind = "tcp" /\ conn[c].st \in {"open", "authed"}
                      /\ conn' = [conn EXCEPT ![c].st = "closed"]
                      /\ tcpBytes' = AddDirs(tcpBytes, Lbl(rem[c]), d)
                      /\ closedCnt' = [closedCnt EXCEPT ![s][Lbl(rem[c])] = @ + 1]
                      /\ closedL' = [closedL EXCEPT ![cloc[c]] = @ + 1]
                      /\ tcpBytesL' = AddDirs(tcpBytesL, cloc[c], d)
                      /\ gst' = [gst EXCEPT ![c] = s] /\ gdata' = [gdata EXCEPT ![c] = d]
                      /\ UNCHANGED <<rem, cloc, nconn, opened, probeCnt, probeSum, natAdded, natRemoved, udpPkts, udpBytes,
                                     openedL, udpPktsL, udpBytesL, gkey, gprobeN, gprobeB, gpkN, gpkB>>
NatAddCore(c, k, x) == /\ conn[c].kind = "none"
                    /\ conn' = [conn EXCEPT ![c] = [kind |-> "udp", st |-> "nat"]]
                    /\ rem' = [rem EXCEPT ![c] = k]
                    /\ cloc' = [cloc EXCEPT ![c] = x]
                    /\ nconn' = nconn + 1
                    /\ natAdded' = natAdded + 1
                    /\ gkey' = [gkey EXCEPT ![c] = k]
                    /\ UNCHANGED <<opened, closedCnt, tcpBytes, probeCnt, probeSum, natRemoved, udpPkts, udpBytes, mechL,
                                   gst, gdata, gprobeN, gprobeB, gpkN, gpkB>>
\* reports may still arrive for an association that was just removed (datagram in flight while it expired)
PktCCore(c, s, n, cp, pt) ==
    /\ conn[c].kind = "udp"
    /\ LET d == [x \in Dirs |-> IF x = 1 THEN n * cp ELSE IF x = 2 THEN n * pt ELSE 0] IN
       /\ udpBytes' = AddDirs(udpBytes, Lbl(rem[c]), d)
       /\ udpBytesL' = AddDirs(udpBytesL, cloc[c], d)
       /\ gpkB' = [gpkB EXCEPT ![c] = [x \in Dirs |-> @[x] + d[x]]]
    /\ udpPkts' = [udpPkts EXCEPT ![s] = @ + n]
    /\ udpPktsL' = [udpPktsL EXCEPT ![cloc[c]][s] = @ + n]
    /\ gpkN' = [gpkN EXCEPT ![c][s] = @ + n]
    /\ UNCHANGED <<conn, rem, cloc, nconn, opened, closedCnt, tcpBytes, probeCnt, probeSum, natAdded, natRemoved,
                   openedL, closedL, tcpBytesL, gkey, gst, gdata, gprobeN, gprobeB>>
PktTCore(c, n, tp, pc) ==
    /\ conn[c].kind = "udp"
    /\ LET d == [x \in Dirs |-> IF x = 3 THEN n * tp ELSE IF x = 4 THEN n * pc ELSE 0] IN
       /\ udpBytes' = AddDirs(udpBytes, Lbl(rem[c]), d)
       /\ udpBytesL' = AddDirs(udpBytesL, cloc[c], d)
       /\ gpkB' = [gpkB EXCEPT ![c] = [x \in Dirs |-> @[x] + d[x]]]
    /\ UNCHANGED <<conn, rem, cloc, nconn, opened, closedCnt, tcpBytes, probeCnt, probeSum, natAdded, natRemoved, udpPkts,
                   openedL, closedL, tcpBytesL, udpPktsL, gkey, gst, gdata, gprobeN, gprobeB, gpkN>>
NatRemoveCore(c) == /\ conn[c].kind = "udp" /\ conn[c].st = "nat"
                    /\ conn' = [conn EXCEPT ![c].st = "removed"]
                    /\ natRemoved' = natRemoved + 1
                    /\ UNCHANGED <<rem, cloc, nconn, opened, closedCnt, tcpBytes, probeCnt, probeSum, natAdded, udpPkts, udpBytes,
                                   mechL, ghost>>

(* ---- property layer: what must be exported, from the ghost facts alone ---- *)
TcpConns == {c \in Conns : conn[c].kind = "tcp"}
UdpConns == {c \in Conns : conn[c].kind = "udp"}
IdealOpened == Cardinality(TcpConns)
IdealClosed == [s \in 1..NST |-> [k \in Keys0 |-> Cardinality({c \in TcpConns : gst[c] = s /\ Lbl(gkey[c]) = k})]]
IdealTcpBytes == [k \in Keys0 |-> [d \in Dirs |-> SumF([c \in Conns |-> IF c \in TcpConns /\ gst[c] # 0 /\ Lbl(gkey[c]) = k THEN gdata[c][d] ELSE 0], Conns)]]
IdealProbeN == SumF(gprobeN, Conns)
IdealProbeB == SumF(gprobeB, Conns)
IdealNatAdded == Cardinality(UdpConns)
IdealNatRemoved == Cardinality({c \in UdpConns : conn[c].st = "removed"})
IdealUdpPkts == [s \in 1..NSU |-> SumF([c \in Conns |-> gpkN[c][s]], Conns)]
IdealUdpBytes == [k \in Keys0 |-> [d \in Dirs |-> SumF([c \in Conns |-> IF c \in UdpConns /\ Lbl(gkey[c]) = k THEN gpkB[c][d] ELSE 0], Conns)]]
IdealOpenedL == [x \in Locs |-> Cardinality({c \in TcpConns : cloc[c] = x})]
IdealClosedL == [x \in Locs |-> Cardinality({c \in TcpConns : gst[c] # 0 /\ cloc[c] = x})]
IdealTcpBytesL == [x \in Locs |-> [d \in Dirs |-> SumF([c \in Conns |-> IF c \in TcpConns /\ gst[c] # 0 /\ cloc[c] = x THEN gdata[c][d] ELSE 0], Conns)]]
IdealUdpPktsL == [x \in Locs |-> [s \in 1..NSU |-> SumF([c \in Conns |-> IF cloc[c] = x THEN gpkN[c][s] ELSE 0], Conns)]]
IdealUdpBytesL == [x \in Locs |-> [d \in Dirs |-> SumF([c \in Conns |-> IF c \in UdpConns /\ cloc[c] = x THEN gpkB[c][d] ELSE 0], Conns)]]
AllTcpClosed == \A c \in TcpConns : conn[c].st = "closed"

Exported == [valid |-> TRUE, opened |-> opened, closed |-> closedCnt, tbytes |-> tcpBytes, probeN |-> probeCnt,
             probeB |-> probeSum, natadd |-> natAdded, natrem |-> natRemoved, upkts |-> udpPkts, ubytes |-> udpBytes,
             openedL |-> openedL, closedL |-> closedL, tbytesL |-> tcpBytesL, upktsL |-> udpPktsL, ubytesL |-> udpBytesL]

(* ---- bounded / history-recording actions ---- *)
Step(e) == nops < MaxOps /\ nops' = nops + 1 /\ tr' = Append(tr, e)
Quiet   == shown' = NoShow
Open(c, x)     == c = nconn + 1 /\ OpenCore(c, x) /\ Quiet /\ Step([a |-> "Open", c |-> c, loc |-> x])
Auth(c, k)     == AuthCore(c, k) /\ Quiet /\ Step([a |-> "Auth", c |-> c, key |-> k])
Probe(c, b)    == ProbeCore(c, b) /\ Quiet /\ Step([a |-> "Probe", c |-> c, b |-> b])
Close(c, s, d) == CloseCore(c, s, d) /\ Quiet /\ Step([a |-> "Close", c |-> c, st |-> s, d |-> d])
NatAdd(c, k, x) == c = nconn + 1 /\ NatAddCore(c, k, x) /\ Quiet /\ Step([a |-> "NatAdd", c |-> c, key |-> k, loc |-> x])
PktC(c, s, n, cp, pt) == PktCCore(c, s, n, cp, pt) /\ Quiet
                         /\ Step([a |-> "PktC", c |-> c, st |-> s, n |-> n, cp |-> cp, pt |-> pt])
PktT(c, n, tp, pc) == PktTCore(c, n, tp, pc) /\ Quiet /\ Step([a |-> "PktT", c |-> c, n |-> n, tp |-> tp, pc |-> pc])
NatRemove(c)   == NatRemoveCore(c) /\ Quiet /\ Step([a |-> "NatRemove", c |-> c])
Scrape == /\ shown' = Exported
          /\ UNCHANGED <<conn, rem, cloc, nconn, mech, ghost>>
          /\ Step([a |-> "Scrape"])

Next == \/ \E c \in Conns, x \in Locs : Open(c, x)
        \/ \E c \in Conns, k \in Keys : Auth(c, k)
        \/ \E c \in Conns, b \in Amounts : Probe(c, b)
        \/ \E c \in Conns, s \in 1..NST, d \in [Dirs -> Amounts] : Close(c, s, d)
        \/ \E c \in Conns, k \in Keys, x \in Locs : NatAdd(c, k, x)
        \/ \E c \in Conns, s \in 1..NSU, n \in Counts, cp \in Amounts, pt \in Amounts : PktC(c, s, n, cp, pt)
        \/ \E c \in Conns, n \in Counts, tp \in Amounts, pc \in Amounts : PktT(c, n, tp, pc)
        \/ \E c \in Conns : NatRemove(c)
        \/ Scrape
Spec == Init /\ [][Next]_vars

(* ---- properties ---- *)
TypeOK == /\ nconn \in 0..MaxConn /\ opened \in Nat /\ probeCnt \in Nat
          /\ \A c \in Conns : conn[c].kind \in {"none", "tcp", "udp"} /\ rem[c] \in Keys0
\* C15 at the collector: every connection opened once, closed once under ITS key and status; bytes under ITS key
ShownTcp == shown.valid => /\ shown.opened = IdealOpened
                           /\ shown.closed = IdealClosed
                           /\ shown.tbytes = IdealTcpBytes
                           /\ shown.probeN = IdealProbeN /\ shown.probeB = IdealProbeB
OpenedEqClosed == (shown.valid /\ AllTcpClosed) =>
                     shown.opened = SumF([s \in 1..NST |-> SumF(shown.closed[s], Keys0)], 1..NST)
\* C16 at the collector: associations added/removed once, packets per status, bytes per key and direction
\* the per-location series carry the location of the connection's OWN client (C20: one label per client, by its class)
ShownLoc == shown.valid => /\ shown.openedL = IdealOpenedL /\ shown.closedL = IdealClosedL
                           /\ shown.tbytesL = IdealTcpBytesL
                           /\ shown.upktsL = IdealUdpPktsL /\ shown.ubytesL = IdealUdpBytesL
ShownUdp == shown.valid => /\ shown.natadd = IdealNatAdded /\ shown.natrem = IdealNatRemoved
                           /\ shown.upkts = IdealUdpPkts
                           /\ shown.ubytes = IdealUdpBytes
\* the connection object never carries a key the connection was not authenticated with
RememberedIsOwn == \A c \in Conns : rem[c] = gkey[c]
View == <<conn, rem, cloc, nconn, mech, ghost, shown>>
ViewN == <<View, nops>>
===============================================================================
