SPECIFICATION TraceSpec
CONSTANTS
  Keys <- TraceKeys
  Conns <- TraceConns
  CacheModes <- TraceModes
  MaxSalt = 0
  Faults = TRUE
  MaxInFlight = 0
  MaxConn = 16
INVARIANTS Report
POSTCONDITION TraceAccepted
CHECK_DEADLOCK FALSE
