\* C02 exhaustive: 1 connection, <=6 chunks each way, every order of speaking / half-closing / copy-loop interleaving
SPECIFICATION Spec
CONSTANTS
  Conns = {1}
  HsKinds = {"valid"}
  TgtKinds = {"ok"}
  MaxC = 6
  MaxT = 6
  MaxTok = 11
  AllowBad = FALSE
  AllowSplit = TRUE
  AllowRst = FALSE
  AllowTClose = FALSE
  AllowCRst = FALSE
  AllowPause = FALSE
  Planned = FALSE
  Timeout = 2
  MaxNow = 0
  DrainMode = "inner"
  Strict = FALSE
  WithServe = FALSE
  Hist = FALSE
  SlackEarly = 0
  SlackLate = 0
  SlackSched = 0
INVARIANTS TypeOK Inv_C02 C02_Independent C02_Buf50First
INVARIANTS Inv_C15 C15_CountersTrackDelivery
INVARIANTS C18_NoLeak C18_AllReturned C18_ServeWaits C18_SocketsFollowHandler
VIEW View
