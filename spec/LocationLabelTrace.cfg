SPECIFICATION TraceSpec
CONSTANTS
  PrivateIsGlobal = TRUE
  ZonedXA = TRUE
INVARIANTS Report
POSTCONDITION TraceAccepted
CHECK_DEADLOCK FALSE
