------------------------- MODULE LocationLabelRaceGen -------------------------
(* Spec -> code: simulated schedules of LocationLabelRace (scrapes started while the first registration of a client is
   in progress), one JSON behaviour per Finish step; executed by harness/overlay/prometheus/zz_verif_labelrace_test.go on
   the real NewServiceMetrics collectors with a location database whose lookup blocks, judged by LocationLabelTrace
   (ScrapeSet events). *)
EXTENDS LocationLabelRace, Json
VARIABLE done
GenInit == Init /\ done = FALSE
Finish  == ~done /\ nops >= MaxOps /\ Quiet /\ done' = TRUE /\ UNCHANGED vars
GenNext == (~done /\ Next /\ UNCHANGED done) \/ Finish
GenSpec == GenInit /\ [][GenNext]_<<vars, done>>
DumpInv == done => PrintT(<<"BEH", ToJson(tr)>>)
===============================================================================
